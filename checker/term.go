package main

import (
	"fmt"
	"go/constant"
	"go/token"
	"go/types"
	"sort"
	"strconv"
	"strings"

	"golang.org/x/tools/go/ssa"
)

// Term is the normal form of an SSA value: temporaries, statement order,
// value-preserving conversions, single-return getters and (inside a path)
// φ-nodes are looked through. Two values are "the same" iff their Key()s agree.
type Term struct {
	Op   string // const nil param free global field index load local call invoke builtin bin un phi extract conv make closure fn slice lookup assert opaque range next
	Sym  string // constant value / name / callee / operator / type
	Args []*Term
	V    ssa.Value
	key  string
}

func (t *Term) Key() string {
	if t == nil {
		return "<nil>"
	}
	if t.key != "" {
		return t.key
	}
	var sb strings.Builder
	sb.WriteString(t.Op)
	if t.Sym != "" {
		sb.WriteString(":")
		sb.WriteString(t.Sym)
	}
	if len(t.Args) > 0 && t.Op != "phi" { // φ terms are identified by their name: their operands may be cyclic
		sb.WriteString("(")
		for i, a := range t.Args {
			if i > 0 {
				sb.WriteString(",")
			}
			sb.WriteString(a.Key())
		}
		sb.WriteString(")")
	}
	t.key = sb.String()
	return t.key
}

func (t *Term) String() string { return t.Key() }

func mk(op, sym string, v ssa.Value, args ...*Term) *Term {
	return &Term{Op: op, Sym: sym, Args: args, V: v}
}

// TermCtx controls term construction.
type TermCtx struct {
	prog *Program
	// pred maps a block on the current path to its predecessor on that path (φ resolution).
	pred map[*ssa.BasicBlock]*ssa.BasicBlock
	// inline single-return side-effect-free module functions
	inline bool
	// substitution of parameters (used when inlining)
	subst map[*ssa.Parameter]*Term
	depth int
	memo  map[ssa.Value]*Term
	busy  map[ssa.Value]bool
	// localVal resolves a load from a local Alloc to the term last stored on the path (set by the path executor)
	localVal func(a *ssa.Alloc) *Term
	// loadVer returns how many times the address (by key) has been stored to so far on the current path
	loadVer func(addrKey string) int
	// elemVal resolves a load of element k of a local array literal (`[]T{a, b}` compiles to a fresh [N]T cell
	// whose elements are stored once) to the term stored on the path (set by the path executor)
	elemVal func(a *ssa.Alloc, k string) *Term
}

func newTermCtx(p *Program) *TermCtx {
	return &TermCtx{prog: p, inline: true, memo: map[ssa.Value]*Term{}, busy: map[ssa.Value]bool{}}
}

func (c *TermCtx) withPath(pred map[*ssa.BasicBlock]*ssa.BasicBlock) *TermCtx {
	n := newTermCtx(c.prog)
	n.inline = c.inline
	n.pred = pred
	return n
}

func constKey(c *ssa.Const) (string, string) {
	if c.Value == nil {
		if _, ok := c.Type().Underlying().(*types.Basic); ok {
			return "const", "0" // zero value of basic type (should not occur)
		}
		if isZeroStructConst(c) {
			return "const", "zero:" + types.TypeString(c.Type(), shortQual)
		}
		return "nil", ""
	}
	switch c.Value.Kind() {
	case constant.Bool:
		return "const", c.Value.String()
	case constant.String:
		return "const", c.Value.ExactString()
	case constant.Int:
		return "const", c.Value.ExactString()
	case constant.Float:
		f, _ := constant.Float64Val(c.Value)
		if f == float64(int64(f)) && f < 1e15 && f > -1e15 {
			return "const", fmt.Sprintf("%d", int64(f))
		}
		return "const", fmt.Sprintf("%g", f)
	}
	return "const", c.Value.ExactString()
}

func isZeroStructConst(c *ssa.Const) bool {
	switch c.Type().Underlying().(type) {
	case *types.Struct, *types.Array:
		return true
	}
	return false
}

func shortQual(p *types.Package) string { return p.Name() }

func isFloat(t types.Type) bool {
	b, ok := t.Underlying().(*types.Basic)
	return ok && b.Info()&types.IsFloat != 0
}
func isInteger(t types.Type) bool {
	b, ok := t.Underlying().(*types.Basic)
	return ok && b.Info()&types.IsInteger != 0
}
func isUnsigned(t types.Type) bool {
	b, ok := t.Underlying().(*types.Basic)
	return ok && b.Info()&types.IsUnsigned != 0
}
func intSizeOf(t types.Type) int {
	b, ok := t.Underlying().(*types.Basic)
	if !ok {
		return 0
	}
	switch b.Kind() {
	case types.Int8, types.Uint8:
		return 8
	case types.Int16, types.Uint16:
		return 16
	case types.Int32, types.Uint32:
		return 32
	case types.Int64, types.Uint64:
		return 64
	case types.Int, types.Uint, types.Uintptr:
		return 63 // word: between 32 and 64; treated as its own class
	}
	return 0
}

// Of builds the term of an SSA value.
func (c *TermCtx) Of(v ssa.Value) *Term {
	if v == nil {
		return mk("none", "", nil)
	}
	if t, ok := c.memo[v]; ok {
		return t
	}
	if c.busy[v] {
		return mk("cycle", v.Name(), v)
	}
	c.busy[v] = true
	t := c.build(v)
	delete(c.busy, v)
	c.memo[v] = t
	return t
}

func fieldName(structPtrOrVal types.Type, idx int) string {
	t := structPtrOrVal
	if p, ok := t.Underlying().(*types.Pointer); ok {
		t = p.Elem()
	}
	st, ok := t.Underlying().(*types.Struct)
	if !ok || idx >= st.NumFields() {
		return fmt.Sprintf("#%d", idx)
	}
	return st.Field(idx).Name()
}

func (c *TermCtx) build(v ssa.Value) *Term {
	switch v := v.(type) {
	case *ssa.Const:
		op, sym := constKey(v)
		return mk(op, sym, v)
	case *ssa.Parameter:
		if c.subst != nil {
			if t, ok := c.subst[v]; ok {
				return t
			}
		}
		idx := -1
		for i, p := range v.Parent().Params {
			if p == v {
				idx = i
			}
		}
		return mk("param", fmt.Sprintf("%d", idx), v)
	case *ssa.FreeVar:
		return mk("free", v.Name(), v)
	case *ssa.Global:
		return mk("global", globalName(v), v)
	case *ssa.Function:
		return mk("fn", funcName(v), v)
	case *ssa.Builtin:
		return mk("builtinfn", v.Name(), v)
	case *ssa.Alloc:
		if v.Heap {
			// new(T) / &T{} / escaping local
			return mk("alloc", v.Name()+"@"+funcName(v.Parent()), v)
		}
		return mk("alloc", v.Name()+"@"+funcName(v.Parent()), v)
	case *ssa.FieldAddr:
		if a, ok := v.X.(*ssa.Alloc); ok {
			if sv := singleAssigned(a); sv != nil {
				// a struct value spilled to a local cell (value receiver / parameter): the field of that value
				return mk("field", fieldName(v.X.Type(), v.Field), v, c.Of(sv))
			}
		}
		return mk("field", fieldName(v.X.Type(), v.Field), v, c.Of(v.X))
	case *ssa.Field:
		return mk("field", fieldName(v.X.Type(), v.Field), v, c.Of(v.X))
	case *ssa.IndexAddr:
		return mk("index", "", v, c.Of(v.X), c.Of(v.Index))
	case *ssa.Index:
		return mk("index", "", v, c.Of(v.X), c.Of(v.Index))
	case *ssa.Lookup:
		return mk("lookup", "", v, c.Of(v.X), c.Of(v.Index))
	case *ssa.UnOp:
		switch v.Op {
		case token.MUL: // load
			if a, ok := v.X.(*ssa.Alloc); ok {
				if c.localVal != nil {
					if t := c.localVal(a); t != nil {
						return t
					}
				}
				if sv := singleAssigned(a); sv != nil {
					return c.Of(sv)
				}
				// a cell written earlier in the same block (a result spilled around deferred calls: `*r = e; rundefers;
				// t = *r; return t`): the value stored last before this load — the cell is local and only stored to and
				// loaded from, so nothing in between can change it
				if sv := sameBlockStore(a, v); sv != nil {
					return c.Of(sv)
				}
			}
			if fv, ok := v.X.(*ssa.FreeVar); ok {
				if t := outerParamOf(fv); t != nil {
					return t
				}
			}
			if ia, ok := v.X.(*ssa.IndexAddr); ok && c.elemVal != nil {
				if a := literalArrayOf(ia.X); a != nil {
					if k := c.Of(ia.Index); k.Op == "const" {
						if t := c.elemVal(a, k.Sym); t != nil {
							return t
						}
					}
				}
			}
			x := c.Of(v.X)
			// loads are transparent for field/index/global/free addresses
			switch x.Op {
			case "field", "index", "global", "free":
				if c.loadVer != nil {
					if n := c.loadVer(x.Key()); n > 0 {
						// the location was overwritten earlier on this path: a distinct value
						return mk("ver", fmt.Sprintf("%d", n), v, x)
					}
				}
				return x
			}
			return mk("load", "", v, x)
		case token.SUB:
			x := c.Of(v.X)
			if x.Op == "const" {
				if strings.HasPrefix(x.Sym, "-") {
					return mk("const", x.Sym[1:], v)
				}
				if x.Sym == "0" {
					return x
				}
				return mk("const", "-"+x.Sym, v)
			}
			if x.Op == "un" && x.Sym == "-" {
				return x.Args[0]
			}
			return mk("un", "-", v, x)
		case token.NOT:
			x := c.Of(v.X)
			if x.Op == "un" && x.Sym == "!" {
				return x.Args[0]
			}
			return mk("un", "!", v, x)
		case token.XOR:
			return mk("un", "^", v, c.Of(v.X))
		case token.ARROW:
			return mk("recv", "", v, c.Of(v.X))
		}
		return mk("un", v.Op.String(), v, c.Of(v.X))
	case *ssa.BinOp:
		return c.binop(v)
	case *ssa.Convert:
		from, to := v.X.Type(), v.Type()
		x := c.Of(v.X)
		switch {
		case isFloat(from) && isFloat(to):
			return x
		case isInteger(from) && isInteger(to):
			fs, ts := intSizeOf(from), intSizeOf(to)
			if ts >= fs && isUnsigned(from) == isUnsigned(to) {
				return x // widening, same signedness
			}
			return mk("conv", types.TypeString(to, shortQual), v, x)
		}
		return mk("conv", types.TypeString(to, shortQual), v, x)
	case *ssa.ChangeType:
		return c.Of(v.X)
	case *ssa.ChangeInterface:
		return c.Of(v.X)
	case *ssa.MakeInterface:
		return c.Of(v.X)
	case *ssa.SliceToArrayPointer:
		return c.Of(v.X)
	case *ssa.TypeAssert:
		sym := types.TypeString(v.AssertedType, shortQual)
		if v.CommaOk {
			sym += ",ok"
		}
		return mk("assert", sym, v, c.Of(v.X))
	case *ssa.Extract:
		t := c.Of(v.Tuple)
		if t.Op == "tuple" && v.Index < len(t.Args) {
			return t.Args[v.Index]
		}
		return mk("extract", fmt.Sprintf("%d", v.Index), v, t)
	case *ssa.Phi:
		if c.pred != nil {
			if p, ok := c.pred[v.Block()]; ok {
				for i, pb := range v.Block().Preds {
					if pb == p {
						return c.Of(v.Edges[i])
					}
				}
			}
		}
		// not on a path: a φ is an opaque, named value; its operands are expanded on demand (PhiEdges)
		return mk("phi", v.Name()+"@"+funcName(v.Parent()), v)
	case *ssa.Call:
		return c.call(v)
	case *ssa.MakeSlice:
		return mk("make", "slice:"+types.TypeString(v.Type(), shortQual), v, c.Of(v.Len))
	case *ssa.MakeMap:
		return mk("make", "map:"+types.TypeString(v.Type(), shortQual), v)
	case *ssa.MakeChan:
		return mk("make", "chan", v)
	case *ssa.MakeClosure:
		var args []*Term
		for _, b := range v.Bindings {
			args = append(args, c.Of(b))
		}
		return mk("closure", funcName(v.Fn.(*ssa.Function)), v, args...)
	case *ssa.Slice:
		return mk("slice", "", v, c.Of(v.X), c.Of(v.Low), c.Of(v.High))
	case *ssa.Range:
		return mk("range", "", v, c.Of(v.X))
	case *ssa.Next:
		return mk("next", v.Name()+"@"+funcName(v.Parent()), v, c.Of(v.Iter))
	}
	return mk("opaque", fmt.Sprintf("%T:%s", v, v.Name()), v)
}

func globalName(g *ssa.Global) string {
	if g.Pkg != nil {
		return strings.TrimPrefix(g.Pkg.Pkg.Path(), modPath+"/") + "." + g.Name()
	}
	return g.Name()
}

var commutative = map[token.Token]bool{token.ADD: true, token.MUL: true, token.AND: true, token.OR: true, token.XOR: true, token.EQL: true, token.NEQ: true}

func (c *TermCtx) binop(v *ssa.BinOp) *Term {
	x, y := c.Of(v.X), c.Of(v.Y)
	op := v.Op
	// orient comparisons: a > b  ==> b < a ; a >= b ==> b <= a
	switch op {
	case token.GTR:
		x, y, op = y, x, token.LSS
	case token.GEQ:
		x, y, op = y, x, token.LEQ
	}
	// string concatenation is not commutative
	if commutative[op] && !(op == token.ADD && isString(v.X.Type())) {
		if x.Key() > y.Key() {
			x, y = y, x
		}
	}
	// integer literal arithmetic is folded (path-resolved loop counters: 0+1 → 1)
	if x.Op == "const" && y.Op == "const" && isInteger(v.Type()) {
		if a, err1 := strconv.ParseInt(x.Sym, 10, 64); err1 == nil {
			if b, err2 := strconv.ParseInt(y.Sym, 10, 64); err2 == nil {
				switch op {
				case token.ADD:
					return mk("const", strconv.FormatInt(a+b, 10), v)
				case token.SUB:
					return mk("const", strconv.FormatInt(a-b, 10), v)
				}
			}
		}
	}
	return mk("bin", op.String(), v, x, y)
}

func isString(t types.Type) bool {
	b, ok := t.Underlying().(*types.Basic)
	return ok && b.Info()&types.IsString != 0
}

func (c *TermCtx) call(v *ssa.Call) *Term {
	com := v.Common()
	var args []*Term
	if com.IsInvoke() {
		args = append(args, c.Of(com.Value))
		for _, a := range com.Args {
			args = append(args, c.Of(a))
		}
		recvT := com.Value.Type()
		return mk("invoke", types.TypeString(recvT, shortQual)+"."+com.Method.Name(), v, args...)
	}
	for _, a := range com.Args {
		args = append(args, c.Of(a))
	}
	switch f := com.Value.(type) {
	case *ssa.Builtin:
		if (f.Name() == "len" || f.Name() == "cap") && len(com.Args) == 1 {
			// the length of a whole-array slice of a local array literal is the array's length
			if a := literalArrayOf(com.Args[0]); a != nil {
				if at, ok := a.Type().Underlying().(*types.Pointer).Elem().Underlying().(*types.Array); ok {
					return mk("const", strconv.FormatInt(at.Len(), 10), v)
				}
			}
		}
		return mk("builtin", f.Name(), v, args...)
	case *ssa.Function:
		if c.inline && c.depth < 6 {
			if t := c.tryInline(f, args); t != nil {
				return t
			}
		}
		return mk("call", funcName(f), v, args...)
	case *ssa.MakeClosure:
		return mk("call", "closure:"+funcName(f.Fn.(*ssa.Function)), v, args...)
	}
	// dynamic call through a function value
	return mk("dyncall", "", v, append([]*Term{c.Of(com.Value)}, args...)...)
}

// tryInline inlines module functions whose body is a single block without
// side effects and whose result is a single expression (getters, tiny helpers).
func (c *TermCtx) tryInline(f *ssa.Function, args []*Term) *Term {
	if !inModule(f) || len(f.Blocks) != 1 || f.Signature.Results().Len() == 0 {
		return nil
	}
	b := f.Blocks[0]
	for _, in := range b.Instrs {
		switch in := in.(type) {
		case *ssa.Store:
			// the spill of a struct-valued parameter (value receiver) into its local cell, which is only read
			if a, ok := in.Addr.(*ssa.Alloc); ok {
				if _, isParam := in.Val.(*ssa.Parameter); isParam && singleAssigned(a) == in.Val {
					continue
				}
			}
			return nil
		case *ssa.Defer:
			if !isSyncCall(in.Common()) {
				return nil
			}
		case *ssa.RunDefers:
		case *ssa.MapUpdate, *ssa.Send, *ssa.Go, *ssa.Panic:
			return nil
		case *ssa.Call:
			if isSyncCall(in.Common()) {
				continue
			}
			// only pure, inlinable or library-pure calls
			if fn, ok := in.Common().Value.(*ssa.Function); ok {
				if !inModule(fn) && !pureLibrary(fn) {
					return nil
				}
				if inModule(fn) && !(len(fn.Blocks) == 1) {
					return nil
				}
			} else if _, ok := in.Common().Value.(*ssa.Builtin); !ok {
				return nil
			}
		case *ssa.Alloc:
			if _, isParam := singleAssigned(in).(*ssa.Parameter); isParam && !in.Heap {
				continue
			}
			return nil
		}
	}
	ret, ok := b.Instrs[len(b.Instrs)-1].(*ssa.Return)
	if !ok || len(ret.Results) == 0 {
		return nil
	}
	sub := newTermCtx(c.prog)
	sub.inline = true
	sub.depth = c.depth + 1
	sub.subst = map[*ssa.Parameter]*Term{}
	for i, p := range f.Params {
		if i < len(args) {
			sub.subst[p] = args[i]
			// a struct passed by value as a copy of *x: its fields are the fields of x at the call
			if _, isStruct := p.Type().Underlying().(*types.Struct); isStruct && args[i].Op == "load" && len(args[i].Args) == 1 {
				sub.subst[p] = args[i].Args[0]
			}
		}
	}
	if len(ret.Results) == 1 {
		return sub.Of(ret.Results[0])
	}
	var rs []*Term
	for _, r := range ret.Results {
		rs = append(rs, sub.Of(r))
	}
	return mk("tuple", "", nil, rs...)
}

func pureLibrary(f *ssa.Function) bool {
	if f.Pkg == nil {
		return false
	}
	switch f.Pkg.Pkg.Path() {
	case "math", "math/bits":
		return true
	}
	return false
}

// ---------------------------------------------------------------------------
// pattern helpers over terms

// unver strips the "overwritten earlier on this path" marker of a load.
func (t *Term) unver() *Term {
	for t != nil && t.Op == "ver" {
		t = t.Args[0]
	}
	return t
}

func (t *Term) isConst(s string) bool { return t != nil && t.Op == "const" && t.Sym == s }
func (t *Term) isOp(op, sym string) bool {
	return t != nil && t.Op == op && (sym == "" || t.Sym == sym)
}
func (t *Term) isBin(op string) bool { return t != nil && t.Op == "bin" && t.Sym == op }
func (t *Term) isParam(i int) bool {
	return t != nil && t.Op == "param" && t.Sym == fmt.Sprintf("%d", i)
}

// isFieldOf: t == field(name) of base
func (t *Term) isField(name string) bool { return t != nil && t.Op == "field" && t.Sym == name }

// callee name without package qualification noise, e.g. "(*ddsketch/store.DenseStore).AddWithCount"
func (t *Term) isCall(name string) bool {
	return t != nil && (t.Op == "call" || t.Op == "invoke") && (t.Sym == name || strings.HasSuffix(t.Sym, "."+name))
}

// contains reports whether sub-term with key k occurs in t.
func (t *Term) contains(k string) bool {
	if t == nil {
		return false
	}
	if t.Key() == k {
		return true
	}
	for _, a := range t.Args {
		if a.contains(k) {
			return true
		}
	}
	return false
}

func (t *Term) walk(f func(*Term) bool) {
	if t == nil {
		return
	}
	if !f(t) {
		return
	}
	for _, a := range t.Args {
		a.walk(f)
	}
}

// hasLoad reports whether a term reads memory or calls something (so its value may change over time).
func (t *Term) hasLoad() bool {
	found := false
	t.walk(func(x *Term) bool {
		switch x.Op {
		case "field", "index", "global", "load", "call", "invoke", "dyncall", "lookup", "free", "builtin", "ver":
			// field of a parameter struct VALUE is still a read, keep it conservative
			found = true
			return false
		}
		return true
	})
	return found
}

// ---------------------------------------------------------------------------
// linear forms: sum of coefficient*atom + const, for integer/float +,- chains

type Linear struct {
	Coef  map[string]int
	Const int
	Atoms map[string]*Term
	Exact bool // false if a non-integer constant was met
}

func linearOf(t *Term) *Linear {
	l := &Linear{Coef: map[string]int{}, Atoms: map[string]*Term{}, Exact: true}
	l.add(t, 1)
	for k, v := range l.Coef {
		if v == 0 {
			delete(l.Coef, k)
			delete(l.Atoms, k)
		}
	}
	return l
}

func (l *Linear) add(t *Term, sign int) {
	switch {
	case t.Op == "const":
		var n int
		if _, err := fmt.Sscanf(t.Sym, "%d", &n); err == nil && fmt.Sprintf("%d", n) == t.Sym {
			l.Const += sign * n
			return
		}
		l.Coef[t.Key()] += sign
		l.Atoms[t.Key()] = t
	case t.isBin("+"):
		l.add(t.Args[0], sign)
		l.add(t.Args[1], sign)
	case t.isBin("-"):
		l.add(t.Args[0], sign)
		l.add(t.Args[1], -sign)
	case t.Op == "un" && t.Sym == "-":
		l.add(t.Args[0], -sign)
	default:
		l.Coef[t.Key()] += sign
		l.Atoms[t.Key()] = t
	}
}

func (l *Linear) Key() string {
	var ks []string
	for k, v := range l.Coef {
		ks = append(ks, fmt.Sprintf("%+d*%s", v, k))
	}
	sort.Strings(ks)
	return fmt.Sprintf("%s %+d", strings.Join(ks, " "), l.Const)
}

// singleAssigned: the only value ever stored into a local variable cell (e.g. a
// parameter spilled because a closure captures it), or nil.
func singleAssigned(a *ssa.Alloc) ssa.Value {
	var val ssa.Value
	n := 0
	if a.Referrers() == nil {
		return nil
	}
	for _, r := range *a.Referrers() {
		switch r := r.(type) {
		case *ssa.Store:
			if r.Addr == ssa.Value(a) {
				n++
				val = r.Val
			} else {
				return nil // address stored somewhere
			}
		case *ssa.FieldAddr:
			// reading a field of a spilled struct value is fine; writing through it is not
			if r.Referrers() != nil {
				for _, fr := range *r.Referrers() {
					switch fr := fr.(type) {
					case *ssa.UnOp, *ssa.DebugRef:
					case *ssa.Store:
						if fr.Addr == ssa.Value(r) {
							return nil
						}
						return nil
					default:
						return nil
					}
				}
			}
		case *ssa.UnOp, *ssa.DebugRef:
		case *ssa.MakeClosure:
			// the closure must not write the captured variable
			fn := r.Fn.(*ssa.Function)
			for i, b := range r.Bindings {
				if b != ssa.Value(a) {
					continue
				}
				fv := fn.FreeVars[i]
				if fv.Referrers() != nil {
					for _, fr := range *fv.Referrers() {
						switch fr := fr.(type) {
						case *ssa.UnOp, *ssa.DebugRef:
						case *ssa.Store:
							if fr.Addr == ssa.Value(fv) {
								return nil
							}
							return nil
						default:
							return nil
						}
					}
				}
			}
		default:
			return nil
		}
	}
	if n == 1 {
		return val
	}
	return nil
}

// outerParamOf: a captured variable that is a never-reassigned parameter of the
// enclosing function is represented as oparam:<index> inside the closure.
func outerParamOf(fv *ssa.FreeVar) *Term {
	fn := fv.Parent()
	parent := fn.Parent()
	if parent == nil {
		return nil
	}
	idx := -1
	for i, x := range fn.FreeVars {
		if x == fv {
			idx = i
		}
	}
	for _, b := range parent.Blocks {
		for _, in := range b.Instrs {
			mc, ok := in.(*ssa.MakeClosure)
			if !ok || mc.Fn != ssa.Value(fn) || idx >= len(mc.Bindings) {
				continue
			}
			a, ok := mc.Bindings[idx].(*ssa.Alloc)
			if !ok {
				return nil
			}
			sv := singleAssigned(a)
			return outerValueTerm(sv, parent, fv, 0)
		}
	}
	return nil
}

// outerValueTerm: the value a captured, never-reassigned variable was given in the enclosing function, when that is a
// parameter of the enclosing function or a field read off one (`stats := s.summaryStatistics`): oparam:<i> / field chain.
func outerValueTerm(sv ssa.Value, parent *ssa.Function, fv *ssa.FreeVar, depth int) *Term {
	if sv == nil || depth > 4 {
		return nil
	}
	switch v := sv.(type) {
	case *ssa.Parameter:
		for i, pp := range parent.Params {
			if pp == v {
				return mk("oparam", fmt.Sprintf("%d", i), fv)
			}
		}
	case *ssa.UnOp:
		if v.Op != token.MUL {
			return nil
		}
		switch x := v.X.(type) {
		case *ssa.FieldAddr:
			if base := outerValueTerm(x.X, parent, fv, depth+1); base != nil {
				return mk("field", fieldName(x.X.Type(), x.Field), nil, base)
			}
		case *ssa.Alloc:
			return outerValueTerm(singleAssigned(x), parent, fv, depth+1)
		}
	}
	return nil
}

// isRecv: the receiver of the method under analysis (also when seen from inside one of its closures).
func (t *Term) isRecv() bool {
	return t != nil && (t.Op == "param" || t.Op == "oparam") && t.Sym == "0"
}

// PhiEdges: the terms of the operands of a φ term (one level).
func (c *TermCtx) PhiEdges(t *Term) []*Term {
	phi, ok := t.V.(*ssa.Phi)
	if !ok || t.Op != "phi" {
		return nil
	}
	var out []*Term
	for _, e := range phi.Edges {
		out = append(out, c.Of(e))
	}
	return out
}

// literalArrayOf: v is the cell of a local array (`new [N]T`) or the slice of the whole of it (`cell[:]`), and the
// cell is used only as a literal: element stores at constant indexes and that whole-array slice, which in turn
// is only ranged over, measured or indexed for loads. Returns the cell, or nil.
func literalArrayOf(v ssa.Value) *ssa.Alloc {
	var a *ssa.Alloc
	switch v := v.(type) {
	case *ssa.Alloc:
		a = v
	case *ssa.Slice:
		if v.Low != nil || v.High != nil || v.Max != nil {
			return nil
		}
		a, _ = v.X.(*ssa.Alloc)
	}
	if a == nil {
		return nil
	}
	pt, ok := a.Type().Underlying().(*types.Pointer)
	if !ok {
		return nil
	}
	if _, ok := pt.Elem().Underlying().(*types.Array); !ok {
		return nil
	}
	refs := a.Referrers()
	if refs == nil {
		return nil
	}
	for _, r := range *refs {
		switch r := r.(type) {
		case *ssa.IndexAddr:
			if _, isC := r.Index.(*ssa.Const); !isC || r.X != a {
				return nil
			}
			for _, u := range *r.Referrers() {
				if st, ok := u.(*ssa.Store); !ok || st.Addr != r {
					return nil
				}
			}
		case *ssa.Slice:
			if r.X != a || r.Low != nil || r.High != nil || r.Max != nil {
				return nil
			}
			for _, u := range *r.Referrers() {
				switch u := u.(type) {
				case *ssa.IndexAddr:
					for _, uu := range *u.Referrers() {
						if ld, ok := uu.(*ssa.UnOp); !ok || ld.Op != token.MUL {
							return nil
						}
					}
				case *ssa.Call:
					if b, ok := u.Common().Value.(*ssa.Builtin); !ok || b.Name() != "len" && b.Name() != "cap" {
						return nil
					}
				case *ssa.DebugRef:
				default:
					return nil
				}
			}
		case *ssa.DebugRef:
		default:
			return nil
		}
	}
	return a
}

// literalMapOf: v is a local map created by a map literal (`make` followed by constant-position updates) that does
// not escape: it is only updated and looked up. Returns the MakeMap, or nil.
func literalMapOf(v ssa.Value) *ssa.MakeMap {
	mm, ok := v.(*ssa.MakeMap)
	if !ok || mm.Referrers() == nil {
		return nil
	}
	for _, r := range *mm.Referrers() {
		switch r := r.(type) {
		case *ssa.MapUpdate:
			if r.Map != mm {
				return nil
			}
		case *ssa.Lookup:
			if r.X != mm {
				return nil
			}
		case *ssa.DebugRef:
		default:
			return nil
		}
	}
	return mm
}

// wrappedError: v is fmt.Errorf(format, args…) whose format has exactly one %w and whose argument list holds exactly
// one value of type error; that value.
func wrappedError(v ssa.Value) ssa.Value {
	call, ok := v.(*ssa.Call)
	if !ok {
		return nil
	}
	cal := call.Common().StaticCallee()
	if cal == nil || cal.Pkg == nil || cal.Pkg.Pkg.Path() != "fmt" || cal.Name() != "Errorf" || len(call.Common().Args) != 2 {
		return nil
	}
	k, ok := call.Common().Args[0].(*ssa.Const)
	if !ok || k.Value == nil || k.Value.Kind() != constant.String || strings.Count(constant.StringVal(k.Value), "%w") != 1 {
		return nil
	}
	sl, ok := call.Common().Args[1].(*ssa.Slice)
	if !ok {
		return nil
	}
	arr, ok := sl.X.(*ssa.Alloc)
	if !ok || arr.Referrers() == nil {
		return nil
	}
	var found ssa.Value
	n := 0
	for _, r := range *arr.Referrers() {
		ia, ok := r.(*ssa.IndexAddr)
		if !ok || ia.Referrers() == nil {
			continue
		}
		for _, u := range *ia.Referrers() {
			st, ok := u.(*ssa.Store)
			if !ok || st.Addr != ssa.Value(ia) {
				continue
			}
			x := st.Val
			for {
				switch y := x.(type) {
				case *ssa.ChangeInterface:
					x = y.X
					continue
				case *ssa.MakeInterface:
					x = y.X
					continue
				}
				break
			}
			if x.Type().String() == "error" {
				found = x
				n++
			}
		}
	}
	if n != 1 {
		return nil
	}
	return found
}

// varargsOfLibraryCall: the array is the argument list of a call of a function outside the module (fmt.Errorf, …) —
// not of the builtin append, whose element stores are what the encoders' byte accounting reads.
func varargsOfLibraryCall(a *ssa.Alloc) bool {
	if a.Referrers() == nil {
		return false
	}
	for _, r := range *a.Referrers() {
		sl, ok := r.(*ssa.Slice)
		if !ok || sl.Referrers() == nil {
			continue
		}
		for _, u := range *sl.Referrers() {
			if call, ok := u.(*ssa.Call); ok {
				if cal := call.Common().StaticCallee(); cal != nil && !inModule(cal) {
					return true
				}
			}
		}
	}
	return false
}

// libName: the name a library function is known by in the summaries. Instances of the generic helpers of the
// standard library answer to the classic function they stand for — slices.Sort on []int is sort.Ints, on []float64
// sort.Float64s, on []string sort.Strings — or to "pkg.Name" without the type arguments (slices.Clone, maps.Clone).
func libName(f *ssa.Function) string {
	if f == nil {
		return ""
	}
	o := f.Origin()
	if o == nil || o.Pkg == nil {
		return f.String()
	}
	path, name := o.Pkg.Pkg.Path(), o.Name()
	if path == "slices" && name == "Sort" && len(f.TypeArgs()) > 0 {
		if sl, ok := f.TypeArgs()[0].Underlying().(*types.Slice); ok {
			switch sl.Elem().String() {
			case "int":
				return "sort.Ints"
			case "float64":
				return "sort.Float64s"
			case "string":
				return "sort.Strings"
			}
		}
	}
	return path + "." + name
}

// isSyncCall: a Lock / Unlock / RLock / RUnlock (…) of a sync.Mutex or sync.RWMutex. Mutual exclusion changes nothing
// any property speaks of (none quantifies over concurrent use): such calls — also deferred — are no effects, a mutex
// field carries no state, and a function whose only defers are unlocks is executed like one without.
func isSyncCall(com *ssa.CallCommon) bool {
	cal := com.StaticCallee()
	if cal == nil || cal.Pkg == nil || cal.Pkg.Pkg.Path() != "sync" || cal.Signature.Recv() == nil {
		return false
	}
	t := cal.Signature.Recv().Type()
	if p, ok := t.(*types.Pointer); ok {
		t = p.Elem()
	}
	n, ok := t.(*types.Named)
	if !ok {
		return false
	}
	switch n.Obj().Name() {
	case "Mutex", "RWMutex":
		return true
	}
	return false
}

// onlySyncDefers: every defer of f is a sync unlock (and f does not recover).
func onlySyncDefers(f *ssa.Function) bool {
	for _, b := range f.Blocks {
		for _, in := range b.Instrs {
			switch in := in.(type) {
			case *ssa.Defer:
				if !isSyncCall(in.Common()) {
					return false
				}
			case *ssa.Go, *ssa.Select:
				return false
			}
		}
	}
	return f.Recover == nil
}

// sameBlockStore: the value of the last store to the local cell a that precedes the load ld in ld's block, provided a
// is only ever stored to and loaded from directly.
func sameBlockStore(a *ssa.Alloc, ld *ssa.UnOp) ssa.Value {
	if a.Referrers() == nil {
		return nil
	}
	for _, r := range *a.Referrers() {
		switch r := r.(type) {
		case *ssa.Store:
			if r.Addr != ssa.Value(a) {
				return nil
			}
		case *ssa.UnOp:
			if r.Op != token.MUL {
				return nil
			}
		case *ssa.DebugRef:
		default:
			return nil
		}
	}
	var last ssa.Value
	for _, in := range ld.Block().Instrs {
		if in == ssa.Instruction(ld) {
			return last
		}
		if st, ok := in.(*ssa.Store); ok && st.Addr == ssa.Value(a) {
			last = st.Val
		}
	}
	return nil
}
