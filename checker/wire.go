package main

import (
	"fmt"
	"strings"

	"golang.org/x/tools/go/ssa"
)

// E-WIRE (b): codec grammars. The sequence of primitive codec calls an
// encoder or decoder performs on the buffer is summarised as a list of tokens;
// a token executed in a loop nested deeper than the block's flag is starred.
//
// token kinds: U uvarint64, V varint64, F varfloat64, L float64LE (8 bytes),
// X8 fixed skip of 8 bytes, flag.

type tok struct {
	kind  string
	depth int   // loop nesting depth at which the primitive executes
	flag  *Term // for kind "flag": the flag argument / result
	call  *ssa.Call
}

func tokString(ts []tok) string {
	var sb []string
	for _, t := range ts {
		s := t.kind
		if t.depth > 0 {
			s += strings.Repeat("*", 1)
		}
		sb = append(sb, s)
	}
	return strings.Join(sb, " ")
}

var primKinds = map[string]string{
	"EncodeFlag": "flag", "DecodeFlag": "flag",
	"EncodeUvarint64": "U", "DecodeUvarint64": "U",
	"EncodeVarint64": "V", "DecodeVarint64": "V", "DecodeVarint32": "V32", // the 32-bit reader refuses values the 64-bit writer can emit: a different token
	"EncodeVarfloat64": "F", "DecodeVarfloat64": "F",
	"EncodeFloat64LE": "L", "DecodeFloat64LE": "L",
}

func primKindOf(fn *ssa.Function) string {
	if fn == nil || fn.Pkg == nil || fn.Pkg.Pkg.Path() != pkgEnc {
		return ""
	}
	return primKinds[fn.Name()]
}

// loopDepths: number of natural loops containing each block.
func loopDepths(fn *ssa.Function) map[*ssa.BasicBlock]int {
	depth := map[*ssa.BasicBlock]int{}
	type loop struct {
		h    *ssa.BasicBlock
		body map[*ssa.BasicBlock]bool
	}
	loops := map[*ssa.BasicBlock]*loop{}
	for _, t := range fn.Blocks {
		for _, h := range t.Succs {
			if !h.Dominates(t) {
				continue
			}
			l := loops[h]
			if l == nil {
				l = &loop{h: h, body: map[*ssa.BasicBlock]bool{h: true}}
				loops[h] = l
			}
			// nodes reaching t without passing through h
			stack := []*ssa.BasicBlock{t}
			for len(stack) > 0 {
				x := stack[len(stack)-1]
				stack = stack[:len(stack)-1]
				if l.body[x] {
					continue
				}
				l.body[x] = true
				stack = append(stack, x.Preds...)
			}
		}
	}
	for _, l := range loops {
		for b := range l.body {
			depth[b]++
		}
	}
	return depth
}

// grammarOfPath: the token sequence of a path. Calls to module functions that take the buffer are
// expanded with the callee's own grammar (longest success path).
type grammarCtx struct {
	c     *Ctx
	memo  map[*ssa.Function][]tok
	busy  map[*ssa.Function]bool
	depth map[*ssa.Function]map[*ssa.BasicBlock]int
}

func newGrammarCtx(c *Ctx) *grammarCtx {
	return &grammarCtx{c: c, memo: map[*ssa.Function][]tok{}, busy: map[*ssa.Function]bool{}, depth: map[*ssa.Function]map[*ssa.BasicBlock]int{}}
}

func (g *grammarCtx) depths(f *ssa.Function) map[*ssa.BasicBlock]int {
	if d, ok := g.depth[f]; ok {
		return d
	}
	d := loopDepths(f)
	g.depth[f] = d
	return d
}

func isBufParam(fn *ssa.Function) bool {
	for _, p := range fn.Params {
		if p.Type().String() == "*[]byte" {
			return true
		}
	}
	return false
}

// pathTokens: tokens of one path; star = executed at loop depth greater than base.
func (g *grammarCtx) pathTokens(f *ssa.Function, p *Path) []tok {
	d0 := g.depths(f)
	var out []tok
	for _, e := range p.Effects {
		// loop depth of the effect: in its own function, plus that of every inlined call on the way to it
		d := d0
		if len(e.Via) > 0 {
			d = map[*ssa.BasicBlock]int{}
			n := g.depths(e.Block.Parent())[e.Block]
			for _, via := range e.Via {
				n += g.depths(via.Parent())[via.Block()]
			}
			d[e.Block] = n
		}
		switch e.Kind {
		case "call":
			call, _ := e.Instr.(*ssa.Call)
			if call == nil {
				continue
			}
			callee, _ := call.Common().Value.(*ssa.Function)
			if k := primKindOf(callee); k != "" {
				t := tok{kind: k, depth: d[e.Block], call: call}
				if k == "flag" {
					if len(e.Call.Args) == 2 {
						t.flag = e.Call.Args[1] // EncodeFlag(b, f)
					} else {
						t.flag = e.Call // DecodeFlag result
					}
				}
				out = append(out, t)
				continue
			}
			if callee != nil && inModule(callee) && isBufParam(callee) && callee != f {
				sub := g.funcGrammar(callee)
				for _, st := range sub {
					st.depth += d[e.Block]
					out = append(out, st)
				}
			}
		case "store":
			// *b = (*b)[n:]  — a fixed skip
			if e.Addr.Op == "param" && e.Val.Op == "slice" && e.Val.Args[0].Op == "load" && sameVal(e.Val.Args[0].Args[0], e.Addr) && e.Val.Args[1].Op == "const" && e.Val.Args[2].Op == "none" {
				out = append(out, tok{kind: "X" + e.Val.Args[1].Sym, depth: d[e.Block]})
			}
		}
	}
	return out
}

// funcGrammar: the grammar of a whole function = tokens of its longest success path.
func (g *grammarCtx) funcGrammar(f *ssa.Function) []tok {
	if r, ok := g.memo[f]; ok {
		return r
	}
	if g.busy[f] {
		return nil
	}
	g.busy[f] = true
	defer delete(g.busy, f)
	paths, _ := exec(g.c, f, nil, 2)
	best := g.longest(f, paths)
	g.memo[f] = best
	return best
}

// longest success path tokens among paths (error-return paths are prefixes and are ignored).
func (g *grammarCtx) longest(f *ssa.Function, paths []*Path) []tok {
	var best []tok
	for _, p := range paths {
		if len(p.RetT) > 0 {
			last := len(p.RetT) - 1
			if p.Ret != nil && p.Ret.Results[last].Type().String() == "error" && p.RetNil(last) == -1 {
				continue
			}
		}
		ts := g.pathTokens(f, p)
		if len(ts) > len(best) {
			best = ts
		}
	}
	return best
}

// splitAtFlags: cut a token sequence into blocks, each starting at a flag token. Stars are
// re-based to the flag's own loop depth by the caller (tokens carry absolute "in a loop" marks;
// a block that lives entirely inside a loop has its flag starred too).
func splitAtFlags(ts []tok) [][]tok {
	var out [][]tok
	var cur []tok
	for _, t := range ts {
		if t.kind == "flag" {
			if cur != nil {
				out = append(out, cur)
			}
			cur = []tok{t}
			continue
		}
		if cur != nil {
			cur = append(cur, t)
		}
	}
	if cur != nil {
		out = append(out, cur)
	}
	return out
}

// documented payload grammars (flag.go doc comments), by block kind.
var documentedGrammar = map[string]string{
	"BinEncodingIndexDeltasAndCounts": "U V* F*",
	"BinEncodingIndexDeltas":          "U V*",
	"BinEncodingContiguousCounts":     "U V V F*",
	"FlagZeroCountVarFloat":           "F",
	"FlagCount":                       "F",
	"FlagSum":                         "L",
	"FlagMin":                         "L",
	"FlagMax":                         "L",
	"FlagIndexMappingBaseLogarithmic": "L L",
	"FlagIndexMappingBaseLinear":      "L L",
	"FlagIndexMappingBaseCubic":       "L L",
}

// payloadString: tokens after the first one (the flag), starred when nested deeper than the flag.
func payloadString(block []tok) string {
	if len(block) == 0 {
		return ""
	}
	return relString(block[1:], block[0].depth)
}

// relString: tokens starred when nested deeper than base.
func relString(ts []tok, base int) string {
	var sb []string
	for _, t := range ts {
		s := t.kind
		if t.depth > base {
			s += "*"
		}
		sb = append(sb, s)
	}
	return strings.Join(sb, " ")
}

// flagKindName: the documented name of the block kind a flag term denotes:
// a package-level flag variable, or NewFlag(<type>, <bin encoding variable>).
func flagKindName(t *Term) (kind string, side *Term) {
	if t == nil {
		return "", nil
	}
	if t.Op == "global" && strings.HasPrefix(t.Sym, "ddsketch/encoding.") {
		return strings.TrimPrefix(t.Sym, "ddsketch/encoding."), nil
	}
	// NewFlag inlined: Flag{t.byte | s.byte} — look for the bin-encoding global inside
	var enc string
	var typ *Term
	t.walk(func(x *Term) bool {
		if x.Op == "global" && strings.HasPrefix(x.Sym, "ddsketch/encoding.BinEncoding") {
			enc = strings.TrimPrefix(x.Sym, "ddsketch/encoding.")
		}
		if x.Op == "global" && strings.HasPrefix(x.Sym, "ddsketch/encoding.FlagType") {
			typ = x
		}
		if x.Op == "param" {
			typ = x
		}
		return true
	})
	return enc, typ
}

func (g *grammarCtx) describe(ts []tok) string { return fmt.Sprintf("[%s]", tokString(ts)) }
