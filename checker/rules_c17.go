package main

import (
	"fmt"
	"strings"

	"golang.org/x/tools/go/ssa"
)

// C17 — changing mapping or unit conserves weight and stays within combined accuracy.
// C11 — weighted quantiles only return values the sketch holds (negative-side clause).

func init() {
	register("C17",
		"DECIDED: D1 decision table of ChangeMapping — scale = 1 with an equal mapping returns Copy() and nothing else; every other path converts the positive store into the store that the result uses as positive store and the negative into the negative, with the same (old mapping, new mapping, scale) triple, builds the result from newMapping and the two caller-supplied stores and copies (does not scale) the zero weight. "+
			"D2 source untouched / result not aliased (write-set and deep-origin analysis, shared with C14-D1/D3); the exact variant rescales a copy of the statistics (C10-D1). "+
			"D3 overlap enumeration — the source range is [old.LowerBound(i)·scale, old.LowerBound(i+1)·scale), the target loop starts at new.Index(lower) and continues while new.LowerBound(out) < upper, the weight sent is count·(min(outHi,inHi) − max(outLo,inLo))/(inHi − inLo) and goes to the target store at the loop's own index. "+
			"D4 no negative weight — on every path reaching the target AddWithCount the overlap size (numerator of the proportion) is established positive or non-negative by a dominating comparison with 0 (or clamped with max(0,·)); count > 0 and inHi − inLo > 0 are axioms (ForEach yields positive weights; LowerBound is increasing and scale > 0). "+
			"D5 exact statistics are rescaled by the factor — the exact variant's ChangeMapping returns {inner.ChangeMapping(…, scale), a Copy() of the statistics rescaled exactly once by that same scale} and never writes the receiver's statistics; SummaryStatistics.Rescale scales sum and compensation, orders min/max by the sign of the factor and never touches the count (C10-D1/D3 obligations re-evaluated here). "+
			"SHARED (obligations of other properties that decide clauses this property states too, re-evaluated here under their home rule ids): C04-D1/D2/D3/D5/D6/D9 and C05-D8 (the add side of every store: the converted weights are counted at the indexes they are added with). C19-D2/D3 (Equals of the mappings, on which the identity shortcut rests). C14-D2 (the identity shortcut returns Copy(): every Copy defines every field — bin limits and flags included — and is deep). C15-D1 for every store (the target stores are the caller's and may be recycled with Clear: a cleared store takes the converted bins like a new one). C03 all rules (Index of every mapping kind is floor(log_like(v)·multiplier + indexOffset) and LowerBound / Value invert exactly that term — the general path starts at newMapping.Index of the first old bound and walks LowerBound of both mappings, so a target mapping with a non-zero offset is placed correctly). "+
			"NOT DECIDED: conservation of total weight up to rounding, the combined accuracy bound, rank distance.",
		"one obligation per ChangeMapping path, per overlap term, per path reaching the weighted add",
		false, runC17)
	register("C11",
		"DECIDED (the clause 'never a value from an empty side of the sketch'): on every CFG path on which GetValueAtQuantile answers from the negative store, that store is known non-empty — either by an explicit emptiness/total test, or because the path took `rank < negative.TotalCount()` with a rank that is a non-negative constant or passed a `rank ≥ 0` test on the same path (so TotalCount() > rank ≥ 0). D2–D5 (shared obligations re-evaluated for weighted histories): AddWithCount forwards the weight unchanged to the side the value belongs to (C01-D1); the rank is q·(W−1) over the total weight and split between the sides by their totals (C01-D2); every store's KeyAtRank selects the first bin whose cumulative weight strictly exceeds the rank in index order (C01-D3); DDSketch.Reweight scales the zero weight and both stores by the same factor (C16-D1). "+
			"SHARED (obligations of other properties that decide clauses this property states too, re-evaluated here under their home rule ids): C04-D1/D2/D3/D5/D6/D9 and C05-D8 (the add side of every store: a weight is counted in the bin of its index). C10-D1/D5 (the statistics blocks of the exact variant: every real extreme is written and read back). C14-D1 for the quantile queries and the sorted-flag typestate of the paginated store when it has one. C17-D1/D3 (a change of mapping or unit: identity shortcut only for factor 1 and an equal mapping; every overlapping target bin receives its share). C02-D1 (weights also arrive by merging: zero weight and both sides merged on every accepting path). C16-D2 (every store body scales everything it holds) and the exact variant's Reweight wrapper as C11-D6 (the statistics are reweighted — not rescaled — with the same factor after the inner sketch). C10-D4 (the exact variant clamps every single and every batch answer into [exact min, exact max], element by element). C06-D3 (decoding into a sketch only accumulates: the zero weight and the bins of a sketch assembled from encoded parts are the sums of the parts). C14-D2 for the two sketch types (a copy shares neither stores nor statistics with its original). C12-D1 (GetMinValue / GetMaxValue answer from the correct end of the correct side in the documented order). The exact variant's AddWithCount wrapper as C11-D7 (the inner sketch absorbs the value with the given weight — its quantiles stay the weighted ones). C12-D4 (the batch quantile query stores exactly the single-query answer per element). "+
			"NOT DECIDED: 'within one unit of weight of q·(W−1)', 'within alpha of an absorbed value', and emptiness of the positive side on the final branch (needs the relational fact rank ≤ count−1).",
		"one obligation per path answering from the negative store",
		false, runC11)
}

func runC17(c *Ctx) {
	a, err := c.anchors()
	if err != nil {
		c.R.undecided("C17", "anchors", "", "", "sketch anchors resolve", err.Error())
		return
	}
	c17Table(c, a)
	c17Untouched(c, a)
	c17Overlap(c, a)
	// the converted weights are added to new stores through their entry points: the add side of every store kind
	c.shared(func() { c04AddPaths(c) }, func(o *Obligation) bool { return true })
	// exact variant: the statistics of the result are a copy rescaled once by the same factor; Rescale's field table
	c10Wrappers(c, a, "C17-D5", "ChangeMapping")
	c10StatObject(c, a, "C17-D5", "Rescale")
	// the identity shortcut is taken when the mappings are Equal: "carries the requested mapping" rests on Equals
	c.shared(func() { c19Equals(c, mappingInfos(c, "C17")) }, func(o *Obligation) bool { return true })
	// … and returns Copy(): "an exact copy" is the C14-D2 obligation of every Copy in the module (fields, limits, deep)
	c.shared(func() { c14Copies(c, a) }, func(o *Obligation) bool { return true })
	// the general path places every old bin by newMapping.Index / LowerBound of the target and old bounds of the source:
	// the index formula of every mapping kind and its inverses (C03-D1 / C03-D2, index offset included)
	c.shared(func() { runC03(c) }, func(o *Obligation) bool { return strings.HasPrefix(o.Rule, "C03-") })
	// the caller supplies the target stores and may recycle them with Clear: a cleared store receives the converted
	// bins like a new one (every field its range arithmetic reads is reset)
	if pr := c.paginated(); pr.err == "" {
		storeI, dense := c.P.NamedType(pkgStore, "Store"), c.P.NamedType(pkgStore, "DenseStore")
		if storeI != nil && dense != nil {
			for _, t := range c.P.Implementations(storeI) {
				t := t
				c.shared(func() { c15ClearCovers(c, t, dense, pr) }, func(o *Obligation) bool { return true })
			}
		}
	}
}

func c17Table(c *Ctx, a *sketchAnchors) {
	const rule = "C17-D1"
	f := c.P.DeclaredMethod(a.DDSketch, "ChangeMapping")
	if !c.mustFunc(rule, f, "(*DDSketch).ChangeMapping") {
		return
	}
	// parameters by type role: newMapping (IndexMapping), two stores, scale (float64)
	mapP, scaleP := -1, -1
	var storeP []int
	for i, p := range f.Params {
		switch ts := p.Type().String(); {
		case strings.HasSuffix(ts, "mapping.IndexMapping"):
			mapP = i
		case strings.HasSuffix(ts, "store.Store"):
			storeP = append(storeP, i)
		case ts == "float64":
			scaleP = i
		}
	}
	if mapP < 0 || scaleP < 0 || len(storeP) != 2 {
		c.R.undecided(rule, "anchor/ChangeMapping-params", shortFn(f), c.fpos(f), "parameters (newMapping, store, store, scale)", fmt.Sprint(f.Signature))
		return
	}
	// which constructor argument becomes the positive store of the result
	ctor := c.P.Func(pkgSketch, "NewDDSketch")
	posArg, negArg := -1, -1
	if ctor != nil {
		ps, _ := exec(c, ctor, nil, 1)
		if len(ps) == 1 {
			fl := resultFields(ps[0])
			for i := range ctor.Params {
				if fl[a.posField] != nil && fl[a.posField].isParam(i) {
					posArg = i
				}
				if fl[a.negField] != nil && fl[a.negField].isParam(i) {
					negArg = i
				}
			}
		}
	}
	paths, _ := exec(c, f, nil, 1)
	for i, p := range paths {
		key := fmt.Sprintf("%s/path%d[%s]", shortFn(f), i, pathSig(p))
		one, haveOne := pathCond(p, func(t *Term) bool {
			return t.isBin("==") && (t.Args[0].isParam(scaleP) && t.Args[1].isConst("1") || t.Args[1].isParam(scaleP) && t.Args[0].isConst("1"))
		})
		eq, haveEq := pathCond(p, func(t *Term) bool {
			return isMethodCall(t, "Equals") && len(t.Args) == 2 && (isRecvField(t.Args[0], a.mapField) && t.Args[1].isParam(mapP) || isRecvField(t.Args[1], a.mapField) && t.Args[0].isParam(mapP))
		})
		r := p.RetT[0]
		if isMethodCall(r, "Copy") && len(r.Args) == 1 && r.Args[0].isRecv() {
			ok := haveOne && one && haveEq && eq && len(p.Writes()) == 0
			c.R.check(ok, rule, key, shortFn(f), c.fpos(f), "the Copy() shortcut is taken only for scale == 1 and an equal mapping, with no other effect", "["+p.String()+"] "+describeWrites(p))
			continue
		}
		// conversion path
		var conv []*Term
		zeroOK, other := false, ""
		for _, e := range p.Writes() {
			switch {
			case e.Kind == "call" && e.Call.Op == "call" && len(e.Call.Args) == 5:
				conv = append(conv, e.Call)
			case e.Kind == "store" && e.Addr.Op == "field" && e.Addr.Sym == a.zeroField && sameVal(e.Addr.Args[0], r):
				zeroOK = isRecvField(e.Val, a.zeroField)
				if !zeroOK {
					other = "zero weight of the result is " + e.Val.Key()
				}
			default:
				other = "unexpected effect " + e.String()
			}
		}
		// result built from (newMapping, storeX, storeY)
		okRes := r.Op == "call" && ctor != nil && r.Sym == funcName(ctor) && len(r.Args) == 3 && posArg >= 0 && negArg >= 0
		var posStore, negStore *Term
		if okRes {
			posStore, negStore = r.Args[posArg], r.Args[negArg]
			okRes = posStore.Op == "param" && negStore.Op == "param" && posStore.Key() != negStore.Key()
			for j, x := range r.Args {
				if j != posArg && j != negArg && !x.isParam(mapP) {
					okRes = false
				}
			}
		} else {
			// literal construction
			fl := resultFields(p)
			posStore, negStore = fl[a.posField], fl[a.negField]
			okRes = posStore != nil && negStore != nil && posStore.Op == "param" && negStore.Op == "param" && posStore.Key() != negStore.Key() && fl[a.mapField] != nil && fl[a.mapField].isParam(mapP)
			if fl[a.zeroField] != nil {
				zeroOK = isRecvField(fl[a.zeroField], a.zeroField)
			}
		}
		okConv := len(conv) == 2
		seenPos, seenNeg := false, false
		for _, cv := range conv {
			// (oldMapping, newMapping, oldStore, newStore, scale)
			if !(isRecvField(cv.Args[0], a.mapField) && cv.Args[1].isParam(mapP) && cv.Args[4].isParam(scaleP)) {
				okConv = false
			}
			switch {
			case isRecvField(cv.Args[2], a.posField) && posStore != nil && cv.Args[3].Key() == posStore.Key():
				seenPos = true
			case isRecvField(cv.Args[2], a.negField) && negStore != nil && cv.Args[3].Key() == negStore.Key():
				seenNeg = true
			default:
				okConv = false
			}
		}
		ok := okRes && okConv && seenPos && seenNeg && zeroOK && other == "" && !(haveOne && one && haveEq && eq)
		c.R.check(ok, rule, key, shortFn(f), c.fpos(f),
			"positive→the result's positive store, negative→its negative store with (old mapping, newMapping, scale); result = (newMapping, the two supplied stores); zero weight copied",
			fmt.Sprintf("result ok=%v conversions ok=%v pos=%v neg=%v zero copied=%v %s; %s", okRes, okConv, seenPos, seenNeg, zeroOK, other, describeRet(p)))
	}
	c.R.floor(rule, "ChangeMapping paths", len(paths), 2)
}

func c17Untouched(c *Ctx, a *sketchAnchors) {
	const rule = "C17-D2"
	if pr := c.paginated(); pr.err != "" {
		c.R.undecided(rule, "anchor/paginated-routines", "", "", "sort/compaction routines resolve by role", pr.err)
		return
	}
	for _, t := range []struct {
		name string
		f    *ssa.Function
	}{{"DDSketch", c.P.DeclaredMethod(a.DDSketch, "ChangeMapping")}, {"Exact", c.P.DeclaredMethod(a.Exact, "ChangeMapping")}} {
		if !c.mustFunc(rule, t.f, t.name+".ChangeMapping") {
			continue
		}
		checkNoObservableWrite(c, rule, t.name+".ChangeMapping/source-untouched", t.f, 0, "receiver")
		var bad []string
		for l := range c.Mod.DeepOrigins(t.f) {
			if locRoot(l) == "p0" && !strings.HasSuffix(l, "."+a.mapField) && !strings.Contains(l, "."+a.mapField+".") {
				bad = append(bad, l)
			}
		}
		c.R.check(len(bad) == 0, rule, t.name+".ChangeMapping/result-not-aliased", shortFn(t.f), c.fpos(t.f), "nothing reachable from the result originates in the receiver (immutable mapping excepted)", strings.Join(bad, " "))
	}
	// the helper converts INTO the target store only: its write set is rooted at the target (and representation of the source)
	if h := c.P.Func(pkgSketch, "changeStoreMapping"); h != nil {
		checkNoObservableWrite(c, rule, "changeStoreMapping/source-store-untouched", h, 2, "source store")
	}
}

func c17Overlap(c *Ctx, a *sketchAnchors) {
	const rule3, rule4 = "C17-D3", "C17-D4"
	h := c.P.Func(pkgSketch, "changeStoreMapping")
	if h == nil || len(h.AnonFuncs) != 1 {
		// role: the function ChangeMapping calls twice with 5 arguments
		c.R.undecided(rule3, "anchor/changeStoreMapping", "", "", "the per-store conversion helper with one ForEach callback", "unresolved")
		return
	}
	cl := h.AnonFuncs[0]
	// outer parameter indices: oldMapping=0 newMapping=1 oldStore=2 newStore=3 scale=4 (by type role)
	var maps, stores []int
	scale := -1
	for i, p := range h.Params {
		switch ts := p.Type().String(); {
		case strings.HasSuffix(ts, "mapping.IndexMapping"):
			maps = append(maps, i)
		case strings.HasSuffix(ts, "store.Store"):
			stores = append(stores, i)
		case ts == "float64":
			scale = i
		}
	}
	if len(maps) != 2 || len(stores) != 2 || scale < 0 {
		c.R.undecided(rule3, "anchor/changeStoreMapping-params", shortFn(h), c.fpos(h), "(oldMapping, newMapping, oldStore, newStore, scale)", fmt.Sprint(h.Signature))
		return
	}
	// which store is iterated = old store
	oldStore, newStore := -1, -1
	hp, _ := exec(c, h, nil, 1)
	for _, p := range hp {
		for _, e := range p.Calls() {
			if isMethodCall(e.Call, "ForEach") && e.Call.Args[0].Op == "param" {
				fmt.Sscanf(e.Call.Args[0].Sym, "%d", &oldStore)
			}
		}
	}
	for _, s := range stores {
		if s != oldStore {
			newStore = s
		}
	}
	paths, complete := exec(c, cl, nil, 2)
	if !complete || oldStore < 0 {
		c.R.undecided(rule3, "paths/"+shortFn(cl), shortFn(cl), c.fpos(cl), "path enumeration completes and the source store is iterated", "")
		return
	}
	op := func(i int) func(*Term) bool {
		return func(t *Term) bool { return t.Op == "oparam" && t.Sym == fmt.Sprint(i) }
	}
	isScale := op(scale)
	lb := func(t *Term, mapIs func(*Term) bool, idx func(*Term) bool) bool {
		return isMethodCall(t, "LowerBound") && len(t.Args) == 2 && mapIs(t.Args[0]) && idx(t.Args[1])
	}
	times := func(t *Term, x func(*Term) bool, y func(*Term) bool) bool {
		return t.isBin("*") && (x(t.Args[0]) && y(t.Args[1]) || x(t.Args[1]) && y(t.Args[0]))
	}
	// which mapping is the old one: the one whose LowerBound is applied to the callback's index parameter
	oldMap, newMap := -1, -1
	for _, p := range paths {
		for _, e := range p.Calls() {
			if isMethodCall(e.Call, "LowerBound") && e.Call.Args[1].isParam(0) && e.Call.Args[0].Op == "oparam" {
				fmt.Sscanf(e.Call.Args[0].Sym, "%d", &oldMap)
			}
		}
	}
	for _, m := range maps {
		if m != oldMap {
			newMap = m
		}
	}
	if oldMap < 0 {
		c.R.violate(rule3, shortFn(cl)+"/source-range", shortFn(cl), c.fpos(cl), "old.LowerBound(index) is computed", "not found")
		return
	}
	isIdx := func(t *Term) bool { return t.isParam(0) }
	isIdx1 := func(t *Term) bool {
		return t.isBin("+") && (t.Args[0].isParam(0) && t.Args[1].isConst("1") || t.Args[1].isParam(0) && t.Args[0].isConst("1"))
	}
	inLo := func(t *Term) bool {
		return times(t, func(x *Term) bool { return lb(x, op(oldMap), isIdx) }, isScale)
	}
	inHi := func(t *Term) bool {
		return times(t, func(x *Term) bool { return lb(x, op(oldMap), isIdx1) }, isScale)
	}
	nAdd := 0
	badShape, badSign := "", ""
	for _, p := range paths {
		for _, e := range p.Effects {
			if e.Kind != "call" || !isMethodCall(e.Call, "AddWithCount") {
				continue
			}
			nAdd++
			if !(len(e.Call.Args) == 3 && op(newStore)(e.Call.Args[0])) {
				badShape = "weight is not added to the target store: " + e.Call.Key()
				continue
			}
			out, w := e.Call.Args[1], e.Call.Args[2]
			// out index: starts at new.Index(inLo) and advances by one: Index(...)+k
			lo := linearOf(out)
			okOut := false
			for k, at := range lo.Atoms {
				if isMethodCall(at, "Index") && len(at.Args) == 2 && op(newMap)(at.Args[0]) && inLo(at.Args[1]) && lo.Coef[k] == 1 && len(lo.Coef) == 1 {
					okOut = true
				}
			}
			// the first target bin visited on a path is exactly new.Index(lower)
			first := true
			for _, e0 := range p.Effects {
				if e0.Seq < e.Seq && e0.Kind == "call" && isMethodCall(e0.Call, "AddWithCount") {
					first = false
				}
			}
			if first && lo.Const != 0 || !first && lo.Const < 1 {
				okOut = false
			}
			if !okOut {
				badShape = "target index does not start at new.Index(lower bound of the scaled source bin): " + out.Key()
			}
			// the loop continuation test on this path: new.LowerBound(out) < inHi
			contOK := false
			for _, cd := range p.Conds {
				t := cd.Term
				if t.isBin("<") && cd.Taken && lb(t.Args[0], op(newMap), func(x *Term) bool { return true }) && inHi(t.Args[1]) {
					contOK = true
				}
			}
			if !contOK {
				badShape = firstNonEmpty(badShape, "no continuation test new.LowerBound(out) < scaled upper bound before the add")
			}
			// weight = count * (min(outHi,inHi) - max(outLo,inLo)) / (inHi - inLo)
			var num *Term
			okW := false
			if w.isBin("*") {
				for i := 0; i < 2; i++ {
					cnt, prop := w.Args[i], w.Args[1-i]
					if cnt.isParam(1) && prop.isBin("/") {
						den := prop.Args[1]
						if den.isBin("-") && inHi(den.Args[0]) && inLo(den.Args[1]) {
							num = prop.Args[0]
							okW = true
						}
					}
				}
			}
			if !okW {
				badShape = firstNonEmpty(badShape, "weight is not count·overlap/(upper−lower): "+w.Key())
				continue
			}
			// numerator: min(outHi, inHi) − max(outLo, inLo), possibly clamped
			core := num
			clamped := false
			if core.Op == "call" && core.Sym == "math.Max" && (core.Args[0].isConst("0") || core.Args[1].isConst("0")) {
				clamped = true
				if core.Args[0].isConst("0") {
					core = core.Args[1]
				} else {
					core = core.Args[0]
				}
			}
			okNum := core.isBin("-") && core.Args[0].Op == "call" && core.Args[0].Sym == "math.Min" && core.Args[1].Op == "call" && core.Args[1].Sym == "math.Max"
			if okNum {
				mn, mx := core.Args[0], core.Args[1]
				hasInHi := inHi(mn.Args[0]) || inHi(mn.Args[1])
				hasInLo := inLo(mx.Args[0]) || inLo(mx.Args[1])
				isOut := func(t *Term, plus1 bool) bool {
					if !isMethodCall(t, "LowerBound") || !op(newMap)(t.Args[0]) {
						return false
					}
					d := linCombine(linearOf(t.Args[1]), linearOf(out), -1)
					return len(d.Coef) == 0 && (plus1 && d.Const == 1 || !plus1 && d.Const == 0)
				}
				hasOutHi := isOut(mn.Args[0], true) || isOut(mn.Args[1], true)
				hasOutLo := isOut(mx.Args[0], false) || isOut(mx.Args[1], false)
				okNum = hasInHi && hasInLo && hasOutHi && hasOutLo
			}
			if !okNum {
				badShape = firstNonEmpty(badShape, "overlap is not min(out upper, in upper) − max(out lower, in lower): "+num.Key())
			}
			// D4: sign evidence for the numerator
			signOK := clamped
			for _, cd := range p.Conds {
				if cd.Seq > e.Seq {
					continue
				}
				t := cd.Term
				if t.Op != "bin" || len(t.Args) != 2 {
					continue
				}
				x, y := t.Args[0], t.Args[1]
				switch {
				case x.Key() == num.Key() && y.isConst("0"): // num < 0 / num <= 0 / num == 0
					if (t.Sym == "<" || t.Sym == "<=") && !cd.Taken {
						signOK = true
					}
				case y.Key() == num.Key() && x.isConst("0"): // 0 < num / 0 <= num
					if (t.Sym == "<" || t.Sym == "<=") && cd.Taken {
						signOK = true
					}
				}
			}
			if !signOK {
				badSign = "the overlap size " + num.Key() + " reaches the weighted add without a dominating comparison with 0 on path [" + pathSig(p) + "]"
			}
		}
	}
	c.R.check(badShape == "" && nAdd > 0, rule3, shortFn(cl)+"/overlap-enumeration", shortFn(cl), c.fpos(cl),
		"out starts at new.Index(lower), loop while new.LowerBound(out) < upper, weight = count·(min(outHi,inHi)−max(outLo,inLo))/(inHi−inLo) added to the target store at out", firstNonEmpty(badShape, fmt.Sprintf("%d add occurrence(s) agree", nAdd)))
	// the enumeration of target bins ends only through its own continuation test (new.LowerBound(out) < scaled upper
	// bound): an empty intersection (rounding can make the FIRST target bin miss the source bin) skips that bin and
	// goes on — leaving the loop there drops the whole weight of the source bin
	{
		tcl := newTermCtx(c.P)
		var addBlk *ssa.BasicBlock
		for _, b := range cl.Blocks {
			for _, in := range b.Instrs {
				if call, ok := in.(*ssa.Call); ok && isMethodCall(tcl.Of(call), "AddWithCount") {
					addBlk = b
				}
			}
		}
		badExit := "no loop around the weighted add"
		for _, l := range naturalLoops(cl) {
			if addBlk == nil || !l.body[addBlk] {
				continue
			}
			badExit = ""
			for b := range l.body {
				iff, ok := b.Instrs[len(b.Instrs)-1].(*ssa.If)
				if !ok {
					continue
				}
				exits := false
				for _, sc := range b.Succs {
					if !l.body[sc] {
						exits = true
					}
				}
				if !exits {
					continue
				}
				ct := tcl.Of(iff.Cond)
				isBound := func(t *Term) bool {
					if isMethodCall(t, "LowerBound") {
						return true
					}
					// a bound carried from one iteration to the next: every incoming value is a LowerBound(...)
					if t.Op == "phi" {
						es := tcl.PhiEdges(t)
						for _, e := range es {
							if !isMethodCall(e, "LowerBound") {
								return false
							}
						}
						return len(es) > 0
					}
					return false
				}
				mentionsBound := (ct.isBin("<") || ct.isBin("<=")) && (isBound(ct.Args[0]) || isBound(ct.Args[1]))
				if !mentionsBound {
					badExit = "the loop over target bins is left on " + tcl.Of(iff.Cond).Key() + " (not its continuation test)"
				}
			}
		}
		c.R.check(badExit == "", rule3, shortFn(cl)+"/enumeration-ends-only-at-the-upper-bound", shortFn(cl), c.fpos(cl),
			"the loop over target bins is left only through new.LowerBound(out) < scaled upper bound; an empty intersection skips one bin and continues", firstNonEmpty(badExit, "ok"))
	}
	c.R.check(badSign == "" && nAdd > 0, rule4, shortFn(cl)+"/weight-nonnegative", shortFn(cl), c.fpos(cl),
		"every weight handed to the target store is provably ≥ 0 (overlap size guarded or clamped; count > 0 and upper−lower > 0 by axiom)", firstNonEmpty(badSign, fmt.Sprintf("%d add occurrence(s) guarded", nAdd)))
	c.R.assume("sign axioms: weights yielded by Store.ForEach are > 0 (dense/paginated iterators skip non-positive entries; sparse entries are created only by positive adds); old.LowerBound(i+1)·scale − old.LowerBound(i)·scale > 0 (LowerBound increasing, scale > 0 per the property's quantifier)")
	// callback never stops the iteration
	okStop := len(paths) > 0
	for _, p := range paths {
		if !p.RetT[0].isConst("false") {
			okStop = false
		}
	}
	c.R.check(okStop, rule3, shortFn(cl)+"/never-stops", shortFn(cl), c.fpos(cl), "the conversion callback returns false on every path (every source bin is converted)", "")
}

func runC11(c *Ctx) {
	const rule = "C11-D1"
	a, err := c.anchors()
	if err != nil {
		c.R.undecided("C11", "anchors", "", "", "sketch anchors resolve", err.Error())
		return
	}
	// weighted histories: the weight is forwarded unchanged to the side the value belongs to (D2), the rank is
	// q·(W−1) over the total weight and is split between the sides by their totals (D3), the stores select the
	// first bin whose cumulative weight exceeds the rank (D4), and reweighting scales all three parts (D5).
	c01Routing(c, a, "C11-D2")
	c01Split(c, a, "C11-D3")
	c01KeyAtRank(c, a, "C11-D4")
	c16Sketch(c, a, "C11-D5")
	c.shared(func() { c16Stores(c, a) }, func(o *Obligation) bool { return true })
	c10Wrappers(c, a, "C11-D6", "Reweight")
	// the batch query answers each quantile exactly like the single query (same clamps, same branch selection)
	c.shared(func() { c12Batch(c, a) }, func(o *Obligation) bool { return true })
	// "between the reported minimum and maximum": the extremes are read from the right end of the right store
	c.shared(func() { c12Extremes(c, a) }, func(o *Obligation) bool { return true })
	// the variant with exact statistics forwards value AND weight to the inner sketch
	c10Wrappers(c, a, "C11-D7", "AddWithCount")
	// … answers stay between the reported minimum and maximum: the exact variant clamps every answer, element by element
	c.shared(func() { c10Clamp(c, a) }, func(o *Obligation) bool { return true })
	// a sketch assembled from encoded parts carries the sum of their weights: decoders only accumulate
	c.shared(func() { c06Additive(c, a) }, func(o *Obligation) bool { return true })
	// a copy answers from its own weights and extremes, whatever happens to the original afterwards
	c.shared(func() { c14Copies(c, a) }, keyMentions("DDSketch"))
	// a weight is counted in the bin of its index, in every store kind: the add side of the stores
	c.shared(func() { c04AddPaths(c) }, func(o *Obligation) bool { return true })
	// an exact sketch that went through its binary form clamps with the same extremes: every real extreme — 0
	// included — is written, and read back into the accumulator of its flag
	c.shared(func() { c10EncodeGuards(c, a); c10Decode(c, a) }, func(o *Obligation) bool { return true })
	// quantile queries walk the paginated store's buffer in order: whoever appends to it (a decoder, a merge) keeps
	// the "sorted" cache honest, and the queries themselves leave the content alone
	if pr := c.paginated(); pr.err == "" {
		c.shared(func() { c14Purity(c, a, pr) }, keyMentions("KeyAtRank", "GetValueAtQuantile", "GetValuesAtQuantiles"))
		if pr.sortFlag != "" {
			c.shared(func() { c14SortFlag(c, pr) }, func(o *Obligation) bool { return true })
		}
	}
	// a change of mapping or unit is a history too: the shortcut for an unchanged mapping is taken only for a factor
	// of 1, and every overlapping target bin receives its share
	c.shared(func() { c17Table(c, a); c17Overlap(c, a) }, func(o *Obligation) bool { return true })
	// weights also arrive by merging: the sketch merge adds the zero weight and both sides on every accepting path
	// (a shortcut for an argument without bins drops the weight of its zero bucket)
	c.shared(func() { c02MergeTable(c, a) }, func(o *Obligation) bool { return true })
	f := c.P.DeclaredMethod(a.DDSketch, "GetValueAtQuantile")
	if !c.mustFunc(rule, f, "(*DDSketch).GetValueAtQuantile") {
		return
	}
	paths, _ := exec(c, f, nil, 1)
	nNeg := 0
	for i, p := range paths {
		if p.RetNil(1) != 1 {
			continue
		}
		// answers from the negative store?
		fromNeg := false
		p.RetT[0].walk(func(t *Term) bool {
			if isMethodCall(t, "KeyAtRank") && isRecvField(t.Args[0], a.negField) {
				fromNeg = true
			}
			return true
		})
		if !fromNeg {
			continue
		}
		nNeg++
		key := fmt.Sprintf("%s/path%d[%s]/negative-side-nonempty", shortFn(f), i, pathSig(p))
		ok := sideEmpty(p, a, a.negField) == -1
		why := "explicit non-emptiness evidence"
		if !ok {
			// rank < TotalCount(neg) taken, with rank >= 0
			for _, cd := range p.Conds {
				t := cd.Term
				if !(t.isBin("<") && cd.Taken && isMethodCall(t.Args[1], "TotalCount") && isRecvField(t.Args[1].Args[0], a.negField)) {
					continue
				}
				rank := t.Args[0]
				if rank.Op == "const" && !strings.HasPrefix(rank.Sym, "-") {
					ok = true
					why = "rank is the non-negative constant " + rank.Sym + " and rank < TotalCount()"
					break
				}
				if rank.Op == "call" && rank.Sym == "math.Max" && len(rank.Args) == 2 && (rank.Args[0].isConst("0") || rank.Args[1].isConst("0")) {
					ok = true
					why = "rank is math.Max(0, …) ≥ 0 and rank < TotalCount()"
					break
				}
				for _, c2 := range p.Conds {
					u := c2.Term
					if u.Op != "bin" || len(u.Args) != 2 {
						continue
					}
					x, y := u.Args[0], u.Args[1]
					if x.Key() == rank.Key() && y.isConst("0") && u.Sym == "<" && !c2.Taken { // !(rank < 0)
						ok = true
					}
					if y.Key() == rank.Key() && x.isConst("0") && (u.Sym == "<=" || u.Sym == "<") && c2.Taken { // 0 <= rank
						ok = true
					}
				}
				if ok {
					why = "rank ≥ 0 established on the path and rank < TotalCount()"
				} else {
					why = "rank " + rank.Key() + " is compared with TotalCount() but nothing on the path shows rank ≥ 0 (total weight below 1 makes it negative)"
				}
			}
		}
		c.R.check(ok, rule, key, shortFn(f), c.fpos(f), "the negative store is known non-empty on every path that answers from it", why)
	}
	c.R.floor(rule, "paths answering from the negative store", nNeg, 1)
	c.R.assume("sign axiom: Store.TotalCount() ≥ 0 and > rank ≥ 0 implies the store holds weight; NaN ranks cannot occur (q is validated, C13-D2)")
}
