package main

import (
	"sort"
	"strings"

	"golang.org/x/tools/go/ssa"
)

// sccs returns the strongly connected components of fn's CFG that contain a cycle (loops), outermost only.
func loopSCCs(fn *ssa.Function) [][]*ssa.BasicBlock {
	index := map[*ssa.BasicBlock]int{}
	low := map[*ssa.BasicBlock]int{}
	on := map[*ssa.BasicBlock]bool{}
	var stack []*ssa.BasicBlock
	var out [][]*ssa.BasicBlock
	n := 0
	var strong func(b *ssa.BasicBlock)
	strong = func(b *ssa.BasicBlock) {
		index[b] = n
		low[b] = n
		n++
		stack = append(stack, b)
		on[b] = true
		for _, s := range b.Succs {
			if _, ok := index[s]; !ok {
				strong(s)
				if low[s] < low[b] {
					low[b] = low[s]
				}
			} else if on[s] && index[s] < low[b] {
				low[b] = index[s]
			}
		}
		if low[b] == index[b] {
			var comp []*ssa.BasicBlock
			for {
				x := stack[len(stack)-1]
				stack = stack[:len(stack)-1]
				on[x] = false
				comp = append(comp, x)
				if x == b {
					break
				}
			}
			cyc := len(comp) > 1
			if !cyc {
				for _, s := range comp[0].Succs {
					if s == comp[0] {
						cyc = true
					}
				}
			}
			if cyc {
				sort.Slice(comp, func(i, j int) bool { return comp[i].Index < comp[j].Index })
				out = append(out, comp)
			}
		}
	}
	for _, b := range fn.Blocks {
		if _, ok := index[b]; !ok {
			strong(b)
		}
	}
	sort.Slice(out, func(i, j int) bool { return out[i][0].Index < out[j][0].Index })
	return out
}

// callGraph: static module call graph (invoke → module implementations, closures created count as called).
type callGraph struct {
	prog  *Program
	mod   *ModAnalysis
	succs map[*ssa.Function][]*ssa.Function
}

func newCallGraph(p *Program, m *ModAnalysis) *callGraph {
	return &callGraph{prog: p, mod: m, succs: map[*ssa.Function][]*ssa.Function{}}
}

func (g *callGraph) callees(f *ssa.Function) []*ssa.Function {
	if r, ok := g.succs[f]; ok {
		return r
	}
	set := map[*ssa.Function]bool{}
	for _, b := range f.Blocks {
		for _, in := range b.Instrs {
			switch in := in.(type) {
			case ssa.CallInstruction:
				com := in.Common()
				if com.IsInvoke() {
					for _, fn := range g.mod.implsOf(com.Value.Type(), com.Method) {
						set[fn] = true
					}
				} else {
					switch v := com.Value.(type) {
					case *ssa.Function:
						set[v] = true
					case *ssa.MakeClosure:
						set[v.Fn.(*ssa.Function)] = true
					}
				}
			case *ssa.MakeClosure:
				set[in.Fn.(*ssa.Function)] = true
			}
		}
	}
	var out []*ssa.Function
	for fn := range set {
		if inModule(fn) {
			out = append(out, fn)
		}
	}
	sort.Slice(out, func(i, j int) bool { return out[i].String() < out[j].String() })
	g.succs[f] = out
	return out
}

// reach returns the module functions reachable from roots (including roots).
func (g *callGraph) reach(roots ...*ssa.Function) map[*ssa.Function]bool {
	seen := map[*ssa.Function]bool{}
	var stack []*ssa.Function
	for _, r := range roots {
		if r != nil {
			stack = append(stack, r)
		}
	}
	for len(stack) > 0 {
		f := stack[len(stack)-1]
		stack = stack[:len(stack)-1]
		if seen[f] {
			continue
		}
		seen[f] = true
		stack = append(stack, g.callees(f)...)
	}
	return seen
}

func sortedFuncs(set map[*ssa.Function]bool) []*ssa.Function {
	var out []*ssa.Function
	for f := range set {
		out = append(out, f)
	}
	sort.Slice(out, func(i, j int) bool { return funcName(out[i]) < funcName(out[j]) })
	return out
}

// dispatch arms: group paths by which equality test against a constant selector value was taken.
// isSel recognises the selector side of `sel == K`; the label is the key of K.
func dispatchArms(paths []*Path, isSel func(t *Term) bool) (arms map[string][]*Path, order []string) {
	arms = map[string][]*Path{}
	for _, p := range paths {
		label := ""
		saw := false
		for _, c := range p.Conds {
			t := c.Term
			if t.Op != "bin" || t.Sym != "==" {
				continue
			}
			var k *Term
			if isSel(t.Args[0]) {
				k = t.Args[1]
			} else if isSel(t.Args[1]) {
				k = t.Args[0]
			} else {
				continue
			}
			saw = true
			if c.Taken {
				label = k.Key()
				break
			}
		}
		if !saw {
			continue
		}
		if label == "" {
			label = "default"
		}
		if _, ok := arms[label]; !ok {
			order = append(order, label)
		}
		arms[label] = append(arms[label], p)
	}
	return
}

func shortLabel(l string) string {
	l = strings.TrimPrefix(l, "global:")
	l = strings.TrimPrefix(l, "ddsketch/encoding.")
	return l
}
