package main

import (
	"sort"
	"strings"

	"golang.org/x/tools/go/ssa"
)

// sccs returns the strongly connected components of fn's CFG that contain a cycle (loops), outermost only.
func loopSCCs(fn *ssa.Function) [][]*ssa.BasicBlock {
	index := map[*ssa.BasicBlock]int{}
	low := map[*ssa.BasicBlock]int{}
	on := map[*ssa.BasicBlock]bool{}
	var stack []*ssa.BasicBlock
	var out [][]*ssa.BasicBlock
	n := 0
	var strong func(b *ssa.BasicBlock)
	strong = func(b *ssa.BasicBlock) {
		index[b] = n
		low[b] = n
		n++
		stack = append(stack, b)
		on[b] = true
		for _, s := range b.Succs {
			if _, ok := index[s]; !ok {
				strong(s)
				if low[s] < low[b] {
					low[b] = low[s]
				}
			} else if on[s] && index[s] < low[b] {
				low[b] = index[s]
			}
		}
		if low[b] == index[b] {
			var comp []*ssa.BasicBlock
			for {
				x := stack[len(stack)-1]
				stack = stack[:len(stack)-1]
				on[x] = false
				comp = append(comp, x)
				if x == b {
					break
				}
			}
			cyc := len(comp) > 1
			if !cyc {
				for _, s := range comp[0].Succs {
					if s == comp[0] {
						cyc = true
					}
				}
			}
			if cyc {
				sort.Slice(comp, func(i, j int) bool { return comp[i].Index < comp[j].Index })
				out = append(out, comp)
			}
		}
	}
	for _, b := range fn.Blocks {
		if _, ok := index[b]; !ok {
			strong(b)
		}
	}
	sort.Slice(out, func(i, j int) bool { return out[i][0].Index < out[j][0].Index })
	return out
}

// callGraph: static module call graph (invoke → module implementations, closures created count as called).
type callGraph struct {
	prog  *Program
	mod   *ModAnalysis
	succs map[*ssa.Function][]*ssa.Function
}

func newCallGraph(p *Program, m *ModAnalysis) *callGraph {
	return &callGraph{prog: p, mod: m, succs: map[*ssa.Function][]*ssa.Function{}}
}

func (g *callGraph) callees(f *ssa.Function) []*ssa.Function {
	if r, ok := g.succs[f]; ok {
		return r
	}
	set := map[*ssa.Function]bool{}
	for _, b := range f.Blocks {
		for _, in := range b.Instrs {
			switch in := in.(type) {
			case ssa.CallInstruction:
				com := in.Common()
				if com.IsInvoke() {
					for _, fn := range g.mod.implsOf(com.Value.Type(), com.Method) {
						set[fn] = true
					}
				} else {
					switch v := com.Value.(type) {
					case *ssa.Function:
						set[v] = true
					case *ssa.MakeClosure:
						set[v.Fn.(*ssa.Function)] = true
					}
				}
			case *ssa.MakeClosure:
				set[in.Fn.(*ssa.Function)] = true
			}
		}
	}
	var out []*ssa.Function
	for fn := range set {
		if inModule(fn) {
			out = append(out, fn)
		}
	}
	sort.Slice(out, func(i, j int) bool { return out[i].String() < out[j].String() })
	g.succs[f] = out
	return out
}

// reach returns the module functions reachable from roots (including roots).
func (g *callGraph) reach(roots ...*ssa.Function) map[*ssa.Function]bool {
	seen := map[*ssa.Function]bool{}
	var stack []*ssa.Function
	for _, r := range roots {
		if r != nil {
			stack = append(stack, r)
		}
	}
	for len(stack) > 0 {
		f := stack[len(stack)-1]
		stack = stack[:len(stack)-1]
		if seen[f] {
			continue
		}
		seen[f] = true
		stack = append(stack, g.callees(f)...)
	}
	return seen
}

func sortedFuncs(set map[*ssa.Function]bool) []*ssa.Function {
	var out []*ssa.Function
	for f := range set {
		out = append(out, f)
	}
	sort.Slice(out, func(i, j int) bool { return funcName(out[i]) < funcName(out[j]) })
	return out
}

// dispatch arms: group paths by which equality test against a constant selector value was taken.
// isSel recognises the selector side of `sel == K`; the label is the key of K.
func dispatchArms(paths []*Path, isSel func(t *Term) bool) (arms map[string][]*Path, order []string) {
	arms = map[string][]*Path{}
	for _, p := range paths {
		label := ""
		saw := false
		// a path that holds the selector equal to two different keys, or equal and unequal to the same key, is not a
		// path of the program (the executor does not relate `sel != K1` refuted to a later `sel == K2` taken)
		eqs, neqs := map[string]bool{}, map[string]bool{}
		for _, c := range p.Conds {
			t := c.Term
			if t.Op != "bin" || t.Sym != "==" && t.Sym != "!=" {
				continue
			}
			var k *Term
			if isSel(t.Args[0]) {
				k = t.Args[1]
			} else if isSel(t.Args[1]) {
				k = t.Args[0]
			} else {
				continue
			}
			if k.Op != "global" && k.Op != "const" {
				continue
			}
			if c.Taken == (t.Sym == "==") {
				eqs[k.Key()] = true
			} else {
				neqs[k.Key()] = true
			}
		}
		infeasible := len(eqs) > 1
		for k := range eqs {
			if neqs[k] {
				infeasible = true
			}
		}
		if infeasible {
			continue
		}
		for _, c := range p.Conds {
			t := c.Term
			if t.Op != "bin" || t.Sym != "==" && t.Sym != "!=" {
				continue
			}
			var k *Term
			if isSel(t.Args[0]) {
				k = t.Args[1]
			} else if isSel(t.Args[1]) {
				k = t.Args[0]
			} else {
				continue
			}
			saw = true
			if c.Taken == (t.Sym == "==") { // `sel == k` taken, or `sel != k` refuted (an if-chain written with !=)
				label = k.Key()
				break
			}
		}
		if !saw {
			continue
		}
		if label == "" {
			label = "default"
		}
		if _, ok := arms[label]; !ok {
			order = append(order, label)
		}
		arms[label] = append(arms[label], p)
	}
	return
}

func shortLabel(l string) string {
	l = strings.TrimPrefix(l, "global:")
	l = strings.TrimPrefix(l, "ddsketch/encoding.")
	return l
}

// countingLoop describes `for i := init; i <op> bound; i += step { … }` recovered from SSA.
type countingLoop struct {
	Header   *ssa.BasicBlock
	Blocks   map[*ssa.BasicBlock]bool
	Phi      *ssa.Phi
	Init     *Term
	StepOne  bool   // i = i + 1
	StepDown bool   // i = i - 1
	Cond     *Term  // header condition with the induction variable written as `iv`
	CondOp   string // as oriented by the term normal form: "<" or "<="
	IVLeft   bool   // induction variable is the left operand of Cond
	Bound    *Term  // the other operand
	StayTrue bool   // the loop continues when Cond is true
	BoundAdj int    // added to Bound (−1 for rotated `range` loops that test i+1)
}

// countingLoops recovers the counting loops of fn. tc must not be path-bound.
func countingLoops(p *Program, fn *ssa.Function) []countingLoop {
	var out []countingLoop
	tc := newTermCtx(p)
	for _, nl := range naturalLoops(fn) {
		in := nl.body
		{
			h := nl.header
			iff, ok := h.Instrs[len(h.Instrs)-1].(*ssa.If)
			if !ok {
				continue
			}
			for _, ins := range h.Instrs {
				phi, ok := ins.(*ssa.Phi)
				if !ok || len(phi.Edges) != 2 {
					continue
				}
				var init, next ssa.Value
				for i, pr := range h.Preds {
					if in[pr] {
						next = phi.Edges[i]
					} else {
						init = phi.Edges[i]
					}
				}
				if init == nil || next == nil {
					continue
				}
				bo, ok := next.(*ssa.BinOp)
				if !ok {
					continue
				}
				one := func(v ssa.Value) bool {
					c, ok := v.(*ssa.Const)
					return ok && c.Value != nil && c.Value.ExactString() == "1"
				}
				cl := countingLoop{Header: h, Blocks: in, Phi: phi, Init: tc.Of(init)}
				switch {
				case bo.Op.String() == "+" && (bo.X == ssa.Value(phi) && one(bo.Y) || bo.Y == ssa.Value(phi) && one(bo.X)):
					cl.StepOne = true
				case bo.Op.String() == "-" && bo.X == ssa.Value(phi) && one(bo.Y):
					cl.StepDown = true
				default:
					continue
				}
				// condition on the induction variable
				cb, ok := iff.Cond.(*ssa.BinOp)
				if !ok {
					continue
				}
				var other ssa.Value
				ivLeft := false
				adj := 0
				if cb.X == ssa.Value(phi) {
					other, ivLeft = cb.Y, true
				} else if cb.Y == ssa.Value(phi) {
					other = cb.X
				} else if cl.StepOne && cb.X == next {
					// rotated range loop: tests i+1 < n, i.e. i < n-1
					other, ivLeft, adj = cb.Y, true, -1
				} else if cl.StepOne && cb.Y == next {
					other, adj = cb.X, -1
				} else {
					continue
				}
				cl.BoundAdj = adj
				op := cb.Op.String()
				// orient as the term normal form does
				switch op {
				case ">":
					op, ivLeft = "<", !ivLeft
				case ">=":
					op, ivLeft = "<=", !ivLeft
				}
				cl.CondOp, cl.IVLeft, cl.Bound = op, ivLeft, tc.Of(other)
				cl.StayTrue = in[h.Succs[0]]
				out = append(out, cl)
			}
		}
	}
	return out
}

// linAdd returns a+b*k for linear forms.
func linCombine(a *Linear, b *Linear, k int) *Linear {
	out := &Linear{Coef: map[string]int{}, Atoms: map[string]*Term{}, Exact: a.Exact && b.Exact, Const: a.Const + k*b.Const}
	for key, v := range a.Coef {
		out.Coef[key] += v
		out.Atoms[key] = a.Atoms[key]
	}
	for key, v := range b.Coef {
		out.Coef[key] += k * v
		out.Atoms[key] = b.Atoms[key]
	}
	for key, v := range out.Coef {
		if v == 0 {
			delete(out.Coef, key)
			delete(out.Atoms, key)
		}
	}
	return out
}

// elementRange: for a counting loop (step +1) and the term of an element index used in its body,
// the linear forms of the first and the last element index touched. ok=false if the index is not
// affine in the induction variable with coefficient 1.
func elementRange(l countingLoop, elemIdx *Term) (first, last *Linear, ok bool) {
	if !l.StepOne || !l.StayTrue || !l.IVLeft {
		return nil, nil, false
	}
	li := linearOf(elemIdx)
	// the induction variable appears as the φ term (or "cycle") — identify it by ssa value
	ivKey := ""
	for k, t := range li.Atoms {
		if t.V == ssa.Value(l.Phi) {
			ivKey = k
		}
	}
	if ivKey == "" || li.Coef[ivKey] != 1 {
		return nil, nil, false
	}
	rest := &Linear{Coef: map[string]int{}, Atoms: map[string]*Term{}, Exact: true, Const: li.Const}
	for k, v := range li.Coef {
		if k != ivKey {
			rest.Coef[k] = v
			rest.Atoms[k] = li.Atoms[k]
		}
	}
	init := linearOf(l.Init)
	bound := linearOf(l.Bound)
	first = linCombine(init, rest, 1)
	last = linCombine(bound, rest, 1)
	last.Const += l.BoundAdj
	if l.CondOp == "<" {
		last.Const--
	}
	return first, last, true
}

// windowForms: the linear forms minIndex−offset and maxIndex−offset of a dense-store receiver term.
func isWindowRange(first, last *Linear, recvIs func(t *Term) bool) bool {
	chk := func(l *Linear, fld string) bool {
		if l.Const != 0 || len(l.Coef) != 2 {
			return false
		}
		seenF, seenO := false, false
		for k, v := range l.Coef {
			t := l.Atoms[k].unver()
			if t.Op != "field" || !recvIs(t.Args[0]) {
				return false
			}
			if t.Sym == fld && v == 1 {
				seenF = true
			}
			if t.Sym == dr.offset && v == -1 {
				seenO = true
			}
		}
		return seenF && seenO
	}
	return chk(first, dr.minIndex) && chk(last, dr.maxIndex)
}

// isWholeArrayRange: 0 … len(x)−1
func isWholeArrayRange(first, last *Linear) bool {
	if len(first.Coef) != 0 || first.Const != 0 || last.Const != -1 || len(last.Coef) != 1 {
		return false
	}
	for k, v := range last.Coef {
		t := last.Atoms[k]
		if v == 1 && t.Op == "builtin" && t.Sym == "len" {
			return true
		}
	}
	return false
}

type natLoop struct {
	header *ssa.BasicBlock
	body   map[*ssa.BasicBlock]bool
}

// naturalLoops: one loop per header that is the target of a back edge (an edge t→h with h dominating t).
func naturalLoops(fn *ssa.Function) []natLoop {
	loops := map[*ssa.BasicBlock]*natLoop{}
	var order []*ssa.BasicBlock
	for _, t := range fn.Blocks {
		for _, h := range t.Succs {
			if !h.Dominates(t) {
				continue
			}
			l := loops[h]
			if l == nil {
				l = &natLoop{header: h, body: map[*ssa.BasicBlock]bool{h: true}}
				loops[h] = l
				order = append(order, h)
			}
			stack := []*ssa.BasicBlock{t}
			for len(stack) > 0 {
				x := stack[len(stack)-1]
				stack = stack[:len(stack)-1]
				if l.body[x] {
					continue
				}
				l.body[x] = true
				stack = append(stack, x.Preds...)
			}
		}
	}
	var out []natLoop
	for _, h := range order {
		out = append(out, *loops[h])
	}
	return out
}
