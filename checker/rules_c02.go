package main

import (
	"fmt"
	"go/types"
	"strings"

	"golang.org/x/tools/go/ssa"
)

// C02 — sketches are fully mergeable.

func init() {
	register("C02",
		"DECIDED: D1 merge effect table of DDSketch.MergeWith — on every path on which the mappings are equal, the positive store is merged with the argument's positive store, the negative with the negative and the argument's zero weight is added to the receiver's, each exactly once; a part may be skipped only under evidence on that same path that the argument's part is empty (an early return that forgets the zero bucket is reported). The exact variant's discipline is C10-D1. "+
			"D2 the argument is neither modified nor captured — for all MergeWith implementations (2 sketches, statistics, every Store implementation) the observable write set rooted at the argument is empty and no reference into the argument is stored into the receiver (alias analysis: `*s = *o`, `s.bins = o.bins` style sharing is reported). "+
			"D3 any store kind is accepted — every type assertion on the argument is comma-ok, the non-matching branch iterates the argument with ForEach and a callback that re-adds (index, count) through the receiver's own AddWithCount and never stops the iteration; the paginated fast path is additionally conditioned on equal page size. "+
			"D4 cached totals follow — in the dense family every path that adds argument bins into the receiver's array also adds the argument's cached total; the empty-argument shortcut writes nothing. "+
			"SHARED (obligations of other properties that decide clauses this property states too, re-evaluated here under their home rule ids): C10-D3 MergeWith as C02-D5 (the statistics object of the exact variant folds every accumulator of the argument and updates min and max independently of each other). C19-D2/D3 (Equals of the mappings — sketches with the same mapping must be mergeable, so Equals must hold for a mapping and itself: symmetric tolerance table over absolute values). C15-D2 and, as C02-D6, the Clear of the statistics object and of the exact variant's wrapper (a cleared sketch is an empty part: merging it is a no-op only if Clear restores the constructor's value of every field, the ±Inf extremes included). C15-D1 for every store (Clear covers every field the queries read: a cleared store merged into reports the extremes of what it holds now). C04-D2/D3/D4/D8 for the non-collapsing stores (the read side — totals, emptiness, extreme indexes — and the iterators a cross-kind merge walks the argument with). C04-D1/D2/D3/D5/D6/D9 and C05-D8 for the non-collapsing stores (the add side: unit adds and the weighted adds of a merge count in the bin of the index). The AddWithCount row of the exact variant's wrapper as C02-D6 (a weight of zero leaves the statistics alone: a sketch that absorbed nothing merges as a no-op). C04-D9 for the paginated MergeWith (pages through the accessor; a slot pages[x − first] uses the table and its base of the same moment, no table-growing call in between). The sorted-flag typestate of the paginated store when it has one (a merge that appends to the buffer lowers the flag). C14-D2 for the two sketch types (a copy shares nothing with its original, so a part that is a copy stays independent of the receiver it was copied from). "+
			"NOT DECIDED: equality of bin contents for all partitions and merge trees (follows from per-index additivity, which is C04's numeric core), associativity of float addition.",
		"one obligation per path of the sketch merge table, per MergeWith implementation × (write set, capture set, assertion, fallback, cached total); non-trivial = needed a path / mod-set evaluation",
		false, runC02)
}

func runC02(c *Ctx) {
	a, err := c.anchors()
	if err != nil {
		c.R.undecided("C02", "anchors", "", "", "sketch anchors resolve", err.Error())
		return
	}
	c02MergeTable(c, a)
	c02ArgUntouched(c, a, "C02-D2")
	c02AnyKind(c, a)
	c02DenseAdds(c, "C02-D4")
	// "bin contents, count, extremes … identical": what a merged sketch reports is read from its stores (totals,
	// emptiness, extreme indexes), and a merge from another store kind walks the argument with its iterator (every bin
	// once, empty entries skipped, the paginated iterators in sorted order)
	c.shared(func() { c04Readers(c) }, func(o *Obligation) bool {
		return !strings.Contains(o.Key, "Collapsing") && !strings.Contains(o.Func, "Collapsing")
	})
	if storeI := c.P.NamedType(pkgStore, "Store"); storeI != nil {
		c.shared(func() { c04Iteration(c, c.P.Implementations(storeI), "C04-D3") }, func(o *Obligation) bool {
			return !strings.Contains(o.Key, "Collapsing") && !strings.Contains(o.Func, "Collapsing")
		})
	}
	// a part merged from another store kind arrives bin by bin through the receiver's AddWithCount, a part fed directly
	// through Add: both count in the bin of the index (the add side of the non-collapsing stores)
	c.shared(func() { c04AddPaths(c) }, func(o *Obligation) bool {
		return !strings.Contains(o.Key, "Collapsing") && !strings.Contains(o.Func, "Collapsing")
	})
	// the exact variant merges its statistics too: every accumulator folded, min with <, max with > independently
	c10StatObject(c, a, "C02-D5", "MergeWith")
	// a merge is refused when the mappings are not Equal: a mapping must at least equal itself and its copies
	c.shared(func() { c19Equals(c, mappingInfos(c, "C02")) }, func(o *Obligation) bool { return true })
	// "incl. empty and cleared sketches": merging a cleared sketch is a no-op only if Clear restores the empty state —
	// of the sketch (C15-D2), of the exact variant's statistics (their Clear restores the constructor's value of every
	// field: the extremes of an empty part are ±Inf, not 0) and of its wrapper
	c.shared(func() { c15Sketch(c, a) }, func(o *Obligation) bool { return true })
	c10StatObject(c, a, "C02-D6", "Clear")
	c10Wrappers(c, a, "C02-D6", "Clear")
	// "merging an empty sketch is a no-op": a sketch that absorbed no weight holds the statistics of an empty one — the
	// exact variant's AddWithCount leaves them alone for a weight of zero (the statistics' Add would record the value
	// as an extreme, and the statistics' merge takes the argument's extremes as they are)
	c10Wrappers(c, a, "C02-D6", "AddWithCount")
	// parts of a partition are independent objects: a Copy of a sketch (either variant) shares nothing with its
	// original, so merging into one leaves the other — possibly the argument — untouched
	c.shared(func() { c14Copies(c, a) }, keyMentions("DDSketch"))
	// cleared stores as parts: every store's Clear covers every field its queries read (a sparse store that keeps
	// weightless keys reports stale extremes once it is merged into)
	if pr := c.paginated(); pr.err == "" {
		storeI, dense := c.P.NamedType(pkgStore, "Store"), c.P.NamedType(pkgStore, "DenseStore")
		if storeI != nil && dense != nil {
			for _, t := range c.P.Implementations(storeI) {
				t := t
				c.shared(func() { c15ClearCovers(c, t, dense, pr) }, func(o *Obligation) bool { return true })
			}
		}
		// the same-kind merge of the paginated store works on the receiver's page table while it adds to the receiver:
		// pages are reached through the accessor, and a slot is computed from the table's base of the same moment
		c.shared(func() { c04PageTable(c, pr, "C04-D9"); c04PageUse(c, pr, "C04-D9") }, keyMentions("MergeWith"))
		// a merge that appends to the paginated store's buffer keeps its "buffer is sorted" cache honest
		if pr.sortFlag != "" {
			c.shared(func() { c14SortFlag(c, pr) }, func(o *Obligation) bool { return true })
		}
	}
}

// argument-part emptiness evidence on a path: other.<fld>.IsEmpty() taken / other.IsEmpty() taken / other.zero == 0
func argPartEmpty(p *Path, a *sketchAnchors, part string) bool {
	isArgFld := func(t *Term, fld string) bool {
		t = t.unver()
		return t != nil && t.Op == "field" && t.Sym == fld && t.Args[0].isParam(1)
	}
	for _, cd := range p.Conds {
		t := cd.Term
		switch part {
		case "pos", "neg":
			fld := a.posField
			if part == "neg" {
				fld = a.negField
			}
			if isMethodCall(t, "IsEmpty") && len(t.Args) == 1 && isArgFld(t.Args[0], fld) && cd.Taken {
				return true
			}
		case "zero":
			if t.Op == "bin" && len(t.Args) == 2 {
				for i := 0; i < 2; i++ {
					if isArgFld(t.Args[i], a.zeroField) && t.Args[1-i].isConst("0") {
						if t.Sym == "==" && cd.Taken || t.Sym == "!=" && !cd.Taken {
							return true
						}
						if t.Sym == "<" && i == 1 && !cd.Taken { // !(0 < zero)
							return true
						}
					}
				}
			}
		}
		// whole-argument emptiness
		if isMethodCall(t, "IsEmpty") && len(t.Args) == 1 && t.Args[0].isParam(1) && strings.Contains(t.Sym, "DDSketch)") && cd.Taken {
			return true
		}
	}
	return false
}

func c02MergeTable(c *Ctx, a *sketchAnchors) {
	const rule = "C02-D1"
	f := c.P.DeclaredMethod(a.DDSketch, "MergeWith")
	if !c.mustFunc(rule, f, "(*DDSketch).MergeWith") {
		return
	}
	paths, _ := exec(c, f, nil, 1)
	n := 0
	for i, p := range paths {
		if p.RetNil(0) == -1 {
			continue // refusals are C13-D3
		}
		n++
		key := fmt.Sprintf("%s/path%d[%s]", shortFn(f), i, pathSig(p))
		npos, nneg, nzero := 0, 0, 0
		other := ""
		for _, e := range p.Writes() {
			switch {
			case e.Kind == "call" && isMethodCall(e.Call, "MergeWith") && len(e.Call.Args) == 2:
				r, o := e.Call.Args[0], e.Call.Args[1]
				argFld := func(fld string) bool { return o.Op == "field" && o.Sym == fld && o.Args[0].isParam(1) }
				switch {
				case isRecvField(r, a.posField) && argFld(a.posField):
					npos++
				case isRecvField(r, a.negField) && argFld(a.negField):
					nneg++
				default:
					other = "store merge pairs the wrong sides: " + e.String()
				}
			case e.Kind == "store" && isRecvField(e.Addr, a.zeroField):
				v := e.Val
				ok := v.isBin("+")
				if ok {
					x, y := v.Args[0], v.Args[1]
					isArgZero := func(t *Term) bool { return t.Op == "field" && t.Sym == a.zeroField && t.Args[0].isParam(1) }
					ok = isRecvField(x, a.zeroField) && isArgZero(y) || isRecvField(y, a.zeroField) && isArgZero(x)
				}
				if ok {
					nzero++
				} else {
					other = "zero weight is not `receiver.zero + argument.zero`: " + e.String()
				}
			default:
				other = "unexpected effect: " + e.String()
			}
		}
		var miss []string
		if npos == 0 && !argPartEmpty(p, a, "pos") {
			miss = append(miss, "positive store not merged")
		}
		if nneg == 0 && !argPartEmpty(p, a, "neg") {
			miss = append(miss, "negative store not merged")
		}
		if nzero == 0 && !argPartEmpty(p, a, "zero") {
			miss = append(miss, "zero weight not added")
		}
		if npos > 1 || nneg > 1 || nzero > 1 {
			miss = append(miss, fmt.Sprintf("a part is merged more than once (pos=%d neg=%d zero=%d)", npos, nneg, nzero))
		}
		if other != "" {
			miss = append(miss, other)
		}
		c.R.check(len(miss) == 0, rule, key, shortFn(f), c.fpos(f),
			"positive←positive, negative←negative, zero+=zero, each exactly once (a part may be skipped only under evidence that the argument's part is empty)",
			firstNonEmpty(strings.Join(miss, "; "), fmt.Sprintf("pos=%d neg=%d zero=%d", npos, nneg, nzero))+" on ["+p.String()+"]")
	}
	c.R.floor(rule, "success paths of DDSketch.MergeWith", n, 1)
}

type mergeImpl struct {
	name string
	f    *ssa.Function
	t    *types.Named
}

func mergeImpls(c *Ctx, a *sketchAnchors) []mergeImpl {
	var out []mergeImpl
	for _, t := range []*types.Named{a.DDSketch, a.Exact, c.P.NamedType(pkgStat, "SummaryStatistics")} {
		if f := c.P.DeclaredMethod(t, "MergeWith"); f != nil {
			out = append(out, mergeImpl{t.Obj().Name(), f, t})
		}
	}
	for _, t := range c.P.Implementations(c.P.NamedType(pkgStore, "Store")) {
		if f := c.P.DeclaredMethod(t, "MergeWith"); f != nil {
			out = append(out, mergeImpl{t.Obj().Name(), f, t})
		}
	}
	return out
}

func c02ArgUntouched(c *Ctx, a *sketchAnchors, rule string) {
	if pr := c.paginated(); pr.err != "" {
		c.R.undecided(rule, "anchor/paginated-routines", "", "", "sort/compaction routines resolve by role", pr.err)
		return
	}
	impls := mergeImpls(c, a)
	for _, mi := range impls {
		checkNoObservableWrite(c, rule, mi.name+".MergeWith/argument-unmodified", mi.f, 1, "argument")
		caps := c.Mod.CapturesFrom(mi.f, 0, 1)
		c.R.check(len(caps) == 0, rule, mi.name+".MergeWith/argument-not-captured", shortFn(mi.f), c.fpos(mi.f),
			"no reference into the argument is stored into the receiver (they must stay independent after the merge)", firstNonEmpty(strings.Join(caps, "; "), "capture set empty"))
	}
	c.R.floor(rule, "MergeWith implementations", len(impls), 8)
	// promoted MergeWith would bypass the type's own storage discipline
	for _, t := range c.P.Implementations(c.P.NamedType(pkgStore, "Store")) {
		c.R.check(c.P.DeclaredMethod(t, "MergeWith") != nil, rule, t.Obj().Name()+".MergeWith/declared", t.Obj().Name(), "", "every store kind declares its own MergeWith", "")
	}
}

func c02AnyKind(c *Ctx, a *sketchAnchors) {
	const rule3, rule4 = "C02-D3", "C02-D4"
	storeI := c.P.NamedType(pkgStore, "Store")
	n := 0
	for _, t := range c.P.Implementations(storeI) {
		f := c.P.DeclaredMethod(t, "MergeWith")
		if f == nil {
			continue
		}
		n++
		tname := t.Obj().Name()
		// (a) comma-ok assertions only
		for _, b := range f.Blocks {
			for _, in := range b.Instrs {
				if ta, ok := in.(*ssa.TypeAssert); ok {
					if p, ok := ta.X.(*ssa.Parameter); ok && p == f.Params[1] {
						c.R.check(ta.CommaOk, rule3, tname+".MergeWith/assertion-comma-ok", shortFn(f), c.ipos(ta), "type assertion on the argument is comma-ok (a foreign store kind must not panic)", ta.String())
					}
				}
			}
		}
		paths, complete := exec(c, f, nil, 2)
		if !complete {
			c.R.undecided(rule3, tname+".MergeWith/paths", shortFn(f), c.fpos(f), "path enumeration completes", "too many paths")
			continue
		}
		// (b) generic branch
		nGeneric := 0
		bad := ""
		var fastPaths []*Path
		for _, p := range paths {
			// a path is "generic" when no assertion succeeded on it
			fast := false
			for _, cd := range p.Conds {
				if cd.Term.Op == "extract" && cd.Term.Sym == "1" && cd.Term.Args[0].Op == "assert" && cd.Taken {
					fast = true
				}
			}
			hasGeneric := false
			for _, e := range p.Calls() {
				if isMethodCall(e.Call, "ForEach") && len(e.Call.Args) == 2 && e.Call.Args[0].isParam(1) {
					hasGeneric = true
				}
			}
			if fast && !hasGeneric {
				fastPaths = append(fastPaths, p)
				continue
			}
			// early return on an empty argument
			if len(p.Writes()) == 0 {
				if taken, found := pathCond(p, func(t *Term) bool { return isMethodCall(t, "IsEmpty") && t.Args[0].isParam(1) }); found && taken {
					continue
				}
			}
			var fe *Effect
			for j := range p.Effects {
				e := &p.Effects[j]
				if e.Kind == "call" && isMethodCall(e.Call, "ForEach") && len(e.Call.Args) == 2 && e.Call.Args[0].isParam(1) {
					fe = e
				}
			}
			if fe == nil {
				bad = "path for a foreign store kind does not iterate the argument: [" + p.String() + "] " + describeWrites(p)
				continue
			}
			nGeneric++
			mc, _ := fe.Call.Args[1].V.(*ssa.MakeClosure)
			if mc == nil {
				bad = "ForEach callback is not a closure"
				continue
			}
			cl := mc.Fn.(*ssa.Function)
			cps, _ := exec(c, cl, nil, 1)
			for _, cp := range cps {
				ws := cp.Writes()
				ok := len(ws) == 1 && ws[0].Kind == "call" && isMethodCall(ws[0].Call, "AddWithCount") && len(ws[0].Call.Args) == 3 &&
					ws[0].Call.Args[0].isRecv() && ws[0].Call.Args[1].isParam(0) && ws[0].Call.Args[2].isParam(1)
				if ok {
					// the receiver's OWN AddWithCount (not the embedded type's)
					ok = strings.Contains(ws[0].Call.Sym, "."+tname+")")
				}
				if !ok {
					bad = "fallback callback does not re-add (index, count) through " + tname + ".AddWithCount: " + describeWrites(cp)
				}
				if !cp.RetT[0].isConst("false") {
					bad = "fallback callback may stop the iteration early: " + describeRet(cp)
				}
			}
		}
		c.R.check(bad == "" && nGeneric > 0, rule3, tname+".MergeWith/generic-fallback", shortFn(f), c.fpos(f),
			"a store of another kind is merged by ForEach + the receiver's own AddWithCount, never stopping early", firstNonEmpty(bad, fmt.Sprintf("%d generic path(s), %d fast path(s)", nGeneric, len(fastPaths))))

		// (c) paginated: fast path conditioned on equal page size
		if pr := c.paginated(); pr.err == "" && t == pr.typ && len(fastPaths) > 0 {
			shift := pageShiftField(c, pr)
			bad := ""
			if shift == "" {
				bad = "cannot resolve the page-size field (the field pageIndex shifts by)"
			}
			for _, p := range fastPaths {
				ok := false
				for _, cd := range p.Conds {
					tm := cd.Term
					if tm.isBin("==") && cd.Taken {
						x, y := tm.Args[0], tm.Args[1]
						isO := func(z *Term) bool {
							return z.Op == "field" && z.Sym == shift && z.Args[0].Op == "extract" && z.Args[0].Args[0].Op == "assert"
						}
						if isRecvField(x, shift) && isO(y) || isRecvField(y, shift) && isO(x) {
							ok = true
						}
					}
				}
				if !ok {
					bad = "page-wise fast path taken without checking that both stores use the same page size"
				}
			}
			c.R.check(bad == "", rule3, tname+".MergeWith/fast-path-same-page-size", shortFn(f), c.fpos(f), "the page-wise fast path requires equal "+shift, firstNonEmpty(bad, fmt.Sprintf("%d fast path(s) guarded", len(fastPaths))))
		}

		// D4: dense family cached total
		if cnt := denseCountField(c, t); cnt != nil && len(fastPaths) > 0 {
			bad, badWin := "", ""
			nAdd := 0
			for _, p := range fastPaths {
				addsBins, addsCount := false, false
				for _, e := range p.Effects {
					if e.Kind == "store" && e.Addr.Op == "index" && e.Val.isBin("+") {
						addsBins = true
					}
					if e.Kind == "store" && termIsRecvPath(e.Addr, cnt) && e.Val.isBin("+") {
						x, y := e.Val.Args[0], e.Val.Args[1]
						isO := func(z *Term) bool {
							z = z.unver()
							for i := len(cnt) - 1; i >= 0; i-- {
								if z.Op != "field" || z.Sym != cnt[i] {
									return false
								}
								z = z.Args[0]
							}
							return z.Op == "extract" && z.Args[0].Op == "assert"
						}
						if termIsRecvPath(x, cnt) && isO(y) || termIsRecvPath(y, cnt) && isO(x) {
							addsCount = true
						}
					}
					if e.Kind == "call" && !e.Pure && isMethodCall(e.Call, "extendRange") {
						addsBins = true // the window was extended for the argument's range: bins follow on the completed path
					}
				}
				if addsBins {
					nAdd++
					if !addsCount {
						bad = "argument bins are added but the cached total is not: [" + p.String() + "]"
					}
					// the receiver's window covers the argument's before bins are added: either it was extended to the
					// argument's range on this path, or both "argument reaches beyond" tests were made and failed
					if !c02WindowCovers(p) {
						badWin = "argument bins are added on a path that neither extends the receiver's window to the argument's range nor found it covered already: [" + p.String() + "]"
					}
				}
			}
			c.R.check(badWin == "" && nAdd > 0, rule4, tname+".MergeWith/window-covers-argument", shortFn(f), c.fpos(f), "every same-kind path that adds the argument's bins has extended the receiver's window to [o.minIndex, o.maxIndex] or tested that it already covers it (otherwise the added bins stay outside minIndex…maxIndex and are invisible to iteration and extremes)", firstNonEmpty(badWin, fmt.Sprintf("%d adding path(s)", nAdd)))
			c.R.check(bad == "" && nAdd > 0, rule4, tname+".MergeWith/cached-total-follows", shortFn(f), c.fpos(f), "every same-kind path that adds the argument's bins also adds its cached total to the receiver's", firstNonEmpty(bad, fmt.Sprintf("%d adding path(s)", nAdd)))
		}
		// empty-argument shortcut writes nothing
		for i, p := range paths {
			if taken, found := pathCond(p, func(t *Term) bool { return isMethodCall(t, "IsEmpty") && t.Args[0].isParam(1) }); found && taken && len(p.Conds) == 1 {
				c.R.check(len(p.Writes()) == 0, rule4, fmt.Sprintf("%s.MergeWith/path%d/empty-argument-noop", tname, i), shortFn(f), c.fpos(f), "merging an empty store writes nothing", describeWrites(p))
			}
		}
	}
	c.R.floor(rule3, "Store.MergeWith implementations", n, 5)
}

// pageShiftField: the receiver field pageIndex() shifts the index by.
func pageShiftField(c *Ctx, pr *paginatedRoles) string {
	for i := 0; i < pr.typ.NumMethods(); i++ {
		f := c.P.SSA.FuncValue(pr.typ.Method(i))
		if f == nil || len(f.Blocks) != 1 || len(f.Params) != 2 {
			continue
		}
		ret, ok := f.Blocks[0].Instrs[len(f.Blocks[0].Instrs)-1].(*ssa.Return)
		if !ok || len(ret.Results) != 1 {
			continue
		}
		tc := newTermCtx(c.P)
		tc.inline = false
		t := tc.Of(ret.Results[0])
		if t.isBin(">>") && t.Args[0].isParam(1) {
			x := t.Args[1]
			for x.Op == "conv" {
				x = x.Args[0]
			}
			if x.Op == "field" && x.Args[0].isParam(0) {
				return x.Sym
			}
		}
	}
	return ""
}

// denseCountField: for a store of the dense family, the path of the cached-total field (returned by TotalCount()).
func denseCountField(c *Ctx, t *types.Named) []string {
	f := c.P.MethodOf(t, "TotalCount")
	if f == nil {
		return nil
	}
	if f.Synthetic != "" {
		f = underlyingOfWrapper(f)
	}
	if f == nil || len(f.Blocks) != 1 {
		return nil
	}
	ret, ok := f.Blocks[0].Instrs[len(f.Blocks[0].Instrs)-1].(*ssa.Return)
	if !ok || len(ret.Results) != 1 {
		return nil
	}
	tc := newTermCtx(c.P)
	tc.inline = false
	x := tc.Of(ret.Results[0])
	if x.Op != "field" || !x.Args[0].isParam(0) {
		return nil
	}
	// path from t to the field (through the embedded struct if TotalCount is promoted)
	for _, ff := range flatFields(t, "") {
		if ff.path[len(ff.path)-1] == x.Sym {
			return ff.path
		}
	}
	return nil
}

// c02WindowCovers: on this same-kind merge path of a dense-family store the receiver's window is known to cover
// the argument's: extendRange was called with the argument's (min, max), or the two tests
// `o.minIndex < s.minIndex` and `o.maxIndex > s.maxIndex` were both evaluated and false.
func c02WindowCovers(p *Path) bool {
	fromArg := func(t *Term, fld string) bool {
		t = t.unver()
		if t.Op != "field" || t.Sym != fld {
			return false
		}
		for x := t.Args[0]; x != nil; {
			x = x.unver()
			if x.Op == "extract" && len(x.Args) > 0 && x.Args[0].Op == "assert" {
				return true
			}
			if x.Op != "field" || len(x.Args) == 0 {
				return false
			}
			x = x.Args[0]
		}
		return false
	}
	fromRecv := func(t *Term, fld string) bool {
		t = t.unver()
		if t.Op != "field" || t.Sym != fld {
			return false
		}
		for x := t.Args[0]; x != nil; {
			x = x.unver()
			if x.isParam(0) {
				return true
			}
			if x.Op != "field" || len(x.Args) == 0 {
				return false
			}
			x = x.Args[0]
		}
		return false
	}
	for _, e := range p.Effects {
		if e.Kind == "call" && isMethodCall(e.Call, "extendRange") && len(e.Call.Args) == 3 && fromArg(e.Call.Args[1], dr.minIndex) && fromArg(e.Call.Args[2], dr.maxIndex) {
			return true
		}
	}
	lowOK, highOK := false, false
	for _, cd := range p.Conds {
		t := cd.Term
		if !t.isBin("<") && !t.isBin("<=") {
			continue
		}
		x, y := t.Args[0], t.Args[1]
		// o.min < s.min false  (or s.min <= o.min true)
		if t.isBin("<") && fromArg(x, dr.minIndex) && fromRecv(y, dr.minIndex) && !cd.Taken || t.isBin("<=") && fromRecv(x, dr.minIndex) && fromArg(y, dr.minIndex) && cd.Taken {
			lowOK = true
		}
		// s.max < o.max false  (or o.max <= s.max true)
		if t.isBin("<") && fromRecv(x, dr.maxIndex) && fromArg(y, dr.maxIndex) && !cd.Taken || t.isBin("<=") && fromArg(x, dr.maxIndex) && fromRecv(y, dr.maxIndex) && cd.Taken {
			highOK = true
		}
	}
	return lowOK && highOK
}

// c02DenseAdds (D4): the same-kind merge of the dense store adds every bin of the argument to the receiver's slot of
// the SAME index: on every path that enters the loop, s.bins[i − s.offset] = s.bins[i − s.offset] + o.bins[i − o.offset]
// with one i for both sides, starting at o.minIndex and continuing while i ≤ o.maxIndex.
func c02DenseAdds(c *Ctx, rule string) {
	dense := c.P.NamedType(pkgStore, "DenseStore")
	if dense == nil {
		return
	}
	f := c.P.DeclaredMethod(dense, "MergeWith")
	if !c.mustFunc(rule, f, "DenseStore.MergeWith") {
		return
	}
	paths, _ := exec(c, f, nil, 2)
	isArg := func(t *Term) bool {
		t = t.unver()
		return t.Op == "extract" && t.Sym == "0" && t.Args[0].Op == "assert"
	}
	fieldOf := func(t *Term, obj func(*Term) bool) string {
		t = t.unver()
		if t.Op == "field" && len(t.Args) == 1 && obj(t.Args[0]) {
			return t.Sym
		}
		return ""
	}
	isRecv := func(t *Term) bool { return t.unver().isParam(0) }
	nAdd := 0
	bad := ""
	for _, p := range paths {
		same := false
		for _, cd := range p.Conds {
			if t := cd.Term; t.Op == "extract" && t.Sym == "1" && t.Args[0].Op == "assert" && cd.Taken {
				same = true
			}
		}
		if !same {
			continue
		}
		first := true
		for _, e := range p.Effects {
			if e.Kind != "store" || e.Addr.Op != "index" {
				continue
			}
			binsF := fieldOf(e.Addr.Args[0], isRecv)
			if binsF == "" {
				continue
			}
			nAdd++
			v := e.Val
			var src *Term
			if v.isBin("+") {
				for i := 0; i < 2; i++ {
					if stripVers(v.Args[i]).Key() == stripVers(e.Addr).Key() {
						src = v.Args[1-i]
					}
				}
			}
			if src == nil || src.unver().Op != "index" || fieldOf(src.unver().Args[0], isArg) != binsF {
				bad = firstNonEmpty(bad, "a receiver bin is overwritten with "+shorten(v.Key(), 120)+" instead of itself plus the argument's bin")
				continue
			}
			// same index on both sides: (A + s.offset) − (B + o.offset) = 0, where the offsets are the fields subtracted
			A, B := linearOf(e.Addr.Args[1]), linearOf(src.unver().Args[1])
			d := linCombine(A, B, -1)
			okIdx := d.Const == 0 && len(d.Coef) == 2
			var offS, offO string
			for k, cf := range d.Coef {
				at := d.Atoms[k]
				switch {
				case cf == -1 && fieldOf(at, isRecv) != "":
					offS = fieldOf(at, isRecv)
				case cf == 1 && fieldOf(at, isArg) != "":
					offO = fieldOf(at, isArg)
				default:
					okIdx = false
				}
			}
			if !okIdx || offS == "" || offS != offO {
				bad = firstNonEmpty(bad, "the argument's bin and the receiver's slot are not addressed by the same index: "+shorten(e.Addr.Args[1].Key(), 80)+" / "+shorten(src.unver().Args[1].Key(), 80))
				continue
			}
			// the first bin added is the argument's first index
			if first {
				first = false
				idx := linCombine(A, linearOf(mk("field", offS, nil, mk("param", "0", nil))), 1)
				okFirst := idx.Const == 0 && len(idx.Coef) == 1
				for k, cf := range idx.Coef {
					if cf != 1 || fieldOf(idx.Atoms[k], isArg) != dr.minIndex {
						okFirst = false
					}
				}
				if !okFirst {
					bad = firstNonEmpty(bad, "the first bin added is not at the argument's first index")
				}
				// the loop goes on while i ≤ the argument's last index: the path, which has added a bin, has taken
				// `i ≤ o.max` for that i (and a path that stops has left `i' ≤ o.max` for the next one)
				okBound := false
				for _, cd := range p.Conds {
					t := cd.Term
					if t.isBin("<=") && cd.Taken && cd.Seq < e.Seq && fieldOf(t.Args[1], isArg) == dr.maxIndex {
						if dd := linCombine(linearOf(t.Args[0]), idx, -1); dd.Const == 0 && len(dd.Coef) == 0 {
							okBound = true
						}
					}
				}
				if !okBound {
					bad = firstNonEmpty(bad, "the bin loop is not controlled by i ≤ the argument's last index")
				}
			}
		}
	}
	c.R.check(bad == "" && nAdd > 0, rule, "DenseStore.MergeWith/bin-by-bin", shortFn(f), c.fpos(f), "every bin of the argument is added to the receiver's slot of the same index, from the argument's first index on", firstNonEmpty(bad, fmt.Sprintf("%d add(s) on the enumerated paths", nAdd)))
}
