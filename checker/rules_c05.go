package main

import (
	"fmt"
	"go/ast"
	"go/token"
	"go/types"
	"sort"
	"strings"

	"golang.org/x/tools/go/ssa"
)

// C05 — collapsing stores stay bounded, conserve weight and clamp correctly.

func init() {
	register("C05",
		"DECIDED: D1 shadow safety (Go has no virtual dispatch through embedding) — for each collapsing store type, no DenseStore method promoted into its method set reaches, through static calls on the embedded receiver, a method the collapsing type re-declares; no promoted method re-allocates or re-slices the bin array; no promoted method hands out the embedded store as a Store; and no method of the collapsing type calls the embedded version of a method it re-declares (except from the re-declaration itself). This is exact and is what keeps the bin limit enforced on every entry point. "+
			"D2 the cap is applied — getNewLength of both types is min(embedded getNewLength(range), limit field) and every growth of the bin array in the collapsing types takes its length from that method. "+
			"D3 collapsed short-circuit — normalize returns the edge slot (0 / len−1) whenever the index is beyond the collapsing edge and the collapsed flag is set, and re-tests the flag after extending the range; the flag is raised only inside the type's own adjust (or helpers called only from it), Clear lowers it. "+
			"D4 Copy keeps kind, limit and collapsed state (C14-D2 obligations are re-evaluated here for the two types). "+
			"D6 same-kind merge and collapse shapes — every argument bin is added to the slot of its own index or, only when its index lies beyond the receiver's collapsing edge, to the edge slot; after a too-wide adjust the window is exactly the array (minIndex = newMax − len + 1 / maxIndex = newMin + len − 1), which is what bounds the span by the bin limit; the same-kind merge visits the argument's indexes in order, each bin once (order comparisons are read whichever way they are written: a refuted a < b is b ≤ a), and no add inside a loop lies only on paths whose comparisons contradict each other (a loop that never advances). "+
			"SHARED (re-evaluated here under their home rule ids): for the dense family — C04-D2/D4 (totals and extreme indexes), C16-D2 and C13-D3 (the dense Reweight body the collapsing stores inherit, and its refusal table), C14-D2 (deep copies of the collapsing stores), C06-D2/C08-D4 for the generic bin decoder (decoding is part of any history). C02-D3/D4 for the two collapsing stores (an argument of another kind is merged through its ForEach, bin by bin, whatever order it enumerates in). C15-D1 for the dense and the collapsing stores (Clear resets every field the stores' range arithmetic reads, the bin array's length included — a cleared store grows like a new one). C04-D1 for the two collapsing stores (Add, AddWithCount and AddBin are one operation; a zero weight or an empty bin changes nothing — in particular it neither extends nor collapses the window). "+
			"D5 truncating integer division in the dense family's index arithmetic is applied only to widths (index coefficients cancel) or lengths — `(min+max+1)/2` rounds toward zero, i.e. the wrong way for negative midpoints, and shifts the window by one slot. "+
			"D7 merge safety on the empty edge — adjust/shiftCounts index bins[i−offset] over [minIndex, maxIndex]; on the empty-store edge of every extendRange the window stored before adjust must fit the freshly allocated array: a single slot, or an allocation with the uncapped length of the requested range (this is the structural necessary condition of 'every merge is safe … including merging a store wider than N into an empty or cleared receiver'). "+
			"NOT DECIDED: where folded weight lands and conservation of weight through adjust/shiftCounts in general (the relational invariant maxIndex−minIndex+1 ≤ len(bins) is only established at the empty edge, its preservation elsewhere is not proved).",
		"one obligation per (collapsing type × promoted method), per growth site, per normalize path, per writer of the collapsed flag; exhaustive over method sets",
		true, runC05)
}

type collapsingType struct {
	t        *types.Named
	inner    *types.Named
	innerFld string
	limitFld string // int field holding the bin limit
	flagFld  string // bool field: collapsed
}

func collapsingTypes(c *Ctx) ([]collapsingType, string) {
	var out []collapsingType
	dense := c.P.NamedType(pkgStore, "DenseStore")
	if dense == nil {
		return nil, "type store.DenseStore not found"
	}
	for _, t := range c.P.Implementations(c.P.NamedType(pkgStore, "Store")) {
		ct := collapsingType{t: t, inner: dense}
		for _, f := range structFields(t) {
			if f.Embedded() && types.Identical(f.Type(), dense) {
				ct.innerFld = f.Name()
			}
		}
		if ct.innerFld == "" {
			continue
		}
		var ints, bools []string
		for _, f := range structFields(t) {
			if f.Embedded() {
				continue
			}
			if b, ok := f.Type().Underlying().(*types.Basic); ok {
				if b.Kind() == types.Int {
					ints = append(ints, f.Name())
				}
				if b.Kind() == types.Bool {
					bools = append(bools, f.Name())
				}
			}
		}
		if len(ints) != 1 || len(bools) != 1 {
			return nil, fmt.Sprintf("%s: expected exactly one int (limit) and one bool (collapsed) field, found %v / %v", t.Obj().Name(), ints, bools)
		}
		ct.limitFld, ct.flagFld = ints[0], bools[0]
		out = append(out, ct)
	}
	if len(out) < 2 {
		return out, fmt.Sprintf("expected two store types embedding DenseStore, found %d", len(out))
	}
	return out, ""
}

func runC05(c *Ctx) {
	cts, err := collapsingTypes(c)
	if err != "" {
		c.R.undecided("C05", "anchors", "", "", "collapsing store types resolve by role", err)
		return
	}
	c05Halving(c, "C05-D5")
	c05ExtendPost(c)
	c05SketchCtors(c, "C05-D9")
	c04Shift(c, "C05-D5") // the collapsing stores reuse the dense window-moving primitives on every non-collapsing and shifting path
	c05EmptyEdge(c)
	// the three entry points of each collapsing store are one operation: Add ≡ AddWithCount(·, 1), AddBin ≡
	// AddWithCount(bin) — an empty bin must not move or collapse the window any more than a zero weight does
	{
		var ts []*types.Named
		for _, ct := range cts {
			ts = append(ts, ct.t)
		}
		c.shared(func() { c04Entry(c, ts) }, func(o *Obligation) bool { return true })
	}
	// merging an argument of another kind goes through its ForEach, which promises no order (the sparse store ranges
	// over a map): the fallback adds every bin it is handed, never "the rest at once" (C02-D3); and a cleared collapsing
	// store is like new — Clear (promoted from the dense store) covers every field the collapsing extendRange relies on
	if a, err := c.anchors(); err == nil {
		c.shared(func() { c02AnyKind(c, a) }, keyMentions("Collapsing"))
	}
	// the slot of an index that is not folded into the edge is index − offset, handed out only inside the window
	c.shared(func() { c04Normalize(c, "C04-D6") }, keyMentions("Collapsing"))
	if pr := c.paginated(); pr.err == "" {
		dense := c.P.NamedType(pkgStore, "DenseStore")
		for _, ct := range cts {
			ct := ct
			c.shared(func() { c15ClearCovers(c, ct.t, dense, pr) }, func(o *Obligation) bool { return true })
		}
		c.shared(func() { c15ClearCovers(c, dense, dense, pr) }, func(o *Obligation) bool { return true })
	}
	// "never loses weight … after any history": what the collapsing stores inherit from the dense store or share with
	// every store — totals and extreme indexes (read side), the dense Reweight body and its refusal table, deep copies,
	// and the generic bin decoder (every delta accumulated, exactly the announced number of items)
	if a, err := c.anchors(); err == nil {
		denseFamily := keyMentions("Collapsing", "DenseStore")
		c.shared(func() { c04Readers(c) }, denseFamily)
		c.shared(func() { c16Stores(c, a) }, denseFamily)
		c.shared(func() { c13Reweight(c, a) }, func(o *Obligation) bool { return denseFamily(o) && strings.Contains(o.Key, "/store.") })
		c.shared(func() { c14Copies(c, a) }, denseFamily)
		c.shared(func() { c06Deltas(c, a); c08ItemLoops(c, a) }, keyMentions("ddsketch/store.DecodeAndMergeWith"))
	}
	for _, ct := range cts {
		c05Shadow(c, ct)
		c05Cap(c, ct)
		c05Normalize(c, ct)
		c05Flag(c, ct)
		c05CopyClear(c, ct)
		c05MergeFold(c, ct)
		c05MergeCoverage(c, ct)
	}
}

func declaredNames(t *types.Named) map[string]bool {
	m := map[string]bool{}
	for i := 0; i < t.NumMethods(); i++ {
		m[t.Method(i).Name()] = true
	}
	return m
}

func recvNamed(f *ssa.Function) *types.Named {
	if f == nil || f.Signature.Recv() == nil {
		return nil
	}
	t := f.Signature.Recv().Type()
	if p, ok := t.(*types.Pointer); ok {
		t = p.Elem()
	}
	n, _ := t.(*types.Named)
	return n
}

func c05Shadow(c *Ctx, ct collapsingType) {
	const rule = "C05-D1"
	tname := ct.t.Obj().Name()
	redecl := declaredNames(ct.t)
	ms := c.P.SSA.MethodSets.MethodSet(types.NewPointer(ct.t))
	storeI := c.P.NamedType(pkgStore, "Store")
	nPromoted := 0
	var sliceFields []string
	for _, f := range structFields(ct.inner) {
		if _, ok := f.Type().Underlying().(*types.Slice); ok {
			sliceFields = append(sliceFields, f.Name())
		}
	}
	// which methods of the embedded type can run with the embedded receiver of a collapsing store at all:
	// the exported promoted ones (callable by users and through the Store interface), and — transitively —
	// those called from them or from the collapsing type's own methods. An unexported helper that is only
	// called from a method the collapsing type re-declares (e.g. a part split off DenseStore.MergeWith)
	// never runs on a collapsing store.
	innerMethods := map[string]*ssa.Function{}
	for i := 0; i < ct.inner.NumMethods(); i++ {
		if f := c.P.SSA.FuncValue(ct.inner.Method(i)); f != nil {
			innerMethods[f.Name()] = f
		}
	}
	calleesOnInner := func(f *ssa.Function) []*ssa.Function {
		var out []*ssa.Function
		var visit func(g *ssa.Function)
		visit = func(g *ssa.Function) {
			for _, b := range g.Blocks {
				for _, in := range b.Instrs {
					if ci, ok := in.(ssa.CallInstruction); ok {
						if cal, ok := ci.Common().Value.(*ssa.Function); ok && recvNamed(cal) == ct.inner {
							out = append(out, cal)
						}
					}
				}
			}
			for _, an := range g.AnonFuncs {
				visit(an)
			}
		}
		visit(f)
		return out
	}
	live := map[*ssa.Function]bool{}
	var work []*ssa.Function
	mark := func(f *ssa.Function) {
		if f != nil && !live[f] {
			live[f] = true
			work = append(work, f)
		}
	}
	for n, f := range innerMethods {
		if ast.IsExported(n) && !redecl[n] {
			mark(f)
		}
	}
	for i := 0; i < ct.t.NumMethods(); i++ {
		if m := c.P.SSA.FuncValue(ct.t.Method(i)); m != nil {
			for _, cal := range calleesOnInner(m) {
				mark(cal)
			}
		}
	}
	for len(work) > 0 {
		f := work[len(work)-1]
		work = work[:len(work)-1]
		for _, cal := range calleesOnInner(f) {
			mark(cal)
		}
	}
	for i := 0; i < ms.Len(); i++ {
		sel := ms.At(i)
		name := sel.Obj().Name()
		if redecl[name] {
			continue
		}
		fn := c.P.SSA.MethodValue(sel)
		if fn == nil {
			continue
		}
		target := fn
		if fn.Synthetic != "" {
			target = underlyingOfWrapper(fn)
		}
		if target == nil || recvNamed(target) != ct.inner {
			continue
		}
		nPromoted++
		key := fmt.Sprintf("%s/promoted/%s", tname, name)
		if !live[target] {
			c.R.trivial(rule, key, funcName(target), c.fpos(target), "unexported and called only from methods the collapsing type re-declares: never runs on a collapsing store", "not reachable with a collapsing receiver")
			continue
		}
		// closure under static calls whose receiver is the embedded type
		seen := map[*ssa.Function]bool{}
		var reachedBad []string
		var walk func(f *ssa.Function)
		walk = func(f *ssa.Function) {
			if seen[f] {
				return
			}
			seen[f] = true
			for _, b := range f.Blocks {
				for _, in := range b.Instrs {
					var callee *ssa.Function
					switch in := in.(type) {
					case ssa.CallInstruction:
						switch v := in.Common().Value.(type) {
						case *ssa.Function:
							callee = v
						case *ssa.MakeClosure:
							callee = v.Fn.(*ssa.Function)
						}
					case *ssa.MakeClosure:
						callee = in.Fn.(*ssa.Function)
					}
					if callee == nil || !inModule(callee) {
						continue
					}
					if recvNamed(callee) == ct.inner {
						if redecl[callee.Name()] {
							reachedBad = append(reachedBad, fmt.Sprintf("%s → %s", f.Name(), callee.Name()))
						}
						walk(callee)
					} else if callee.Parent() != nil {
						walk(callee) // closures
					}
				}
			}
		}
		walk(target)
		sort.Strings(reachedBad)
		// storage regrowth: header writes of slice fields
		var regrow []string
		for _, l := range c.Mod.ModsRooted(target, 0) {
			for _, sf := range sliceFields {
				if l == "."+sf {
					regrow = append(regrow, l)
				}
			}
		}
		// handing out the embedded store as a Store
		returnsStore := false
		rs := target.Signature.Results()
		for j := 0; j < rs.Len(); j++ {
			if storeI != nil && types.Identical(rs.At(j).Type(), storeI) {
				returnsStore = true
			}
		}
		var bad []string
		if len(reachedBad) > 0 {
			bad = append(bad, "reaches re-declared method(s) on the embedded receiver: "+strings.Join(uniqStrs(reachedBad), ", "))
		}
		if len(regrow) > 0 {
			bad = append(bad, "re-allocates/re-slices "+strings.Join(regrow, ","))
		}
		if returnsStore {
			bad = append(bad, "returns a Store built from the embedded DenseStore")
		}
		c.R.check(len(bad) == 0, rule, key, funcName(target), c.fpos(target),
			"a promoted DenseStore method must not reach a method the collapsing type re-declares, regrow the bin array, or return the embedded store as a Store",
			firstNonEmpty(strings.Join(bad, "; "), fmt.Sprintf("closure of %d function(s) stays clear of %d re-declared names", len(seen), len(redecl))))
	}
	c.R.floor(rule, tname+" promoted DenseStore methods", nPromoted, 15)
	// every Store method that grows/copies is re-declared: required names
	for _, need := range []string{"Add", "AddBin", "AddWithCount", "MergeWith", "Copy", "Clear", "DecodeAndMergeWith"} {
		c.R.check(redecl[need], rule, fmt.Sprintf("%s/redeclares/%s", tname, need), tname, "", "the collapsing type declares its own "+need+" (the promoted one would bypass the bin limit / return the wrong kind)", fmt.Sprintf("declared=%v", redecl[need]))
	}
	// methods of the collapsing type must not call the embedded version of a re-declared method
	for i := 0; i < ct.t.NumMethods(); i++ {
		m := c.P.SSA.FuncValue(ct.t.Method(i))
		if m == nil {
			continue
		}
		fns := append([]*ssa.Function{m}, m.AnonFuncs...)
		for _, f := range fns {
			for _, b := range f.Blocks {
				for _, in := range b.Instrs {
					call, ok := in.(ssa.CallInstruction)
					if !ok {
						continue
					}
					callee, ok := call.Common().Value.(*ssa.Function)
					if !ok || recvNamed(callee) != ct.inner || !redecl[callee.Name()] {
						continue
					}
					okCall := callee.Name() == m.Name() // explicit delegation from the re-declaration itself
					c.R.check(okCall, rule, fmt.Sprintf("%s.%s/calls-embedded/%s", tname, m.Name(), callee.Name()), shortFn(f), c.ipos(in),
						"a re-declared method is reached through the collapsing type, not through the embedded DenseStore", fmt.Sprintf("%s calls DenseStore.%s", m.Name(), callee.Name()))
				}
			}
		}
	}
}

func c05Cap(c *Ctx, ct collapsingType) {
	const rule = "C05-D2"
	tname := ct.t.Obj().Name()
	g := c.P.DeclaredMethod(ct.t, "getNewLength")
	if !c.mustFunc(rule, g, tname+".getNewLength") {
		return
	}
	paths, _ := execNoInline(c, g, nil, 1)
	ok := len(paths) > 0
	found := ""
	for _, p := range paths {
		r := p.RetT[0]
		found = r.Key()
		isMin := (r.Op == "call" && strings.HasSuffix(r.Sym, ".min") || r.Op == "builtin" && r.Sym == "min") && len(r.Args) == 2
		if !isMin {
			// open-coded min: `if a < b { return a }; return b` — the path returns the limit, or returns the uncapped
			// length under a condition that places it at or below the limit
			isInner := func(x *Term) bool {
				return isMethodCall(x, "getNewLength") && len(x.Args) == 3 && isRecvField(x.Args[0], ct.innerFld) && x.Args[1].isParam(1) && x.Args[2].isParam(2)
			}
			isLim := func(x *Term) bool { return isRecvField(x, ct.limitFld) }
			ordered := false // inner ≤ limit known on the path
			compared := false
			for _, cd := range p.Conds {
				t := cd.Term
				if !t.isBin("<") && !t.isBin("<=") {
					continue
				}
				switch {
				case isInner(t.Args[0]) && isLim(t.Args[1]): // inner < lim / inner <= lim
					compared = true
					ordered = cd.Taken
				case isLim(t.Args[0]) && isInner(t.Args[1]): // lim < inner / lim <= inner
					compared = true
					ordered = !cd.Taken
				}
			}
			switch {
			case isLim(r): // the limit itself is always within the limit (whatever made the path choose it)
			case isInner(r) && compared && ordered:
			default:
				ok = false
			}
			continue
		}
		var inner, lim bool
		for _, x := range r.Args {
			if isMethodCall(x, "getNewLength") && len(x.Args) == 3 && isRecvField(x.Args[0], ct.innerFld) && x.Args[1].isParam(1) && x.Args[2].isParam(2) {
				inner = true
			}
			if isRecvField(x, ct.limitFld) {
				lim = true
			}
		}
		if !(inner && lim) {
			ok = false
		}
	}
	c.R.check(ok, rule, tname+".getNewLength/capped", shortFn(g), c.fpos(g), "min(DenseStore.getNewLength(newMin,newMax), "+ct.limitFld+")", found)
	// growth sites in the methods of the collapsing type: every make() that is appended to / stored into bins takes its length from the type's getNewLength
	nGrow := 0
	for i := 0; i < ct.t.NumMethods(); i++ {
		m := c.P.SSA.FuncValue(ct.t.Method(i))
		if m == nil {
			continue
		}
		tc := newTermCtx(c.P)
		for _, b := range m.Blocks {
			for _, in := range b.Instrs {
				ms, ok := in.(*ssa.MakeSlice)
				if !ok {
					continue
				}
				// only slices of the bin array's type
				if !types.Identical(ms.Type(), binsType(ct.inner)) {
					continue
				}
				nGrow++
				lt := tc.Of(ms.Len)
				// the length is bounded by the capped length: it IS the type's getNewLength(…) or the current
				// length, or is obtained from such a value by subtracting, by min with anything, or by max with
				// another bounded value. cap(bins) is NOT bounded (append over-allocates: 64 → 100 bins has cap 128).
				var bounded func(x *Term, d int) bool
				bounded = func(x *Term, d int) bool {
					if x == nil || d > 6 {
						return false
					}
					switch {
					case isMethodCall(x, "getNewLength") && strings.Contains(x.Sym, "."+tname+")"):
						return true
					case x.Op == "builtin" && x.Sym == "len":
						return true
					case x.Op == "const":
						return true
					case x.Op == "conv":
						return bounded(x.Args[0], d+1)
					case x.Op == "phi":
						// an open-coded min/max/if: the worst case is max of the alternatives
						es := tc.PhiEdges(x)
						for _, e := range es {
							if e.Key() == x.Key() || !bounded(e, d+1) {
								return false
							}
						}
						return len(es) > 0
					case x.isBin("-"):
						return bounded(x.Args[0], d+1)
					case (x.Op == "call" && strings.HasSuffix(x.Sym, ".min") || x.Op == "builtin" && x.Sym == "min") && len(x.Args) == 2:
						return bounded(x.Args[0], d+1) || bounded(x.Args[1], d+1)
					case (x.Op == "call" && strings.HasSuffix(x.Sym, ".max") || x.Op == "builtin" && x.Sym == "max") && len(x.Args) == 2:
						return bounded(x.Args[0], d+1) && bounded(x.Args[1], d+1)
					}
					return false
				}
				c.R.check(bounded(lt, 0), rule, fmt.Sprintf("%s.%s/growth-site", tname, m.Name()), shortFn(m), c.ipos(ms),
					"the length of new bin storage is bounded by "+tname+".getNewLength (the capped length) or the current length", "make length "+lt.Key())
			}
		}
	}
	c.R.floor(rule, tname+" bin-array allocation sites", nGrow, 3)
	// the bin limit is a constant of the store: no method (declared or promoted) writes it, neither directly nor by
	// overwriting the whole receiver (`*s = *other…` would import the other store's limit and collapsed flag)
	ms := c.P.SSA.MethodSets.MethodSet(types.NewPointer(ct.t))
	nM := 0
	for i := 0; i < ms.Len(); i++ {
		fn := c.P.SSA.MethodValue(ms.At(i))
		if fn == nil {
			continue
		}
		target := fn
		if fn.Synthetic != "" {
			target = underlyingOfWrapper(fn)
		}
		if target == nil || recvNamed(target) != ct.t {
			continue // promoted methods see only the embedded store, which has no limit field
		}
		nM++
		bad := ""
		for l := range c.Mod.Mods[target] {
			if l == "p0" {
				bad = "overwrites the whole receiver"
			}
			if l == "p0."+ct.limitFld {
				bad = "writes " + ct.limitFld
			}
		}
		if bad != "" {
			c.R.violate(rule, fmt.Sprintf("%s.%s/limit-is-constant", tname, target.Name()), shortFn(target), c.fpos(target), "no method changes the bin limit of an existing store (only constructors and the fresh object of Copy set it)", bad)
		}
	}
	c.R.check(nM >= 10, rule, tname+"/limit-is-constant/methods-examined", tname, "", "the write sets of the type's own methods were examined", fmt.Sprintf("%d methods", nM))
}

func c05Normalize(c *Ctx, ct collapsingType) {
	const rule = "C05-D3"
	tname := ct.t.Obj().Name()
	f := c.P.DeclaredMethod(ct.t, "normalize")
	if !c.mustFunc(rule, f, tname+".normalize") {
		return
	}
	paths, _ := exec(c, f, nil, 1)
	isFlag := func(t *Term) bool { return isRecvField(t, ct.flagFld) }
	nEdge := 0
	for i, p := range paths {
		key := fmt.Sprintf("%s.normalize/path%d[%s]", tname, i, pathSig(p))
		// latest flag test and whether extendRange was called after it
		flag, haveFlag, flagSeq := false, false, 0
		for _, cd := range p.Conds {
			if isFlag(cd.Term) {
				flag, haveFlag, flagSeq = cd.Taken, true, cd.Seq
			}
		}
		extSeq := 0
		for _, e := range p.Effects {
			if e.Kind == "call" && isMethodCall(e.Call, "extendRange") {
				extSeq = e.Seq
			}
		}
		r := p.RetT[0]
		isEdge := r.isConst("0") || r.isBin("-") && r.Args[1].isConst("1") && r.Args[0].Op == "builtin" && r.Args[0].Sym == "len"
		// regular slot: index - offset
		isRegular := r.isBin("-") && r.Args[0].isParam(1) && r.Args[1].unver().Op == "field"
		switch {
		case haveFlag && flag:
			nEdge++
			c.R.check(isEdge && flagSeq > extSeq, rule, key, shortFn(f), c.fpos(f), "collapsed and beyond the edge ⇒ the edge slot, decided on the flag's value after any range extension", describeRet(p))
		case extSeq > 0 && haveFlag && !flag:
			c.R.check(isRegular && flagSeq > extSeq, rule, key, shortFn(f), c.fpos(f), "after extending the range the collapsed flag is re-tested before the regular slot is used", fmt.Sprintf("%s (flag tested after extension: %v)", describeRet(p), flagSeq > extSeq))
		case extSeq > 0 && !haveFlag:
			// extension towards the non-collapsing side: regular slot
			c.R.check(isRegular, rule, key, shortFn(f), c.fpos(f), "extension on the non-collapsing side ⇒ regular slot index−offset", describeRet(p))
		default:
			c.R.check(isRegular, rule, key, shortFn(f), c.fpos(f), "inside the window ⇒ regular slot index−offset", describeRet(p))
		}
	}
	c.R.floor(rule, tname+".normalize edge-slot paths", nEdge, 1)
}

func c05Flag(c *Ctx, ct collapsingType) {
	const rule = "C05-D3"
	tname := ct.t.Obj().Name()
	adjust := c.P.DeclaredMethod(ct.t, "adjust")
	if !c.mustFunc(rule, adjust, tname+".adjust") {
		return
	}
	g := newCallGraph(c.P, c.Mod)
	// functions called only (transitively) from adjust
	onlyFromAdjust := func(f *ssa.Function) bool {
		if f == adjust {
			return true
		}
		// every caller in the module must itself be only-from-adjust (bounded depth)
		var rec func(f *ssa.Function, d int) bool
		rec = func(f *ssa.Function, d int) bool {
			if f == adjust {
				return true
			}
			if d > 4 {
				return false
			}
			ncall := 0
			for _, h := range c.P.Funcs {
				for _, cal := range g.callees(h) {
					if cal == f {
						ncall++
						if !rec(h, d+1) {
							return false
						}
					}
				}
			}
			return ncall > 0
		}
		return rec(f, 0)
	}
	nW := 0
	for _, f := range c.P.Funcs {
		tc := newTermCtx(c.P)
		for _, b := range f.Blocks {
			for _, in := range b.Instrs {
				st, ok := in.(*ssa.Store)
				if !ok {
					continue
				}
				fa, ok := st.Addr.(*ssa.FieldAddr)
				if !ok || fieldName(fa.X.Type(), fa.Field) != ct.flagFld {
					continue
				}
				pt, ok := fa.X.Type().Underlying().(*types.Pointer)
				if !ok || !types.Identical(pt.Elem(), ct.t) {
					continue
				}
				// stores into a freshly allocated object (constructor, Copy) are initialisation
				fresh := true
				for l := range c.Mod.fnCtx(f).derive(fa.X) {
					if !strings.HasPrefix(locRoot(l), "a:") {
						fresh = false
					}
				}
				if fresh {
					continue
				}
				nW++
				v := tc.Of(st.Val)
				key := fmt.Sprintf("%s.%s/writes-collapsed-flag", tname, f.Name())
				if v.isConst("false") {
					c.R.check(f.Name() == "Clear", rule, key, shortFn(f), c.ipos(st), "the collapsed flag is lowered only by Clear", "lowered in "+f.Name())
				} else {
					c.R.check(v.isConst("true") && onlyFromAdjust(f), rule, key, shortFn(f), c.ipos(st),
						"the collapsed flag is raised (to the constant true) only inside the type's own adjust, where bins are actually folded", fmt.Sprintf("%s stores %s", f.Name(), v.Key()))
				}
			}
		}
	}
	c.R.floor(rule, tname+" writers of the collapsed flag", nW, 2)
	// inside adjust: the flag is raised only on paths that took the too-wide branch
	paths, _ := exec(c, adjust, nil, 2)
	bad := ""
	nRaise := 0
	for _, p := range paths {
		raised := false
		for _, e := range p.Effects {
			if e.Kind == "store" && isRecvField(e.Addr, ct.flagFld) && e.Val.isConst("true") {
				raised = true
			}
		}
		// too-wide test: (newMax - newMin + 1) > len(bins)
		tooWide, have := pathCond(p, func(t *Term) bool {
			if !t.isBin("<") {
				return false
			}
			x := t.Args[0]
			return x.Op == "builtin" && x.Sym == "len" && t.Args[1].contains("param:1") && t.Args[1].contains("param:2")
		})
		if raised {
			nRaise++
			if !(have && tooWide) {
				bad = "flag raised on a path that did not take the range-wider-than-array branch: [" + p.String() + "]"
			}
		} else if have && tooWide {
			bad = "range wider than the array but the collapsed flag is not raised: [" + p.String() + "]"
		}
	}
	c.R.check(bad == "" && nRaise > 0, rule, tname+".adjust/flag-iff-too-wide", shortFn(adjust), c.fpos(adjust), "adjust raises the collapsed flag exactly on the paths where the requested range is wider than the array", firstNonEmpty(bad, fmt.Sprintf("%d raising path(s) of %d", nRaise, len(paths))))
}

func c05CopyClear(c *Ctx, ct collapsingType) {
	const rule = "C05-D4"
	tname := ct.t.Obj().Name()
	if f := c.P.DeclaredMethod(ct.t, "Clear"); c.mustFunc(rule, f, tname+".Clear") {
		paths, _ := exec(c, f, nil, 1)
		ok := len(paths) > 0
		for _, p := range paths {
			lower, inner := false, false
			for _, e := range p.Effects {
				if e.Kind == "store" && isRecvField(e.Addr, ct.flagFld) && e.Val.isConst("false") {
					lower = true
				}
				if e.Kind == "call" && isMethodCall(e.Call, "Clear") && isRecvField(e.Call.Args[0], ct.innerFld) {
					inner = true
				}
			}
			ok = ok && lower && inner
		}
		c.R.check(ok, rule, tname+".Clear/resets-flag-and-store", shortFn(f), c.fpos(f), "Clear clears the embedded store and lowers the collapsed flag on every path", fmt.Sprintf("%d path(s)", len(paths)))
	}
	if f := c.P.DeclaredMethod(ct.t, "Copy"); c.mustFunc(rule, f, tname+".Copy") {
		paths, _ := exec(c, f, nil, 2)
		fields := flatFields(ct.t, "")
		for _, fld := range [][]string{{ct.limitFld}, {ct.flagFld}} {
			ok := len(paths) > 0
			found := ""
			for _, p := range paths {
				v := finalFieldValue(p, fld, fields)
				if v == nil || !termIsRecvPath(v, fld) {
					ok = false
				}
				found = fmt.Sprint(v)
			}
			c.R.check(ok, rule, tname+".Copy/keeps/"+fld[0], shortFn(f), c.fpos(f), "the copy carries the receiver's "+fld[0], found)
		}
		okT := len(paths) > 0
		for _, p := range paths {
			if len(p.RetT) != 1 || p.RetT[0].V == nil {
				okT = false
				continue
			}
			if pt, ok := p.RetT[0].V.Type().Underlying().(*types.Pointer); !ok || !types.Identical(pt.Elem(), ct.t) {
				okT = false
			}
		}
		c.R.check(okT, rule, tname+".Copy/keeps-kind", shortFn(f), c.fpos(f), "the copy is a *"+tname, "")
	}
}

// binsType: the type of the (single) slice field of the dense store.
func binsType(dense *types.Named) types.Type {
	for _, f := range structFields(dense) {
		if _, ok := f.Type().Underlying().(*types.Slice); ok {
			return f.Type()
		}
	}
	return nil
}

// c05Halving (C05-D5 / C04): Go's integer division truncates toward zero. In the index arithmetic of
// the dense family a quotient must therefore be taken of a width (a difference of indexes, a length),
// never of a sum of indexes that can be negative — `(min+max+1)/2` rounds the wrong way for negative
// midpoints while `min + (max-min+1)/2` does not.
func c05Halving(c *Ctx, rule string) {
	dense := c.P.NamedType(pkgStore, "DenseStore")
	if dense == nil {
		return
	}
	var types_ []*types.Named
	types_ = append(types_, dense)
	if cts, err := collapsingTypes(c); err == "" {
		for _, ct := range cts {
			types_ = append(types_, ct.t)
		}
	}
	n := 0
	for _, t := range types_ {
		for i := 0; i < t.NumMethods(); i++ {
			f := c.P.SSA.FuncValue(t.Method(i))
			if f == nil {
				continue
			}
			tc := newTermCtx(c.P)
			nth := 0
			for _, b := range f.Blocks {
				for _, in := range b.Instrs {
					bo, ok := in.(*ssa.BinOp)
					if !ok || bo.Op.String() != "/" || !isInteger(bo.Type()) || isUnsigned(bo.Type()) {
						continue
					}
					n++
					nth++
					dt := tc.Of(bo.X)
					l := linearOf(dt)
					sum := 0
					okAtoms := true
					for k, co := range l.Coef {
						at := l.Atoms[k]
						if at.Op == "builtin" && (at.Sym == "len" || at.Sym == "cap") {
							continue // a length is non-negative
						}
						if at.Op == "const" {
							continue
						}
						sum += co
						_ = k
					}
					ok = okAtoms && sum == 0
					c.R.check(ok, rule, fmt.Sprintf("%s/int-division#%d/dividend-is-a-width", funcName(f), nth), funcName(f), c.ipos(bo),
						"integer division (truncating toward zero) is applied to a width — index coefficients cancel — or a length, never to a sum of possibly negative indexes", "dividend "+l.Key())
				}
			}
		}
	}
	c.R.floor(rule, "integer divisions in dense-family index arithmetic", n, 2)
}

// c05MergeFold (C05-D6): the same-kind merge of a collapsing store adds every argument bin either to
// the slot of its own index or — only for indexes beyond the receiver's collapsing edge — to the edge
// slot; and a too-wide adjust leaves a window that is exactly len(bins) wide, anchored at the kept end.
func c05MergeFold(c *Ctx, ct collapsingType) {
	const rule = "C05-D6"
	tname := ct.t.Obj().Name()
	lowest := strings.Contains(tname, "Lowest")
	f := c.P.DeclaredMethod(ct.t, "MergeWith")
	if !c.mustFunc(rule, f, tname+".MergeWith") {
		return
	}
	tc := newTermCtx(c.P)
	recvBins := func(t *Term) bool { return t.Op == "field" && t.Sym == dr.bins && isRecvField(t.Args[0], ct.innerFld) }
	argPart := func(t *Term, fld string) bool {
		return t.Op == "field" && t.Sym == fld && t.Args[0].Op == "field" && t.Args[0].Sym == ct.innerFld && t.Args[0].Args[0].Op == "extract"
	}
	nEdge, nOwn := 0, 0
	bad := ""
	for _, b := range f.Blocks {
		for _, in := range b.Instrs {
			st, ok := in.(*ssa.Store)
			if !ok {
				continue
			}
			at, vt := tc.Of(st.Addr), tc.Of(st.Val)
			if at.Op != "index" || !recvBins(at.Args[0]) {
				continue
			}
			// value = same slot + o.bins[idx − o.offset]
			var src *Term
			guardBlk := b
			if vt.isBin("+") {
				for i := 0; i < 2; i++ {
					if vt.Args[i].Key() == at.Key() {
						src = vt.Args[1-i]
					}
				}
			}
			// or the same sum carried in a local: acc := slot; for … { acc += o.bins[…] }; slot = acc
			if src == nil && vt.Op == "phi" {
				var init, step *Term
				for _, e := range tc.PhiEdges(vt) {
					switch {
					case e.unver().Key() == at.unver().Key():
						init = e
					case e.isBin("+"):
						step = e
					case e.Op == "phi": // the accumulator of the loop itself
						for _, e2 := range tc.PhiEdges(e) {
							if e2.unver().Key() == at.unver().Key() {
								init = e2
							} else if e2.isBin("+") {
								step = e2
							}
						}
					}
				}
				if init != nil && step != nil {
					for i := 0; i < 2; i++ {
						if step.Args[i].Op == "phi" && step.Args[1-i].Op == "index" {
							src = step.Args[1-i]
							if bo, ok := step.V.(*ssa.BinOp); ok {
								guardBlk = bo.Block()
							}
						}
					}
				}
			}
			if src == nil || src.Op != "index" || !argPart(src.Args[0], dr.bins) {
				bad = "store into the receiver's bins that is not `slot += argument.bins[…]`: " + vt.Key()
				continue
			}
			sl := linearOf(src.Args[1])
			var idx *Term
			okSrc := sl.Const == 0 && len(sl.Coef) == 2
			for k, co := range sl.Coef {
				t := sl.Atoms[k]
				switch {
				case co == 1 && t.Op == "phi":
					idx = t
				case co == -1 && argPart(t, dr.offset):
				default:
					okSrc = false
				}
			}
			if !okSrc || idx == nil {
				bad = "argument bin is not read at idx − argument.offset: " + src.Key()
				continue
			}
			dl := linearOf(at.Args[1])
			isOwn := dl.Const == 0 && len(dl.Coef) == 2
			for k, co := range dl.Coef {
				t := dl.Atoms[k]
				if !(co == 1 && t.Key() == idx.Key() || co == -1 && t.Op == "field" && t.Sym == dr.offset && isRecvField(t.Args[0], ct.innerFld)) {
					isOwn = false
				}
			}
			isEdge := false
			if lowest {
				isEdge = at.Args[1].isConst("0")
			} else {
				isEdge = dl.Const == -1 && len(dl.Coef) == 1
				for _, t := range dl.Atoms {
					if !(t.Op == "builtin" && t.Sym == "len" && recvBins(t.Args[0])) {
						isEdge = false
					}
				}
			}
			switch {
			case isOwn:
				nOwn++
			case isEdge:
				nEdge++
				// the edge store must be guarded by "idx beyond the receiver's window": find a controlling condition
				guarded := false
				for d := guardBlk; d != nil; d = d.Idom() {
					if iff, ok := d.Instrs[len(d.Instrs)-1].(*ssa.If); ok && d != guardBlk {
						ctm := tc.Of(iff.Cond)
						// which successor of the test leads to the store
						branch := -1
						for si, sc := range d.Succs {
							if sc == guardBlk || sc.Dominates(guardBlk) {
								if branch == -1 {
									branch = si
								} else {
									branch = -2 // both: the test does not control the store
								}
							}
						}
						isRecvEdge := func(t *Term, fld string) bool {
							return t.Op == "field" && t.Sym == fld && isRecvField(t.Args[0], ct.innerFld)
						}
						if len(ctm.Args) != 2 {
							continue
						}
						x, y := ctm.Args[0], ctm.Args[1]
						switch {
						// idx < s.minIndex holds (lowest) / s.maxIndex < idx holds (highest): true branch
						case ctm.isBin("<") && branch == 0 && (lowest && x.Key() == idx.Key() && isRecvEdge(y, dr.minIndex) || !lowest && y.Key() == idx.Key() && isRecvEdge(x, dr.maxIndex)):
							guarded = true
						// the same fact as the failed negation: s.minIndex <= idx false / idx <= s.maxIndex false
						case ctm.isBin("<=") && branch == 1 && (lowest && y.Key() == idx.Key() && isRecvEdge(x, dr.minIndex) || !lowest && x.Key() == idx.Key() && isRecvEdge(y, dr.maxIndex)):
							guarded = true
						}
					}
				}
				if !guarded {
					bad = "argument bins are folded into the edge slot without testing that their index lies beyond the receiver's window"
				}
			default:
				bad = "argument bin added to slot " + at.Args[1].Key() + " (neither its own index nor the edge slot)"
			}
		}
	}
	c.R.check(bad == "" && nEdge >= 1 && nOwn >= 1, rule, tname+".MergeWith/fold-into-edge", shortFn(f), c.fpos(f),
		"every argument bin goes to the slot of its own index, or — only when its index lies beyond the receiver's collapsing edge — to the edge slot", firstNonEmpty(bad, fmt.Sprintf("%d edge store(s), %d own-slot store(s)", nEdge, nOwn)))

	// adjust: on the too-wide paths the window becomes [newMax−len+1, newMax] (lowest) / [newMin, newMin+len−1] (highest)
	adj := c.P.DeclaredMethod(ct.t, "adjust")
	if adj == nil {
		return
	}
	paths, _ := exec(c, adj, nil, 2)
	nWide, nFold := 0, 0
	badW := ""
	for _, p := range paths {
		tooWide, have := pathCond(p, func(t *Term) bool {
			return t.isBin("<") && t.Args[0].Op == "builtin" && t.Args[0].Sym == "len" && t.Args[1].contains("param:1") && t.Args[1].contains("param:2")
		})
		if !have || !tooWide {
			continue
		}
		nWide++
		var minV, maxV *Term
		for _, e := range p.Effects {
			if e.Kind == "store" && e.Addr.unver().Op == "field" && isRecvField(e.Addr.unver().Args[0], ct.innerFld) {
				switch e.Addr.unver().Sym {
				case dr.minIndex:
					minV = e.Val
				case dr.maxIndex:
					maxV = e.Val
				}
			}
		}
		// the folded weight lands in the slot of the new edge index: slot + offset(at that time) = the edge stored on this path
		{
			offNow := linearOf(mk("field", dr.offset, nil, mk("field", ct.innerFld, nil, mk("param", "0", nil))))
			edge := minV
			if !lowest {
				edge = maxV
			}
			// a replacement of the array by make(len(old array)) keeps its length: len(new) may be read as len(old)
			sameLen := true
			for _, e := range p.Effects {
				if e.Kind == "store" && e.Addr.unver().Op == "field" && e.Addr.unver().Sym == dr.bins {
					v := e.Val
					if !(v.Op == "make" && len(v.Args) > 0 && v.Args[0].Op == "builtin" && v.Args[0].Sym == "len" && v.Args[0].Args[0].unver().Key() == e.Addr.unver().Key()) {
						sameLen = false
					}
				}
			}
			for _, e := range p.Effects {
				switch {
				case e.Kind == "store" && e.Addr.unver().Op == "field" && e.Addr.unver().Sym == dr.offset && isRecvField(e.Addr.unver().Args[0], ct.innerFld):
					offNow = linearOf(e.Val)
				case e.Kind == "call" && isMethodCall(e.Call, "shiftCounts") && len(e.Call.Args) == 2:
					offNow = linCombine(offNow, linearOf(e.Call.Args[1]), -1)
				case e.Kind == "store" && e.Addr.Op == "index" && e.Addr.Args[0].unver().Op == "field" && e.Addr.Args[0].unver().Sym == dr.bins && !e.Val.isConst("0"):
					nFold++
					if edge == nil {
						badW = "weight folded into a slot on a path that does not set the edge index"
						continue
					}
					slot := linCombine(linearOf(e.Addr.Args[1]), offNow, 1)
					if sameLen {
						slot = lenUnver(slot)
					}
					if !linCombineKey(slot, linearOf(edge)) {
						badW = fmt.Sprintf("collapsed weight is stored at index %s, not at the new edge index %s", slot.Key(), linearOf(edge).Key())
					}
				}
			}
		}
		lenOK := func(l *Linear, sign int) bool { // contains sign·len(bins)
			for k, co := range l.Coef {
				t := l.Atoms[k].unver()
				if t.Op == "builtin" && t.Sym == "len" && co == sign {
					return true
				}
			}
			return false
		}
		if lowest {
			ok := maxV != nil && maxV.isParam(2) && minV != nil
			if ok {
				l := linearOf(minV) // newMax − len + 1
				ok = l.Const == 1 && l.Coef["param:2"] == 1 && lenOK(l, -1) && len(l.Coef) == 2
			}
			if !ok {
				badW = fmt.Sprintf("window after collapsing: min=%v max=%v", minV, maxV)
			}
		} else {
			ok := minV != nil && minV.isParam(1) && maxV != nil
			if ok {
				l := linearOf(maxV) // newMin + len − 1
				ok = l.Const == -1 && l.Coef["param:1"] == 1 && lenOK(l, 1) && len(l.Coef) == 2
			}
			if !ok {
				badW = fmt.Sprintf("window after collapsing: min=%v max=%v", minV, maxV)
			}
		}
	}
	exp := "after a too-wide adjust: maxIndex = newMax and minIndex = newMax − len(bins) + 1 (the window spans exactly the array)"
	if !lowest {
		exp = "after a too-wide adjust: minIndex = newMin and maxIndex = newMin + len(bins) − 1 (the window spans exactly the array)"
	}
	c.R.check(badW == "" && nWide > 0 && nFold >= 2, rule, tname+".adjust/window-equals-array", shortFn(adj), c.fpos(adj), exp+"; collapsed weight is stored in the slot of the new edge index", firstNonEmpty(badW, fmt.Sprintf("%d too-wide path(s), %d fold store(s)", nWide, nFold)))
}

// c05EmptyEdge (C05-D7): adjust and shiftCounts index bins[i − offset] for i in [minIndex, maxIndex];
// they rely on the window fitting the array. On the empty-store edge of extendRange the window is
// (re)established from scratch: it must be a single slot (which always fits), or the array must have
// been allocated with the uncapped length of the requested range. Storing the requested, possibly
// wider-than-the-limit range before adjust runs makes adjust index past the array when a wide store
// is merged into an empty collapsing store.
func c05EmptyEdge(c *Ctx) {
	const rule = "C05-D7"
	dense := c.P.NamedType(pkgStore, "DenseStore")
	var ts []*types.Named
	ts = append(ts, dense)
	if cts, err := collapsingTypes(c); err == "" {
		for _, ct := range cts {
			ts = append(ts, ct.t)
		}
	}
	n := 0
	for _, t := range ts {
		f := c.P.DeclaredMethod(t, "extendRange")
		if f == nil {
			continue
		}
		tname := t.Obj().Name()
		paths, _ := execNoInline(c, f, nil, 1)
		for i, p := range paths {
			empty, found := pathCond(p, func(tm *Term) bool {
				if isMethodCall(tm, "IsEmpty") {
					return true
				}
				if tm.isBin("==") {
					for j := 0; j < 2; j++ {
						x := tm.Args[j].unver()
						if tm.Args[1-j].isConst("0") && x.Op == "field" && x.Sym == dr.count {
							return true
						}
					}
				}
				return false
			})
			if !found || !empty {
				continue
			}
			n++
			var minV, maxV *Term
			capped := true
			adjSeq := 1 << 30
			for _, e := range p.Effects {
				if e.Kind == "call" && isMethodCall(e.Call, "adjust") && adjSeq == 1<<30 {
					adjSeq = e.Seq
				}
			}
			for _, e := range p.Effects {
				if e.Seq > adjSeq {
					continue
				}
				if e.Kind == "store" && e.Addr.unver().Op == "field" {
					switch e.Addr.unver().Sym {
					case dr.minIndex:
						minV = e.Val
					case dr.maxIndex:
						maxV = e.Val
					}
				}
				if e.Kind == "call" && isMethodCall(e.Call, "getNewLength") {
					// the uncapped length: DenseStore's own getNewLength called on a DenseStore receiver
					capped = !strings.Contains(e.Call.Sym, ".DenseStore).getNewLength")
				}
			}
			key := fmt.Sprintf("%s.extendRange/path%d[%s]/empty-edge-window-fits", tname, i, pathSig(p))
			if minV == nil || maxV == nil {
				c.R.violate(rule, key, shortFn(f), c.fpos(f), "the empty edge establishes minIndex and maxIndex before adjust", fmt.Sprintf("min=%v max=%v", minV, maxV))
				continue
			}
			w := linCombine(linearOf(maxV), linearOf(minV), -1)
			single := len(w.Coef) == 0 && w.Const == 0
			ok := single || !capped
			why := "window is a single slot"
			if !single {
				why = fmt.Sprintf("window width = %s + 1 while the array length is capped by the bin limit: adjust would index past the array for a range wider than the limit", w.Key())
				if !capped {
					why = "array allocated with the uncapped length of the requested range"
				}
			}
			c.R.check(ok, rule, key, shortFn(f), c.fpos(f), "on the empty-store edge the window handed to adjust fits the freshly allocated array (single slot, or uncapped allocation)", why)
		}
	}
	c.R.floor(rule, "empty-edge paths of extendRange", n, 3)
}

// lenUnver rewrites the atoms len(ver:k(x)) of a linear form to len(x) (the caller has established that
// every replacement of x on the path preserved its length).
func lenUnver(l *Linear) *Linear {
	out := &Linear{Coef: map[string]int{}, Atoms: map[string]*Term{}, Exact: l.Exact, Const: l.Const}
	for k, co := range l.Coef {
		at := l.Atoms[k]
		if at.Op == "builtin" && at.Sym == "len" && len(at.Args) == 1 && at.Args[0].Op == "ver" {
			at = mk("builtin", "len", nil, at.Args[0].unver())
		}
		out.Coef[at.Key()] += co
		out.Atoms[at.Key()] = at
	}
	for k, v := range out.Coef {
		if v == 0 {
			delete(out.Coef, k)
			delete(out.Atoms, k)
		}
	}
	return out
}

// c05ExtendPost (C05-D8): extendRange(newMin, newMax) is the only way the window grows; every caller indexes the bins
// for the requested range right after it. So every path through it must end by establishing a window for the
// REQUESTED range: it hands (≤ newMin, ≥ newMax) to adjust, or stores such bounds itself. A path that returns
// without doing either (an "already collapsed, nothing to do" shortcut) leaves the requested maximum (lowest) or
// minimum (highest) outside the window, and the merge that follows indexes past the array.
func c05ExtendPost(c *Ctx) {
	const rule = "C05-D8"
	dense := c.P.NamedType(pkgStore, "DenseStore")
	var ts []*types.Named
	ts = append(ts, dense)
	if cts, err := collapsingTypes(c); err == "" {
		for _, ct := range cts {
			ts = append(ts, ct.t)
		}
	}
	covers := func(t *Term, param int, fld string) bool {
		t = t.unver()
		if t.isParam(param) {
			return true
		}
		if t.Op == "field" && t.Sym == fld {
			return true // the current bound (the requested one was folded into it by an open-coded min/max)
		}
		hit := false
		t.walk(func(x *Term) bool {
			if x.isParam(param) {
				hit = true
			}
			return true
		})
		return hit && (t.Op == "call" || t.Op == "builtin" || t.Op == "phi")
	}
	n := 0
	for _, t := range ts {
		f := c.P.DeclaredMethod(t, "extendRange")
		if f == nil {
			continue
		}
		tname := t.Obj().Name()
		paths, _ := execNoInline(c, f, nil, 1)
		for i, p := range paths {
			n++
			viaAdjust, minS, maxS := false, false, false
			for _, e := range p.Effects {
				if e.Kind == "call" && (isMethodCall(e.Call, "adjust") || isMethodCall(e.Call, "centerCounts")) && len(e.Call.Args) == 3 && covers(e.Call.Args[1], 1, dr.minIndex) && covers(e.Call.Args[2], 2, dr.maxIndex) {
					viaAdjust = true
				}
				if e.Kind == "store" && e.Addr.unver().Op == "field" {
					switch e.Addr.unver().Sym {
					case dr.minIndex:
						minS = covers(e.Val, 1, dr.minIndex)
					case dr.maxIndex:
						maxS = covers(e.Val, 2, dr.maxIndex)
					}
				}
			}
			// … and, unless the store is known empty on the path, the new window also keeps the OLD one: the bound
			// handed on is min(requested, current) / max(requested, current) — as a call of a min/max function of
			// both, or as one of the two under the comparison that makes it the smaller / larger one
			{
				empty := false
				for _, cd := range p.Conds {
					t := cd.Term
					if isMethodCall(t, "IsEmpty") && cd.Taken {
						empty = true
					}
					if (t.isBin("==") || t.isBin("!=")) && cd.Taken == t.isBin("==") && (t.Args[0].isConst("0") && stripVers(t.Args[1]).Op == "field" || t.Args[1].isConst("0") && stripVers(t.Args[0]).Op == "field") {
						empty = true // count == 0 (the inlined IsEmpty)
					}
				}
				union := func(v *Term, param int, fld string, lower bool) bool {
					v = stripVers(stripConv(v))
					isP := func(x *Term) bool { return stripVers(x).isParam(param) }
					isF := func(x *Term) bool {
						x = stripVers(x)
						if x.Op != "field" || x.Sym != fld {
							return false
						}
						o := x.Args[0]
						return o.isParam(0) || o.Op == "field" && len(o.Args) == 1 && o.Args[0].isParam(0) // the embedded dense part
					}
					if (v.Op == "call" || v.Op == "builtin") && len(v.Args) == 2 {
						nm := v.Sym
						if i := strings.LastIndex(nm, "."); i >= 0 {
							nm = nm[i+1:]
						}
						nm = strings.ToLower(nm)
						if (lower && nm == "min" || !lower && nm == "max") && (isP(v.Args[0]) && isF(v.Args[1]) || isP(v.Args[1]) && isF(v.Args[0])) {
							return true
						}
						return false
					}
					// one of the two, under evidence
					for _, cd := range p.Conds {
						t := cd.Term
						if !(t.isBin("<") || t.isBin("<=")) {
							continue
						}
						x, y := t.Args[0], t.Args[1]
						var pBelowF, fBelowP bool // "param below field" holds / "field below param" holds
						switch {
						case isP(x) && isF(y):
							pBelowF, fBelowP = cd.Taken, !cd.Taken
						case isF(x) && isP(y):
							fBelowP, pBelowF = cd.Taken, !cd.Taken
						default:
							continue
						}
						if isP(v) && (lower && pBelowF || !lower && fBelowP) || isF(v) && (lower && fBelowP || !lower && pBelowF) {
							return true
						}
					}
					return false
				}
				if !empty {
					var lo, hi *Term
					for _, e := range p.Effects {
						if e.Kind == "call" && (isMethodCall(e.Call, "adjust") || isMethodCall(e.Call, "centerCounts")) && len(e.Call.Args) == 3 {
							lo, hi = e.Call.Args[1], e.Call.Args[2]
						}
					}
					if lo == nil {
						for _, e := range p.Effects {
							if e.Kind == "store" && e.Addr.unver().Op == "field" {
								switch e.Addr.unver().Sym {
								case dr.minIndex:
									lo = e.Val
								case dr.maxIndex:
									hi = e.Val
								}
							}
						}
					}
					okU := true
					why := ""
					if lo != nil && !union(lo, 1, dr.minIndex, true) {
						okU, why = false, "lower bound "+shorten(lo.Key(), 90)
					}
					if hi != nil && !union(hi, 2, dr.maxIndex, false) {
						okU, why = false, firstNonEmpty(why, "upper bound "+shorten(hi.Key(), 90))
					}
					c.R.check(okU, rule, fmt.Sprintf("%s.extendRange/path%d[%s]/window-keeps-the-old-one", tname, i, pathSig(p)), shortFn(f), c.fpos(f),
						"on a non-empty store the new bounds are min(requested, current) and max(requested, current)", firstNonEmpty(why, "ok"))
				}
			}
			c.R.check(viaAdjust || minS && maxS, rule, fmt.Sprintf("%s.extendRange/path%d[%s]/window-for-requested-range", tname, i, pathSig(p)), shortFn(f), c.fpos(f),
				"the path hands the requested (newMin, newMax) to adjust/centerCounts or stores bounds derived from them: no return leaves the requested range outside the window",
				fmt.Sprintf("adjust with the requested range=%v, stores minIndex=%v maxIndex=%v; [%s]", viaAdjust, minS, maxS, p.String()))
		}
	}
	c.R.floor(rule, "extendRange paths", n, 9)
}

// c05SketchCtors (C05-D9): the named sketch constructors give BOTH sides a store of the kind their name
// announces — two separate calls of the same store constructor with the same bin limit. A collapsing-highest
// sketch whose negative side collapses lowest behaves identically until the store collapses, and then loses the
// wrong end of the negative values.
func c05SketchCtors(c *Ctx, rule string) {
	want := map[string]string{
		"LogCollapsingLowestDenseDDSketch":  "NewCollapsingLowestDenseStore",
		"LogCollapsingHighestDenseDDSketch": "NewCollapsingHighestDenseStore",
		"LogUnboundedDenseDDSketch":         "NewDenseStore",
	}
	n := 0
	for ctor, storeCtor := range want {
		f := c.P.Func(pkgSketch, ctor)
		if f == nil {
			continue // an API that does not exist is not this rule's business
		}
		n++
		paths, _ := exec(c, f, nil, 1)
		ok := false
		found := "no success path"
		for _, p := range paths {
			if p.RetNil(1) != 1 {
				continue
			}
			r := p.RetT[0]
			var pos, neg *Term
			if r.Op == "call" && strings.HasSuffix(r.Sym, ".NewDDSketch") && len(r.Args) == 3 {
				pos, neg = r.Args[1], r.Args[2]
			}
			found = fmt.Sprintf("positive=%v negative=%v", pos, neg)
			good := func(t *Term) bool {
				t = stripConv(t)
				if t == nil {
					return false
				}
				// the store comes from a closure handed to a shared helper: func() Store { return <storeCtor>(limit) } with
				// the caller's bin limit captured
				if t.Op == "dyncall" && len(t.Args) >= 1 && t.Args[0].Op == "closure" {
					mc, _ := t.Args[0].V.(*ssa.MakeClosure)
					if mc == nil {
						return false
					}
					fn := mc.Fn.(*ssa.Function)
					if len(fn.Blocks) != 1 {
						return false
					}
					ret, isRet := fn.Blocks[0].Instrs[len(fn.Blocks[0].Instrs)-1].(*ssa.Return)
					if !isRet || len(ret.Results) != 1 {
						return false
					}
					v := ret.Results[0]
					if mi, isMI := v.(*ssa.MakeInterface); isMI {
						v = mi.X
					}
					call, isCall := v.(*ssa.Call)
					if !isCall || call.Common().StaticCallee() == nil || call.Common().StaticCallee().Name() != storeCtor || len(call.Common().Args) > 1 {
						return false
					}
					for _, a := range call.Common().Args {
						u, isLoad := a.(*ssa.UnOp)
						if !isLoad || u.Op != token.MUL {
							return false
						}
						fv, isFV := u.X.(*ssa.FreeVar)
						if !isFV {
							return false
						}
						bound := false
						for i, x := range fn.FreeVars {
							if x == fv && i < len(mc.Bindings) {
								if al, isAl := mc.Bindings[i].(*ssa.Alloc); isAl && len(f.Params) > 1 && singleAssigned(al) == ssa.Value(f.Params[1]) {
									bound = true
								}
							}
						}
						if !bound {
							return false
						}
					}
					return true
				}
				if t.Op != "call" || !strings.HasSuffix(t.Sym, "."+storeCtor) {
					return false
				}
				for i, a := range t.Args {
					if !a.isParam(1) || i > 0 {
						return false
					}
				}
				return true
			}
			ok = pos != nil && neg != nil && good(pos) && good(neg)
		}
		// two separate stores: at every call of NewDDSketch (here or in a helper split off the constructor) the two store
		// arguments are the results of two different calls
		nNew := 0
		for _, g := range withNewHelpers(f) {
			for _, b := range g.Blocks {
				for _, in := range b.Instrs {
					call, isCall := in.(*ssa.Call)
					if !isCall || call.Common().StaticCallee() == nil || call.Common().StaticCallee().Name() != "NewDDSketch" || len(call.Common().Args) != 3 {
						continue
					}
					nNew++
					strip := func(v ssa.Value) ssa.Value {
						for {
							switch x := v.(type) {
							case *ssa.MakeInterface:
								v = x.X
							case *ssa.ChangeInterface:
								v = x.X
							default:
								return v
							}
						}
					}
					x, y := strip(call.Common().Args[1]), strip(call.Common().Args[2])
					_, xc := x.(*ssa.Call)
					_, yc := y.(*ssa.Call)
					if !xc || !yc || x == y {
						ok = false
						found = firstNonEmpty("the two sides are not the results of two separate calls", found)
					}
				}
			}
		}
		if nNew == 0 {
			ok = false
		}
		c.R.check(ok, rule, ctor+"/both-sides-same-kind", shortFn(f), c.fpos(f), "NewDDSketch(mapping, "+storeCtor+"(…), "+storeCtor+"(…)) with two separate stores and the caller's bin limit", found)
	}
	c.R.floor(rule, "named dense sketch constructors", n, 3)
}

// c05MergeCoverage (D6): the same-kind merge of a collapsing store visits the argument's indexes one by one from its
// first (lowest: min upwards; highest: max downwards) to its last and adds each bin exactly once — into the edge slot
// exactly when the index lies beyond the receiver's collapsing edge, otherwise into the slot of that same index. Decided
// on every enumerated path (loops unrolled up to two visits): the k-th add reads index first ± k; an edge add has taken
// `index beyond edge`, an own-slot add writes slot index − offset after that test failed; and the path ends only with
// the evidence that the next index is past the argument's last one.
func c05MergeCoverage(c *Ctx, ct collapsingType) {
	const rule = "C05-D6"
	tname := ct.t.Obj().Name()
	lowest := strings.Contains(tname, "Lowest")
	f := c.P.DeclaredMethod(ct.t, "MergeWith")
	if f == nil {
		return
	}
	paths, _ := exec(c, f, nil, 2)
	isArgObj := func(t *Term) bool {
		t = stripVers(t)
		return t.Op == "extract" && t.Sym == "0" && t.Args[0].Op == "assert"
	}
	// fld(t) = ("s"|"o", name) for field:name(field:inner(obj)) or field:name(obj)
	fld := func(t *Term) (string, string) {
		t = stripVers(t)
		if t.Op != "field" || len(t.Args) != 1 {
			return "", ""
		}
		o := stripVers(t.Args[0])
		if o.Op == "field" && o.Sym == ct.innerFld && len(o.Args) == 1 {
			o = stripVers(o.Args[0])
		}
		switch {
		case o.isParam(0):
			return "s", t.Sym
		case isArgObj(o):
			return "o", t.Sym
		}
		return "", ""
	}
	fieldLin := func(who, name string) *Linear {
		l := &Linear{Coef: map[string]int{who + "." + name: 1}, Atoms: map[string]*Term{}, Exact: true}
		return l
	}
	// canonical linear form: field atoms renamed to who.name so that versions and embedding do not matter
	canon := func(t *Term) *Linear {
		l := linearOf(stripVers(t))
		out := &Linear{Coef: map[string]int{}, Atoms: map[string]*Term{}, Exact: l.Exact, Const: l.Const}
		for k, cf := range l.Coef {
			if who, name := fld(l.Atoms[k]); who != "" {
				out.Coef[who+"."+name] += cf
			} else {
				out.Coef[k] += cf
				out.Atoms[k] = l.Atoms[k]
			}
		}
		for k, v := range out.Coef {
			if v == 0 {
				delete(out.Coef, k)
			}
		}
		return out
	}
	eq := func(a, b *Linear) bool {
		d := linCombine(a, b, -1)
		for _, v := range d.Coef {
			if v != 0 {
				return false
			}
		}
		return d.Const == 0
	}
	plus := func(a *Linear, k int) *Linear {
		out := linCombine(a, &Linear{Coef: map[string]int{}, Atoms: map[string]*Term{}, Exact: true}, 1)
		out.Const += k
		return out
	}
	first, last, edgeBound := dr.minIndex, dr.maxIndex, dr.minIndex
	dir := 1
	if !lowest {
		first, last, edgeBound = dr.maxIndex, dr.minIndex, dr.maxIndex
		dir = -1
	}
	nPaths, nAdds := 0, 0
	bad := ""
	// isBinAdd: a store `s.bins[..] = s.bins[..] + o.bins[..]`
	isBinAdd := func(e Effect) bool {
		if e.Kind != "store" || e.Addr.Op != "index" || !e.Val.isBin("+") {
			return false
		}
		if who, name := fld(e.Addr.Args[0]); who != "s" || name != dr.bins {
			return false
		}
		for i := 0; i < 2; i++ {
			if src := stripVers(e.Val.Args[i]); src.Op == "index" {
				if who, name := fld(src.Args[0]); who == "o" && name == dr.bins {
					return true
				}
			}
		}
		return false
	}
	allAdds, liveAdds := map[ssa.Instruction]bool{}, map[ssa.Instruction]bool{}
	for _, p := range paths {
		same := false
		for _, cd := range p.Conds {
			if t := cd.Term; t.Op == "extract" && t.Sym == "1" && t.Args[0].Op == "assert" && cd.Taken {
				same = true
			}
		}
		if !same {
			continue
		}
		for _, e := range p.Effects {
			if isBinAdd(e) && e.InLoop {
				allAdds[e.Instr] = true
			}
		}
		// drop paths whose comparisons of one and the same difference contradict each other (the executor does not
		// relate `!(x ≤ y)` to a later `x == y`): sign sets {−, 0, +} of a − b, intersected per difference
		feasible := true
		signs := map[string]int{}
		for _, cd := range p.Conds {
			t := cd.Term
			if len(t.Args) != 2 || !(t.isBin("<") || t.isBin("<=") || t.isBin("==") || t.isBin("!=")) {
				continue
			}
			d := linCombine(canon(t.Args[0]), canon(t.Args[1]), -1)
			var keys []string
			for k, v := range d.Coef {
				if v != 0 {
					keys = append(keys, k)
				}
			}
			if len(keys) == 0 {
				continue
			}
			sort.Strings(keys)
			neg := d.Coef[keys[0]] < 0
			key := ""
			for _, k := range keys {
				v := d.Coef[k]
				if neg {
					v = -v
				}
				key += fmt.Sprintf("%+d*%s", v, k)
			}
			cst := d.Const
			if neg {
				cst = -cst
			}
			key += fmt.Sprintf("%+d", cst)
			const (
				sNeg, sZero, sPos = 1, 2, 4
			)
			set := map[string]int{"<": sNeg, "<=": sNeg | sZero, "==": sZero, "!=": sNeg | sPos}[t.Sym]
			if !cd.Taken {
				set = (sNeg | sZero | sPos) &^ set
			}
			if neg { // the relation was about −(a − b): mirror the sign set
				m := set & sZero
				if set&sNeg != 0 {
					m |= sPos
				}
				if set&sPos != 0 {
					m |= sNeg
				}
				set = m
			}
			if cur, ok := signs[key]; ok {
				set &= cur
			}
			signs[key] = set
			if set == 0 {
				feasible = false
			}
		}
		if !feasible {
			continue
		}
		nPaths++
		// beyond(X): evidence about "X lies beyond the receiver's collapsing edge": +1 taken, −1 refuted, 0 none
		// facts: every order comparison of the path as a true statement a < b or a ≤ b (a refuted one is mirrored)
		type ordFact struct {
			strict bool
			a, b   *Term
		}
		var facts []ordFact
		for _, cd := range p.Conds {
			t := cd.Term
			if len(t.Args) != 2 || !(t.isBin("<") || t.isBin("<=")) {
				continue
			}
			if cd.Taken {
				facts = append(facts, ordFact{t.isBin("<"), t.Args[0], t.Args[1]})
			} else {
				facts = append(facts, ordFact{!t.isBin("<"), t.Args[1], t.Args[0]})
			}
		}
		// beyond(X): evidence about "X lies beyond the receiver's collapsing edge": +1 taken, −1 refuted, 0 none
		beyond := func(x *Linear) int {
			r := 0
			for _, ft := range facts {
				isBound := func(t *Term) bool { who, name := fld(t); return who == "s" && name == edgeBound }
				// out: the fact reads "idx is strictly beyond the edge"; in: it reads "idx is at or inside the edge"
				var out, in bool
				if lowest {
					out = ft.strict && isBound(ft.b) && eq(canon(ft.a), x)
					in = isBound(ft.a) && eq(canon(ft.b), x)
				} else {
					out = ft.strict && isBound(ft.a) && eq(canon(ft.b), x)
					in = isBound(ft.b) && eq(canon(ft.a), x)
				}
				switch {
				case out:
					r = 1
				case in:
					if r == 0 {
						r = -1
					}
				}
			}
			return r
		}
		k := 0
		refuted := false
		pathBad := ""
		for _, e := range p.Effects {
			if e.Kind != "store" || e.Addr.Op != "index" {
				continue
			}
			if who, name := fld(e.Addr.Args[0]); who != "s" || name != dr.bins {
				continue
			}
			v := e.Val
			var src *Term
			if v.isBin("+") {
				for i := 0; i < 2; i++ {
					if stripVers(v.Args[i]).Key() == stripVers(e.Addr).Key() {
						src = stripVers(v.Args[1-i])
					}
				}
			}
			if src == nil || src.Op != "index" {
				continue // not an add of an argument bin (other writes are other rules' business)
			}
			if who, name := fld(src.Args[0]); who != "o" || name != dr.bins {
				continue
			}
			nAdds++
			liveAdds[e.Instr] = true
			idx := linCombine(canon(src.Args[1]), fieldLin("o", dr.offset), 1) // the argument index read
			want := plus(fieldLin("o", first), dir*k)
			if !eq(idx, want) {
				pathBad = fmt.Sprintf("add #%d reads the argument's bin at an index that is not %s%+d", k+1, first, dir*k)
				break
			}
			slot := canon(e.Addr.Args[1])
			own := eq(linCombine(slot, fieldLin("s", dr.offset), 1), idx)
			switch b := beyond(idx); {
			case own:
				if b == -1 {
					refuted = true
				}
				if !refuted {
					pathBad = fmt.Sprintf("add #%d goes to the slot of its own index although that index is not known to lie inside the receiver's edge", k+1)
				}
			default: // a fixed slot: the edge
				if b != 1 {
					pathBad = fmt.Sprintf("add #%d goes to a fixed slot without the evidence that its index lies beyond the receiver's edge", k+1)
				}
			}
			if pathBad != "" {
				break
			}
			k++
		}
		if pathBad == "" {
			// termination: the next index is past the argument's last one
			next := plus(fieldLin("o", first), dir*k)
			lastL := fieldLin("o", last)
			done := false
			ltRef, eqRef := false, false
			for _, cd := range p.Conds {
				t := cd.Term
				var a, b *Linear
				if len(t.Args) == 2 {
					a, b = canon(t.Args[0]), canon(t.Args[1])
				} else {
					continue
				}
				switch {
				case t.isBin("==") && (eq(a, next) && eq(b, lastL) || eq(b, next) && eq(a, lastL)) && !cd.Taken:
					eqRef = true
				case t.isBin("!=") && (eq(a, next) && eq(b, lastL) || eq(b, next) && eq(a, lastL)) && cd.Taken:
					eqRef = true
				}
				// the last add was the argument's last index
				if k > 0 {
					prev := plus(fieldLin("o", first), dir*(k-1))
					if t.isBin("==") && cd.Taken && (eq(a, prev) && eq(b, lastL) || eq(b, prev) && eq(a, lastL)) {
						done = true
					}
				}
			}
			for _, ft := range facts { // "next is past last" in iteration order, strictly (done) or not (with ≠: done)
				x, y := canon(ft.a), canon(ft.b)
				past := eq(x, lastL) && eq(y, next)
				if !lowest {
					past = eq(x, next) && eq(y, lastL)
				}
				if past && ft.strict {
					done = true
				} else if past {
					ltRef = true
				}
			}
			if ltRef && eqRef {
				done = true
			}
			if !done {
				pathBad = fmt.Sprintf("the merge ends after %d add(s) without the evidence that the argument's last index has been passed", k)
			}
		}
		if pathBad != "" {
			bad = firstNonEmpty(bad, pathBad+" on ["+pathSig(p)+"]")
		}
	}
	for ins := range allAdds {
		if !liveAdds[ins] && bad == "" {
			bad = "the add at " + c.P.pos(ins.Pos()) + " lies only on paths whose comparisons contradict each other (a loop around it never advances)"
		}
	}
	c.R.check(bad == "" && nPaths > 0 && nAdds > 0, rule, tname+".MergeWith/every-bin-once", shortFn(f), c.fpos(f),
		"the argument's indexes are visited in order from first to last, each bin added once: to the edge slot exactly beyond the receiver's edge, otherwise to the slot of its own index", firstNonEmpty(bad, fmt.Sprintf("%d same-kind path(s), %d add(s)", nPaths, nAdds)))
}
