package main

import (
	"fmt"
	"go/ast"
	"go/types"
	"sort"
	"strings"

	"golang.org/x/tools/go/ssa"
)

// C10 — exact summary statistics are exact across every operation.

func init() {
	register("C10",
		"DECIDED: D1 wrapper discipline — on every CFG path of Add, AddWithCount, MergeWith, Reweight, Clear of the exact variant the inner sketch operation is the first state change, its error (if any) is tested, and exactly the corresponding statistics operation with the corresponding arguments follows on the success edge only; Copy returns inner.Copy() with stats.Copy(); ChangeMapping rescales a copy of the statistics (never the receiver's) by the same factor handed to the inner ChangeMapping; each arm of the exact decoder folds the decoded value into the matching accumulator only after the primitive decoded successfully. "+
			"D2 nothing bypasses the wrapper — every exported *DDSketch method that changes observable state (write-set with the paginated store's sort/compaction routines factored out) or returns a *DDSketch is re-declared by the exact variant. "+
			"D3 statistics object — Copy and Clear cover all fields (Clear restores the constructor's values), Reweight scales exactly the accumulators, Rescale never touches the count, MergeWith folds every field, Add updates min with < and max with >. "+
			"D4 clamping table of the exact quantile queries and extreme/count/sum getters read the statistics. "+
			"D5 statistics blocks: encoder and decoder use the same primitive per flag (shared with C06/C07) and the decoder's final guard is the exact decision table: after a successful decode, refusal exactly when the decoded count is 0 and the inner sketch is not empty. "+
			"D6 accessors — count, sum, emptiness and extremes are read from the statistics ((NaN, error) exactly when empty), zero weight, stores and iteration from the inner sketch; the constructor from parts refuses exactly when the emptiness of the two parts disagrees and otherwise holds exactly the two parts. "+
			"SHARED (obligations of other properties that decide clauses this property states too, re-evaluated here under their home rule ids): C13-D3 sketch Reweight (the wrapper scales the statistics on the success edge only, so a refused factor must leave the inner sketch untouched: w ≤ 0 → error and no write). "+
			"NOT DECIDED: ulp bound of the compensated sum; exactness of float addition of counts.",
		"one obligation per wrapper path, per promoted method, per statistics field × operation, per clamping cell; non-trivial = needed a path, mod-set or term evaluation",
		false, runC10)
}

func runC10(c *Ctx) {
	a, err := c.anchors()
	if err != nil {
		c.R.undecided("C10", "anchors", "", "", "sketch anchors resolve", err.Error())
		return
	}
	c10Wrappers(c, a, "C10-D1", "")
	c10Bypass(c, a)
	c10StatObject(c, a, "C10-D3", "")
	c10Accessors(c, a, "C10-D6")
	c10Clamp(c, a)
	c10Decode(c, a)
	c10EncodeGuards(c, a)
	// the wrapper scales the statistics only when the inner Reweight accepts: a refusal that has already written to the
	// inner sketch leaves the two apart
	c.shared(func() { c13Reweight(c, a) }, func(o *Obligation) bool { return strings.Contains(o.Key, "DDSketch).Reweight") })
}

// c10Wrappers: part == "" checks every wrapper; "Reweight" / "ChangeMapping" only that one (C16 / C17 re-evaluate it
// under their own rule ids).
func c10Wrappers(c *Ctx, a *sketchAnchors, rule string, part string) {
	if part == "AddWithCount" {
		n := checkWrapper(c, a, wrapperSpec{rule: rule, method: "AddWithCount", inner: "AddWithCount",
			innerArgs: []func(*Term) bool{isParamN(1), isParamN(2)}, stat: "Add", statArgs: []func(*Term) bool{isParamN(1), isParamN(2)},
			domain: mkDomain(paramScalar("count", 2, 1, constPoints("0"))),
			skipOK: func(p *Path) bool {
				set, ok := p.Classes["count"]
				return ok && set&^(1<<uint(classOfPoint(0))) == 0
			}, skipWhy: "weight is exactly 0",
			mustSkip: func(p *Path) bool {
				set, ok := p.Classes["count"]
				return !ok || set.has(classOfPoint(0))
			}, mustSkipWhy: "a value added with weight exactly 0 leaves the statistics (min/max included) alone"})
		c.R.floor(rule, "exact-variant AddWithCount wrapper paths", n, 2)
		return
	}
	if part == "MergeWith" {
		n := checkWrapper(c, a, wrapperSpec{rule: rule, method: "MergeWith", inner: "MergeWith",
			innerArgs: []func(*Term) bool{func(t *Term) bool { return t.Op == "field" && t.Sym == a.innerFld && t.Args[0].isParam(1) }},
			stat:      "MergeWith", statArgs: []func(*Term) bool{func(t *Term) bool { return t.Op == "field" && t.Sym == a.statField && t.Args[0].isParam(1) }}})
		c.R.floor(rule, "exact-variant MergeWith wrapper paths", n, 2)
		return
	}
	if part == "Clear" {
		n := checkWrapper(c, a, wrapperSpec{rule: rule, method: "Clear", inner: "Clear", stat: "Clear"})
		c.R.floor(rule, "exact-variant Clear wrapper paths", n, 1)
		return
	}
	if part == "Reweight" {
		n := checkWrapper(c, a, wrapperSpec{rule: rule, method: "Reweight", inner: "Reweight", innerArgs: []func(*Term) bool{isParamN(1)},
			stat: "Reweight", statArgs: []func(*Term) bool{isParamN(1)}})
		c.R.floor(rule, "exact-variant Reweight wrapper paths", n, 2)
		return
	}
	if part == "" {
		c10WrapperTable(c, a, rule)
	}
	c10WrapperCopyChange(c, a, rule, part)
}

func c10WrapperTable(c *Ctx, a *sketchAnchors, rule string) {
	n := 0
	n += checkWrapper(c, a, wrapperSpec{rule: rule, method: "AddWithCount", inner: "AddWithCount",
		innerArgs: []func(*Term) bool{isParamN(1), isParamN(2)}, stat: "Add", statArgs: []func(*Term) bool{isParamN(1), isParamN(2)},
		domain: mkDomain(paramScalar("count", 2, 1, constPoints("0"))),
		skipOK: func(p *Path) bool {
			set, ok := p.Classes["count"]
			return ok && set&^(1<<uint(classOfPoint(0))) == 0
		}, skipWhy: "weight is exactly 0",
		mustSkip: func(p *Path) bool {
			set, ok := p.Classes["count"]
			return !ok || set.has(classOfPoint(0))
		}, mustSkipWhy: "a value added with weight exactly 0 leaves the statistics (min/max included) alone"})
	n += checkWrapper(c, a, wrapperSpec{rule: rule, method: "Add", inner: "Add",
		innerArgs: []func(*Term) bool{isParamN(1)}, stat: "Add", statArgs: []func(*Term) bool{isParamN(1), isConstS("1")},
		altInner: "AddWithCount", altArgs: []func(*Term) bool{isParamN(1), isConstS("1")}})
	n += checkWrapper(c, a, wrapperSpec{rule: rule, method: "MergeWith", inner: "MergeWith",
		innerArgs: []func(*Term) bool{func(t *Term) bool { return t.Op == "field" && t.Sym == a.innerFld && t.Args[0].isParam(1) }},
		stat:      "MergeWith", statArgs: []func(*Term) bool{func(t *Term) bool { return t.Op == "field" && t.Sym == a.statField && t.Args[0].isParam(1) }}})
	n += checkWrapper(c, a, wrapperSpec{rule: rule, method: "Reweight", inner: "Reweight", innerArgs: []func(*Term) bool{isParamN(1)},
		stat: "Reweight", statArgs: []func(*Term) bool{isParamN(1)}})
	n += checkWrapper(c, a, wrapperSpec{rule: rule, method: "Clear", inner: "Clear", stat: "Clear"})
	c.R.floor(rule, "wrapper paths (Add, AddWithCount, MergeWith, Reweight, Clear)", n, 8) // 3 fallible wrappers × (error, success) + MergeWith + Clear
}

func c10WrapperCopyChange(c *Ctx, a *sketchAnchors, rule string, part string) {
	// Copy
	if f := c.P.DeclaredMethod(a.Exact, "Copy"); (part == "" || part == "Copy") && c.mustFunc(rule, f, "(*Exact).Copy") {
		paths, _ := exec(c, f, nil, 1)
		ok := len(paths) == 1
		found := ""
		if ok {
			p := paths[0]
			flds := resultFields(p)
			in, st := flds[a.innerFld], flds[a.statField]
			ok = in != nil && isMethodCall(in, "Copy") && len(in.Args) == 1 && isRecvField(in.Args[0], a.innerFld) && strings.Contains(in.Sym, "DDSketch)") &&
				st != nil && isMethodCall(st, "Copy") && len(st.Args) == 1 && isRecvField(st.Args[0], a.statField) && strings.Contains(st.Sym, "SummaryStatistics)")
			found = fmt.Sprintf("%s=%v %s=%v", a.innerFld, in, a.statField, st)
		}
		c.R.check(ok, rule, shortFn(f)+"/result", shortFn(f), c.fpos(f), "result = {inner.Copy(), statistics.Copy()} of the receiver", found)
	}
	// ChangeMapping
	if f := c.P.DeclaredMethod(a.Exact, "ChangeMapping"); (part == "" || part == "ChangeMapping") && c.mustFunc(rule, f, "(*Exact).ChangeMapping") {
		paths, _ := exec(c, f, nil, 1)
		for i, p := range paths {
			flds := resultFields(p)
			in, st := flds[a.innerFld], flds[a.statField]
			key := fmt.Sprintf("%s/path%d[%s]", shortFn(f), i, pathSig(p))
			okIn := in != nil && isMethodCall(in, "ChangeMapping") && len(in.Args) == 5 && isRecvField(in.Args[0], a.innerFld) && in.Args[1].isParam(1)
			var scale *Term
			if okIn {
				scale = in.Args[4]
			}
			// the statistics of the result: a Copy() of the receiver's, rescaled by the same factor
			okSt := st != nil && isMethodCall(st, "Copy") && len(st.Args) == 1 && isRecvField(st.Args[0], a.statField)
			nResc := 0
			okResc := false
			for _, e := range p.Calls() {
				if isMethodCall(e.Call, "Rescale") && strings.Contains(e.Call.Sym, "SummaryStatistics)") {
					nResc++
					if okSt && len(e.Call.Args) == 2 && sameVal(e.Call.Args[0], st) && scale != nil && e.Call.Args[1].Key() == scale.Key() && scale.isParam(3) {
						okResc = true
					}
				}
			}
			c.R.check(okIn && okSt && okResc && nResc == 1, rule, key, shortFn(f), c.fpos(f),
				"result = {inner.ChangeMapping(newMapping, …, scale), copy of the statistics rescaled once by the same scale}", fmt.Sprintf("inner=%v stats=%v rescale calls=%d", in, st, nResc))
		}
		// receiver's statistics untouched
		bad := ""
		for _, l := range c.Mod.ModsRooted(f, 0) {
			if strings.HasPrefix(l, "."+a.statField) {
				bad = "writes receiver" + l
			}
		}
		c.R.check(bad == "", rule, shortFn(f)+"/receiver-stats-untouched", shortFn(f), c.fpos(f), "the receiver's statistics are not in the write set", firstNonEmpty(bad, "write set rooted at receiver: "+strings.Join(c.Mod.ModsRooted(f, 0), " ")))
	}
}

// resultFields: values stored into the fields of the object returned by the path (composite literal).
func resultFields(p *Path) map[string]*Term {
	out := map[string]*Term{}
	if len(p.RetT) == 0 {
		return out
	}
	r := p.RetT[0]
	for _, e := range p.Effects {
		if e.Kind == "store" && e.Addr.Op == "field" && len(e.Addr.Args) == 1 && sameVal(e.Addr.Args[0], r) {
			out[e.Addr.Sym] = e.Val
		}
		// whole-struct copy `c := *x; …; return &c`: every field starts as the field of x
		if e.Kind == "store" && sameVal(e.Addr, r) && e.Val.Op == "load" && r.V != nil {
			if pt, ok := r.V.Type().Underlying().(*types.Pointer); ok {
				if st, ok := pt.Elem().Underlying().(*types.Struct); ok {
					for i := 0; i < st.NumFields(); i++ {
						out[st.Field(i).Name()] = mk("field", st.Field(i).Name(), nil, e.Val.Args[0])
					}
				}
			}
		}
	}
	return out
}

// D2: nothing bypasses the wrapper.
func c10Bypass(c *Ctx, a *sketchAnchors) {
	const rule = "C10-D2"
	if pr := c.paginated(); pr.err != "" {
		c.R.undecided(rule, "anchor/paginated-routines", "", "", "sort/compaction routines resolve by role", pr.err)
		return
	}
	m2 := c.Mod2()
	n := 0
	var names []string
	for i := 0; i < a.DDSketch.NumMethods(); i++ {
		names = append(names, a.DDSketch.Method(i).Name())
	}
	sort.Strings(names)
	for _, name := range names {
		f := c.P.DeclaredMethod(a.DDSketch, name)
		if f == nil || !f.Object().Exported() {
			continue
		}
		n++
		mods := m2.ModsRooted(f, 0)
		returnsSketch := false
		rs := f.Signature.Results()
		for i := 0; i < rs.Len(); i++ {
			if strings.HasSuffix(rs.At(i).Type().String(), "ddsketch.DDSketch") {
				returnsSketch = true
			}
		}
		redeclared := c.P.DeclaredMethod(a.Exact, name) != nil
		key := "(*DDSketch)." + name
		switch {
		case len(mods) == 0 && !returnsSketch:
			c.R.okay(rule, key, shortFn(f), c.fpos(f), "read-only methods may be promoted", "observable write set empty (promoted: "+fmt.Sprint(!redeclared)+")")
		default:
			why := "changes state: " + strings.Join(mods, " ")
			if returnsSketch {
				why = "returns a plain *DDSketch; " + why
			}
			c.R.check(redeclared, rule, key, shortFn(f), c.fpos(f), "state-changing or sketch-returning method is re-declared by DDSketchWithExactSummaryStatistics", why+fmt.Sprintf("; re-declared=%v", redeclared))
		}
	}
	c.R.floor(rule, "exported *DDSketch methods classified", n, 20)
	c.R.assume("write sets are computed with the paginated store's sort and compaction routines factored out (they only reorganise the representation: C14 assumption)")
}

// D3: the statistics object.
// c10StatObject checks the statistics object; part == "" runs every block, otherwise only the block of that method
// (C16 re-evaluates Reweight, C17 Rescale under their own rule ids).
func c10StatObject(c *Ctx, a *sketchAnchors, rule string, part string) {
	want := func(m string) bool { return part == "" || part == m }
	st := c.P.NamedType(pkgStat, "SummaryStatistics")
	if st == nil {
		c.R.undecided(rule, "anchor/SummaryStatistics", "", "", "type exists", "unresolved")
		return
	}
	fields := structFields(st)
	var fnames []string
	for _, f := range fields {
		if !c.fieldCarriesState(f) {
			continue // a field no code reads is not part of the statistics
		}
		fnames = append(fnames, f.Name())
	}
	ctor := c.P.Func(pkgStat, "NewSummaryStatistics")
	ctorVals := map[string]*Term{}
	if c.mustFunc(rule, ctor, "stat.NewSummaryStatistics") {
		ps, _ := exec(c, ctor, nil, 1)
		if len(ps) == 1 {
			ctorVals = resultFields(ps[0])
		}
	}
	// roles of the min / max fields: returned by Min() / Max()
	minF, maxF, cntF := c.getterField(st, "Min"), c.getterField(st, "Max"), c.getterField(st, "Count")
	if minF == "" || maxF == "" || cntF == "" {
		c.R.undecided(rule, "anchor/min-max-count-fields", "", "", "Min()/Max()/Count() are one-field getters", fmt.Sprintf("min=%q max=%q count=%q", minF, maxF, cntF))
		return
	}
	var accum []string // every field that is neither min nor max
	for _, n := range fnames {
		if n != minF && n != maxF {
			accum = append(accum, n)
		}
	}
	zeroOf := func(f string) *Term {
		if v, ok := ctorVals[f]; ok {
			return v
		}
		return mk("const", "0", nil) // fields omitted from the constructor literal are zero
	}
	// Copy: every field carried over
	if f := c.P.DeclaredMethod(st, "Copy"); want("Copy") && c.mustFunc(rule, f, "(*SummaryStatistics).Copy") {
		ps, _ := exec(c, f, nil, 1)
		for _, fn := range fnames {
			ok := len(ps) == 1
			found := "?"
			if ok {
				v := resultFields(ps[0])[fn]
				ok = v != nil && v.Op == "field" && v.Sym == fn && v.Args[0].isParam(0)
				found = fmt.Sprint(v)
			}
			c.R.check(ok, rule, "Copy/field/"+fn, shortFn(f), c.fpos(f), "copy carries receiver."+fn, found)
		}
	}
	// Clear: every field reset to the constructor's value
	if f := c.P.DeclaredMethod(st, "Clear"); want("Clear") && c.mustFunc(rule, f, "(*SummaryStatistics).Clear") {
		ps, _ := exec(c, f, nil, 1)
		for _, fn := range fnames {
			ok := len(ps) >= 1
			found := "no store"
			for _, p := range ps {
				var v *Term
				for _, e := range p.Effects {
					if e.Kind == "store" && isRecvField(e.Addr, fn) {
						v = e.Val
					}
					// whole-struct reset from the constructor: *s = *NewSummaryStatistics()
					if e.Kind == "store" && e.Addr.isRecv() && e.Val.Op == "load" && e.Val.Args[0].Op == "call" && ctor != nil && e.Val.Args[0].Sym == funcName(ctor) {
						v = zeroOf(fn)
					}
					// the same literal as SSA writes it: *s = zero value, then the listed fields one by one
					if e.Kind == "store" && e.Addr.isRecv() && e.Val.Op == "const" && strings.HasPrefix(e.Val.Sym, "zero:") {
						v = mk("const", "0", nil)
					}
					// whole-struct reset from a literal: *s = T{f: x, …} — the fields listed get their value, the others 0
					if e.Kind == "store" && e.Addr.isRecv() && e.Val.Op == "load" && e.Val.Args[0].unver().Op == "alloc" {
						tmp := e.Val.Args[0].unver()
						v = mk("const", "0", nil)
						for _, e2 := range p.Effects {
							if e2.Seq < e.Seq && e2.Kind == "store" && e2.Addr.Op == "field" && e2.Addr.Sym == fn && sameVal(e2.Addr.Args[0].unver(), tmp) {
								v = e2.Val
							}
						}
					}
				}
				if v == nil || v.Key() != zeroOf(fn).Key() {
					ok = false
				}
				if v != nil {
					found = v.Key()
				}
			}
			c.R.check(ok, rule, "Clear/field/"+fn, shortFn(f), c.fpos(f), "reset to the constructor's value "+zeroOf(fn).Key(), found)
		}
	}
	storesOf := func(p *Path) map[string]*Term {
		m := map[string]*Term{}
		for _, e := range p.Effects {
			if e.Kind == "store" && e.Addr.unver().Op == "field" && e.Addr.unver().Args[0].isParam(0) {
				m[e.Addr.unver().Sym] = e.Val
			}
		}
		return m
	}
	isScaled := func(v *Term, fld string, by *Term) bool {
		if v == nil || !v.isBin("*") {
			return false
		}
		x, y := v.Args[0], v.Args[1]
		return isRecvField(x, fld) && y.Key() == by.Key() || isRecvField(y, fld) && x.Key() == by.Key()
	}
	// Reweight: accumulators scaled on every path; min/max written only when factor == 0 (reset)
	if f := c.P.DeclaredMethod(st, "Reweight"); want("Reweight") && c.mustFunc(rule, f, "(*SummaryStatistics).Reweight") {
		dom := mkDomain(paramScalar("factor", 1, 1, constPoints("0")))
		ps, _ := exec(c, f, dom, 1)
		factor := mk("param", "1", nil)
		pos := pathsInClass(ps, "factor", classAbovePoint(0))
		for _, fn := range accum {
			ok := len(pos) > 0
			for _, p := range pos {
				if _, written := storesOf(p)[fn]; !written && unitFactorPath(p, factor) {
					continue // x*1 is x for every float64: under the evidence `factor == 1` the update may be skipped
				}
				if !isScaled(storesOf(p)[fn], fn, factor) {
					ok = false
				}
			}
			c.R.check(ok, rule, "Reweight/field/"+fn, shortFn(f), c.fpos(f), fn+" *= factor on every path with factor > 0 (the only factors the sketch passes)", fmt.Sprintf("%d path(s)", len(pos)))
		}
		for _, fn := range []string{minF, maxF} {
			ok := len(pos) > 0
			found := ""
			for _, p := range pos {
				if v, w := storesOf(p)[fn]; w {
					ok = false
					found = "written for factor > 0: " + v.Key()
				}
				for _, e := range p.Calls() {
					if isMethodCall(e.Call, "Clear") {
						ok = false
						found = "cleared for factor > 0"
					}
				}
			}
			c.R.check(ok, rule, "Reweight/field/"+fn, shortFn(f), c.fpos(f), fn+" unchanged for a positive factor", firstNonEmpty(found, "ok"))
		}
	}
	// Rescale: never the count; sums scaled; min/max sign table
	if f := c.P.DeclaredMethod(st, "Rescale"); want("Rescale") && c.mustFunc(rule, f, "(*SummaryStatistics).Rescale") {
		dom := mkDomain(paramScalar("factor", 1, 1, constPoints("0")))
		ps, _ := exec(c, f, dom, 1)
		factor := mk("param", "1", nil)
		for _, fn := range accum {
			ok := len(ps) > 0
			found := ""
			for _, p := range ps {
				v, w := storesOf(p)[fn]
				if fn == cntF {
					if w {
						ok = false
						found = "count written: " + v.Key()
					}
				} else if !isScaled(v, fn, factor) {
					ok = false
					found = fmt.Sprint(v)
				}
			}
			exp := fn + " *= factor on every path"
			if fn == cntF {
				exp = "count is never written by Rescale"
			}
			c.R.check(ok, rule, "Rescale/field/"+fn, shortFn(f), c.fpos(f), exp, firstNonEmpty(found, "ok"))
		}
		// factor > 0: min*=f, max*=f ; factor < 0: min = old max*f, max = old min*f
		type exp struct {
			cls      int
			minFrom  string
			maxFrom  string
			describe string
		}
		for _, e := range []exp{{classAbovePoint(0), minF, maxF, "factor>0: min*=f, max*=f"}} {
			sel := pathsInClass(ps, "factor", e.cls)
			ok := len(sel) > 0
			found := ""
			for _, p := range sel {
				s := storesOf(p)
				if !isScaled(s[minF], e.minFrom, factor) || !isScaled(s[maxF], e.maxFrom, factor) {
					ok = false
					found = fmt.Sprintf("min<-%v max<-%v", s[minF], s[maxF])
				}
				// both values must be read before either is overwritten (no "ver" marker on the sources)
				for _, v := range []*Term{s[minF], s[maxF]} {
					if v != nil {
						v.walk(func(x *Term) bool {
							if x.Op == "ver" {
								ok = false
								found = "uses an already overwritten extreme: " + v.Key()
							}
							return true
						})
					}
				}
			}
			c.R.check(ok, rule, "Rescale/extremes/"+className([]string{"0"}, e.cls), shortFn(f), c.fpos(f), e.describe, firstNonEmpty(found, "ok"))
		}
	}
	// MergeWith: every accumulator folded from the argument's corresponding field; min with <, max with >
	if f := c.P.DeclaredMethod(st, "MergeWith"); want("MergeWith") && c.mustFunc(rule, f, "(*SummaryStatistics).MergeWith") {
		ps, _ := exec(c, f, nil, 1)
		argField := func(t *Term, fld string) bool {
			return t != nil && t.Op == "field" && t.Sym == fld && t.Args[0].isParam(1)
		}
		// two equivalent views of the same code: helpers executed inline, and helpers left as calls (the
		// compensated-add helper is recognised by role — a call on the receiver fed with the argument's field —
		// whatever its name)
		psPlain, _ := execPlain(c, f, nil, 1)
		for _, fn := range accum {
			folded := func(view []*Path) bool {
				ok := len(view) > 0
				for _, p := range view {
					seen := false
					for _, e := range p.Effects {
						if e.Kind == "store" && isRecvField(e.Addr, fn) && e.Val.isBin("+") && (argField(e.Val.Args[0], fn) || argField(e.Val.Args[1], fn)) {
							seen = true
						}
						// compensated fields are folded through the compensated-add helper
						if e.Kind == "call" && len(e.Call.Args) == 2 && e.Call.Args[0].isParam(0) && argField(e.Call.Args[1], fn) {
							seen = true
						}
					}
					if !seen {
						ok = false
					}
				}
				return ok
			}
			c.R.check(folded(ps) || folded(psPlain), rule, "MergeWith/field/"+fn, shortFn(f), c.fpos(f), "argument's "+fn+" is folded into the receiver on every path", fmt.Sprintf("%d path(s)", len(ps)))
		}
		c10MinMaxFold(c, rule, f, ps, "MergeWith", minF, maxF, func(fld string) func(*Term) bool {
			return func(t *Term) bool { return argField(t, fld) }
		})
	}
	// Add
	if f := c.P.DeclaredMethod(st, "Add"); want("Add") && c.mustFunc(rule, f, "(*SummaryStatistics).Add") {
		ps, _ := exec(c, f, nil, 1)
		okC, okS := len(ps) > 0, len(ps) > 0
		for _, p := range ps {
			cnt, sum := false, false
			for _, e := range p.Calls() {
				if isMethodCall(e.Call, "AddToCount") && len(e.Call.Args) == 2 && e.Call.Args[0].isParam(0) && e.Call.Args[1].isParam(2) {
					cnt = true
				}
				if isMethodCall(e.Call, "AddToSum") && len(e.Call.Args) == 2 && e.Call.Args[0].isParam(0) && e.Call.Args[1].isBin("*") &&
					(e.Call.Args[1].Args[0].isParam(1) && e.Call.Args[1].Args[1].isParam(2) || e.Call.Args[1].Args[0].isParam(2) && e.Call.Args[1].Args[1].isParam(1)) {
					sum = true
				}
			}
			// direct updates are accepted as well
			for _, e := range p.Effects {
				if e.Kind == "store" && isRecvField(e.Addr, cntF) && e.Val.isBin("+") && (e.Val.Args[0].isParam(2) || e.Val.Args[1].isParam(2)) {
					cnt = true
				}
			}
			okC = okC && cnt
			okS = okS && sum
		}
		c.R.check(okC, rule, "Add/count", shortFn(f), c.fpos(f), "count += weight on every path", fmt.Sprintf("%d path(s)", len(ps)))
		c.R.check(okS, rule, "Add/sum", shortFn(f), c.fpos(f), "sum += value*weight (compensated) on every path", fmt.Sprintf("%d path(s)", len(ps)))
		c10MinMaxFold(c, rule, f, ps, "Add", minF, maxF, func(string) func(*Term) bool { return func(t *Term) bool { return t.isParam(1) } })
	}
	// the compensated step itself (by role: the unexported one-float method AddToSum delegates to): on its single
	// path  tmp = v − comp;  t = sum + tmp;  comp = (t − sum) − tmp;  sum = t  — unconditionally, nothing else
	if want("Add") || want("MergeWith") || want("AddToSum") {
		var kahan *ssa.Function
		if ats := c.P.DeclaredMethod(st, "AddToSum"); ats != nil {
			for _, b := range ats.Blocks {
				for _, in := range b.Instrs {
					if call, ok := in.(*ssa.Call); ok {
						if cal, ok := call.Common().Value.(*ssa.Function); ok && recvNamed(cal) == st && len(cal.Params) == 2 && !ast.IsExported(cal.Name()) {
							kahan = cal
						}
					}
				}
			}
		}
		if kahan == nil {
			c.R.undecided(rule, "compensated-step/anchor", "", "", "AddToSum delegates to an unexported one-float method of the statistics (the compensated step)", "not found")
		} else {
			roleAnchors[kahan] = true
			ps, _ := execPlain(c, kahan, nil, 1)
			ok := len(ps) == 1
			found := fmt.Sprintf("%d path(s)", len(ps))
			if ok {
				p := ps[0]
				ws := p.Writes()
				var sumF, compF string
				var vSum, vComp *Term
				// the two fields: sum' = t (a +), comp' = (t − sum) − tmp (a −)
				for _, e := range ws {
					if e.Kind == "store" && e.Addr.Op == "field" && e.Addr.Args[0].isParam(0) {
						if e.Val.isBin("+") {
							sumF, vSum = e.Addr.Sym, e.Val
						} else if e.Val.isBin("-") {
							compF, vComp = e.Addr.Sym, e.Val
						}
					}
				}
				ok = len(ws) == 2 && vSum != nil && vComp != nil
				if ok {
					isF := func(t *Term, f string) bool { return isRecvField(t.unver(), f) }
					isTmp := func(t *Term) bool { return t.isBin("-") && t.Args[0].isParam(1) && isF(t.Args[1], compF) }
					isT := func(t *Term) bool {
						return t.isBin("+") && (isTmp(t.Args[0]) && isF(t.Args[1], sumF) || isTmp(t.Args[1]) && isF(t.Args[0], sumF))
					}
					okSum := isT(vSum)
					okComp := vComp.isBin("-") && isTmp(vComp.Args[1]) && vComp.Args[0].isBin("-") && isT(vComp.Args[0].Args[0]) && isF(vComp.Args[0].Args[1], sumF)
					ok = okSum && okComp && len(p.Conds) == 0
					found = fmt.Sprintf("sum'=%s comp'=%s conds=%d", vSum.Key(), vComp.Key(), len(p.Conds))
				}
			}
			c.R.check(ok, rule, "compensated-step/shape", shortFn(kahan), c.fpos(kahan), "tmp = v − comp; t = sum + tmp; comp = (t − sum) − tmp; sum = t — on the single unconditional path", found)
			if ok {
				p := ps[0]
				var sumF, compF string
				for _, e := range p.Writes() {
					if e.Kind == "store" && e.Addr.Op == "field" && e.Addr.Args[0].isParam(0) {
						if e.Val.isBin("+") {
							sumF = e.Addr.Sym
						} else if e.Val.isBin("-") {
							compF = e.Addr.Sym
						}
					}
				}
				// the remaining accumulators (the plain running sum kept for the overflow fallback)
				var plain []string
				for _, fn := range accum {
					if fn != cntF && fn != sumF && fn != compF {
						plain = append(plain, fn)
					}
				}
				// AddToSum: the compensated step with the addend, and every plain accumulator += addend, nothing else
				if ats := c.P.DeclaredMethod(st, "AddToSum"); ats != nil {
					aps, _ := execPlain(c, ats, nil, 1)
					okA := len(aps) == 1
					foundA := fmt.Sprintf("%d path(s)", len(aps))
					if okA {
						ap := aps[0]
						nK := 0
						for _, e := range ap.Calls() {
							if e.Call.Op == "call" && e.Call.Sym == funcName(kahan) {
								if len(e.Call.Args) == 2 && e.Call.Args[0].isParam(0) && e.Call.Args[1].isParam(1) {
									nK++
								} else {
									okA = false
								}
							}
						}
						so := storesOf(ap)
						for _, fn := range plain {
							v := so[fn]
							if v == nil || !(v.isBin("+") && (v.Args[0].isParam(1) && isRecvField(v.Args[1], fn) || v.Args[1].isParam(1) && isRecvField(v.Args[0], fn))) {
								okA = false
								foundA = fmt.Sprintf("%s is not += addend (%v)", fn, v)
							}
						}
						if nK != 1 || len(so) != len(plain) {
							okA = false
							foundA = firstNonEmpty(map[bool]string{true: "", false: foundA}[okA], fmt.Sprintf("%d compensated step(s), fields written %d", nK, len(so)))
						}
					}
					c.R.check(okA, rule, "AddToSum", shortFn(ats), c.fpos(ats), "one compensated step with the addend and every plain running sum += addend, nothing else", foundA)
				}
				// Sum(): sum + compensation; the plain running sum only as the documented fallback — when that total
				// is NaN and the plain sum is infinite (same-signed infinities make the compensated pair NaN)
				if sm := c.P.DeclaredMethod(st, "Sum"); sm != nil && len(plain) == 1 {
					sps, _ := exec(c, sm, nil, 1)
					isTot := func(t *Term) bool {
						t = stripVers(t)
						return t.isBin("+") && (isRecvField(t.Args[0], sumF) && isRecvField(t.Args[1], compF) || isRecvField(t.Args[1], sumF) && isRecvField(t.Args[0], compF))
					}
					badS := ""
					nTot := 0
					for _, sp := range sps {
						r := sp.RetT[0]
						switch {
						case isTot(r):
							nTot++
						case isRecvField(stripVers(r), plain[0]):
							nan, inf := false, false
							isPlain := func(x *Term) bool { return isRecvField(stripVers(x), plain[0]) }
							isMaxF := func(x *Term, neg bool) bool {
								x = stripVers(x)
								if neg {
									return x.Op == "un" && x.Sym == "-" && len(x.Args) == 1 && strings.HasPrefix(x.Args[0].Sym, "1.79769313486231") || x.Op == "const" && strings.HasPrefix(x.Sym, "-1.79769313486231")
								}
								return x.Op == "const" && strings.HasPrefix(x.Sym, "1.79769313486231")
							}
							for _, cd := range sp.Conds {
								t := cd.Term
								if t.Op == "call" && t.Sym == "math.IsNaN" && isTot(t.Args[0]) && cd.Taken {
									nan = true
								}
								// x != x (or x == x refuted) is the NaN test written out
								if (t.isBin("==") || t.isBin("!=")) && isTot(t.Args[0]) && isTot(t.Args[1]) && cd.Taken == t.isBin("!=") {
									nan = true
								}
								if t.Op == "call" && t.Sym == "math.IsInf" && isPlain(t.Args[0]) && t.Args[1].isConst("0") && cd.Taken {
									inf = true
								}
								// beyond ±MaxFloat64 is the infinity test written out
								if t.isBin("<") && cd.Taken && (isMaxF(t.Args[0], false) && isPlain(t.Args[1]) || isPlain(t.Args[0]) && isMaxF(t.Args[1], true)) {
									inf = true
								}
							}
							if !nan || !inf {
								badS = "the plain sum is returned without the evidence that the compensated total is NaN and the plain sum infinite: [" + sp.String() + "]"
							}
						default:
							badS = "returns " + r.Key()
						}
					}
					c.R.check(badS == "" && nTot > 0, rule, "Sum/returns", shortFn(sm), c.fpos(sm), "sum + compensation; the plain running sum only when that total is NaN and the plain sum is infinite", firstNonEmpty(badS, fmt.Sprintf("%d path(s)", len(sps))))
				}
			}
		}
	}
	// AddToCount / AddToSum / compensated helper
	if f := c.P.DeclaredMethod(st, "AddToCount"); want("AddToCount") && c.mustFunc(rule, f, "AddToCount") {
		ps, _ := exec(c, f, nil, 1)
		ok := len(ps) == 1
		if ok {
			v := storesOf(ps[0])[cntF]
			ok = v != nil && v.isBin("+") && (v.Args[0].isParam(1) && isRecvField(v.Args[1], cntF) || v.Args[1].isParam(1) && isRecvField(v.Args[0], cntF)) && len(ps[0].Writes()) == 1
		}
		c.R.check(ok, rule, "AddToCount", shortFn(f), c.fpos(f), "count += addend and nothing else", "")
	}
}

// c10MinMaxFold: min is replaced by x only under x < min; max only under x > max (so NaN never becomes an extreme).
func c10MinMaxFold(c *Ctx, rule string, f *ssa.Function, ps []*Path, what, minF, maxF string, src func(fld string) func(*Term) bool) {
	for _, side := range []struct {
		fld  string
		less bool
	}{{minF, true}, {maxF, false}} {
		ok := len(ps) > 0
		found := ""
		sawStore, sawKeep := false, false
		for _, p := range ps {
			var stored *Term
			var storeSeq int
			for _, e := range p.Effects {
				if e.Kind == "store" && isRecvField(e.Addr, side.fld) {
					stored = e.Val
					storeSeq = e.Seq
				}
			}
			// the controlling comparison on this path
			var taken, have bool
			for _, cd := range p.Conds {
				t := cd.Term
				if !t.isBin("<") {
					continue
				}
				x, y := t.Args[0], t.Args[1]
				var good bool
				if side.less {
					good = src(side.fld)(x) && isRecvField(y, side.fld) // x < min
				} else {
					good = isRecvField(x, side.fld) && src(side.fld)(y) // max < x
				}
				if good && (stored == nil || cd.Seq < storeSeq) {
					taken, have = cd.Taken, true
				}
			}
			if stored != nil {
				sawStore = true
				if !(have && taken && src(side.fld)(stored)) {
					ok = false
					found = fmt.Sprintf("%s assigned %v without the strict comparison guard", side.fld, stored)
				}
			} else {
				sawKeep = true
				if have && taken {
					ok = false
					found = "comparison holds but " + side.fld + " is not updated"
				}
			}
		}
		if !sawStore || !sawKeep {
			ok = false
			found = firstNonEmpty(found, "no path updates / keeps "+side.fld)
		}
		op := "<"
		if !side.less {
			op = ">"
		}
		c.R.check(ok, rule, what+"/"+side.fld, shortFn(f), c.fpos(f), fmt.Sprintf("%s is replaced exactly when the new value %s it (strict, NaN-safe)", side.fld, op), firstNonEmpty(found, "ok"))
	}
}

// D4: clamping and getters of the exact variant.
func c10Clamp(c *Ctx, a *sketchAnchors) {
	const rule = "C10-D4"
	st := c.P.NamedType(pkgStat, "SummaryStatistics")
	minF, maxF := c.getterField(st, "Min"), c.getterField(st, "Max")
	isStat := func(t *Term, fld string) bool {
		t = t.unver()
		return t != nil && t.Op == "field" && t.Sym == fld && isRecvField(t.Args[0], a.statField)
	}
	if f := c.P.DeclaredMethod(a.Exact, "GetValueAtQuantile"); c.mustFunc(rule, f, "(*Exact).GetValueAtQuantile") {
		ps, _ := exec(c, f, nil, 1)
		n := 0
		for i, p := range ps {
			var inner *Term
			for _, e := range p.Calls() {
				if isMethodCall(e.Call, "GetValueAtQuantile") && isRecvField(e.Call.Args[0], a.innerFld) {
					inner = e.Call
				}
			}
			key := fmt.Sprintf("%s/path%d[%s]", shortFn(f), i, pathSig(p))
			if inner == nil {
				c.R.violate(rule, key, shortFn(f), c.fpos(f), "inner quantile query on every path", "none")
				continue
			}
			isVal := func(t *Term) bool {
				return t.Op == "extract" && t.Sym == "0" && sameVal(t.Args[0], inner)
			}
			belowMin, _ := pathCond(p, func(t *Term) bool { return t.isBin("<") && isVal(t.Args[0]) && isStat(t.Args[1], minF) })
			aboveMax, _ := pathCond(p, func(t *Term) bool { return t.isBin("<") && isStat(t.Args[0], maxF) && isVal(t.Args[1]) })
			r := p.RetT[0]
			var ok bool
			switch {
			case belowMin:
				ok = isStat(r, minF)
			case aboveMax:
				ok = isStat(r, maxF)
			default:
				ok = isVal(r)
				// both comparisons must have been made (and failed) on the pass-through path
				_, f1 := pathCond(p, func(t *Term) bool { return t.isBin("<") && isVal(t.Args[0]) && isStat(t.Args[1], minF) })
				_, f2 := pathCond(p, func(t *Term) bool { return t.isBin("<") && isStat(t.Args[0], maxF) && isVal(t.Args[1]) })
				ok = ok && f1 && f2
			}
			n++
			c.R.check(ok, rule, key, shortFn(f), c.fpos(f), "value<min → min; value>max → max; otherwise the inner value after both comparisons", describeRet(p)+" on ["+p.String()+"]")
		}
		c.R.floor(rule, "clamping paths (single)", n, 3)
	}
	// batch: for each element the same two comparisons guard the two assignments
	if f := c.P.DeclaredMethod(a.Exact, "GetValuesAtQuantiles"); c.mustFunc(rule, f, "(*Exact).GetValuesAtQuantiles") {
		ps, _ := exec(c, f, nil, 2)
		nMin, nMax := 0, 0
		bad := ""
		for _, p := range ps {
			for _, e := range p.Effects {
				if e.Kind != "store" || e.Addr.Op != "index" {
					continue
				}
				// store values[i] <- min|max must be guarded by the matching comparison on values[i]
				elem := e.Addr
				var guard func(t *Term) bool
				switch {
				case isStat(e.Val, minF):
					nMin++
					guard = func(t *Term) bool {
						return t.isBin("<") && t.Args[0].unver().Key() == elem.Key() && isStat(t.Args[1], minF)
					}
				case isStat(e.Val, maxF):
					nMax++
					guard = func(t *Term) bool {
						return t.isBin("<") && isStat(t.Args[0], maxF) && t.Args[1].unver().Key() == elem.Key()
					}
				case e.Val.unver().Key() == elem.Key():
					continue // the element is written back as it is (a clamp helper's "neither" answer)
				default:
					bad = "unexpected element store " + e.String()
					continue
				}
				ok := false
				for _, cd := range p.Conds {
					if cd.Seq < e.Seq && cd.Taken && guard(cd.Term) {
						ok = true
					}
				}
				if !ok {
					bad = "clamp store without its guard: " + e.String()
				}
			}
		}
		// … and EVERY element is examined: the loop(s) doing the clamping are left only through their counter test —
		// stopping at the first element that needs no clamping assumes the quantiles were given in ascending order
		{
			tcl := newTermCtx(c.P)
			for _, l := range naturalLoops(f) {
				clamps := false
				for b := range l.body {
					for _, in := range b.Instrs {
						if st, ok := in.(*ssa.Store); ok {
							if at := tcl.Of(st.Addr); at.Op == "index" && (isStat(tcl.Of(st.Val), minF) || isStat(tcl.Of(st.Val), maxF)) {
								clamps = true
							}
						}
					}
				}
				if !clamps {
					continue
				}
				for b := range l.body {
					iff, ok := b.Instrs[len(b.Instrs)-1].(*ssa.If)
					if !ok {
						continue
					}
					exits := false
					for _, sc := range b.Succs {
						if !l.body[sc] {
							exits = true
						}
					}
					if !exits {
						continue
					}
					dataDep := false
					tcl.Of(iff.Cond).walk(func(x *Term) bool {
						if x.Op == "index" || isStat(x, minF) || isStat(x, maxF) {
							dataDep = true
						}
						return true
					})
					if dataDep {
						bad = firstNonEmpty(bad, "the clamping loop is left on a test of the data ("+tcl.Of(iff.Cond).Key()+"): later elements are not examined")
					}
				}
			}
		}
		c.R.check(bad == "" && nMin > 0 && nMax > 0, rule, shortFn(f)+"/element-clamp", shortFn(f), c.fpos(f), "each element is replaced by min only under element<min and by max only under element>max, and every element is examined", firstNonEmpty(bad, fmt.Sprintf("%d min / %d max guarded stores on %d paths", nMin, nMax, len(ps))))
	}
	// getters read the statistics
	type g struct{ name, callee string }
	for _, x := range []g{{"GetCount", "Count"}, {"GetSum", "Sum"}, {"IsEmpty", "Count"}} {
		f := c.P.DeclaredMethod(a.Exact, x.name)
		if !c.mustFunc(rule, f, "(*Exact)."+x.name) {
			continue
		}
		ps, _ := exec(c, f, nil, 1)
		ok := len(ps) > 0
		for _, p := range ps {
			uses := false
			for _, r := range p.RetT {
				r.walk(func(t *Term) bool {
					if t.Op == "field" && len(t.Args) == 1 && isRecvField(t.Args[0], a.statField) {
						uses = true
					}
					if isMethodCall(t, x.callee) && isRecvField(t.Args[0], a.statField) {
						uses = true
					}
					return true
				})
			}
			ok = ok && uses && len(p.Writes()) == 0
		}
		c.R.check(ok, rule, "(*Exact)."+x.name+"/reads-statistics", shortFn(f), c.fpos(f), "answer is computed from the exact statistics, no write", fmt.Sprintf("%d path(s)", len(ps)))
	}
	for _, x := range []g{{"GetMinValue", minF}, {"GetMaxValue", maxF}} {
		f := c.P.DeclaredMethod(a.Exact, x.name)
		if !c.mustFunc(rule, f, "(*Exact)."+x.name) {
			continue
		}
		ps, _ := exec(c, f, nil, 1)
		nErr, nOK := 0, 0
		bad := ""
		for _, p := range ps {
			switch p.RetNil(1) {
			case -1:
				nErr++
			case 1:
				nOK++
				if !isStat(p.RetT[0], x.callee) {
					bad = "success path returns " + p.RetT[0].Key()
				}
			default:
				bad = "undetermined error result: " + describeRet(p)
			}
		}
		c.R.check(bad == "" && nErr >= 1 && nOK >= 1, rule, "(*Exact)."+x.name+"/table", shortFn(f), c.fpos(f), "empty → error; otherwise the exact "+x.callee, firstNonEmpty(bad, fmt.Sprintf("%d error / %d success paths", nErr, nOK)))
	}
}

// D1 (decoder arms) + D5 (final guard)
// c10EncodeGuards: the decoder folds a decoded extreme with Add(value, 0) — harmless for a real extreme, but the
// sentinels of an empty statistics object (+Inf minimum, −Inf maximum) would put Inf·0 = NaN into the sum and the
// infinities into min/max of whoever decodes the payload. So the writer emits the min / max block only when the
// value is not its sentinel, and each block carries the accumulator of its own flag.
func c10EncodeGuards(c *Ctx, a *sketchAnchors) {
	const rule = "C10-D5"
	f := c.P.DeclaredMethod(a.Exact, "Encode")
	if !c.mustFunc(rule, f, "(*Exact).Encode") {
		return
	}
	st := c.P.NamedType(pkgStat, "SummaryStatistics")
	minF, maxF := c.getterField(st, "Min"), c.getterField(st, "Max")
	cntFld := c.getterField(st, "Count")
	ps, _ := exec(c, f, nil, 1)
	for _, side := range []struct{ flag, fld, inf string }{{"FlagMin", minF, "1"}, {"FlagMax", maxF, "-1"}} {
		n := 0
		bad := ""
		skipBad := ""
		for _, p := range ps {
			wrote := false
			var payload *Term
			calls := p.Calls()
			for i, e := range calls {
				if e.Call.Op == "call" && strings.HasSuffix(e.Call.Sym, "encoding.EncodeFlag") && len(e.Call.Args) == 2 && e.Call.Args[1].Op == "global" && strings.HasSuffix(e.Call.Args[1].Sym, "."+side.flag) {
					wrote = true
					for _, e2 := range calls[i+1:] {
						if e2.Call.Op == "call" && strings.Contains(e2.Call.Sym, "encoding.Encode") && !e2.Pure {
							payload = e2.Call.Args[1]
							break
						}
					}
				}
			}
			isVal := func(t *Term) bool {
				t = t.unver()
				return t.Op == "field" && t.Sym == side.fld || isMethodCall(t, strings.TrimPrefix(side.flag, "Flag"))
			}
			isInf := func(t *Term) bool {
				return t.Op == "call" && t.Sym == "math.Inf" && len(t.Args) == 1 && t.Args[0].isConst(side.inf)
			}
			// math.IsInf(value, sign) with the sentinel's sign (or 0: either infinity) — the same test written with the
			// library predicate
			isInfCall := func(t *Term) bool {
				if t.Op != "call" || t.Sym != "math.IsInf" || len(t.Args) != 2 || !isVal(t.Args[0]) {
					return false
				}
				return t.Args[1].isConst(side.inf) || t.Args[1].isConst("0")
			}
			if !wrote {
				// … and it is skipped ONLY then: a real extreme that is not written (0, say) comes back as the reader's
				// default. Evidence on the path: the value equals the sentinel, or the statistics hold no weight (an empty
				// object holds the sentinels: C10-D3)
				isSentinel := false
				for _, cd := range p.Conds {
					t := cd.Term
					if isInfCall(t) && cd.Taken {
						isSentinel = true
					}
					if (t.isBin("!=") || t.isBin("==")) && len(t.Args) == 2 {
						if (isVal(t.Args[0]) && isInf(t.Args[1]) || isVal(t.Args[1]) && isInf(t.Args[0])) && cd.Taken == t.isBin("==") {
							isSentinel = true
						}
						isCnt := func(x *Term) bool {
							x = x.unver()
							return isMethodCall(x, "Count") || x.Op == "field" && x.Sym == cntFld
						}
						if (isCnt(t.Args[0]) && t.Args[1].isConst("0") || isCnt(t.Args[1]) && t.Args[0].isConst("0")) && cd.Taken == t.isBin("==") {
							isSentinel = true
						}
					}
					if isMethodCall(t, "IsEmpty") && cd.Taken {
						isSentinel = true
					}
				}
				if !isSentinel {
					skipBad = "the " + side.flag + " block is skipped on a path that has not established the empty sentinel Inf(" + side.inf + "): [" + p.String() + "]"
				}
				continue
			}
			n++
			guarded := false
			for _, cd := range p.Conds {
				t := cd.Term
				if (t.isBin("!=") || t.isBin("==")) && (isVal(t.Args[0]) && isInf(t.Args[1]) || isVal(t.Args[1]) && isInf(t.Args[0])) && cd.Taken == t.isBin("!=") {
					guarded = true
				}
				if isInfCall(t) && !cd.Taken {
					guarded = true
				}
			}
			if !guarded {
				bad = "the " + side.flag + " block is written on a path that has not excluded the empty sentinel Inf(" + side.inf + "): [" + p.String() + "]"
			}
			if payload == nil || !isVal(payload) {
				bad = firstNonEmpty(bad, fmt.Sprintf("the %s block carries %v", side.flag, payload))
			}
		}
		c.R.check(bad == "" && n > 0, rule, shortFn(f)+"/"+side.flag+"/sentinel-excluded", shortFn(f), c.fpos(f),
			"the "+side.flag+" block is written only when the value is not the empty sentinel, and carries that accumulator", firstNonEmpty(bad, fmt.Sprintf("%d writing path(s)", n)))
		c.R.check(skipBad == "", rule, shortFn(f)+"/"+side.flag+"/skipped-only-for-the-sentinel", shortFn(f), c.fpos(f),
			"the "+side.flag+" block is left out only when the value is the empty sentinel (or the statistics hold no weight): every real extreme, 0 included, is written", firstNonEmpty(skipBad, "ok"))
	}
}

func c10Decode(c *Ctx, a *sketchAnchors) {
	const rule = "C10-D1"
	f := c.P.DeclaredMethod(a.Exact, "DecodeAndMergeWith")
	if !c.mustFunc(rule, f, "(*Exact).DecodeAndMergeWith") {
		return
	}
	if len(f.AnonFuncs) != 1 {
		c.R.undecided(rule, shortFn(f)+"/fallback-closure", shortFn(f), c.fpos(f), "exactly one fallback decoder closure", fmt.Sprintf("%d closures", len(f.AnonFuncs)))
		return
	}
	cl := f.AnonFuncs[0]
	ps, _ := exec(c, cl, nil, 1)
	arms, order := dispatchArms(ps, func(t *Term) bool { return t.isParam(1) })
	// expected folding per flag
	want := map[string]struct{ dec, stat string }{
		"global:ddsketch/encoding.FlagCount": {"DecodeVarfloat64", "AddToCount"},
		"global:ddsketch/encoding.FlagSum":   {"DecodeFloat64LE", "AddToSum"},
		"global:ddsketch/encoding.FlagMin":   {"DecodeFloat64LE", "Add"},
		"global:ddsketch/encoding.FlagMax":   {"DecodeFloat64LE", "Add"},
	}
	narm := 0
	for _, label := range order {
		if label == "default" {
			continue
		}
		w, known := want[label]
		key := shortFn(cl) + "/arm/" + shortLabel(label)
		if !known {
			c.R.undecided(rule, key, shortFn(cl), c.fpos(cl), "a statistics flag with a known folding", "unexpected arm "+label)
			continue
		}
		narm++
		bad := ""
		for _, p := range arms[label] {
			var dec *Term
			for _, e := range p.Calls() {
				if e.Call.Op == "call" && strings.HasSuffix(e.Call.Sym, "."+w.dec) && e.Call.Args[0].isParam(0) {
					dec = e.Call
				}
			}
			if dec == nil {
				bad = "arm does not decode with " + w.dec
				continue
			}
			errT := mk("extract", "1", nil, dec)
			errT.V = nil
			st := 0
			for _, cd := range p.Conds {
				if x, neq, ok := nilTest(cd.Term); ok && x.Op == "extract" && x.Sym == "1" && sameVal(x.Args[0], dec) {
					if neq == cd.Taken {
						st = 1
					} else {
						st = -1
					}
				}
			}
			var statCalls []*Term
			for _, e := range p.Effects {
				if e.Kind == "call" && !e.Pure && e.Call != dec {
					statCalls = append(statCalls, e.Call)
				} else if e.Kind != "call" {
					bad = "unexpected effect " + e.String()
				}
			}
			switch st {
			case 1:
				if len(statCalls) != 0 || p.RetNil(0) != -1 {
					bad = "decode error path touches the statistics or does not return the error"
				}
			case -1:
				val := func(t *Term) bool { return t.Op == "extract" && t.Sym == "0" && sameVal(t.Args[0], dec) }
				ok := len(statCalls) == 1 && isMethodCall(statCalls[0], w.stat) && isRecvField(statCalls[0].Args[0], a.statField) && val(statCalls[0].Args[1])
				if ok && w.stat == "Add" {
					ok = len(statCalls[0].Args) == 3 && statCalls[0].Args[2].isConst("0")
				}
				if !ok || p.RetNil(0) != 1 {
					bad = fmt.Sprintf("success path: statistics calls %v; %s", statCalls, describeRet(p))
				}
			default:
				bad = "decode error is not tested"
			}
		}
		c.R.check(bad == "", rule, key, shortFn(cl), c.fpos(cl), fmt.Sprintf("%s(b) then, only on success, statistics.%s(decoded…)", w.dec, w.stat), firstNonEmpty(bad, fmt.Sprintf("%d path(s)", len(arms[label]))))
	}
	c.R.floor(rule, "statistics decoder arms", narm, 4)

	// D5: final guard — the decision table of the refusal: once the blocks are decoded without error, the result is
	// an error exactly when the decoded count is 0 AND the inner sketch is not empty (bins without statistics); every
	// other combination — in particular an input cut between blocks after the Count block — is a success
	ps2, _ := exec(c, f, nil, 1)
	bad := ""
	nSucc, nGuardErr := 0, 0
	for _, p := range ps2 {
		// the inner decode's error, when non-nil, is returned as it is: those paths are C08-D1's business
		innerErr := false
		for _, cd := range p.Conds {
			if x, neq, ok := nilTest(cd.Term); ok && (x.Op == "call" || x.Op == "extract") && neq == cd.Taken {
				innerErr = true
			}
		}
		if innerErr {
			continue
		}
		cnt, empty := 0, 0 // +1 true, −1 false, 0 not tested on this path
		for _, cd := range p.Conds {
			t := cd.Term
			if t.isBin("==") || t.isBin("!=") {
				for i, x := range t.Args {
					x = stripConv(x).unver()
					isCount := x.Op == "field" && len(x.Args) == 1 && isRecvField(x.Args[0].unver(), a.statField) || isMethodCall(x, "Count") && len(x.Args) == 1 && isRecvField(x.Args[0].unver(), a.statField)
					if isCount && t.Args[1-i].isConst("0") {
						if cd.Taken == t.isBin("==") {
							cnt = 1
						} else {
							cnt = -1
						}
					}
				}
			}
			if isMethodCall(t, "IsEmpty") && len(t.Args) == 1 && (isRecvField(t.Args[0].unver(), a.innerFld) || t.Args[0].isRecv()) {
				if cd.Taken {
					empty = 1
				} else {
					empty = -1
				}
			}
		}
		mustErr := cnt == 1 && empty == -1
		mustSucceed := cnt == -1 || empty == 1
		switch {
		case p.RetNil(0) == 1:
			nSucc++
			if !mustSucceed {
				bad = fmt.Sprintf("success returned with count==0:%+d inner-empty:%+d on [%s]", cnt, empty, p.String())
			}
		case p.RetNil(0) == -1:
			nGuardErr++
			if !mustErr {
				bad = fmt.Sprintf("refusal with count==0:%+d inner-empty:%+d on [%s]", cnt, empty, p.String())
			}
		default:
			bad = "a path returns neither nil nor a fresh error: " + describeRet(p)
		}
	}
	c.R.check(bad == "" && nSucc > 0 && nGuardErr > 0, "C10-D5", shortFn(f)+"/missing-statistics-guard", shortFn(f), c.fpos(f),
		"after a successful decode: refusal exactly when the decoded count is 0 and the inner sketch is not empty; success otherwise", firstNonEmpty(bad, fmt.Sprintf("%d success path(s), %d refusal path(s)", nSucc, nGuardErr)))
}

// unitFactorPath: the path has taken `factor == 1` (or left `factor != 1`).
func unitFactorPath(p *Path, factor *Term) bool {
	for _, cd := range p.Conds {
		t := cd.Term
		if (t.isBin("==") || t.isBin("!=")) && cd.Taken == t.isBin("==") {
			x, y := stripConv(t.Args[0]), stripConv(t.Args[1])
			if x.Key() == factor.Key() && y.isConst("1") || y.Key() == factor.Key() && x.isConst("1") {
				return true
			}
		}
	}
	return false
}

// c10Accessors (D6): what the exact variant answers about itself comes from the right object — count, sum, emptiness
// and the extremes from the statistics, the zero weight and the two stores from the inner sketch, the iteration from
// the inner sketch. One obligation per accessor, every path.
func c10Accessors(c *Ctx, a *sketchAnchors, rule string) {
	st := c.P.NamedType(pkgStat, "SummaryStatistics")
	if st == nil {
		c.R.undecided(rule, "anchor/SummaryStatistics", "", "", "type exists", "unresolved")
		return
	}
	cntF := c.getterField(st, "Count")
	statVal := func(t *Term, getter string) bool {
		t = stripConv(t).unver()
		if isMethodCall(t, getter) && len(t.Args) == 1 && isRecvField(t.Args[0].unver(), a.statField) {
			return true
		}
		// the getter inlined: a term over fields of the statistics object only, equal to the getter's own body
		if g := c.P.DeclaredMethod(st, getter); g != nil {
			gp, _ := exec(c, g, nil, 1)
			if len(gp) == 1 && len(gp[0].RetT) == 1 {
				want := rewriteTerm(gp[0].RetT[0], func(x *Term) *Term {
					if x.isParam(0) {
						return mk("field", a.statField, nil, mk("param", "0", nil))
					}
					return nil
				})
				return stripVers(t).Key() == stripVers(want).Key()
			}
		}
		return false
	}
	n := 0
	one := func(name, exp string, ok func(p *Path) string) {
		f := c.P.DeclaredMethod(a.Exact, name)
		if f == nil {
			return // promoted from the inner sketch or absent: nothing declared here to check
		}
		n++
		ps, _ := exec(c, f, nil, 1)
		bad := ""
		if len(ps) == 0 {
			bad = "no path"
		}
		for _, p := range ps {
			if b := ok(p); b != "" {
				bad = b + " on [" + p.String() + "]"
			}
		}
		c.R.check(bad == "", rule, "accessor/"+name, shortFn(f), c.fpos(f), exp, firstNonEmpty(bad, fmt.Sprintf("%d path(s)", len(ps))))
	}
	retIs := func(p *Path, pred func(t *Term) bool) string {
		if len(p.RetT) < 1 || !pred(p.RetT[0]) {
			return "returns " + describeRet(p)
		}
		return ""
	}
	one("GetCount", "the statistics' count", func(p *Path) string { return retIs(p, func(t *Term) bool { return statVal(t, "Count") }) })
	one("GetSum", "the statistics' sum", func(p *Path) string { return retIs(p, func(t *Term) bool { return statVal(t, "Sum") }) })
	one("GetZeroCount", "the inner sketch's zero weight", func(p *Path) string {
		return retIs(p, func(t *Term) bool { return isRecvField(t.unver(), a.zeroField, a.innerFld) })
	})
	one("GetPositiveValueStore", "the inner sketch's positive store", func(p *Path) string {
		return retIs(p, func(t *Term) bool { return isRecvField(stripConv(t).unver(), a.posField, a.innerFld) })
	})
	one("GetNegativeValueStore", "the inner sketch's negative store", func(p *Path) string {
		return retIs(p, func(t *Term) bool { return isRecvField(stripConv(t).unver(), a.negField, a.innerFld) })
	})
	one("IsEmpty", "count == 0 of the statistics (or the inner sketch's emptiness)", func(p *Path) string {
		return retIs(p, func(t *Term) bool {
			t = t.unver()
			if t.isBin("==") {
				return statVal(t.Args[0], "Count") && t.Args[1].isConst("0") || statVal(t.Args[1], "Count") && t.Args[0].isConst("0")
			}
			return isMethodCall(t, "IsEmpty") && len(t.Args) == 1 && isRecvField(t.Args[0].unver(), a.innerFld)
		})
	})
	_ = cntF
	for _, side := range []struct{ name, getter string }{{"GetMinValue", "Min"}, {"GetMaxValue", "Max"}} {
		side := side
		one(side.name, "(NaN, error) exactly when empty, otherwise the statistics' "+side.getter+" and nil", func(p *Path) string {
			empty := 0
			for _, cd := range p.Conds {
				t := cd.Term
				if isMethodCall(t, "IsEmpty") && len(t.Args) == 1 && (isRecvField(t.Args[0].unver(), a.innerFld) || t.Args[0].isRecv()) {
					empty = map[bool]int{true: 1, false: -1}[cd.Taken]
				}
				if (t.isBin("==") || t.isBin("!=")) && (statVal(t.Args[0], "Count") && t.Args[1].isConst("0") || statVal(t.Args[1], "Count") && t.Args[0].isConst("0")) {
					empty = map[bool]int{true: 1, false: -1}[cd.Taken == t.isBin("==")]
				}
			}
			if len(p.RetT) != 2 {
				return "does not return (value, error)"
			}
			switch empty {
			case 1:
				if p.RetNil(1) != -1 {
					return "empty sketch answered without an error"
				}
			case -1:
				if p.RetNil(1) != 1 || !statVal(p.RetT[0], side.getter) {
					return "non-empty sketch answered with " + describeRet(p)
				}
			default:
				return "emptiness not consulted"
			}
			return ""
		})
	}
	one("ForEach", "the inner sketch's ForEach with the caller's callback, on every path", func(p *Path) string {
		for _, e := range p.Calls() {
			if isMethodCall(e.Call, "ForEach") && len(e.Call.Args) == 2 && isRecvField(e.Call.Args[0].unver(), a.innerFld) && e.Call.Args[1].isParam(1) {
				return ""
			}
		}
		return "the inner iteration is not called"
	})
	c.R.floor(rule, "accessors declared on the exact variant", n, 8)
	// the constructor from parts: refused exactly when the emptiness of the sketch and of the statistics disagree;
	// otherwise the result holds exactly the two parts
	if f := c.P.Func(pkgSketch, "NewDDSketchWithExactSummaryStatisticsFromData"); f != nil {
		ps, _ := exec(c, f, nil, 1)
		bad := ""
		nOK, nErr := 0, 0
		for _, p := range ps {
			// the one decision: IsEmpty(sketch) != (Count(statistics) == 0)
			dis := 0 // +1 the two disagree, −1 they agree
			for _, cd := range p.Conds {
				t := cd.Term
				if !(t.isBin("!=") || t.isBin("==")) {
					continue
				}
				isE := func(x *Term) bool { return isMethodCall(x, "IsEmpty") && len(x.Args) == 1 && x.Args[0].isParam(0) }
				isZ := func(x *Term) bool {
					if !x.isBin("==") {
						return false
					}
					cnt := func(y *Term) bool {
						y = stripConv(y).unver()
						return y.Op == "field" && y.Sym == cntF && y.Args[0].isParam(1) || isMethodCall(y, "Count") && y.Args[0].isParam(1)
					}
					return cnt(x.Args[0]) && x.Args[1].isConst("0") || cnt(x.Args[1]) && x.Args[0].isConst("0")
				}
				if isE(t.Args[0]) && isZ(t.Args[1]) || isE(t.Args[1]) && isZ(t.Args[0]) {
					if cd.Taken == t.isBin("!=") {
						dis = 1
					} else {
						dis = -1
					}
				}
			}
			switch {
			case dis == 1:
				nErr++
				if p.RetNil(1) != -1 || p.RetT[0].Op != "nil" {
					bad = "disagreeing parts accepted: " + describeRet(p)
				}
			case dis == -1:
				nOK++
				fl := resultFields(p)
				if p.RetNil(1) != 1 || fl[a.innerFld] == nil || !fl[a.innerFld].isParam(0) || fl[a.statField] == nil || !fl[a.statField].isParam(1) {
					bad = "agreeing parts: " + describeRet(p) + fmt.Sprintf(" inner=%v statistics=%v", fl[a.innerFld], fl[a.statField])
				}
			default:
				bad = "a path does not compare the emptiness of the two parts: [" + p.String() + "]"
			}
		}
		c.R.check(bad == "" && nOK > 0 && nErr > 0, rule, "constructor-from-parts", shortFn(f), c.fpos(f), "refused exactly when sketch.IsEmpty() != (statistics.Count() == 0); otherwise the result holds the two parts", firstNonEmpty(bad, fmt.Sprintf("%d accepting / %d refusing path(s)", nOK, nErr)))
	}
}
