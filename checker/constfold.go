package main

import (
	"fmt"
	"go/constant"
	"go/token"
	"go/types"

	"golang.org/x/tools/go/ssa"
)

// E-WIRE (a): compile-time evaluation of initialisers. A small evaluator for
// loop-free, side-effect-free module code over integers, booleans and structs
// of those — enough to fold `NewFlag(t, newSubFlag(k))` and the flag methods.
// It never runs repository code on inputs: only constant initialisers and
// calls with constant arguments are evaluated; anything else is "unknown".

type cval struct {
	known  bool
	typ    types.Type
	i      uint64 // integers (two's complement, truncated to the type's width) and bools (0/1)
	fields []cval // structs
}

func (v cval) String() string {
	if !v.known {
		return "?"
	}
	if v.fields != nil {
		s := "{"
		for i, f := range v.fields {
			if i > 0 {
				s += ","
			}
			s += f.String()
		}
		return s + "}"
	}
	return fmt.Sprintf("%d", v.i)
}

// byteOfStruct: the single integer inside a one-field wrapper struct (Flag, FlagType, SubFlag).
func (v cval) scalar() (uint64, bool) {
	if !v.known {
		return 0, false
	}
	if v.fields != nil {
		if len(v.fields) == 1 {
			return v.fields[0].scalar()
		}
		return 0, false
	}
	return v.i, true
}

type folder struct {
	prog    *Program
	globals map[*ssa.Global]*cval
	steps   int
}

func newFolder(p *Program) *folder { return &folder{prog: p, globals: map[*ssa.Global]*cval{}} }

func widthOf(t types.Type) (bits int, signed bool) {
	b, ok := t.Underlying().(*types.Basic)
	if !ok {
		return 64, false
	}
	switch b.Kind() {
	case types.Int8:
		return 8, true
	case types.Uint8:
		return 8, false
	case types.Int16:
		return 16, true
	case types.Uint16:
		return 16, false
	case types.Int32:
		return 32, true
	case types.Uint32:
		return 32, false
	case types.Int64, types.Int:
		return 64, true
	case types.Bool:
		return 1, false
	}
	return 64, false
}

func trunc(x uint64, t types.Type) uint64 {
	bits, _ := widthOf(t)
	if bits >= 64 {
		return x
	}
	return x & (1<<uint(bits) - 1)
}

func signExt(x uint64, t types.Type) int64 {
	bits, signed := widthOf(t)
	if !signed || bits >= 64 {
		return int64(x)
	}
	sh := uint(64 - bits)
	return int64(x<<sh) >> sh
}

// evalInit evaluates the package initialiser of pkg, recording global values it can fold.
func (fo *folder) evalInit(pkg string) {
	sp := fo.prog.SPkgs[pkg]
	if sp == nil {
		return
	}
	init := sp.Func("init")
	if init == nil {
		return
	}
	fo.run(init, nil, true)
}

type frame struct {
	vals  map[ssa.Value]cval
	mem   map[ssa.Value]*cval // local allocations
	ptrTo map[ssa.Value]memRef
}

type memRef struct {
	base  ssa.Value // Alloc or Global
	path  []int
	valid bool
}

func (fo *folder) zero(t types.Type) cval {
	if st, ok := t.Underlying().(*types.Struct); ok {
		v := cval{known: true, typ: t}
		for i := 0; i < st.NumFields(); i++ {
			v.fields = append(v.fields, fo.zero(st.Field(i).Type()))
		}
		return v
	}
	if b, ok := t.Underlying().(*types.Basic); ok && (b.Info()&types.IsInteger != 0 || b.Info()&types.IsBoolean != 0) {
		return cval{known: true, typ: t}
	}
	return cval{typ: t}
}

func (fo *folder) run(fn *ssa.Function, args []cval, isInit bool) cval {
	unknown := cval{}
	if len(fn.Blocks) == 0 {
		return unknown
	}
	fr := &frame{vals: map[ssa.Value]cval{}, mem: map[ssa.Value]*cval{}, ptrTo: map[ssa.Value]memRef{}}
	for i, p := range fn.Params {
		if i < len(args) {
			fr.vals[p] = args[i]
		}
	}
	get := func(v ssa.Value) cval {
		switch v := v.(type) {
		case *ssa.Const:
			if v.Value == nil {
				return fo.zero(v.Type())
			}
			switch v.Value.Kind() {
			case constant.Int:
				if u, ok := constant.Uint64Val(v.Value); ok {
					return cval{known: true, typ: v.Type(), i: trunc(u, v.Type())}
				}
				if s, ok := constant.Int64Val(v.Value); ok {
					return cval{known: true, typ: v.Type(), i: trunc(uint64(s), v.Type())}
				}
			case constant.Bool:
				if constant.BoolVal(v.Value) {
					return cval{known: true, typ: v.Type(), i: 1}
				}
				return cval{known: true, typ: v.Type()}
			}
			return cval{}
		}
		if x, ok := fr.vals[v]; ok {
			return x
		}
		return cval{}
	}
	deref := func(r memRef) *cval {
		if !r.valid {
			return nil
		}
		var root *cval
		switch b := r.base.(type) {
		case *ssa.Alloc:
			root = fr.mem[b]
		case *ssa.Global:
			if g, ok := fo.globals[b]; ok {
				root = g
			} else if isInit {
				z := fo.zero(b.Type().Underlying().(*types.Pointer).Elem())
				fo.globals[b] = &z
				root = &z
			}
		}
		if root == nil {
			return nil
		}
		cur := root
		for _, i := range r.path {
			if !cur.known || cur.fields == nil || i >= len(cur.fields) {
				return nil
			}
			cur = &cur.fields[i]
		}
		return cur
	}
	b := fn.Blocks[0]
	var prev *ssa.BasicBlock
	for {
		next := (*ssa.BasicBlock)(nil)
		for _, in := range b.Instrs {
			fo.steps++
			if fo.steps > 200000 {
				return unknown
			}
			switch in := in.(type) {
			case *ssa.Phi:
				for i, p := range b.Preds {
					if p == prev {
						fr.vals[in] = get(in.Edges[i])
					}
				}
			case *ssa.Alloc:
				z := fo.zero(in.Type().Underlying().(*types.Pointer).Elem())
				fr.mem[in] = &z
				fr.ptrTo[in] = memRef{base: in, valid: true}
			case *ssa.FieldAddr:
				if r, ok := fr.ptrTo[in.X]; ok && r.valid {
					fr.ptrTo[in] = memRef{base: r.base, path: append(append([]int{}, r.path...), in.Field), valid: true}
				} else if g, ok := in.X.(*ssa.Global); ok {
					fr.ptrTo[in] = memRef{base: g, path: []int{in.Field}, valid: true}
				}
			case *ssa.Store:
				v := get(in.Val)
				if g, ok := in.Addr.(*ssa.Global); ok {
					if isInit {
						vv := v
						fo.globals[g] = &vv
					}
					continue
				}
				if r, ok := fr.ptrTo[in.Addr]; ok {
					if _, isG := r.base.(*ssa.Global); isG && !isInit {
						continue
					}
					if cell := deref(r); cell != nil {
						*cell = v
					}
				}
			case *ssa.UnOp:
				switch in.Op {
				case token.MUL:
					if g, ok := in.X.(*ssa.Global); ok {
						if v, ok := fo.globals[g]; ok {
							fr.vals[in] = *v
						} else if isInit && g.Name() == "init$guard" {
							fr.vals[in] = cval{known: true, typ: in.Type()} // first (and only) initialisation
						}
						continue
					}
					if r, ok := fr.ptrTo[in.X]; ok {
						if cell := deref(r); cell != nil {
							fr.vals[in] = *cell
						}
					}
				case token.XOR:
					x := get(in.X)
					if x.known {
						fr.vals[in] = cval{known: true, typ: in.Type(), i: trunc(^x.i, in.Type())}
					}
				case token.SUB:
					x := get(in.X)
					if x.known {
						fr.vals[in] = cval{known: true, typ: in.Type(), i: trunc(-x.i, in.Type())}
					}
				case token.NOT:
					x := get(in.X)
					if x.known {
						fr.vals[in] = cval{known: true, typ: in.Type(), i: 1 - x.i}
					}
				}
			case *ssa.Field:
				x := get(in.X)
				if x.known && x.fields != nil && in.Field < len(x.fields) {
					fr.vals[in] = x.fields[in.Field]
				}
			case *ssa.Convert:
				x := get(in.X)
				if x.known && x.fields == nil && isInteger(in.Type()) && isInteger(in.X.Type()) {
					fr.vals[in] = cval{known: true, typ: in.Type(), i: trunc(uint64(signExt(x.i, in.X.Type())), in.Type())}
				}
			case *ssa.ChangeType:
				fr.vals[in] = get(in.X)
			case *ssa.BinOp:
				fr.vals[in] = fo.binop(in, get(in.X), get(in.Y))
			case *ssa.Call:
				callee, ok := in.Common().Value.(*ssa.Function)
				if !ok || !inModule(callee) || in.Common().IsInvoke() || len(loopSCCs(callee)) > 0 {
					continue // only loop-free module code is folded
				}
				var as []cval
				allKnown := true
				for _, a := range in.Common().Args {
					v := get(a)
					if !v.known {
						allKnown = false
					}
					as = append(as, v)
				}
				if !allKnown {
					continue
				}
				fr.vals[in] = fo.run(callee, as, false)
			case *ssa.Return:
				if len(in.Results) == 1 {
					return get(in.Results[0])
				}
				return unknown
			case *ssa.Jump:
				next = b.Succs[0]
			case *ssa.If:
				c := get(in.Cond)
				if !c.known {
					return unknown
				}
				if c.i != 0 {
					next = b.Succs[0]
				} else {
					next = b.Succs[1]
				}
			case *ssa.Panic:
				return unknown
			}
		}
		if next == nil {
			return unknown
		}
		prev, b = b, next
	}
}

func (fo *folder) binop(in *ssa.BinOp, x, y cval) cval {
	if !x.known || !y.known {
		return cval{}
	}
	// struct equality
	if x.fields != nil || y.fields != nil {
		if in.Op == token.EQL || in.Op == token.NEQ {
			eq := x.String() == y.String()
			if in.Op == token.NEQ {
				eq = !eq
			}
			if eq {
				return cval{known: true, typ: in.Type(), i: 1}
			}
			return cval{known: true, typ: in.Type()}
		}
		return cval{}
	}
	t := in.X.Type()
	_, signed := widthOf(t)
	a, b := x.i, y.i
	sa, sb := signExt(a, t), signExt(b, in.Y.Type())
	boolv := func(v bool) cval {
		if v {
			return cval{known: true, typ: in.Type(), i: 1}
		}
		return cval{known: true, typ: in.Type()}
	}
	var r uint64
	switch in.Op {
	case token.ADD:
		r = a + b
	case token.SUB:
		r = a - b
	case token.MUL:
		r = a * b
	case token.QUO:
		if b == 0 {
			return cval{}
		}
		if signed {
			r = uint64(sa / sb)
		} else {
			r = a / b
		}
	case token.REM:
		if b == 0 {
			return cval{}
		}
		if signed {
			r = uint64(sa % sb)
		} else {
			r = a % b
		}
	case token.AND:
		r = a & b
	case token.OR:
		r = a | b
	case token.XOR:
		r = a ^ b
	case token.AND_NOT:
		r = a &^ b
	case token.SHL:
		if b >= 64 {
			r = 0
		} else {
			r = a << b
		}
	case token.SHR:
		if signed {
			if b >= 64 {
				b = 63
			}
			r = uint64(sa >> b)
		} else if b >= 64 {
			r = 0
		} else {
			r = a >> b
		}
	case token.EQL:
		return boolv(a == b)
	case token.NEQ:
		return boolv(a != b)
	case token.LSS:
		if signed {
			return boolv(sa < sb)
		}
		return boolv(a < b)
	case token.LEQ:
		if signed {
			return boolv(sa <= sb)
		}
		return boolv(a <= b)
	case token.GTR:
		if signed {
			return boolv(sa > sb)
		}
		return boolv(a > b)
	case token.GEQ:
		if signed {
			return boolv(sa >= sb)
		}
		return boolv(a >= b)
	default:
		return cval{}
	}
	return cval{known: true, typ: in.Type(), i: trunc(r, in.Type())}
}
