package main

import (
	"fmt"
	"strings"

	"golang.org/x/tools/go/ssa"
)

// C13 — invalid input is rejected with the documented error and changes nothing.

func init() {
	register("C13",
		"DECIDED (decision tables over a finite partition of the float line, NaN included, extracted from the SSA control-flow graph; every path of every cell is examined): "+
			"D1 AddWithCount/Add of both sketch variants: negative weight, NaN, ±Inf and |v|>MaxIndexableValue return the documented package-level error variable, every other (value,weight) class returns nil, and every refusing path performs no write at all; the exact variant validates through the inner sketch before any shortcut and before touching the statistics. "+
			"D2 GetValueAtQuantile (both variants) and the batch form: q in {NaN,<0,>1} and the empty sketch return a non-nil error with no write; q in [0,1] on a non-empty sketch returns nil; in the batch forms the error of EVERY per-element query on a path (two turns of the element loop are enumerated) is tested or is what the path returns — an error that a later element overwrites is reported. "+
			"D3 MergeWith (both variants): unequal mappings → non-nil error before any write. Reweight (sketch ×2, every Store implementation): factor ≤ 0 → error with no write, factor = 1 → nil with no write, and no error can be returned after the first write (callee tables are used as summaries). "+
			"D4 constructors: accuracy ≤0 / ≥1 and gamma ≤1 return (nil, error); sketch constructors propagate; NewBin(count<0) and NewSummaryStatisticsFromData guards. "+
			"SHARED (obligations of other properties that decide clauses this property states too, re-evaluated here under their home rule ids): C19-D2/D3 (Equals of the mappings: comma-ok same-type test and the symmetric tolerance decision table — refusing a merge of unequal mappings rests on it). "+
			"NOT DECIDED: nothing about which float falls in which class (the classes are the code's own comparisons against MinIndexableValue/MaxIndexableValue); NaN weights/factors/constructor parameters are outside the contract and only recorded.",
		"one obligation per (function, class-cell) of the decision tables plus one per wrapper path; a cell is non-trivial when at least one CFG path had to be evaluated for it; cells forced by an earlier guard (e.g. weight<0 for every value class) are counted as trivial duplicates",
		true, runC13)
}

var valuePointNames = []string{"-Inf", "-Max", "-Min", "0", "Min", "Max", "+Inf"}

func valueDomain(valueParam, countParam int) *Domain {
	specs := []scalarSpec{paramScalar("value", valueParam, vpN, valuePoint)}
	if countParam >= 0 {
		specs = append(specs, paramScalar("count", countParam, 1, constPoints("0")))
	}
	return mkDomain(specs...)
}

func errGlobal(name string) string { return "global:ddsketch." + name }

func runC13(c *Ctx) {
	a, err := c.anchors()
	if err != nil {
		c.R.undecided("C13", "anchors", "", "", "sketch anchors resolve", err.Error())
		return
	}
	c13AddTable(c, a)
	c13ExactAdd(c, a)
	c13Quantile(c, a)
	c13Merge(c, a)
	c13Reweight(c, a)
	c13Constructors(c, a)
	// "merging sketches with different mappings is refused" rests on the mappings' Equals (type test + symmetric tolerance)
	c.shared(func() { c19Equals(c, mappingInfos(c, "C13")) }, func(o *Obligation) bool { return true })
}

// D1: plain sketch AddWithCount decision table (validation part; routing is C01-D1).
func c13AddTable(c *Ctx, a *sketchAnchors) {
	const rule = "C13-D1"
	f := c.P.DeclaredMethod(a.DDSketch, "AddWithCount")
	if !c.mustFunc(rule, f, "(*DDSketch).AddWithCount") {
		return
	}
	paths, complete := exec(c, f, valueDomain(1, 2), 1)
	if !complete {
		c.R.undecided(rule, "paths/"+shortFn(f), shortFn(f), c.fpos(f), "path enumeration completes", "too many paths")
		return
	}
	cells := 0
	for vc := 0; vc <= 2*vpN+1; vc++ {
		if vc == 1 || vc == 2*vpN+1 { // below −Inf / above +Inf: empty classes
			continue
		}
		for cc := 1; cc <= 3; cc++ { // count <0, =0, >0 (NaN weight is outside the contract)
			want := map[string]bool{}
			if cc == 1 {
				want[errGlobal("ErrNegativeCount")] = true
			}
			pos := vc - 1
			switch {
			case vc == classNaN:
				want[errGlobal("ErrUntrackableNaN")] = true
			case pos <= 2*vpNegMax: // −Inf, (−Inf,−M)
				want[errGlobal("ErrUntrackableTooLow")] = true
			case pos >= 2*vpMax+2: // (M,+Inf), +Inf
				want[errGlobal("ErrUntrackableTooHigh")] = true
			}
			sel := pathsInClass(pathsInClass(paths, "value", vc), "count", cc)
			cellName := fmt.Sprintf("value%s/count%s", className(valuePointNames, vc), className([]string{"0"}, cc))
			key := shortFn(f) + "/" + cellName
			cells++
			if len(sel) == 0 {
				c.R.undecided(rule, key, shortFn(f), c.fpos(f), "some path handles the cell", "no path is compatible with this cell (condition shape not understood)")
				continue
			}
			bad := ""
			for _, p := range sel {
				got := "nil"
				if len(p.RetT) == 1 {
					got = p.RetT[0].Key()
				}
				if p.Panics {
					got = "panic"
				}
				if len(want) == 0 {
					if p.RetNil(0) != 1 {
						bad = fmt.Sprintf("path [%s] returns %s", p, got)
					}
				} else {
					if !want[got] {
						bad = fmt.Sprintf("path [%s] returns %s", p, got)
					} else if w := p.Writes(); len(w) > 0 {
						bad = fmt.Sprintf("refusing path [%s] writes: %s", p, describeWrites(p))
					}
				}
			}
			exp := "nil error (accepted)"
			if len(want) > 0 {
				var ws []string
				for k := range want {
					ws = append(ws, strings.TrimPrefix(k, "global:"))
				}
				exp = "one of " + strings.Join(sortedStrs(ws), "|") + " and no write"
			}
			if bad != "" {
				st := Violation
				c.R.add(&Obligation{Rule: rule, Key: key, Func: shortFn(f), Pos: c.fpos(f), Expected: exp, Found: bad, Status: st})
			} else if cc == 1 && vc != classNaN && len(want) == 1 {
				c.R.trivial(rule, key, shortFn(f), c.fpos(f), exp, fmt.Sprintf("%d path(s) agree", len(sel)))
			} else {
				c.R.okay(rule, key, shortFn(f), c.fpos(f), exp, fmt.Sprintf("%d path(s) agree", len(sel)))
			}
		}
	}
	c.R.floor(rule, "AddWithCount table cells", cells, 42)
	c.R.assume("order axiom: -Inf < -MaxIndexableValue() < -MinIndexableValue() < 0 < MinIndexableValue() < MaxIndexableValue() < +Inf for the mapping of the receiver (constructors: C03/C13-D4)")

	// Add delegates to AddWithCount(value, 1) on the same receiver and returns its error
	add := c.P.DeclaredMethod(a.DDSketch, "Add")
	if c.mustFunc(rule, add, "(*DDSketch).Add") {
		ps, _ := exec(c, add, nil, 1)
		ok := len(ps) == 1
		found := ""
		if ok {
			p := ps[0]
			calls := p.Calls()
			ok = len(calls) == 1 && isMethodCall(calls[0].Call, "AddWithCount") && len(calls[0].Call.Args) == 3 &&
				calls[0].Call.Args[0].isParam(0) && calls[0].Call.Args[1].isParam(1) && calls[0].Call.Args[2].isConst("1") &&
				len(p.RetT) == 1 && p.RetT[0].Key() == calls[0].Call.Key() && len(p.Writes()) == 1
			found = describeRet(p)
		}
		c.R.check(ok, rule, shortFn(add)+"/delegates", shortFn(add), c.fpos(add), "returns AddWithCount(value, 1) of the same receiver and does nothing else", found)
	}
}

func sortedStrs(s []string) []string {
	out := append([]string(nil), s...)
	for i := 1; i < len(out); i++ {
		for j := i; j > 0 && out[j] < out[j-1]; j-- {
			out[j], out[j-1] = out[j-1], out[j]
		}
	}
	return out
}

// wrapperSpec describes a mutator of the exact variant: inner operation first, statistics after success.
type wrapperSpec struct {
	rule      string
	method    string
	inner     string               // method of *DDSketch
	innerArgs []func(t *Term) bool // predicates on the explicit arguments of the inner call
	stat      string               // method of *SummaryStatistics ("" = none)
	statArgs  []func(t *Term) bool // predicates on explicit args
	skipOK    func(p *Path) bool   // success path may omit the statistics call
	skipWhy   string
	domain    *Domain
	// altInner/altArgs: an equivalent inner operation (the unit-weight Add may be performed as AddWithCount(v, 1),
	// directly or by delegating to the variant's own AddWithCount wrapper, which is executed inline)
	altInner string
	altArgs  []func(t *Term) bool
	// mustSkip: on a success path for which this holds the statistics must NOT be touched (a value of weight 0
	// must not be folded into min/max)
	mustSkip    func(p *Path) bool
	mustSkipWhy string
}

func isParamN(i int) func(*Term) bool { return func(t *Term) bool { return t.isParam(i) } }
func isConstS(s string) func(*Term) bool {
	return func(t *Term) bool { return t.isConst(s) }
}

// checkWrapper verifies the wrapper discipline on every path; returns the number of paths checked.
func checkWrapper(c *Ctx, a *sketchAnchors, w wrapperSpec) int {
	f := c.P.DeclaredMethod(a.Exact, w.method)
	name := "(*DDSketchWithExactSummaryStatistics)." + w.method
	if !c.mustFunc(w.rule, f, name) {
		return 0
	}
	// a wrapper may delegate to another wrapper of the same variant (Add → AddWithCount(v, 1)): executed inline
	policy := func(cal *ssa.Function) bool {
		return inlineNewHelpers(cal) || recvNamed(cal) == a.Exact && cal != f && cal.Synthetic == ""
	}
	paths, complete := pathsOf(c.P, f, w.domain, execOpts{MaxVisits: 1, Pure: c.Mod.PureCall, InlineCallee: policy})
	c.R.count("paths", len(paths))
	c.R.count("functions_path_analysed", 1)
	if !complete || len(paths) == 0 {
		c.R.undecided(w.rule, "paths/"+name, name, c.fpos(f), "path enumeration completes", "no or too many paths")
		return 0
	}
	isInnerOf := func(t *Term, meth string, args []func(*Term) bool) bool {
		if t == nil || meth == "" || !isMethodCall(t, meth) || !strings.Contains(t.Sym, "DDSketch)") || strings.Contains(t.Sym, "WithExact") {
			return false
		}
		if len(t.Args) != 1+len(args) || !isRecvField(t.Args[0], a.innerFld) {
			return false
		}
		for i, pr := range args {
			if !pr(t.Args[1+i]) {
				return false
			}
		}
		return true
	}
	isInner := func(t *Term) bool {
		return isInnerOf(t, w.inner, w.innerArgs) || isInnerOf(t, w.altInner, w.altArgs)
	}
	isStat := func(t *Term) bool {
		if t == nil || w.stat == "" || !isMethodCall(t, w.stat) || !strings.Contains(t.Sym, "SummaryStatistics)") {
			return false
		}
		if len(t.Args) != 1+len(w.statArgs) || !isRecvField(t.Args[0], a.statField) {
			return false
		}
		for i, pr := range w.statArgs {
			if !pr(t.Args[1+i]) {
				return false
			}
		}
		return true
	}
	innerHasErr := false
	if in := c.P.DeclaredMethod(a.DDSketch, w.inner); in != nil {
		rs := in.Signature.Results()
		innerHasErr = rs.Len() > 0 && rs.At(rs.Len()-1).Type().String() == "error"
	}
	for i, p := range paths {
		key := fmt.Sprintf("%s/path%d[%s]", name, i, pathSig(p))
		ws := p.Writes()
		exp := fmt.Sprintf("inner %s first with the caller's arguments; statistics %s only after it succeeded; inner error returned unchanged", w.inner, w.stat)
		if len(ws) == 0 || ws[0].Kind != "call" || !isInner(ws[0].Call) {
			// the inner operation written out: for an inner operation that cannot fail and has one way through it, the
			// wrapper may perform that way's state changes itself on the inner sketch — the same changes, in the same
			// order — and then the statistics operation
			if !innerHasErr && w.stat != "" {
				if innerFn := c.P.DeclaredMethod(a.DDSketch, w.inner); innerFn != nil && len(w.innerArgs) == 0 {
					ips, okI := pathsOf(c.P, innerFn, nil, execOpts{MaxVisits: 1, Pure: c.Mod.PureCall, InlineCallee: inlineNewHelpers})
					if okI && len(ips) == 1 {
						sig := func(e Effect, inner bool) string {
							k := ""
							switch e.Kind {
							case "store":
								k = "store " + e.Addr.Key() + " <- " + e.Val.Key()
							case "call":
								k = "call " + e.Call.Key()
							default:
								k = e.Kind
							}
							if inner {
								k = strings.ReplaceAll(k, "param:0", "field:"+a.innerFld+"(param:0)")
							}
							return k
						}
						iw := ips[0].Writes()
						same := len(iw) > 0 && len(ws) == len(iw)+1
						if same {
							for j := range iw {
								if sig(iw[j], true) != sig(ws[j], false) {
									same = false
								}
							}
						}
						if same && ws[len(iw)].Kind == "call" && isStat(ws[len(iw)].Call) {
							c.R.okay(w.rule, key, name, c.fpos(f), exp, "the inner "+w.inner+" written out (the same state changes in the same order), then "+w.stat)
							continue
						}
					}
				}
			}
			found := "first state-changing effect: " + describeWrites(p)
			// an inner call that happens to be pure is still acceptable as first call
			var firstCall *Term
			for _, e := range p.Calls() {
				if isInner(e.Call) {
					firstCall = e.Call
					break
				}
			}
			if firstCall == nil || len(ws) > 0 && !isInner(ws[0].Call) {
				c.R.violate(w.rule, key, name, c.fpos(f), exp, found+"; "+describeRet(p))
				continue
			}
		}
		var innerT *Term
		innerIdx := -1
		for j, e := range p.Effects {
			if e.Kind == "call" && isInner(e.Call) {
				innerT = e.Call
				innerIdx = j
				break
			}
		}
		// effects before the inner call must be pure
		preOK := true
		for _, e := range p.Effects[:innerIdx] {
			if !(e.Kind == "call" && e.Pure) {
				preOK = false
			}
		}
		if !preOK {
			c.R.violate(w.rule, key, name, c.fpos(f), exp, "state is changed before the inner operation: "+describeWrites(p))
			continue
		}
		var after []Effect
		for _, e := range p.Effects[innerIdx+1:] {
			if e.Kind == "call" && e.Pure {
				continue
			}
			after = append(after, e)
		}
		if innerHasErr {
			switch errState(p, innerT) {
			case 1: // inner failed
				ok := len(after) == 0 && len(p.RetT) > 0 && p.RetT[len(p.RetT)-1].Key() == innerT.Key()
				c.R.check(ok, w.rule, key, name, c.fpos(f), "inner error ⇒ returned unchanged, nothing else written", describeWrites(p)+"; "+describeRet(p))
				continue
			case 0:
				// never tested: acceptable only as tail call `return inner(...)` with nothing after
				ok := len(after) == 0 && len(p.RetT) > 0 && p.RetT[len(p.RetT)-1].Key() == innerT.Key()
				c.R.check(ok, w.rule, key, name, c.fpos(f), "inner error tested before the statistics are touched", describeWrites(p)+"; "+describeRet(p))
				continue
			}
		}
		// success path
		if w.stat == "" {
			c.R.check(len(after) == 0, w.rule, key, name, c.fpos(f), "no further effect", describeWrites(p))
			continue
		}
		nstat := 0
		other := false
		for _, e := range after {
			if e.Kind == "call" && isStat(e.Call) {
				nstat++
			} else {
				other = true
			}
		}
		retOK := len(p.RetT) == 0 || p.RetNil(len(p.RetT)-1) == 1
		switch {
		case nstat >= 1 && w.mustSkip != nil && w.mustSkip(p):
			c.R.violate(w.rule, key, name, c.fpos(f), exp+"; "+w.mustSkipWhy, fmt.Sprintf("the path admits that case and performs %d statistics call(s): %s", nstat, effectsStr(after)))
		case nstat == 1 && !other && retOK:
			c.R.okay(w.rule, key, name, c.fpos(f), exp, "inner ok → "+w.stat+" → nil")
		case nstat == 0 && !other && retOK && w.skipOK != nil && w.skipOK(p):
			c.R.okay(w.rule, key, name, c.fpos(f), exp, "statistics legitimately skipped: "+w.skipWhy)
		default:
			c.R.violate(w.rule, key, name, c.fpos(f), exp+fmt.Sprintf(" (exactly one %s call with the corresponding arguments on the success path)", w.stat),
				fmt.Sprintf("%d matching statistics call(s); effects after inner: %s; %s", nstat, effectsStr(after), describeRet(p)))
		}
	}
	return len(paths)
}

func effectsStr(es []Effect) string {
	var s []string
	for _, e := range es {
		s = append(s, e.String())
	}
	if len(s) == 0 {
		return "none"
	}
	return strings.Join(s, "; ")
}

// pathSig: a short, line-free signature of a path (taken/not-taken pattern of its conditions).
func pathSig(p *Path) string {
	var sb strings.Builder
	for _, c := range p.Conds {
		if c.Taken {
			sb.WriteByte('T')
		} else {
			sb.WriteByte('F')
		}
	}
	return sb.String()
}

func c13ExactAdd(c *Ctx, a *sketchAnchors) {
	n := 0
	n += checkWrapper(c, a, wrapperSpec{rule: "C13-D1", method: "AddWithCount", inner: "AddWithCount",
		innerArgs: []func(*Term) bool{isParamN(1), isParamN(2)}, stat: "Add", statArgs: []func(*Term) bool{isParamN(1), isParamN(2)},
		domain: mkDomain(paramScalar("count", 2, 1, constPoints("0"))),
		skipOK: func(p *Path) bool {
			set, ok := p.Classes["count"]
			return ok && set&^(1<<uint(classOfPoint(0))) == 0
		}, skipWhy: "weight is exactly 0 (a zero-weight Add would move min/max)"})
	n += checkWrapper(c, a, wrapperSpec{rule: "C13-D1", method: "Add", inner: "Add",
		innerArgs: []func(*Term) bool{isParamN(1)}, stat: "Add", statArgs: []func(*Term) bool{isParamN(1), isConstS("1")},
		altInner: "AddWithCount", altArgs: []func(*Term) bool{isParamN(1), isConstS("1")}})
	c.R.floor("C13-D1", "exact-variant add wrapper paths", n, 4) // two fallible wrappers × (error, success)
}

// D2: quantile argument / emptiness checks.
func c13Quantile(c *Ctx, a *sketchAnchors) {
	const rule = "C13-D2"
	f := c.P.DeclaredMethod(a.DDSketch, "GetValueAtQuantile")
	if !c.mustFunc(rule, f, "(*DDSketch).GetValueAtQuantile") {
		return
	}
	isCount := func(t *Term) bool {
		return isMethodCall(t, "GetCount") && len(t.Args) == 1 && t.Args[0].isParam(0)
	}
	dom := mkDomain(paramScalar("q", 1, 2, constPoints("0", "1")),
		scalarSpec{name: "total", n: 1, point: constPoints("0"), match: isCount})
	paths, complete := exec(c, f, dom, 1)
	if !complete {
		c.R.undecided(rule, "paths/"+shortFn(f), shortFn(f), c.fpos(f), "path enumeration completes", "too many paths")
		return
	}
	qn := []string{"0", "1"}
	emptyAtom := func(p *Path) (isEmpty bool, known bool) {
		// emptiness established by IsEmpty() instead of count == 0
		return pathCond(p, func(t *Term) bool { return isMethodCall(t, "IsEmpty") && len(t.Args) == 1 && t.Args[0].isParam(0) })
	}
	cells := 0
	for qc := 0; qc <= 5; qc++ {
		for _, empty := range []bool{true, false} {
			sel := pathsInClass(paths, "q", qc)
			var sel2 []*Path
			for _, p := range sel {
				// total weight class: =0 (empty) or >0 (non-empty); NaN / <0 are not reachable states
				set, has := p.Classes["total@0"]
				if !has {
					for k, s := range p.Classes {
						if strings.HasPrefix(k, "total") {
							set, has = s, true
						}
					}
				}
				e, eKnown := emptyAtom(p)
				switch {
				case has:
					if empty && set.has(classOfPoint(0)) || !empty && set.has(classAbovePoint(0)) {
						sel2 = append(sel2, p)
					}
				case eKnown:
					if e == empty {
						sel2 = append(sel2, p)
					}
				default:
					sel2 = append(sel2, p) // emptiness not consulted on this path
				}
			}
			wantErr := qc == classNaN || qc == 1 || qc == 5 || empty
			key := fmt.Sprintf("%s/q%s/empty=%v", shortFn(f), className(qn, qc), empty)
			cells++
			if len(sel2) == 0 {
				c.R.undecided(rule, key, shortFn(f), c.fpos(f), "some path handles the cell", "no compatible path")
				continue
			}
			bad := ""
			for _, p := range sel2 {
				st := p.RetNil(1)
				if wantErr {
					if st != -1 {
						bad = fmt.Sprintf("path [%s]: %s", p, describeRet(p))
					} else if len(p.Writes()) > 0 {
						bad = fmt.Sprintf("refusing path writes: %s", describeWrites(p))
					}
				} else if st != 1 {
					bad = fmt.Sprintf("path [%s]: %s", p, describeRet(p))
				}
			}
			exp := "nil error"
			if wantErr {
				exp = "non-nil error and no write"
			}
			c.R.check(bad == "", rule, key, shortFn(f), c.fpos(f), exp, firstNonEmpty(bad, fmt.Sprintf("%d path(s) agree", len(sel2))))
		}
	}
	c.R.floor(rule, "GetValueAtQuantile table cells", cells, 12)

	// exact variant: delegates to the inner query with the same q and returns its error on every path
	fe := c.P.DeclaredMethod(a.Exact, "GetValueAtQuantile")
	if c.mustFunc(rule, fe, "(*DDSketchWithExactSummaryStatistics).GetValueAtQuantile") {
		ps, _ := exec(c, fe, nil, 1)
		for i, p := range ps {
			var inner *Term
			for _, e := range p.Calls() {
				if isMethodCall(e.Call, "GetValueAtQuantile") && len(e.Call.Args) == 2 && isRecvField(e.Call.Args[0], a.innerFld) && e.Call.Args[1].isParam(1) {
					inner = e.Call
				}
			}
			ok := inner != nil && len(p.RetT) == 2 && p.RetT[1].Key() == mk("extract", "1", nil, inner).Key()
			c.R.check(ok, rule, fmt.Sprintf("%s/path%d[%s]/propagates", shortFn(fe), i, pathSig(p)), shortFn(fe), c.fpos(fe),
				"error of the inner GetValueAtQuantile(q) is returned on every path", describeRet(p))
		}
		c.R.floor(rule, "exact GetValueAtQuantile paths", len(ps), 3)
	}
	// batch forms
	for _, n := range []struct {
		t     string
		inner string
	}{{"plain", "GetValueAtQuantile"}, {"exact", "GetValuesAtQuantiles"}} {
		var fb *ssa.Function
		if n.t == "plain" {
			fb = c.P.DeclaredMethod(a.DDSketch, "GetValuesAtQuantiles")
		} else {
			fb = c.P.DeclaredMethod(a.Exact, "GetValuesAtQuantiles")
		}
		if !c.mustFunc(rule, fb, n.t+" GetValuesAtQuantiles") {
			continue
		}
		// visit bound 3: two turns of the element loop, so that an error of an earlier element that a later element
		// overwrites is seen
		ps, _ := exec(c, fb, nil, 3)
		npaths := 0
		for i, p := range ps {
			// every path on which an inner call reported an error returns that error; every success path returns nil or
			// the inner error value; and the error of EVERY inner call of the path is tested or returned
			var innerErrs []*Term
			for _, e := range p.Calls() {
				if isMethodCall(e.Call, n.inner) {
					innerErrs = append(innerErrs, mk("extract", "1", nil, e.Call))
				}
			}
			if len(innerErrs) == 0 {
				continue
			}
			npaths++
			last := p.RetT[len(p.RetT)-1]
			ok := true
			for _, innerErr := range innerErrs {
				switch errState(p, innerErr) {
				case 1, 0: // reported, or never tested: it is what the path returns
					ok = ok && last.Key() == innerErr.Key()
				}
			}
			c.R.check(ok, rule, fmt.Sprintf("%s/path%d[%s]/propagates", shortFn(fb), i, pathSig(p)), shortFn(fb), c.fpos(fb),
				"an error of the per-quantile query — of every element — is returned", describeRet(p))
		}
		if npaths == 0 && n.t == "plain" {
			// the plain batch query no longer calls the single query: it refuses exactly what the single query refuses
			// iff it is path-equivalent to it (C12-D4)
			okEq, why := batchEquivalent(c, a)
			c.R.check(okEq, rule, shortFn(fb)+"/equivalent-to-single-query", shortFn(fb), c.fpos(fb), "every element and every error return of the batch query corresponds to a path of GetValueAtQuantile with the same decisions", why)
			continue
		}
		c.R.floor(rule, n.t+" batch quantile paths with inner query", npaths, 2)
	}
}

func firstNonEmpty(a, b string) string {
	if a != "" {
		return a
	}
	return b
}

// D3a: MergeWith refuses unequal mappings before any write.
func c13Merge(c *Ctx, a *sketchAnchors) {
	const rule = "C13-D3"
	f := c.P.DeclaredMethod(a.DDSketch, "MergeWith")
	if !c.mustFunc(rule, f, "(*DDSketch).MergeWith") {
		return
	}
	paths, _ := exec(c, f, nil, 1)
	isEq := func(t *Term) bool {
		if !isMethodCall(t, "Equals") || len(t.Args) != 2 {
			return false
		}
		x, y := t.Args[0], t.Args[1]
		recvMap := func(z *Term) bool { return isRecvField(z, a.mapField) }
		otherMap := func(z *Term) bool {
			return z.Op == "field" && z.Sym == a.mapField && z.Args[0].isParam(1)
		}
		return recvMap(x) && otherMap(y) || recvMap(y) && otherMap(x)
	}
	nEq := 0
	for i, p := range paths {
		taken, found := pathCond(p, isEq)
		key := fmt.Sprintf("%s/path%d[%s]", shortFn(f), i, pathSig(p))
		if !found {
			c.R.violate(rule, key, shortFn(f), c.fpos(f), "every path consults Equals(receiver mapping, argument mapping)", "path without mapping comparison: "+describeRet(p))
			continue
		}
		nEq++
		// the comparison must precede every write
		var eqInstr ssa.Instruction
		for _, e := range p.Effects {
			if e.Kind == "call" && isEq(e.Call) {
				eqInstr = e.Instr
			}
		}
		firstWriteBefore := false
		for _, e := range p.Effects {
			if e.Instr == eqInstr {
				break
			}
			if !(e.Kind == "call" && e.Pure) {
				firstWriteBefore = true
			}
		}
		if !taken {
			ok := p.RetNil(0) == -1 && len(p.Writes()) == 0
			c.R.check(ok, rule, key+"/mismatch", shortFn(f), c.fpos(f), "mapping mismatch ⇒ non-nil error, no write", describeRet(p)+"; "+describeWrites(p))
		} else {
			ok := p.RetNil(0) == 1 && !firstWriteBefore
			c.R.check(ok, rule, key+"/match", shortFn(f), c.fpos(f), "equal mappings ⇒ nil error, writes only after the comparison", describeRet(p))
		}
	}
	c.R.floor(rule, "MergeWith paths consulting Equals", nEq, 2)
	checkWrapper(c, a, wrapperSpec{rule: rule, method: "MergeWith", inner: "MergeWith",
		innerArgs: []func(*Term) bool{func(t *Term) bool { return t.Op == "field" && t.Sym == a.innerFld && t.Args[0].isParam(1) }},
		stat:      "MergeWith", statArgs: []func(*Term) bool{func(t *Term) bool { return t.Op == "field" && t.Sym == a.statField && t.Args[0].isParam(1) }}})
}

var wPoints = []string{"0", "1"}

// reweightErrClasses computes, for one Reweight implementation, the classes of the factor for which
// a non-nil error may be returned, and checks the table: ≤0 → error, no write; 1 → nil, no write.
func reweightTable(c *Ctx, rule string, f *ssa.Function, report bool) (errClasses ClassSet, ok bool) {
	dom := mkDomain(paramScalar("w", 1, 2, constPoints("0", "1")))
	paths, complete := exec(c, f, dom, 2)
	if !complete {
		if report {
			c.R.undecided(rule, "paths/"+shortFn(f), shortFn(f), c.fpos(f), "path enumeration completes", "too many paths")
		}
		return 0, false
	}
	ok = true
	for wc := 0; wc <= 5; wc++ {
		sel := pathsInClass(paths, "w", wc)
		key := fmt.Sprintf("%s/w%s", shortFn(f), className(wPoints, wc))
		mayErr := false
		bad := ""
		for _, p := range sel {
			st := p.RetNil(0)
			if st != 1 {
				mayErr = true
			}
			switch wc {
			case 1, 2: // <0, =0
				if st != -1 {
					bad = "accepted: " + describeRet(p)
				} else if len(p.Writes()) > 0 {
					bad = "refusing path writes: " + describeWrites(p)
				}
			case 4: // =1
				if st != 1 {
					bad = describeRet(p)
				} else if len(p.Writes()) > 0 {
					bad = "factor 1 must not write (bit-exact no-op): " + describeWrites(p)
				}
			case 3, 5:
				// positive factors: any error must be returned before the first write
				if st != 1 && len(p.Writes()) > 0 {
					// candidate; decided by the caller using callee summaries
					bad = "possible error after a write: " + describeWrites(p) + "; " + describeRet(p)
				}
			}
		}
		if mayErr {
			errClasses |= 1 << uint(wc)
		}
		if !report || wc == classNaN {
			continue
		}
		exp := map[int]string{1: "non-nil error, no write", 2: "non-nil error, no write", 3: "nil error (or error before any write)", 4: "nil, no write", 5: "nil error (or error before any write)"}[wc]
		if len(sel) == 0 {
			c.R.undecided(rule, key, shortFn(f), c.fpos(f), exp, "no compatible path")
			ok = false
			continue
		}
		if bad != "" {
			ok = false
		}
		c.R.check(bad == "", rule, key, shortFn(f), c.fpos(f), exp, firstNonEmpty(bad, fmt.Sprintf("%d path(s) agree", len(sel))))
	}
	return errClasses, ok
}

func c13Reweight(c *Ctx, a *sketchAnchors) {
	const rule = "C13-D3"
	storeI := c.P.NamedType(pkgStore, "Store")
	if storeI == nil {
		c.R.undecided(rule, "anchor/store.Store", "", "", "store.Store interface exists", "unresolved")
		return
	}
	impls := c.P.Implementations(storeI)
	var calleeErr ClassSet
	seen := map[*ssa.Function]bool{}
	bodies := 0
	for _, n := range impls {
		m := c.P.MethodOf(n, "Reweight")
		if m == nil {
			continue
		}
		// promoted wrappers: analyse the declared body once
		body := m
		if m.Synthetic != "" {
			body = underlyingOfWrapper(m)
		}
		if body == nil || seen[body] {
			continue
		}
		seen[body] = true
		bodies++
		ec, _ := reweightTable(c, rule, body, true)
		calleeErr |= ec
	}
	c.R.floor(rule, "Store.Reweight bodies", bodies, 3)
	// sketch level: paths that take an `err != nil` branch of a store Reweight are infeasible when the
	// factor class on the path cannot make any implementation fail.
	f := c.P.DeclaredMethod(a.DDSketch, "Reweight")
	if !c.mustFunc(rule, f, "(*DDSketch).Reweight") {
		return
	}
	dom := mkDomain(paramScalar("w", 1, 2, constPoints("0", "1")))
	paths, _ := exec(c, f, dom, 3) // bound 3: a loop over a literal slice of the two stores is unrolled
	for wc := 1; wc <= 5; wc++ {
		sel := pathsInClass(paths, "w", wc)
		key := fmt.Sprintf("%s/w%s", shortFn(f), className(wPoints, wc))
		bad := ""
		n := 0
		for _, p := range sel {
			// feasibility with callee summary
			infeasible := false
			for _, cnd := range p.Conds {
				if x, neq, ok := nilTest(cnd.Term); ok && isMethodCall(x, "Reweight") && len(x.Args) == 2 && x.Args[1].isParam(1) {
					errTaken := neq == cnd.Taken
					if errTaken && calleeErr&(1<<uint(wc)) == 0 {
						infeasible = true
					}
				}
			}
			if infeasible {
				continue
			}
			n++
			st := p.RetNil(0)
			// `return store.Reweight(w)` as the last step: nil when no implementation can fail for this class
			if r := p.RetT[0]; st == 0 && isMethodCall(r, "Reweight") && len(r.Args) == 2 && r.Args[1].isParam(1) && calleeErr&(1<<uint(wc)) == 0 {
				st = 1
			}
			switch wc {
			case 1, 2:
				if st != -1 || len(p.Writes()) > 0 {
					bad = describeRet(p) + "; " + describeWrites(p)
				}
			case 4:
				if st != 1 || len(p.Writes()) > 0 {
					bad = describeRet(p) + "; " + describeWrites(p)
				}
			default:
				if st != 1 {
					bad = "error possible after the sketch was partly reweighted: " + describeRet(p) + "; " + describeWrites(p)
				}
			}
		}
		exp := map[int]string{1: "non-nil error, no write", 2: "non-nil error, no write", 3: "nil error (no store can fail for this class)", 4: "nil, no write", 5: "nil error (no store can fail for this class)"}[wc]
		if n == 0 {
			c.R.undecided(rule, key, shortFn(f), c.fpos(f), exp, "no feasible path")
			continue
		}
		c.R.check(bad == "", rule, key, shortFn(f), c.fpos(f), exp, firstNonEmpty(bad, fmt.Sprintf("%d feasible path(s) agree", n)))
	}
	checkWrapper(c, a, wrapperSpec{rule: rule, method: "Reweight", inner: "Reweight", innerArgs: []func(*Term) bool{isParamN(1)},
		stat: "Reweight", statArgs: []func(*Term) bool{isParamN(1)}})
}

// underlyingOfWrapper: the declared function a synthetic promotion wrapper forwards to.
func underlyingOfWrapper(w *ssa.Function) *ssa.Function {
	for _, b := range w.Blocks {
		for _, in := range b.Instrs {
			if call, ok := in.(*ssa.Call); ok {
				if fn, ok := call.Common().Value.(*ssa.Function); ok {
					if fn.Synthetic != "" {
						return underlyingOfWrapper(fn)
					}
					return fn
				}
			}
		}
	}
	return nil
}

// D4: constructors
func c13Constructors(c *Ctx, a *sketchAnchors) {
	const rule = "C13-D4"
	n := 0
	for _, kind := range []string{"Logarithmic", "LinearlyInterpolated", "CubicallyInterpolated"} {
		// accuracy constructors
		f := c.P.Func(pkgMapping, "New"+kind+"Mapping")
		if c.mustFunc(rule, f, "New"+kind+"Mapping") {
			dom := mkDomain(paramScalar("alpha", 0, 2, constPoints("0", "1")))
			paths, _ := exec(c, f, dom, 1)
			for ac := 1; ac <= 5; ac++ {
				sel := pathsInClass(paths, "alpha", ac)
				wantErr := ac != 3
				bad := ""
				for _, p := range sel {
					st := p.RetNil(1)
					if wantErr && !(st == -1 && p.RetT[0].Op == "nil") {
						bad = describeRet(p)
					}
					if !wantErr && st != 1 {
						bad = describeRet(p)
					}
				}
				if len(sel) == 0 {
					bad = "no compatible path"
				}
				exp := "(nil mapping, non-nil error)"
				if !wantErr {
					exp = "nil error"
				}
				n++
				c.R.check(bad == "", rule, fmt.Sprintf("%s/alpha%s", shortFn(f), className(wPoints, ac)), shortFn(f), c.fpos(f), exp, firstNonEmpty(bad, "ok"))
			}
		}
		g := c.P.Func(pkgMapping, "New"+kind+"MappingWithGamma")
		if c.mustFunc(rule, g, "New"+kind+"MappingWithGamma") {
			dom := mkDomain(paramScalar("gamma", 0, 1, constPoints("1")))
			paths, _ := exec(c, g, dom, 1)
			for gc := 1; gc <= 3; gc++ {
				sel := pathsInClass(paths, "gamma", gc)
				wantErr := gc != 3
				bad := ""
				for _, p := range sel {
					st := p.RetNil(1)
					if wantErr && !(st == -1 && p.RetT[0].Op == "nil") {
						bad = describeRet(p)
					}
					if !wantErr && st != 1 {
						bad = describeRet(p)
					}
				}
				if len(sel) == 0 {
					bad = "no compatible path"
				}
				exp := "(nil mapping, non-nil error)"
				if !wantErr {
					exp = "nil error"
				}
				n++
				c.R.check(bad == "", rule, fmt.Sprintf("%s/gamma%s", shortFn(g), className([]string{"1"}, gc)), shortFn(g), c.fpos(g), exp, firstNonEmpty(bad, "ok"))
			}
		}
	}
	// sketch constructors propagate the mapping constructor's error and return a nil sketch
	for _, name := range []string{"NewDefaultDDSketch", "LogUnboundedDenseDDSketch", "LogCollapsingLowestDenseDDSketch", "LogCollapsingHighestDenseDDSketch", "NewDefaultDDSketchWithExactSummaryStatistics"} {
		f := c.P.Func(pkgSketch, name)
		if !c.mustFunc(rule, f, name) {
			continue
		}
		paths, _ := exec(c, f, nil, 1)
		for i, p := range paths {
			var errT *Term
			for _, e := range p.Calls() {
				if e.Call.Op == "call" && len(e.Call.Args) >= 1 && e.Call.Args[0].isParam(0) {
					if fn := calleeOf(e.Instr); fn != nil && fn.Signature.Results().Len() == 2 {
						errT = mk("extract", "1", nil, e.Call)
						break
					}
				}
			}
			key := fmt.Sprintf("%s/path%d[%s]", name, i, pathSig(p))
			if errT == nil {
				c.R.violate(rule, key, name, c.fpos(f), "accuracy is validated by a mapping (or sketch) constructor called with the caller's accuracy", "no such call on path")
				continue
			}
			n++
			switch errState(p, errT) {
			case 1:
				c.R.check(p.RetT[0].Op == "nil" && p.RetT[1].Key() == errT.Key(), rule, key, name, c.fpos(f), "constructor error ⇒ (nil, that error)", describeRet(p))
			case -1:
				c.R.check(p.RetNil(1) == 1 && p.RetT[0].Op != "nil", rule, key, name, c.fpos(f), "success ⇒ (sketch, nil)", describeRet(p))
			default:
				c.R.check(p.RetT[1].Key() == errT.Key(), rule, key, name, c.fpos(f), "error returned unchanged", describeRet(p))
			}
		}
	}
	// NewBin
	if f := c.P.Func(pkgStore, "NewBin"); c.mustFunc(rule, f, "store.NewBin") {
		dom := mkDomain(paramScalar("count", 1, 1, constPoints("0")))
		paths, _ := exec(c, f, dom, 1)
		for cc := 1; cc <= 3; cc++ {
			sel := pathsInClass(paths, "count", cc)
			bad := ""
			for _, p := range sel {
				if cc == 1 && !(p.RetNil(1) == -1 && p.RetT[0].Op == "nil") || cc != 1 && p.RetNil(1) != 1 {
					bad = describeRet(p)
				}
			}
			if len(sel) == 0 {
				bad = "no compatible path"
			}
			n++
			c.R.check(bad == "", rule, fmt.Sprintf("store.NewBin/count%s", className([]string{"0"}, cc)), "store.NewBin", c.fpos(f), map[bool]string{true: "(nil, error)", false: "nil error"}[cc == 1], firstNonEmpty(bad, "ok"))
		}
	}
	// NewSummaryStatisticsFromData: count<0 or NaN refused
	if f := c.P.Func(pkgStat, "NewSummaryStatisticsFromData"); c.mustFunc(rule, f, "stat.NewSummaryStatisticsFromData") {
		dom := mkDomain(paramScalar("count", 0, 1, constPoints("0")))
		paths, _ := exec(c, f, dom, 1)
		for _, cc := range []int{classNaN, 1} {
			sel := pathsInClass(paths, "count", cc)
			bad := ""
			for _, p := range sel {
				if !(p.RetNil(1) == -1 && p.RetT[0].Op == "nil") {
					bad = describeRet(p)
				}
			}
			if len(sel) == 0 {
				bad = "no compatible path"
			}
			n++
			c.R.check(bad == "", rule, fmt.Sprintf("stat.NewSummaryStatisticsFromData/count%s", className([]string{"0"}, cc)), "stat.NewSummaryStatisticsFromData", c.fpos(f), "(nil, error)", firstNonEmpty(bad, "ok"))
		}
	}
	// NewDDSketchWithExactSummaryStatisticsFromData: emptiness mismatch refused
	if f := c.P.Func(pkgSketch, "NewDDSketchWithExactSummaryStatisticsFromData"); c.mustFunc(rule, f, "NewDDSketchWithExactSummaryStatisticsFromData") {
		paths, _ := exec(c, f, nil, 1)
		nerr, nok := 0, 0
		for _, p := range paths {
			if p.RetNil(1) == -1 && p.RetT[0].Op == "nil" {
				nerr++
			} else if p.RetNil(1) == 1 {
				nok++
			}
		}
		n++
		c.R.check(nerr >= 1 && nok >= 1 && nerr+nok == len(paths), rule, "NewDDSketchWithExactSummaryStatisticsFromData/guard", shortFn(f), c.fpos(f),
			"a guarded refusal path returning (nil, error) and a success path", fmt.Sprintf("%d refusing, %d accepting of %d paths", nerr, nok, len(paths)))
	}
	c.R.floor(rule, "constructor obligations", n, 35)
}

func calleeOf(in ssa.Instruction) *ssa.Function {
	if call, ok := in.(ssa.CallInstruction); ok {
		if fn, ok := call.Common().Value.(*ssa.Function); ok {
			return fn
		}
	}
	return nil
}
