// ddverif decides structural clauses of the 20 sketches-go properties from the
// type-checked source of the repository's working tree (go/packages → go/types
// → go/ssa). It never executes repository code.
package main

import (
	"encoding/json"
	"flag"
	"fmt"
	"go/ast"
	"go/types"
	"os"
	"runtime/debug"
	"sort"
	"strconv"
	"strings"
	"time"
)

// Ctx is handed to every rule.
type Ctx struct {
	P    *Program
	R    *Report
	Mod  *ModAnalysis
	Tier string
	mod2 *ModAnalysis
	pag  *paginatedRoles
	live map[*types.Var]bool
}

type property struct {
	meta propertyMeta
	run  func(c *Ctx)
}

var registry = map[string]*property{}

func register(id, explanation, rule string, exhaustive bool, run func(c *Ctx)) {
	registry[id] = &property{meta: propertyMeta{ID: id, Explanation: explanation, Rule: rule, Exhaustive: exhaustive}, run: run}
}

func main() {
	var (
		prop     = flag.String("property", "", "property id (C01…C20) or 'all'")
		tier     = flag.String("tier", "quick", "quick|thorough")
		repo     = flag.String("repo", "/repo", "repository working tree")
		evidence = flag.String("evidence", "/verif/evidence", "evidence directory")
		knownF   = flag.String("known", "/verif/known_findings.json", "known findings file")
		only     = flag.String("only", "", "evaluate/report only this obligation key")
		dump     = flag.String("dump", "", "debug: dump paths of the function whose name contains this string")
		archs    = flag.String("arch", "", "comma separated GOARCH list (default: amd64; thorough: amd64,386)")
	)
	flag.Parse()
	if *dump != "" {
		os.Exit(dumpMain(*repo, *dump))
	}
	if *prop == "explain" {
		var ids []string
		for id := range registry {
			ids = append(ids, id)
		}
		sort.Strings(ids)
		for _, id := range ids {
			m := registry[id].meta
			b, _ := json.Marshal(map[string]any{"id": id, "explanation": m.Explanation, "rule": m.Rule, "exhaustive": m.Exhaustive})
			fmt.Println(string(b))
		}
		return
	}
	if *prop == "" {
		fmt.Println("ERROR -property required")
		os.Exit(2)
	}
	seed := 0
	if s := os.Getenv("VERIF_SEED"); s != "" {
		seed, _ = strconv.Atoi(s)
	}
	if t := os.Getenv("VERIF_TIER"); t != "" && (t == "quick" || t == "thorough") {
		// explicit argument wins; env only fills the default
		if !flagPassed("tier") {
			*tier = t
		}
	}
	archList := []string{"amd64"}
	if *tier == "thorough" {
		archList = []string{"amd64", "386"}
	}
	if *archs != "" {
		archList = strings.Split(*archs, ",")
	}
	known, err := loadKnown(*knownF)
	if err != nil {
		fmt.Printf("ERROR cannot read known findings: %v\n", err)
		os.Exit(2)
	}
	var ids []string
	if *prop == "all" {
		for id := range registry {
			ids = append(ids, id)
		}
		sort.Strings(ids)
	} else {
		if registry[*prop] == nil {
			fmt.Printf("ERROR unknown property %s\n", *prop)
			os.Exit(2)
		}
		ids = []string{*prop}
	}
	start := time.Now()
	type loaded struct {
		p   *Program
		mod *ModAnalysis
	}
	var progs []loaded
	for _, a := range archList {
		p, err := loadProgram(*repo, a)
		if err != nil {
			fmt.Printf("ERROR %v\n", err)
			os.Exit(2)
		}
		progs = append(progs, loaded{p, newModAnalysis(p)})
	}
	seenAlias := map[string]bool{}
	for _, l := range aliasLog {
		if !seenAlias[l] {
			seenAlias[l] = true
			fmt.Println("note: helper " + l + " (resolved by signature and call neighbourhood)")
		}
	}
	loadTime := time.Since(start).Seconds()
	exit := 0
	for _, id := range ids {
		t0 := time.Now()
		code := runProperty(id, progs[0].p, func(i int) (*Program, *ModAnalysis) { return progs[i].p, progs[i].mod }, len(progs), *tier, seed, *evidence, known, *only, archList, loadTime)
		_ = t0
		if code > exit {
			exit = code
		}
	}
	os.Exit(exit)
}

func flagPassed(name string) bool {
	found := false
	flag.Visit(func(f *flag.Flag) {
		if f.Name == name {
			found = true
		}
	})
	return found
}

func runProperty(id string, _ *Program, get func(i int) (*Program, *ModAnalysis), n int, tier string, seed int, evidence string, known []KnownFinding, only string, archs []string, loadTime float64) (code int) {
	pr := registry[id]
	t0 := time.Now()
	var first *Report
	defer func() {
		if e := recover(); e != nil {
			fmt.Printf("ERROR checker panic in %s: %v\n%s\n", id, e, debug.Stack())
			code = 2
		}
	}()
	for i := 0; i < n; i++ {
		p, mod := get(i)
		r := newReport(id)
		c := &Ctx{P: p, R: r, Mod: mod, Tier: tier}
		r.count("packages", len(p.Pkgs))
		r.count("functions", len(p.Funcs))
		r.count("ssa_blocks", p.NBlocks)
		r.count("ssa_instructions", p.NInstr)
		r.count("call_sites", p.NCalls)
		c.resolveDenseRoles()
		if dr.err != "" {
			r.undecided(id, "anchor/dense-roles", "", "", "field roles of the dense store resolve", dr.err)
		}
		pr.run(c)
		if first == nil {
			first = r
		} else {
			// merge the second architecture: obligations are suffixed with the arch
			for _, o := range r.Obls {
				o.Key = strings.TrimPrefix(o.Key, o.Rule+":")
				o.Key = o.Key + "@" + p.Arch
				first.add(o)
			}
			for _, f := range r.Floors {
				f.What += "@" + p.Arch
				first.Floors = append(first.Floors, f)
			}
			for _, a := range r.Assumptions {
				first.assume(a)
			}
		}
	}
	wall := time.Since(t0).Seconds() + loadTime
	return first.finish(pr.meta, tier, seed, evidence, known, wall, only, archs)
}

// dumpMain prints the paths / terms of matching functions (development aid).
func dumpMain(repo, pat string) int {
	p, err := loadProgram(repo, "")
	if err != nil {
		fmt.Println("ERROR", err)
		return 2
	}
	if pat == "@helpers" {
		// development aid: the unexported helpers of the module with signature and call neighbourhood (frozen in known_helpers.go)
		tab := helperTable(p)
		var ks []string
		for k := range tab {
			ks = append(ks, k)
		}
		sort.Strings(ks)
		fmt.Println("package main\n\n// frozenHelpers: generated with `ddverif -dump @helpers` from the tree the rules were written against (see alias.go).\nvar frozenHelpers = map[string]helperSig{")
		for _, k := range ks {
			h := tab[k]
			fmt.Printf("\t%q: {sig: %q, callees: %#v, callers: %#v},\n", k, h.sig, h.callees, h.callers)
		}
		fmt.Println("}")
		return 0
	}
	if pat == "@exported" {
		// development aid: the exported functions of the module (frozen in known_api.go)
		for _, f := range p.Funcs {
			if inModule(f) && f.Synthetic == "" && f.Parent() == nil && ast.IsExported(f.Name()) {
				fmt.Println(helperKey(f))
			}
		}
		return 0
	}
	mod := newModAnalysis(p)
	for _, f := range p.Funcs {
		if !strings.Contains(funcName(f), pat) {
			continue
		}
		fmt.Printf("=== %s  mods=%v\n", funcName(f), mod.Mods[f].sorted())
		for i, rs := range mod.Rets[f] {
			fmt.Printf("    ret%d aliases %v\n", i, rs.sorted())
		}
		visits := 1
		if v, err := strconv.Atoi(os.Getenv("DDV_DUMP_VISITS")); err == nil && v > 0 {
			visits = v
		}
		paths, complete := pathsOf(p, f, nil, execOpts{MaxVisits: visits, Pure: mod.PureCall, InlineCallee: inlineNewHelpers})
		fmt.Printf("    %d paths complete=%v\n", len(paths), complete)
		for i, pa := range paths {
			if i > 40 {
				break
			}
			fmt.Printf("  path %d: %s\n", i, pa)
			for _, e := range pa.Effects {
				tag := ""
				if e.Pure {
					tag = " (pure)"
				}
				if e.InLoop {
					tag += " (loop)"
				}
				fmt.Printf("      %s%s\n", e, tag)
			}
			if pa.Panics {
				fmt.Printf("      PANIC\n")
			}
			for j, r := range pa.RetT {
				fmt.Printf("      ret%d = %s\n", j, r)
			}
		}
	}
	return 0
}
