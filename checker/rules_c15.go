package main

import (
	"fmt"
	"go/token"
	"go/types"
	"os"
	"sort"
	"strings"

	"golang.org/x/tools/go/ssa"
)

// C15 — a cleared sketch or store is indistinguishable from a new one.

func init() {
	register("C15",
		"DECIDED: D1 Clear covers the state — every path through a store's Clear performs every reset some path performs (no early return under an already-empty test: emptiness does not imply a pristine window, flag or array); for every store type, every field that any non-constructor method of the type can write (interprocedural write sets) is restored by Clear to what the constructor establishes: slices are truncated to length 0 (or replaced), maps are emptied over their own key range, scalars get the constructor's value (compared as normalised terms: sentinels, ±Inf, maxInt, false, 0). Reasoned exceptions, each with its own checked side condition: DenseStore.offset (assigned on the empty edge of every extendRange before any read), BufferedPaginatedStore.bufferCompactionTriggerLen (read only by the mutation paths that schedule compaction, never by an observer), BufferedPaginatedStore.pages outer slice (kept; every inner page is truncated to length 0). The collapsing stores lower the collapsed flag and delegate to the embedded Clear; DDSketch.Clear clears both stores and zeroes the zero weight (exact variant: C10-D1; statistics object: C10-D3). "+
			"D2 retained memory is zero-filled before reuse — the slice fields that Clear truncates are only ever re-grown by append (append-of-make or single elements, i.e. with explicit values); every other reslice stored back into them is provably non-growing ([:0], no upper bound, or len−k with k ≥ 0 established from the loop structure). "+
			"SHARED (re-evaluated here under its home rule id): C05-D2 (every allocation or reslice of a collapsing store's bin array is bounded by the capped length — also the first growth after a Clear that kept a larger array). C04-D9 (the paginated store's page table has one owner and emptied slots are recognised by length — the two things a cleared-and-reused paginated store depends on). "+
			"SHARED (obligations of other properties that decide clauses this property states too, re-evaluated here under their home rule ids): C10-D3 Clear as C15-D3 (the statistics object of the exact variant is reset field by field to the constructor values). the Clear wrapper of the exact variant as C15-D3 (inner Clear and statistics Clear on every path); C14-D2 (every Copy is deep, also of a cleared store that kept its arrays). "+
			"NOT DECIDED: equality of answers for all later histories (inherits the numeric cores of C04/C05).",
		"one obligation per (type × written field), per exception side condition, per reslice stored into a truncatable field",
		true, runC15)
}

func runC15(c *Ctx) {
	a, err := c.anchors()
	if err != nil {
		c.R.undecided("C15", "anchors", "", "", "sketch anchors resolve", err.Error())
		return
	}
	pr := c.paginated()
	if pr.err != "" {
		c.R.undecided("C15", "anchor/paginated-routines", "", "", "sort/compaction routines resolve by role", pr.err)
		return
	}
	storeI := c.P.NamedType(pkgStore, "Store")
	dense := c.P.NamedType(pkgStore, "DenseStore")
	n := 0
	for _, t := range c.P.Implementations(storeI) {
		n++
		c15ClearCovers(c, t, dense, pr)
		c15Regrowth(c, t)
	}
	c.R.floor("C15-D1", "store types with a Clear", n, 5)
	c15Sketch(c, a)
	// a cleared exact sketch: the statistics object's Clear restores the constructor's value of every field
	// (scaling by 0 instead leaves NaN behind when a sum had overflowed)
	c10StatObject(c, a, "C15-D3", "Clear")
	// … and its Clear clears the inner sketch and the statistics on every path (no "already empty" shortcut: the
	// exact count can be 0 while bins or extremes are not)
	c10Wrappers(c, a, "C15-D3", "Clear")
	// a cleared store keeps memory for reuse: a Copy taken afterwards must not share it (C14-D2 deep-copy obligations)
	c.shared(func() { c14Copies(c, a) }, func(o *Obligation) bool { return true })
	// a cleared paginated store keeps its (emptied) page slots: only the page accessor knows how to reuse them
	c.shared(func() { c04PageTable(c, pr, "C04-D9"); c04PageUse(c, pr, "C04-D9") }, func(o *Obligation) bool { return true })
	// a cleared collapsing store keeps its array: its next life allocates and reslices under the same bin limit as a
	// new store does (reusing the kept capacity beyond the limit makes it collapse later than a new one)
	c.shared(func() {
		if cts, why := collapsingTypes(c); why == "" {
			for _, ct := range cts {
				c05Cap(c, ct)
			}
		}
	}, func(o *Obligation) bool { return true })
}

// topField: ".bins[*]" → "bins"
func topField(rest string) string {
	r := strings.TrimPrefix(rest, ".")
	if i := strings.IndexAny(r, ".["); i >= 0 {
		return r[:i]
	}
	return r
}

func c15ClearCovers(c *Ctx, t, dense *types.Named, pr *paginatedRoles) {
	const rule = "C15-D1"
	tname := t.Obj().Name()
	clear := c.P.DeclaredMethod(t, "Clear")
	if clear == nil {
		c.R.violate(rule, tname+".Clear/declared", tname, "", "the type declares its own Clear", "promoted or missing")
		return
	}
	// every way through Clear does the whole job: what one path resets (outside loops), every path resets — an early
	// return under "already empty" leaves behind whatever emptiness does not imply (a window, a collapsed flag, memory
	// of weights that underflowed to zero)
	{
		cpaths, _ := exec(c, clear, nil, 1)
		all := map[string]bool{}
		per := make([]map[string]bool, len(cpaths))
		for i, p := range cpaths {
			per[i] = map[string]bool{}
			for _, e := range p.Effects {
				if e.Kind == "store" && !e.InLoop {
					k := stripVers(e.Addr).Key()
					per[i][k], all[k] = true, true
				}
				if e.Kind == "call" && !e.Pure && !e.InLoop && e.Call != nil {
					k := "call " + e.Call.Sym
					per[i][k], all[k] = true, true
				}
			}
		}
		bad := ""
		for i, p := range cpaths {
			if p.Panics {
				continue
			}
			for k := range all {
				if !per[i][k] {
					bad = firstNonEmpty(bad, "a way through Clear skips "+shorten(k, 80)+": ["+p.String()+"]")
				}
			}
		}
		c.R.check(bad == "" && len(cpaths) > 0, rule, tname+".Clear/every-path-clears", shortFn(clear), c.fpos(clear),
			"every path through Clear performs every reset some path performs (no early return)", firstNonEmpty(bad, fmt.Sprintf("%d path(s)", len(cpaths))))
	}
	ctor := c.P.Func(pkgStore, "New"+tname)
	if !c.mustFunc(rule, ctor, "store.New"+tname) {
		return
	}
	cps, _ := exec(c, ctor, nil, 1)
	if len(cps) != 1 {
		c.R.undecided(rule, tname+"/constructor-paths", shortFn(ctor), c.fpos(ctor), "a single-path constructor", fmt.Sprintf("%d paths", len(cps)))
		return
	}
	flds := flatFields(t, "")
	ctorVal := func(path []string) *Term {
		if v := finalFieldValue(cps[0], path, flds); v != nil {
			return v
		}
		return nil // zero value
	}
	// fields written by non-constructor, non-Clear methods (declared on t or promoted from the embedded store)
	written := map[string][]string{} // joined path -> writers
	ms := c.P.SSA.MethodSets.MethodSet(types.NewPointer(t))
	for i := 0; i < ms.Len(); i++ {
		fn := c.P.SSA.MethodValue(ms.At(i))
		if fn == nil || fn.Name() == "Clear" {
			continue
		}
		for _, l := range c.Mod.ModsRooted(fn, 0) {
			if c.locIsScratch(types.NewPointer(t), l) {
				continue // a scratch buffer carries nothing from one life of the store into the next
			}
			// map the location to a flat field path
			for _, ff := range flds {
				p := "." + strings.Join(ff.path, ".")
				if l == p || strings.HasPrefix(l, p+"[") || strings.HasPrefix(l, p+".") {
					k := strings.Join(ff.path, ".")
					written[k] = append(written[k], fn.Name())
				}
			}
		}
	}
	// what Clear does: direct stores, stores of the embedded Clear (collapsing types), loops
	type clearFact struct {
		val     *Term
		how     string
		emptied bool // map emptied / inner slices truncated in a loop
		innerFn *ssa.Function
	}
	facts := map[string]*clearFact{}
	var collect func(f *ssa.Function, prefix []string)
	collect = func(f *ssa.Function, prefix []string) {
		tc := newTermCtx(c.P)
		loops := loopBlocks(f)
		for _, b := range f.Blocks {
			for _, in := range b.Instrs {
				switch in := in.(type) {
				case *ssa.Store:
					at := tc.Of(in.Addr)
					vt := tc.Of(in.Val)
					// recv.<path> = v
					var q []string
					x := at
					for x.Op == "field" {
						q = append([]string{x.Sym}, q...)
						x = x.Args[0]
					}
					if x.isParam(0) && len(q) > 0 {
						k := strings.Join(append(append([]string{}, prefix...), q...), ".")
						facts[k] = &clearFact{val: vt, how: "store " + vt.Key(), innerFn: f}
					}
					// recv.<slice-of-slices>[i] = recv.<…>[i][:0] inside a loop
					if loops[b] && at.Op == "index" && at.Args[0].Op == "field" && at.Args[0].Args[0].isParam(0) {
						if vt.Op == "slice" && vt.Args[0].Key() == at.Key() && vt.Args[2].isConst("0") {
							k := strings.Join(append(append([]string{}, prefix...), at.Args[0].Sym), ".")
							facts[k] = &clearFact{how: "every element truncated to length 0", emptied: true, innerFn: f}
						}
					}
				case *ssa.Call:
					com := in.Common()
					if bi, ok := com.Value.(*ssa.Builtin); ok && (bi.Name() == "delete" || bi.Name() == "clear") {
						mt := tc.Of(com.Args[0])
						if mt.Op == "field" && mt.Args[0].isParam(0) {
							ok := bi.Name() == "clear"
							if bi.Name() == "delete" && loops[b] {
								// key ranges over the same map
								kt := tc.Of(com.Args[1])
								kt.walk(func(z *Term) bool {
									if z.Op == "range" && z.Args[0].Key() == mt.Key() {
										ok = true
									}
									return true
								})
							}
							if ok {
								k := strings.Join(append(append([]string{}, prefix...), mt.Sym), ".")
								facts[k] = &clearFact{how: "every key deleted", emptied: true, innerFn: f}
							}
						}
					}
					// delegation to the embedded store's Clear
					if callee, ok := com.Value.(*ssa.Function); ok && callee.Name() == "Clear" && recvNamed(callee) != nil && recvNamed(callee) != t {
						rt := tc.Of(com.Args[0])
						if rt.Op == "field" && rt.Args[0].isParam(0) {
							collect(callee, append(append([]string{}, prefix...), rt.Sym))
						}
					}
				}
			}
		}
	}
	collect(clear, nil)

	var keys []string
	for k := range written {
		keys = append(keys, k)
	}
	sort.Strings(keys)
	for _, k := range keys {
		path := strings.Split(k, ".")
		var ftyp types.Type
		for _, ff := range flds {
			if strings.Join(ff.path, ".") == k {
				ftyp = ff.typ
			}
		}
		key := fmt.Sprintf("%s.Clear/field/%s", tname, k)
		writers := strings.Join(uniqStrs(written[k]), ",")
		fact := facts[k]
		cv := ctorVal(path)
		last := path[len(path)-1]
		// reasoned exceptions
		switch {
		case last == dr.offset && (t == dense || len(path) == 2):
			c15OffsetException(c, t, key, writers)
			continue
		case t == pr.typ && last == dr.trigger:
			c15TriggerException(c, pr, key)
			continue
		}
		exp := ""
		ok := false
		found := "not reset by Clear (written by " + writers + ")"
		switch u := ftyp.Underlying().(type) {
		case *types.Slice:
			exp = "truncated to length 0 (or replaced by an empty slice)"
			if _, inner := u.Elem().Underlying().(*types.Slice); inner && fact != nil && fact.emptied {
				// slice of slices kept, every inner slice truncated (page() treats length 0 as absent)
				ok = true
				found = fact.how
				exp = "outer slice retained on purpose; every inner slice truncated to length 0"
			} else if fact != nil && fact.val != nil {
				v := fact.val
				found = fact.how
				ok = v.Op == "nil" || v.Op == "slice" && v.Args[2].isConst("0") || v.Op == "make" && len(v.Args) == 1 && v.Args[0].isConst("0")
			}
		case *types.Map:
			exp = "emptied (every key deleted, or replaced by a fresh map)"
			if fact != nil {
				found = fact.how
				ok = fact.emptied || fact.val != nil && fact.val.Op == "make"
			}
		default:
			want := "const:0"
			if b, isB := ftyp.Underlying().(*types.Basic); isB && b.Kind() == types.Bool {
				want = "const:false"
			}
			if cv != nil {
				want = cv.Key()
			}
			exp = "reset to the constructor's value " + want
			if fact != nil && fact.val != nil {
				found = fact.how
				ok = fact.val.Key() == want
			}
		}
		c.R.check(ok, rule, key, shortFn(clear), c.fpos(clear), exp+" — the field is written by: "+writers, found)
	}
	c.R.floor(rule, tname+" fields written outside constructor/Clear", len(keys), 1)
}

// offset is not reset by Clear: every extendRange assigns it on the empty edge before it can be read.
func c15OffsetException(c *Ctx, t *types.Named, key, writers string) {
	const rule = "C15-D1"
	f := c.P.DeclaredMethod(t, "extendRange")
	if f == nil {
		// the dense store's own
		f = c.P.MethodOf(t, "extendRange")
	}
	if !c.mustFunc(rule, f, t.Obj().Name()+".extendRange") {
		return
	}
	paths, _ := exec(c, f, nil, 1)
	bad := ""
	nEmpty := 0
	for _, p := range paths {
		taken, found := pathCond(p, func(t *Term) bool {
			if isMethodCall(t, "IsEmpty") && len(t.Args) == 1 {
				return true
			}
			// the getter inlined: cachedTotal == 0
			if t.isBin("==") {
				for i := 0; i < 2; i++ {
					x := t.Args[i].unver()
					if t.Args[1-i].isConst("0") && x.Op == "field" && x.Sym == dr.count {
						return true
					}
				}
			}
			return false
		})
		if !found {
			bad = "extendRange path that does not test emptiness: [" + p.String() + "]"
			continue
		}
		if !taken {
			continue
		}
		nEmpty++
		assigned := 0
		firstRead := 0
		for _, e := range p.Effects {
			if e.Kind == "store" && e.Addr.unver().Op == "field" && e.Addr.unver().Sym == dr.offset {
				if assigned == 0 {
					assigned = e.Seq
				}
			}
			// any read of offset before the assignment (terms of later effects mentioning an unversioned offset)
			var mentions func(t *Term) bool
			mentions = func(t *Term) bool {
				hit := false
				t.walk(func(x *Term) bool {
					if x.Op == "field" && x.Sym == dr.offset {
						hit = true
					}
					return !hit
				})
				return hit
			}
			if assigned == 0 && firstRead == 0 {
				for _, x := range []*Term{e.Val, e.Call} {
					if x != nil && mentions(x) {
						firstRead = e.Seq
					}
				}
				// a call on the receiver may read offset
				if e.Kind == "call" && !e.Pure && e.Call != nil && len(e.Call.Args) > 0 && e.Call.Args[0].isRecv() && !isMethodCall(e.Call, "getNewLength") {
					firstRead = e.Seq
				}
			}
		}
		if assigned == 0 {
			bad = "empty store extended without assigning offset: [" + p.String() + "]"
		} else if firstRead != 0 && firstRead < assigned {
			bad = "offset may be read before it is assigned on the empty edge"
		}
	}
	c.R.check(bad == "" && nEmpty > 0, rule, key, shortFn(f), c.fpos(f),
		"exception: offset is not reset by Clear because every extendRange assigns it on its empty-store edge before reading it (writers: "+writers+")", firstNonEmpty(bad, fmt.Sprintf("%d empty-edge path(s) assign offset first", nEmpty)))
}

// bufferCompactionTriggerLen: scheduling state only; never read by an observer.
func c15TriggerException(c *Ctx, pr *paginatedRoles, key string) {
	const rule = "C15-D1"
	var readers []string
	observer := map[string]bool{}
	for _, n := range storeReadOnly {
		if n != "Copy" {
			observer[n] = true
		}
	}
	g := newCallGraph(c.P, c.Mod)
	bad := ""
	for i := 0; i < pr.typ.NumMethods(); i++ {
		f := c.P.SSA.FuncValue(pr.typ.Method(i))
		if f == nil {
			continue
		}
		reads := false
		for _, b := range f.Blocks {
			for _, in := range b.Instrs {
				if u, ok := in.(*ssa.UnOp); ok && u.Op == token.MUL {
					if fa, ok := u.X.(*ssa.FieldAddr); ok && fieldName(fa.X.Type(), fa.Field) == dr.trigger {
						reads = true
					}
				}
			}
		}
		if reads {
			readers = append(readers, f.Name())
		}
	}
	sort.Strings(readers)
	isReader := map[string]bool{}
	for _, r := range readers {
		isReader[r] = true
	}
	for name := range observer {
		f := c.P.DeclaredMethod(pr.typ, name)
		if f == nil {
			continue
		}
		for fn := range g.reach(f) {
			if recvNamed(fn) == pr.typ && isReader[fn.Name()] && fn != pr.compact {
				bad = fmt.Sprintf("observer %s reaches %s, which reads the compaction trigger", name, fn.Name())
			}
		}
	}
	c.R.check(bad == "", rule, key, "(*BufferedPaginatedStore)", "", "exception: the compaction trigger only schedules compaction; no observer (query/iteration/encode) path reads it, so its value after Clear is unobservable", firstNonEmpty(bad, "read only by: "+strings.Join(readers, ",")))
}

// D2: truncatable slice fields are only re-grown by append.
func c15Regrowth(c *Ctx, t *types.Named) {
	const rule = "C15-D2"
	tname := t.Obj().Name()
	n := 0
	for i := 0; i < t.NumMethods(); i++ {
		f := c.P.SSA.FuncValue(t.Method(i))
		if f == nil {
			continue
		}
		tc := newTermCtx(c.P)
		for _, b := range f.Blocks {
			for _, in := range b.Instrs {
				st, ok := in.(*ssa.Store)
				if !ok {
					continue
				}
				if _, isSlice := st.Val.Type().Underlying().(*types.Slice); !isSlice {
					continue
				}
				at := tc.Of(st.Addr)
				// address: a slice-typed field of the receiver, or an element of a slice-of-slices field
				base := at
				if base.Op == "index" {
					base = base.Args[0]
				}
				for base.Op == "field" && base.Args[0].Op == "field" {
					base = base.Args[0]
				}
				x := at
				for x.Op == "field" || x.Op == "index" {
					x = x.Args[0]
				}
				if !x.isParam(0) && !(x.Op == "call" || x.Op == "phi") {
					continue
				}
				if !x.isParam(0) {
					continue
				}
				if fa, isFA := st.Addr.(*ssa.FieldAddr); isFA {
					if pt, isP := fa.X.Type().Underlying().(*types.Pointer); isP {
						if sst, isS := pt.Elem().Underlying().(*types.Struct); isS && !c.fieldCarriesState(sst.Field(fa.Field)) {
							continue // scratch: emptied by every user before it is read
						}
					}
				}
				n++
				vt := tc.Of(st.Val)
				key := fmt.Sprintf("%s.%s/store-into/%s", tname, f.Name(), strings.TrimPrefix(at.Key(), "field:"))
				switch {
				case vt.Op == "builtin" && vt.Sym == "append":
					c.R.okay(rule, key, shortFn(f), c.ipos(st), "re-grown by append (explicit element values)", "append")
				case vt.Op == "make" || vt.Op == "nil":
					c.R.okay(rule, key, shortFn(f), c.ipos(st), "fresh zeroed slice", vt.Key())
				case vt.Op == "slice":
					ok, why := nonGrowing(c, st.Val.(*ssa.Slice), tc)
					c.R.check(ok, rule, key, shortFn(f), c.ipos(st), "a reslice stored into retained storage never exposes elements beyond the current length (they may hold weights from before Clear)", why)
				case vt.Op == "field" || vt.Op == "index" || vt.Op == "param" || vt.Op == "free":
					// another slice value (e.g. restoring a saved copy): not a growth of retained storage
					c.R.trivial(rule, key, shortFn(f), c.ipos(st), "existing slice value", vt.Key())
				default:
					c.R.undecided(rule, key, shortFn(f), c.ipos(st), "append, make, nil or a non-growing reslice", "unrecognised slice value "+vt.Key())
				}
			}
		}
	}
	c.R.count("slice_stores_examined", n)
}

// nonGrowing: x[lo:hi] with hi absent, 0, or len(x)−k with k ≥ 0.
func nonGrowing(c *Ctx, sl *ssa.Slice, tc *TermCtx) (bool, string) {
	if sl.Max != nil {
		return false, "three-index slice"
	}
	if sl.High == nil {
		return true, "no upper bound: length can only shrink"
	}
	ht := tc.Of(sl.High)
	if ht.isConst("0") {
		return true, "[:0]"
	}
	xt := tc.Of(sl.X)
	lin := linearOf(ht)
	// subtract len(x)
	lenKey := ""
	for k, a := range lin.Atoms {
		if a.Op == "builtin" && a.Sym == "len" && a.Args[0].Key() == xt.Key() && lin.Coef[k] == 1 {
			lenKey = k
		}
	}
	if lenKey == "" {
		return false, "upper bound " + ht.Key() + " is not expressed relative to len of the sliced value"
	}
	delete(lin.Coef, lenKey)
	// remaining: must be ≤ 0: constants ≤ 0 and pairs +S −E with E ≥ S
	if len(lin.Coef) == 0 {
		return lin.Const <= 0, fmt.Sprintf("len%+d", lin.Const)
	}
	var pos, neg []*Term
	for k, v := range lin.Coef {
		switch v {
		case 1:
			pos = append(pos, lin.Atoms[k])
		case -1:
			neg = append(neg, lin.Atoms[k])
		default:
			return false, "coefficient " + fmt.Sprint(v)
		}
	}
	if len(pos) == 1 && len(neg) == 1 && lin.Const <= 0 {
		// E = φ(S + c, E + 1): increasing from S + c with c ≥ 0
		e, s := neg[0], pos[0]
		if phi, ok := e.V.(*ssa.Phi); ok {
			mono := true
			base := false
			for _, ed := range phi.Edges {
				et := tc.Of(ed)
				d := linCombine(linearOf(et), linearOf(s), -1)
				switch {
				case len(d.Coef) == 0 && d.Const >= 0:
					base = true
				default:
					if bo, ok := ed.(*ssa.BinOp); ok && bo.Op == token.ADD && (bo.X == ssa.Value(phi) || bo.Y == ssa.Value(phi)) {
						// E + positive constant
						other := bo.Y
						if bo.Y == ssa.Value(phi) {
							other = bo.X
						}
						if cst, ok := other.(*ssa.Const); !ok || cst.Value == nil || cst.Int64() < 0 {
							mono = false
						}
					} else {
						mono = false
					}
				}
			}
			if os.Getenv("DDVERIF_DEBUG") != "" {
				fmt.Printf("DEBUG nonGrowing phi=%s edges=%d mono=%v base=%v\n", phi.Name(), len(phi.Edges), mono, base)
			}
			if mono && base {
				return true, fmt.Sprintf("len + %s − %s with the subtrahend a counter that starts at or above %s and only increases", s.Key(), e.Key(), s.Key())
			}
		}
	}
	return false, fmt.Sprintf("cannot show %s ≤ len (pos=%v neg=%v const=%d)", ht.Key(), pos, neg, lin.Const)
}

func c15Sketch(c *Ctx, a *sketchAnchors) {
	const rule = "C15-D1"
	f := c.P.DeclaredMethod(a.DDSketch, "Clear")
	if !c.mustFunc(rule, f, "(*DDSketch).Clear") {
		return
	}
	paths, _ := exec(c, f, nil, 1)
	ok := len(paths) > 0
	found := ""
	for _, p := range paths {
		pos, neg, zero := false, false, false
		for _, e := range p.Effects {
			if e.Kind == "call" && isMethodCall(e.Call, "Clear") && len(e.Call.Args) == 1 {
				if isRecvField(e.Call.Args[0], a.posField) {
					pos = true
				}
				if isRecvField(e.Call.Args[0], a.negField) {
					neg = true
				}
			}
			if e.Kind == "store" && isRecvField(e.Addr, a.zeroField) && e.Val.isConst("0") {
				zero = true
			}
		}
		if !(pos && neg && zero) {
			ok = false
			found = fmt.Sprintf("positive cleared=%v negative cleared=%v zero weight reset=%v", pos, neg, zero)
		}
	}
	c.R.check(ok, rule, "DDSketch.Clear/covers", shortFn(f), c.fpos(f), "clears the positive store, the negative store and zeroes the zero weight on every path (the mapping is configuration)", firstNonEmpty(found, "ok"))
	// every sketch field other than the mapping is written by some method → must be covered: checked above by role
	for _, fl := range structFields(a.DDSketch) {
		switch fl.Name() {
		case a.posField, a.negField, a.zeroField, a.mapField:
		default:
			c.R.violate(rule, "DDSketch.Clear/field/"+fl.Name(), shortFn(f), c.fpos(f), "every state field of DDSketch is known to the Clear rule", "unknown field "+fl.Name()+": add it to the rule with a reason")
		}
	}
}
