package main

import (
	"fmt"
	"go/token"
	"go/types"
	"os"
	"sort"
	"strings"

	"golang.org/x/tools/go/ssa"
)

// E-MOD: flow-insensitive, field-sensitive, interprocedural write-set and
// alias-origin analysis. Abstract locations are access paths rooted at a
// parameter (p0, p1, …), a free variable (fv0, …), a global (g:name) or a
// local allocation (a:N — never reported as a modification).
//
// Mods(f)   : access paths (rooted at params / free vars / globals) that f or
//             anything it calls may write.
// Rets(f,i) : access paths the i-th result may alias ("fresh" for new memory).

const maxPathSegs = 6

type locSet map[string]bool

func (s locSet) add(l string) bool {
	if s[l] {
		return false
	}
	s[l] = true
	return true
}

func (s locSet) sorted() []string {
	var out []string
	for k := range s {
		out = append(out, k)
	}
	sort.Strings(out)
	return out
}

func locRoot(l string) string {
	for i := 0; i < len(l); i++ {
		if l[i] == '.' || l[i] == '[' {
			return l[:i]
		}
	}
	return l
}

func locRest(l string) string { return l[len(locRoot(l)):] }

func extend(l, seg string) string {
	r := l + seg
	// bound the depth
	n := strings.Count(r, ".") + strings.Count(r, "[")
	if n > maxPathSegs {
		return l
	}
	return r
}

type ModAnalysis struct {
	prog *Program
	// sortExempt: sort.Ints on a location ending in this field is not counted as a write (observable write sets)
	sortExempt string
	// flagExempt: writes to a location ending in this field (a cache flag) are not counted (observable write sets)
	flagExempt string
	// Caps(f): "dst <- src" pairs: a reference rooted at src (parameter/global) is stored into
	// memory rooted at dst (parameter/global) by f or its callees — the object at dst now aliases src.
	Caps  map[*ssa.Function]locSet
	Mods  map[*ssa.Function]locSet
	Rets  map[*ssa.Function][]locSet
	funcs []*ssa.Function
	known map[*ssa.Function]bool
	// allocation ids
	allocID  map[ssa.Value]int
	allocVal map[string]ssa.Value
	deep     map[*ssa.Function]locSet
	deepBusy map[*ssa.Function]bool
	// per function: points-to of local allocations (root a:N -> locs stored into it)
	pts map[*ssa.Function]map[string]locSet
	// library functions assumed pure (reported as trusted base)
	AssumedPure map[string]bool
	// implementations cache
	impls map[string][]*ssa.Function
	// dynamic calls through function values whose target is unknown
	DynCalls map[string]bool
	changed  bool
	// exempt functions are treated as writing nothing (used to factor out the
	// representation-reorganising routines of the paginated store)
	exempt map[*ssa.Function]bool
}

// modExemptSortField: set while the "observable write set" instance is built — sort.Ints on this field is not a write.
var modExemptSortField string

// modExemptFlagField: while the observable instance is built — writes to this "buffer is sorted" cache flag are not observable.
var modExemptFlagField string

func newModAnalysis(p *Program, exempt ...*ssa.Function) *ModAnalysis {
	m := &ModAnalysis{prog: p, exempt: map[*ssa.Function]bool{}, Caps: map[*ssa.Function]locSet{}, Mods: map[*ssa.Function]locSet{}, Rets: map[*ssa.Function][]locSet{}, known: map[*ssa.Function]bool{},
		allocID: map[ssa.Value]int{}, allocVal: map[string]ssa.Value{}, deep: map[*ssa.Function]locSet{}, deepBusy: map[*ssa.Function]bool{}, pts: map[*ssa.Function]map[string]locSet{}, AssumedPure: map[string]bool{}, impls: map[string][]*ssa.Function{}, DynCalls: map[string]bool{}}
	m.sortExempt = modExemptSortField
	m.flagExempt = modExemptFlagField
	for _, f := range exempt {
		if f != nil {
			m.exempt[f] = true
		}
	}
	for _, f := range p.Funcs {
		m.addFunc(f)
	}
	for iter := 0; iter < 60; iter++ {
		m.changed = false
		for i := 0; i < len(m.funcs); i++ {
			m.analyse(m.funcs[i])
		}
		if !m.changed {
			break
		}
	}
	return m
}

func (m *ModAnalysis) addFunc(f *ssa.Function) {
	if f == nil || m.known[f] {
		return
	}
	m.known[f] = true
	m.funcs = append(m.funcs, f)
	m.Mods[f] = locSet{}
	m.Caps[f] = locSet{}
	n := f.Signature.Results().Len()
	rs := make([]locSet, n)
	for i := range rs {
		rs[i] = locSet{}
	}
	m.Rets[f] = rs
	m.pts[f] = map[string]locSet{}
	m.changed = true
}

func (m *ModAnalysis) aid(v ssa.Value) string {
	id, ok := m.allocID[v]
	if !ok {
		id = len(m.allocID) + 1
		m.allocID[v] = id
		m.allocVal[fmt.Sprintf("a:%d", id)] = v
	}
	return fmt.Sprintf("a:%d", id)
}

// implementations of an interface method among module types (CHA restricted to the module).
func (m *ModAnalysis) implsOf(recv types.Type, method *types.Func) []*ssa.Function {
	key := recv.String() + "." + method.Name()
	if r, ok := m.impls[key]; ok {
		return r
	}
	var out []*ssa.Function
	it, ok := recv.Underlying().(*types.Interface)
	if ok {
		for _, pk := range m.prog.Pkgs {
			sc := pk.Types.Scope()
			for _, nm := range sc.Names() {
				tn, ok := sc.Lookup(nm).(*types.TypeName)
				if !ok || tn.IsAlias() {
					continue
				}
				n, ok := tn.Type().(*types.Named)
				if !ok {
					continue
				}
				if _, isI := n.Underlying().(*types.Interface); isI {
					continue
				}
				for _, t := range []types.Type{types.NewPointer(n), n} {
					if types.Implements(t, it) {
						ms := m.prog.SSA.MethodSets.MethodSet(t)
						if sel := ms.Lookup(method.Pkg(), method.Name()); sel != nil {
							if fn := m.prog.SSA.MethodValue(sel); fn != nil {
								out = append(out, fn)
							}
						}
						break
					}
				}
			}
		}
	}
	sort.Slice(out, func(i, j int) bool { return out[i].String() < out[j].String() })
	m.impls[key] = out
	return out
}

type modFn struct {
	m   *ModAnalysis
	f   *ssa.Function
	dv  map[ssa.Value]locSet
	bsy map[ssa.Value]bool
}

func isRefLike(t types.Type) bool {
	switch u := t.Underlying().(type) {
	case *types.Pointer, *types.Slice, *types.Map, *types.Chan, *types.Interface, *types.Signature:
		return true
	case *types.Struct:
		for i := 0; i < u.NumFields(); i++ {
			if isRefLike(u.Field(i).Type()) {
				return true
			}
		}
	case *types.Array:
		return isRefLike(u.Elem())
	case *types.Tuple:
		for i := 0; i < u.Len(); i++ {
			if isRefLike(u.At(i).Type()) {
				return true
			}
		}
	}
	return false
}

// derive: the access paths value v may alias / point into.
func (a *modFn) derive(v ssa.Value) locSet {
	if v == nil {
		return locSet{}
	}
	if r, ok := a.dv[v]; ok {
		return r
	}
	if a.bsy[v] {
		return locSet{}
	}
	a.bsy[v] = true
	r := a.derive1(v)
	delete(a.bsy, v)
	a.dv[v] = r
	return r
}

func (a *modFn) ext(s locSet, seg string) locSet {
	out := locSet{}
	for l := range s {
		out[extend(l, seg)] = true
	}
	return out
}

func (a *modFn) derive1(v ssa.Value) locSet {
	switch v := v.(type) {
	case *ssa.Parameter:
		for i, p := range a.f.Params {
			if p == v {
				return locSet{fmt.Sprintf("p%d", i): true}
			}
		}
	case *ssa.FreeVar:
		for i, p := range a.f.FreeVars {
			if p == v {
				return locSet{fmt.Sprintf("fv%d", i): true}
			}
		}
	case *ssa.Global:
		return locSet{"g:" + globalName(v): true}
	case *ssa.Alloc:
		return locSet{a.m.aid(v): true}
	case *ssa.MakeSlice, *ssa.MakeMap, *ssa.MakeChan:
		return locSet{a.m.aid(v): true}
	case *ssa.MakeClosure:
		return locSet{a.m.aid(v): true}
	case *ssa.Const, *ssa.Function, *ssa.Builtin:
		return locSet{}
	case *ssa.FieldAddr:
		return a.ext(a.derive(v.X), "."+fieldName(v.X.Type(), v.Field))
	case *ssa.Field:
		return a.ext(a.derive(v.X), "."+fieldName(v.X.Type(), v.Field))
	case *ssa.IndexAddr:
		return a.ext(a.derive(v.X), "[*]")
	case *ssa.Index:
		return a.ext(a.derive(v.X), "[*]")
	case *ssa.Lookup:
		return a.ext(a.derive(v.X), "[*]")
	case *ssa.Slice:
		return a.derive(v.X)
	case *ssa.ChangeType:
		return a.derive(v.X)
	case *ssa.ChangeInterface:
		return a.derive(v.X)
	case *ssa.MakeInterface:
		return a.derive(v.X)
	case *ssa.Convert:
		return a.derive(v.X)
	case *ssa.SliceToArrayPointer:
		return a.derive(v.X)
	case *ssa.TypeAssert:
		return a.derive(v.X)
	case *ssa.Range:
		return a.ext(a.derive(v.X), "[*]")
	case *ssa.Next:
		return a.derive(v.Iter)
	case *ssa.Phi:
		out := locSet{}
		for _, e := range v.Edges {
			for l := range a.derive(e) {
				out[l] = true
			}
		}
		return out
	case *ssa.UnOp:
		if v.Op == token.MUL {
			if !isRefLike(v.Type()) {
				return locSet{}
			}
			out := locSet{}
			dx := a.derive(v.X)
			if len(dx) == 1 {
				for l := range dx {
					if strings.HasPrefix(locRoot(l), "a:") {
						if sv := a.strongStore(l, v); sv != nil {
							return a.derive(sv)
						}
					}
				}
			}
			for l := range dx {
				root := locRoot(l)
				if strings.HasPrefix(root, "a:") {
					// load from local memory: what was stored into that cell (field-sensitive),
					// plus what was stored into the allocation as a whole
					for x := range a.m.pts[a.f][l] {
						out[x] = true
					}
					if l != root {
						rest := locRest(l)
						for x := range a.m.pts[a.f][root+"#whole"] {
							out[appendRest(x, rest)] = true
						}
					} else {
						for k, set := range a.m.pts[a.f] {
							if strings.HasPrefix(k, root) {
								for x := range set {
									out[x] = true
								}
							}
						}
					}
					continue
				}
				out[l] = true
			}
			return out
		}
		if v.Op == token.ARROW {
			return locSet{"unk": true}
		}
		return locSet{}
	case *ssa.Extract:
		if c, ok := v.Tuple.(*ssa.Call); ok {
			return a.callRet(c, v.Index)
		}
		if n, ok := v.Tuple.(*ssa.Next); ok {
			return a.derive(n)
		}
		return a.derive(v.Tuple)
	case *ssa.Call:
		return a.callRet(v, 0)
	case *ssa.BinOp:
		return locSet{}
	}
	return locSet{}
}

// translate a callee location into caller locations given argument derivations.
func (a *modFn) translate(l string, args []ssa.Value, bindings []ssa.Value) locSet {
	root, rest := locRoot(l), locRest(l)
	out := locSet{}
	switch {
	case strings.HasPrefix(root, "p"):
		var i int
		fmt.Sscanf(root, "p%d", &i)
		if i < len(args) {
			for x := range a.derive(args[i]) {
				out[appendRest(x, rest)] = true
			}
		}
	case strings.HasPrefix(root, "fv"):
		var i int
		fmt.Sscanf(root, "fv%d", &i)
		if i < len(bindings) {
			for x := range a.derive(bindings[i]) {
				// a captured variable is bound by the address of its cell: what the closure reaches
				// through it is the content of the cell
				if _, isCell := a.m.allocVal[locRoot(x)].(*ssa.Alloc); isCell && x == locRoot(x) {
					if rest == "" {
						out[x] = true
						continue
					}
					for k, set := range a.m.pts[a.f] {
						if k == x || k == x+"#whole" {
							for y := range set {
								out[appendRest(y, rest)] = true
							}
						}
					}
					continue
				}
				out[appendRest(x, rest)] = true
			}
		}
	case strings.HasPrefix(root, "g:"), root == "unk":
		out[l] = true
	case root == "fresh":
		out["fresh"] = true
	}
	return out
}

func appendRest(x, rest string) string {
	r := x
	// re-apply segments one by one to keep the bound
	i := 0
	for i < len(rest) {
		j := i + 1
		for j < len(rest) && rest[j] != '.' && rest[j] != '[' {
			j++
		}
		r = extend(r, rest[i:j])
		i = j
	}
	return r
}

type calleeInfo struct {
	fn       *ssa.Function
	args     []ssa.Value
	bindings []ssa.Value
}

// callees resolves the possible module callees of a call, with the argument
// vector as seen by the callee (receiver first).
func (a *modFn) callees(com *ssa.CallCommon) (module []calleeInfo, lib *ssa.Function, builtin string, dynamic bool) {
	if com.IsInvoke() {
		args := append([]ssa.Value{com.Value}, com.Args...)
		fns := a.m.implsOf(com.Value.Type(), com.Method)
		for _, fn := range fns {
			a.m.addFunc(fn)
			module = append(module, calleeInfo{fn: fn, args: args})
		}
		if len(fns) == 0 {
			// library interface (io.Writer, error, …): summarised as writing its receiver unless known pure
			return nil, nil, "iface:" + com.Method.Name(), false
		}
		return
	}
	switch f := com.Value.(type) {
	case *ssa.Builtin:
		return nil, nil, f.Name(), false
	case *ssa.Function:
		if inModule(f) {
			a.m.addFunc(f)
			return []calleeInfo{{fn: f, args: com.Args}}, nil, "", false
		}
		return nil, f, "", false
	case *ssa.MakeClosure:
		fn := f.Fn.(*ssa.Function)
		a.m.addFunc(fn)
		return []calleeInfo{{fn: fn, args: com.Args, bindings: f.Bindings}}, nil, "", false
	}
	// function value: look for closures it may hold (phi/local)
	return nil, nil, "", true
}

// library summaries: which arguments are written (element-wise), which argument the result aliases.
var libWrites = map[string][]int{
	"sort.Ints":     {0},
	"sort.Float64s": {0},
	"sort.Slice":    {0},
	"sort.Sort":     {0},
	"sort.Strings":  {0},
	"(encoding/binary.littleEndian).PutUint64": {1},
	"(encoding/binary.littleEndian).PutUint32": {1},
}

var libRetAlias = map[string][]int{
	"google.golang.org/protobuf/encoding/protowire.AppendVarint":  {0},
	"google.golang.org/protobuf/encoding/protowire.AppendFixed64": {0},
	"google.golang.org/protobuf/encoding/protowire.AppendFixed32": {0},
	"google.golang.org/protobuf/encoding/protowire.AppendBytes":   {0},
	"google.golang.org/protobuf/encoding/protowire.AppendTag":     {0},
	"(*bytes.Buffer).Bytes": {0},
}

var libPurePkgs = map[string]bool{"log": true, "math": true, "math/bits": true, "errors": true, "fmt": true, "strconv": true, "google.golang.org/protobuf/encoding/protowire": true}

func (a *modFn) callRet(c *ssa.Call, idx int) locSet {
	com := c.Common()
	mod, lib, bi, _ := a.callees(com)
	out := locSet{}
	for _, ci := range mod {
		rs := a.m.Rets[ci.fn]
		if idx < len(rs) {
			for l := range rs[idx] {
				if l == "fresh" {
					out[a.m.aid(c)] = true
					continue
				}
				for x := range a.translate(l, ci.args, ci.bindings) {
					out[x] = true
				}
			}
		}
	}
	if lib != nil {
		if al, ok := libRetAlias[lib.String()]; ok {
			for _, i := range al {
				if i < len(com.Args) {
					for x := range a.derive(com.Args[i]) {
						out[x] = true
					}
				}
			}
		} else if isRefLike(c.Type()) {
			out[a.m.aid(c)] = true
		}
	}
	switch bi {
	case "append":
		for x := range a.derive(com.Args[0]) {
			out[x] = true
		}
		out[a.m.aid(c)] = true
	case "":
	default:
		if strings.HasPrefix(bi, "iface:") && isRefLike(c.Type()) {
			out["unk"] = true
		}
	}
	return out
}

func (m *ModAnalysis) analyse(f *ssa.Function) {
	if len(f.Blocks) == 0 || m.exempt[f] {
		return
	}
	a := &modFn{m: m, f: f, dv: map[ssa.Value]locSet{}, bsy: map[ssa.Value]bool{}}
	mods := m.Mods[f]
	addMod := func(l string) {
		if m.flagExempt != "" && strings.HasSuffix(l, "."+m.flagExempt) {
			return
		}
		root := locRoot(l)
		if strings.HasPrefix(root, "a:") || root == "fresh" {
			return
		}
		if mods.add(l) {
			m.changed = true
		}
	}
	caps := m.Caps[f]
	nonLocal := func(l string) bool {
		r := locRoot(l)
		return !strings.HasPrefix(r, "a:") && r != "fresh"
	}
	addCap := func(dst, src locSet) {
		for d := range dst {
			if !nonLocal(d) {
				continue
			}
			for sl := range src {
				if !nonLocal(sl) {
					continue
				}
				if caps.add(d + " <- " + sl) {
					m.changed = true
					if os.Getenv("DDV_DEBUG_CAP") != "" {
						fmt.Fprintf(os.Stderr, "CAP %s: %s <- %s\n", funcName(f), d, sl)
					}
				}
			}
		}
	}
	writeAll := func(s locSet, seg string) {
		for l := range s {
			if seg != "" {
				l = extend(l, seg)
			}
			addMod(l)
		}
	}
	doCall := func(com *ssa.CallCommon, site ssa.Instruction) {
		mod, lib, bi, dyn := a.callees(com)
		for _, ci := range mod {
			for l := range m.Mods[ci.fn] {
				for x := range a.translate(l, ci.args, ci.bindings) {
					addMod(x)
				}
			}
			for pair := range m.Caps[ci.fn] {
				i := strings.Index(pair, " <- ")
				addCap(a.translate(pair[:i], ci.args, ci.bindings), a.translate(pair[i+4:], ci.args, ci.bindings))
			}
		}
		if lib != nil {
			name := libName(lib)
			if ws, ok := libWrites[name]; ok {
				for _, i := range ws {
					if i < len(com.Args) {
						if m.sortExempt != "" && name == "sort.Ints" {
							// observable write sets: sorting the paginated store's buffer is a reorganisation
							all := true
							for l := range a.derive(com.Args[i]) {
								if !strings.HasSuffix(l, "."+m.sortExempt) {
									all = false
								}
							}
							if all {
								continue
							}
						}
						writeAll(a.derive(com.Args[i]), "[*]")
					}
				}
			} else if _, ok := libRetAlias[name]; ok {
				// pure w.r.t. visible state
			} else if lib.Pkg != nil && libPurePkgs[lib.Pkg.Pkg.Path()] {
				// pure
			} else if lib.Signature.Recv() != nil {
				// library method: conservatively writes its receiver
				if _, isPtr := lib.Signature.Recv().Type().(*types.Pointer); isPtr && len(com.Args) > 0 {
					writeAll(a.derive(com.Args[0]), "")
				}
			} else {
				if !m.AssumedPure[name] {
					m.AssumedPure[name] = true
				}
			}
		}
		switch bi {
		case "copy":
			writeAll(a.derive(com.Args[0]), "[*]")
			if sl, ok := com.Args[0].Type().Underlying().(*types.Slice); ok && isRefLike(sl.Elem()) {
				// the elements of dst now alias the elements of src (slices of slices: the inner arrays are shared)
				src := locSet{}
				for l := range a.ext(a.derive(com.Args[1]), "[*]") {
					if strings.HasPrefix(locRoot(l), "a:") {
						for x := range m.pts[f][l] {
							src[x] = true
						}
						continue
					}
					src[l] = true
				}
				for d := range a.ext(a.derive(com.Args[0]), "[*]") {
					if strings.HasPrefix(locRoot(d), "a:") {
						ps := m.pts[f][d]
						if ps == nil {
							ps = locSet{}
							m.pts[f][d] = ps
						}
						for x := range src {
							if ps.add(x) {
								m.changed = true
							}
						}
					}
				}
				addCap(a.ext(a.derive(com.Args[0]), "[*]"), src)
			}
		case "append":
			// append(dst, src...) with reference-like elements ([]float64 pages, pointers, maps): the elements of
			// the result (which may be dst's own backing array) alias the elements of src
			if sl, ok := com.Args[0].Type().Underlying().(*types.Slice); ok && isRefLike(sl.Elem()) && len(com.Args) == 2 {
				src := locSet{}
				for l := range a.ext(a.derive(com.Args[1]), "[*]") {
					if strings.HasPrefix(locRoot(l), "a:") {
						for x := range m.pts[f][l] {
							src[x] = true
						}
						continue
					}
					src[l] = true
				}
				dst := a.derive(com.Args[0])
				if c, ok := site.(*ssa.Call); ok {
					dst = locSet{}
					for l := range a.derive(com.Args[0]) {
						dst[l] = true
					}
					dst[m.aid(c)] = true
				}
				for d := range a.ext(dst, "[*]") {
					if strings.HasPrefix(locRoot(d), "a:") {
						ps := m.pts[f][d]
						if ps == nil {
							ps = locSet{}
							m.pts[f][d] = ps
						}
						for x := range src {
							if ps.add(x) {
								m.changed = true
							}
						}
					}
				}
				addCap(a.ext(dst, "[*]"), src)
			}
		case "delete", "clear":
			writeAll(a.derive(com.Args[0]), "[*]")
		default:
			if strings.HasPrefix(bi, "iface:") {
				switch com.Method.Name() {
				case "Error", "String", "Len":
				default:
					writeAll(a.derive(com.Value), "")
				}
			}
		}
		if dyn {
			m.DynCalls[funcName(f)+" calls "+com.Value.Name()+":"+com.Value.Type().String()] = true
		}
	}
	for _, b := range f.Blocks {
		for _, in := range b.Instrs {
			switch in := in.(type) {
			case *ssa.Store:
				for l := range a.derive(in.Addr) {
					root := locRoot(l)
					if strings.HasPrefix(root, "a:") {
						if isRefLike(in.Val.Type()) {
							key := l
							if _, isStruct := in.Val.Type().Underlying().(*types.Struct); isStruct {
								// a struct value stored as a whole: its reference fields keep their paths
								key = l + "#whole"
								if l != root {
									key = l // nested struct stored into a field: keep field-insensitive below that
								}
							}
							ps := m.pts[f][key]
							if ps == nil {
								ps = locSet{}
								m.pts[f][key] = ps
							}
							for x := range a.derive(in.Val) {
								if ps.add(x) {
									m.changed = true
								}
							}
						}
						continue
					}
					addMod(l)
					if isRefLike(in.Val.Type()) {
						addCap(locSet{l: true}, a.derive(in.Val))
						// a local object stored into outside memory carries what its own cells refer to
						for x := range a.derive(in.Val) {
							if !strings.HasPrefix(locRoot(x), "a:") {
								continue
							}
							for k, set := range m.pts[f] {
								if k == x || !strings.HasPrefix(k, x) {
									continue
								}
								rest := strings.TrimSuffix(k[len(x):], "#whole")
								if rest != "" && rest[0] != '.' && rest[0] != '[' {
									continue // a different allocation id with the same prefix
								}
								addCap(locSet{extend(l, rest): true}, set)
							}
						}
					}
				}
			case *ssa.MapUpdate:
				for l := range a.derive(in.Map) {
					root := locRoot(l)
					if strings.HasPrefix(root, "a:") {
						if isRefLike(in.Value.Type()) {
							ps := m.pts[f][extend(l, "[*]")]
							if ps == nil {
								ps = locSet{}
								m.pts[f][extend(l, "[*]")] = ps
							}
							for x := range a.derive(in.Value) {
								if ps.add(x) {
									m.changed = true
								}
							}
						}
						continue
					}
					addMod(extend(l, "[*]"))
					if isRefLike(in.Value.Type()) {
						addCap(locSet{extend(l, "[*]"): true}, a.derive(in.Value))
					}
				}
			case *ssa.Call:
				if isSyncCall(in.Common()) {
					continue
				}
				doCall(in.Common(), in)
			case *ssa.Go:
				doCall(in.Common(), in)
			case *ssa.Defer:
				if isSyncCall(in.Common()) {
					continue
				}
				doCall(in.Common(), in)
			case *ssa.Send:
				// channel sends do not modify tracked state
			case *ssa.MakeClosure:
				fn := in.Fn.(*ssa.Function)
				m.addFunc(fn)
				// a closure is assumed to be called: its writes through captured variables are attributed here
				for l := range m.Mods[fn] {
					root := locRoot(l)
					if strings.HasPrefix(root, "p") {
						continue // writes through the closure's own parameters belong to whoever calls it
					}
					for x := range a.translate(l, nil, in.Bindings) {
						addMod(x)
					}
				}
			case *ssa.Return:
				rs := m.Rets[f]
				for i, r := range in.Results {
					if i >= len(rs) || !isRefLike(r.Type()) {
						continue
					}
					for l := range a.derive(r) {
						root := locRoot(l)
						if strings.HasPrefix(root, "a:") {
							l = "fresh"
						}
						if rs[i].add(l) {
							m.changed = true
						}
					}
				}
			}
		}
	}
}

// ModsRooted returns the writes of f rooted at parameter i ("pI…"), as paths relative to the parameter.
func (m *ModAnalysis) ModsRooted(f *ssa.Function, i int) []string {
	var out []string
	root := fmt.Sprintf("p%d", i)
	for l := range m.Mods[f] {
		if locRoot(l) == root {
			out = append(out, locRest(l))
		}
	}
	sort.Strings(out)
	return out
}

// IsPure: f (and everything it calls) writes nothing visible.
func (m *ModAnalysis) IsPure(f *ssa.Function) bool {
	ms, ok := m.Mods[f]
	return ok && len(ms) == 0
}

// PureCall is the purity oracle for the path executor.
func (m *ModAnalysis) PureCall(call ssa.CallInstruction) bool {
	com := call.Common()
	if com.IsInvoke() {
		fns := m.implsOf(com.Value.Type(), com.Method)
		if len(fns) == 0 {
			switch com.Method.Name() {
			case "Error", "String", "Len":
				return true
			}
			return false
		}
		for _, fn := range fns {
			if !m.IsPure(fn) {
				return false
			}
		}
		return true
	}
	switch f := com.Value.(type) {
	case *ssa.Builtin:
		switch f.Name() {
		case "len", "cap", "append", "min", "max":
			return true
		}
		return false
	case *ssa.Function:
		if inModule(f) {
			return m.IsPure(f)
		}
		if _, ok := libWrites[libName(f)]; ok {
			return false
		}
		if n := libName(f); n == "slices.Clone" || n == "maps.Clone" {
			return true
		}
		if _, ok := libRetAlias[f.String()]; ok {
			return true
		}
		if f.Pkg != nil && libPurePkgs[f.Pkg.Pkg.Path()] {
			return true
		}
		return false
	case *ssa.MakeClosure:
		return m.IsPure(f.Fn.(*ssa.Function))
	}
	return false
}

func (m *ModAnalysis) fnCtx(f *ssa.Function) *modFn {
	return &modFn{m: m, f: f, dv: map[ssa.Value]locSet{}, bsy: map[ssa.Value]bool{}}
}

// DeepOrigins: every pre-existing location (rooted at a parameter, free variable, global or unknown)
// that is reachable — through fields, elements and nested fresh objects — from a result of f.
// An empty set means: everything reachable from the result was allocated during the call.
func (m *ModAnalysis) DeepOrigins(f *ssa.Function) locSet {
	if r, ok := m.deep[f]; ok {
		return r
	}
	if m.deepBusy[f] {
		return locSet{}
	}
	m.deepBusy[f] = true
	defer delete(m.deepBusy, f)
	out := locSet{}
	if len(f.Blocks) == 0 {
		m.deep[f] = out
		return out
	}
	a := m.fnCtx(f)
	seen := locSet{}
	var work []string
	push := func(l string) {
		if !seen[l] {
			seen[l] = true
			work = append(work, l)
		}
	}
	for _, b := range f.Blocks {
		for _, in := range b.Instrs {
			if ret, ok := in.(*ssa.Return); ok {
				for _, r := range ret.Results {
					if isRefLike(r.Type()) {
						for l := range a.derive(r) {
							push(l)
						}
					}
				}
			}
		}
	}
	for len(work) > 0 {
		l := work[len(work)-1]
		work = work[:len(work)-1]
		root := locRoot(l)
		if !strings.HasPrefix(root, "a:") {
			out[l] = true
			continue
		}
		a.expandAlloc(root, push)
		// fresh object produced by a call: what the callee may have stored into it
		if v, ok := m.allocVal[root]; ok {
			if call, ok := v.(*ssa.Call); ok {
				mod, _, _, _ := a.callees(call.Common())
				for _, ci := range mod {
					for o := range m.DeepOrigins(ci.fn) {
						for x := range a.translate(o, ci.args, ci.bindings) {
							push(x)
						}
					}
				}
			}
		}
	}
	m.deep[f] = out
	return out
}

// strongStore: if the local cell `loc` is definitely overwritten by a single store that dominates
// the load and comes after every other store to the cell (or to the enclosing allocation), that
// store's value is the only thing the load can see.
func (a *modFn) strongStore(loc string, load *ssa.UnOp) ssa.Value {
	root := locRoot(loc)
	if _, ok := a.m.allocVal[root].(*ssa.Alloc); !ok {
		return nil
	}
	var cands []*ssa.Store
	for _, b := range a.f.Blocks {
		for _, in := range b.Instrs {
			st, ok := in.(*ssa.Store)
			if !ok {
				continue
			}
			for l := range a.derive(st.Addr) {
				if l == loc || l == root || strings.HasPrefix(loc, l+".") {
					cands = append(cands, st)
					break
				}
			}
		}
	}
	var best *ssa.Store
	for _, s := range cands {
		ok := false
		for l := range a.derive(s.Addr) {
			if l == loc && len(a.derive(s.Addr)) == 1 {
				ok = true
			}
		}
		if !ok || !instrDominates(s, load) {
			continue
		}
		all := true
		for _, t := range cands {
			if t != s && !instrDominates(t, s) {
				all = false
			}
		}
		if all {
			best = s
		}
	}
	if best == nil {
		return nil
	}
	// the allocation must not escape to a callee or closure that could write the cell in between
	if al, ok := a.m.allocVal[root].(*ssa.Alloc); ok && al.Referrers() != nil {
		for _, r := range *al.Referrers() {
			switch r.(type) {
			case *ssa.FieldAddr, *ssa.Store, *ssa.UnOp, *ssa.DebugRef, *ssa.Return, *ssa.MakeInterface:
			default:
				return nil
			}
		}
	}
	return best.Val
}

// DeepOriginsOf: like DeepOrigins, for one value of f.
func (m *ModAnalysis) DeepOriginsOf(f *ssa.Function, v ssa.Value) locSet {
	out := locSet{}
	a := m.fnCtx(f)
	seen := locSet{}
	var work []string
	push := func(l string) {
		if !seen[l] {
			seen[l] = true
			work = append(work, l)
		}
	}
	for l := range a.derive(v) {
		push(l)
	}
	for len(work) > 0 {
		l := work[len(work)-1]
		work = work[:len(work)-1]
		root := locRoot(l)
		if !strings.HasPrefix(root, "a:") {
			out[l] = true
			continue
		}
		a.expandAlloc(root, push)
		if av, ok := m.allocVal[root]; ok {
			if call, ok := av.(*ssa.Call); ok {
				mod, _, _, _ := a.callees(call.Common())
				for _, ci := range mod {
					for o := range m.DeepOrigins(ci.fn) {
						for x := range a.translate(o, ci.args, ci.bindings) {
							push(x)
						}
					}
				}
			}
		}
	}
	return out
}

// expandAlloc pushes everything stored into the cells of a local allocation. A struct value stored
// as a whole (`*r = *s`) contributes, per reference-typed field, the field of the source — unless
// that field is definitely overwritten afterwards on every way out of the function.
func (a *modFn) expandAlloc(root string, push func(string)) {
	m := a.m
	for k, set := range m.pts[a.f] {
		if k == root+"#whole" {
			continue
		}
		if k == root || strings.HasPrefix(k, root+".") || strings.HasPrefix(k, root+"[") {
			for x := range set {
				push(x)
			}
		}
	}
	whole := m.pts[a.f][root+"#whole"]
	if len(whole) == 0 {
		return
	}
	var st *types.Struct
	if al, ok := m.allocVal[root].(*ssa.Alloc); ok {
		if pt, ok := al.Type().Underlying().(*types.Pointer); ok {
			st, _ = pt.Elem().Underlying().(*types.Struct)
		}
	}
	if st == nil {
		for x := range whole {
			push(x)
		}
		return
	}
	// field by field, descending into embedded / nested struct VALUES (`c := *s; c.bins = fresh` where bins belongs
	// to an embedded struct overrides s.Embedded.bins, not the whole embedded struct)
	var walk func(st *types.Struct, prefix string, depth int)
	walk = func(st *types.Struct, prefix string, depth int) {
		for i := 0; i < st.NumFields(); i++ {
			fld := st.Field(i)
			if !isRefLike(fld.Type()) {
				continue
			}
			path := prefix + fld.Name()
			if a.fieldOverridden(root, path) {
				continue
			}
			if sub, ok := fld.Type().Underlying().(*types.Struct); ok && depth < 3 {
				walk(sub, path+".", depth+1)
				continue
			}
			for x := range whole {
				push(extend(x, "."+path))
			}
		}
	}
	walk(st, "", 0)
}

// fieldOverridden: some store to root.<field> comes after every whole-struct store to root and
// dominates every return of the function.
func (a *modFn) fieldOverridden(root, field string) bool {
	var wholes, fields []*ssa.Store
	var rets []*ssa.Return
	for _, b := range a.f.Blocks {
		for _, in := range b.Instrs {
			switch in := in.(type) {
			case *ssa.Return:
				rets = append(rets, in)
			case *ssa.Store:
				d := a.derive(in.Addr)
				if len(d) != 1 {
					for l := range d {
						if l == root || l == root+"."+field {
							return false // ambiguous address: be conservative
						}
					}
					continue
				}
				for l := range d {
					if l == root {
						wholes = append(wholes, in)
					} else if l == root+"."+field {
						fields = append(fields, in)
					}
				}
			}
		}
	}
	for _, s := range fields {
		ok := true
		for _, w := range wholes {
			if !instrDominates(w, s) {
				ok = false
			}
		}
		for _, r := range rets {
			if !instrDominates(s, r) {
				ok = false
			}
		}
		if ok {
			return true
		}
	}
	return false
}

// CapturesFrom: the "dst <- src" pairs of f whose source is rooted at parameter src and whose
// destination is rooted at parameter dst.
func (m *ModAnalysis) CapturesFrom(f *ssa.Function, dst, src int) []string {
	var out []string
	dr, sr := fmt.Sprintf("p%d", dst), fmt.Sprintf("p%d", src)
	for pair := range m.Caps[f] {
		i := strings.Index(pair, " <- ")
		if locRoot(pair[:i]) == dr && locRoot(pair[i+4:]) == sr {
			out = append(out, pair)
		}
	}
	sort.Strings(out)
	return out
}
