package main

import (
	"fmt"
	"go/token"
	"go/types"
	"strings"

	"golang.org/x/tools/go/ssa"
)

// C01 — quantile estimates honour the relative-accuracy guarantee (plumbing clauses).

func init() {
	register("C01",
		"DECIDED (plumbing the guarantee presupposes; each clause is a necessary condition — breaking it gives some input an answer off by more than alpha): "+
			"D1 routing table of DDSketch.AddWithCount over all value × weight classes — (Min,Max] → exactly one effect positive.AddWithCount(Index(value), count); [−Max,−Min) → exactly negative.AddWithCount(Index(−value), count); [−Min,Min] → exactly zero += count; the index is computed by the sketch's own mapping and the weight is forwarded unchanged (also the C11 weighted-add clause). "+
			"D2 three-way split of GetValueAtQuantile — rank = q·(GetCount()−1) (or its clamp at 0); rank < negTotal → −Value(negative.KeyAtRank(negTotal−1−rank)); rank < zero+negTotal → 0; otherwise Value(positive.KeyAtRank(rank−zero−negTotal)); rank arguments compared as linear forms. "+
			"D3 KeyAtRank in every store: the qualifying test is the strict `cumulative > rank`, accumulation runs in ascending index order (array order / sorted bins with an ascending less-function / predicate evaluated after every cumulative update in the paginated store), and the fallback is the maximum index. "+
			"D4 Value(i) = LowerBound(i)·(1 + RelativeAccuracy()) in every mapping. D5 batch = singles (C12-D4). "+
			"SHARED (obligations of other properties that decide clauses this property states too, re-evaluated here under their home rule ids): C04-D1/D2/D3/D5/D6/D9 and C05-D8 for the non-collapsing stores (the add side of the stores: a value is counted in the bin of its index — entry points, window, shift and slot discipline of the dense store, page table and page use of the paginated store, guarded entries of the sparse store). C19-D2/D3 (Equals: the gate in front of every merge and decode) and C02-D2/D3/D4 for the non-collapsing stores (a sketch filled by merging: every bin of the argument added once, the argument neither written nor captured). C16-D1 (a reweighting scales the zero weight and both sides alike: the rank split keeps its proportions). C17-D2 and the ChangeMapping row of the exact variant's wrapper as C17-D5 (the source of a mapping change keeps its stores, zero weight and statistics). C19-D1 protobuf part (each mapping kind writes its own interpolation tag and is rebuilt as the same kind: a sketch that came out of a message keeps the accuracy of the mapping it was built with). C10-D4 and, as C01-D5, the AddWithCount row of the C10-D1 wrapper table (the exact variant clamps every answer into [exact min, exact max] and those extremes follow every weighted add). C03-D1…D5 (the structural conditions on every mapping kind: floor idiom of Index, LowerBound/Value inverting the same term, range bounds, reported accuracy inverting the construction formula, gamma computed from an accuracy only inside the accuracy constructor of its kind, interpolation constants) — the answer to a quantile query is Value(index) of such a mapping. C14-D1 for KeyAtRank / GetValueAtQuantile(s): a quantile query leaves no observable write, so the guarantee holds for every query and not only the first. C12-D4 (the batch query stores, for every element, exactly the single-query answer for that quantile — no post-processing across elements); C14-D2 for DDSketch.Copy (a copy does not share stores with its original, empty ones included). "+
			"NOT DECIDED: the accuracy bound itself, bin edges, rank rounding at integer ranks, numerics of Index/LowerBound, the paginated store's interleaving of buffer and pages as a function on counts.",
		"one obligation per routing cell, per quantile path, per store × KeyAtRank clause, per mapping",
		true, runC01)
}

func runC01(c *Ctx) {
	a, err := c.anchors()
	if err != nil {
		c.R.undecided("C01", "anchors", "", "", "sketch anchors resolve", err.Error())
		return
	}
	c01Routing(c, a, "C01-D1")
	c01Split(c, a, "C01-D2")
	c01KeyAtRank(c, a, "C01-D3")
	c01Value(c, a)
	// the batch query answers each quantile like the single query, and a copy of a sketch starts from the same state without sharing it
	c.shared(func() { c12Batch(c, a) }, func(o *Obligation) bool { return true })
	// the answer is Value(bin index): the guarantee rests on every mapping kind's index formula, its inverses, its
	// range bounds, the accuracy it reports and the base it is built with for a requested accuracy
	c.shared(func() { runC03(c) }, func(o *Obligation) bool { return strings.HasPrefix(o.Rule, "C03-") })
	// the variant with exact statistics clamps every answer into [exact min, exact max]: the clamp is applied to the
	// inner answer element by element, and the extremes it uses follow every weighted add (a stale range clamps
	// correct answers to wrong ones)
	c.shared(func() { c10Clamp(c, a) }, func(o *Obligation) bool { return true })
	// "for every index mapping kind": a sketch rebuilt from its protobuf message answers with the mapping it was
	// built with — each kind writes its own interpolation tag and the reader arm of that tag rebuilds the same kind
	c.shared(func() { c19Proto(c, mappingInfos(c, "C01")) }, func(o *Obligation) bool { return true })
	c10Wrappers(c, a, "C01-D5", "AddWithCount")
	// sketches are also filled by merging: the mapping gate (Equals: two mappings that differ are never equal), and the
	// store merges (every bin of the argument added once, the argument neither written nor captured)
	c.shared(func() { c19Equals(c, mappingInfos(c, "C01")) }, func(o *Obligation) bool { return true })
	c.shared(func() { c02ArgUntouched(c, a, "C02-D2"); c02AnyKind(c, a); c02DenseAdds(c, "C02-D4") }, func(o *Obligation) bool {
		return !strings.Contains(o.Key, "Collapsing") && !strings.Contains(o.Func, "Collapsing")
	})
	// the guarantee is about what was added, whatever was done to the sketch in between without adding: a
	// reweighting scales the zero weight and both sides alike (the rank split keeps its proportions), and a mapping
	// change leaves its source — statistics of the exact variant included — answering as before
	c.shared(func() { c16Sketch(c, a, "C16-D1") }, func(o *Obligation) bool { return true })
	c.shared(func() { c17Untouched(c, a); c10Wrappers(c, a, "C17-D5", "ChangeMapping") }, func(o *Obligation) bool { return true })
	// a value is counted in the bin of its index: the add paths of the three non-collapsing stores (entry points,
	// window / shift / slot discipline of the dense store, page table and page use of the paginated store, entries
	// of the sparse store)
	c.shared(func() { c04AddPaths(c) }, func(o *Obligation) bool {
		return !strings.Contains(o.Key, "Collapsing") && !strings.Contains(o.Func, "Collapsing")
	})
	c.shared(func() { c14Copies(c, a) }, func(o *Obligation) bool { return !strings.Contains(o.Key, "SummaryStatistics") })
	// the answers hold for every query, not only the first: rank lookups and quantile queries leave no observable write
	if pr := c.paginated(); pr.err == "" {
		c.shared(func() { c14Purity(c, a, pr) }, keyMentions("KeyAtRank", "GetValueAtQuantile", "GetValuesAtQuantiles"))
		if pr.sortFlag != "" {
			c.shared(func() { c14SortFlag(c, pr) }, func(o *Obligation) bool { return true })
		}
	}
}

func c01Routing(c *Ctx, a *sketchAnchors, rule string) {
	f := c.P.DeclaredMethod(a.DDSketch, "AddWithCount")
	if !c.mustFunc(rule, f, "(*DDSketch).AddWithCount") {
		return
	}
	paths, _ := exec(c, f, valueDomain(1, 2), 1)
	cells := 0
	for vc := 3; vc <= 2*vpN-1; vc++ { // from −Inf point up to +Inf point (exclusive of empty classes)
		pos := vc - 1
		if pos <= 2*vpNegMax || pos >= 2*vpMax+2 {
			continue // refused classes: C13-D1
		}
		for _, cc := range []int{2, 3} { // weight = 0, > 0
			want := "zero"
			switch {
			case pos >= 2*vpMin+2: // (Min, Max]
				want = "pos"
			case pos <= 2*vpNegMin: // [−Max, −Min)
				want = "neg"
			}
			sel := pathsInClass(pathsInClass(paths, "value", vc), "count", cc)
			key := fmt.Sprintf("%s/value%s/count%s", shortFn(f), className(valuePointNames, vc), className([]string{"0"}, cc))
			cells++
			bad := ""
			if len(sel) == 0 {
				bad = "no compatible path"
			}
			// exactly ±MinIndexableValue may go either to the zero bucket or to its side: both honour the property
			boundary := pos == 2*vpMin+1 || pos == 2*vpNegMin+1
			for _, p := range sel {
				if boundary {
					ws := p.Writes()
					if len(ws) == 1 && ws[0].Kind == "call" {
						if pos == 2*vpMin+1 {
							want = "pos"
						} else {
							want = "neg"
						}
					} else {
						want = "zero"
					}
				}
				ws := p.Writes()
				if len(ws) != 1 {
					bad = fmt.Sprintf("%d effects: %s", len(ws), describeWrites(p))
					continue
				}
				e := ws[0]
				switch want {
				case "zero":
					ok := e.Kind == "store" && isRecvField(e.Addr, a.zeroField) && e.Val.isBin("+") &&
						(isRecvField(e.Val.Args[0], a.zeroField) && e.Val.Args[1].isParam(2) || isRecvField(e.Val.Args[1], a.zeroField) && e.Val.Args[0].isParam(2))
					if !ok {
						bad = "expected zero += count, found " + e.String()
					}
				default:
					fld, neg := a.posField, false
					if want == "neg" {
						fld, neg = a.negField, true
					}
					ok := e.Kind == "call" && isMethodCall(e.Call, "AddWithCount") && len(e.Call.Args) == 3 && isRecvField(e.Call.Args[0], fld) && e.Call.Args[2].isParam(2)
					if ok {
						ix := e.Call.Args[1]
						ok = isMethodCall(ix, "Index") && len(ix.Args) == 2 && (isRecvField(ix.Args[0], a.mapField) || ix.Args[0].isRecv())
						if ok {
							v := ix.Args[1]
							if neg {
								ok = v.Op == "un" && v.Sym == "-" && v.Args[0].isParam(1)
							} else {
								ok = v.isParam(1)
							}
						}
					}
					if !ok {
						sg := "value"
						if neg {
							sg = "−value"
						}
						bad = fmt.Sprintf("expected %s.AddWithCount(Index(%s), count), found %s", fld, sg, e.String())
					}
				}
			}
			c.R.check(bad == "", rule, key, shortFn(f), c.fpos(f), "routed to "+map[string]string{"zero": "the zero bucket", "pos": "the positive store", "neg": "the negative store"}[want]+" with exactly one effect", firstNonEmpty(bad, fmt.Sprintf("%d path(s)", len(sel))))
		}
	}
	c.R.floor(rule, "routing table cells", cells, 18)
}

func c01Split(c *Ctx, a *sketchAnchors, rule string) {
	f := c.P.DeclaredMethod(a.DDSketch, "GetValueAtQuantile")
	if !c.mustFunc(rule, f, "(*DDSketch).GetValueAtQuantile") {
		return
	}
	paths, _ := exec(c, f, nil, 1)
	isNegTotal := func(t *Term) bool { return isMethodCall(t, "TotalCount") && isRecvField(t.Args[0], a.negField) }
	var isRank func(t *Term) bool
	isRank = func(t *Term) bool {
		if t.isConst("0") {
			return true // clamped
		}
		// math.Max(0, rank): the clamp written as an expression
		if t.Op == "call" && t.Sym == "math.Max" && len(t.Args) == 2 {
			return t.Args[0].isConst("0") && isRank(t.Args[1]) || t.Args[1].isConst("0") && isRank(t.Args[0])
		}
		if !t.isBin("*") {
			return false
		}
		for i := 0; i < 2; i++ {
			q, n := t.Args[i], t.Args[1-i]
			if q.isParam(1) && n.isBin("-") && n.Args[1].isConst("1") && isMethodCall(n.Args[0], "GetCount") && n.Args[0].Args[0].isRecv() {
				return true
			}
		}
		return false
	}
	linEq := func(t *Term, want *Linear) bool { return linCombineKey(linearOf(t), want) }
	n := 0
	for i, p := range paths {
		if p.RetNil(1) != 1 {
			continue
		}
		n++
		key := fmt.Sprintf("%s/path%d[%s]", shortFn(f), i, pathSig(p))
		// the rank and the two region tests on this path
		var rank, negT *Term
		negTaken, haveNeg := false, false
		zeroTaken, haveZero := false, false
		for _, cd := range p.Conds {
			t := cd.Term
			if !t.isBin("<") {
				continue
			}
			if isNegTotal(t.Args[1]) && isRank(t.Args[0]) {
				rank, negT = t.Args[0], t.Args[1]
				negTaken, haveNeg = cd.Taken, true
			} else if rank != nil && t.Args[0].Key() == rank.Key() {
				// rank < zero + negTotal
				l := linearOf(t.Args[1])
				okZ := len(l.Coef) == 2 && l.Const == 0
				for k, co := range l.Coef {
					at := l.Atoms[k]
					if co != 1 || !(isRecvField(at, a.zeroField) || isNegTotal(at)) {
						okZ = false
					}
				}
				if okZ {
					zeroTaken, haveZero = cd.Taken, true
				}
			}
		}
		if !haveNeg {
			c.R.violate(rule, key, shortFn(f), c.fpos(f), "the path compares rank = q·(count−1) with negative.TotalCount()", "no such comparison on ["+p.String()+"]")
			continue
		}
		r := p.RetT[0]
		var ok bool
		exp := ""
		mkLin := func(terms map[*Term]int, cst int) *Linear {
			l := &Linear{Coef: map[string]int{}, Atoms: map[string]*Term{}, Exact: true, Const: cst}
			for t, co := range terms {
				sub := linearOf(t)
				l = linCombine(l, sub, co)
			}
			return l
		}
		zeroT := mk("field", a.zeroField, nil, mk("param", "0", nil))
		switch {
		case negTaken:
			exp = "rank < negTotal ⇒ −Value(negative.KeyAtRank(negTotal − 1 − rank))"
			ok = r.Op == "un" && r.Sym == "-" && isMethodCall(r.Args[0], "Value") && isMethodCall(r.Args[0].Args[1], "KeyAtRank") && isRecvField(r.Args[0].Args[1].Args[0], a.negField) &&
				linEq(r.Args[0].Args[1].Args[1], mkLin(map[*Term]int{negT: 1, rank: -1}, -1))
		case haveZero && zeroTaken:
			exp = "negTotal ≤ rank < zero + negTotal ⇒ 0"
			ok = r.isConst("0")
		case haveZero && !zeroTaken:
			exp = "rank ≥ zero + negTotal ⇒ Value(positive.KeyAtRank(rank − zero − negTotal))"
			ok = isMethodCall(r, "Value") && isMethodCall(r.Args[1], "KeyAtRank") && isRecvField(r.Args[1].Args[0], a.posField) &&
				linEq(r.Args[1].Args[1], mkLin(map[*Term]int{rank: 1, zeroT: -1, negT: -1}, 0))
		default:
			exp = "a second region test rank < zero + negTotal"
		}
		c.R.check(ok, rule, key, shortFn(f), c.fpos(f), exp, describeRet(p))
	}
	c.R.floor(rule, "answering paths of GetValueAtQuantile", n, 3)
}

// linCombineKey: two linear forms are equal (atoms compared by key after stripping ver markers).
func linCombineKey(a, b *Linear) bool {
	d := linCombine(a, b, -1)
	return len(d.Coef) == 0 && d.Const == 0
}

func c01KeyAtRank(c *Ctx, a *sketchAnchors, rule string) {
	storeI := c.P.NamedType(pkgStore, "Store")
	seen := map[*ssa.Function]bool{}
	nBodies := 0
	for _, t := range c.P.Implementations(storeI) {
		m := c.P.MethodOf(t, "KeyAtRank")
		if m == nil {
			continue
		}
		if m.Synthetic != "" {
			m = underlyingOfWrapper(m)
		}
		if m == nil || seen[m] {
			continue
		}
		seen[m] = true
		nBodies++
		name := funcName(m)
		// all functions that see the rank: the method and its closures
		fns := append([]*ssa.Function{m}, m.AnonFuncs...)
		nCmp := 0
		bad := ""
		for _, f := range fns {
			tc := newTermCtx(c.P)
			rankLike := func(v ssa.Value) bool {
				t := tc.Of(v)
				isR := func(t *Term) bool {
					return t.isParam(1) && f == m || t.Op == "oparam" && t.Sym == "1" || t.Op == "free" && f != m
				}
				if isR(t) {
					return true
				}
				if t.Op == "phi" { // rank clamped at 0
					okAll, has := true, false
					for _, e := range tc.PhiEdges(t) {
						if isR(e) {
							has = true
						} else if !e.isConst("0") {
							okAll = false
						}
					}
					return okAll && has
				}
				if t.Op == "load" && t.Args[0].Op == "free" {
					return true
				}
				return false
			}
			for _, b := range f.Blocks {
				for _, in := range b.Instrs {
					bo, ok := in.(*ssa.BinOp)
					if !ok {
						continue
					}
					switch bo.Op {
					case token.LSS, token.LEQ, token.GTR, token.GEQ, token.EQL, token.NEQ:
					default:
						continue
					}
					xr, yr := rankLike(bo.X), rankLike(bo.Y)
					if !xr && !yr {
						continue
					}
					other := bo.Y
					if yr {
						other = bo.X
					}
					if _, ok := other.(*ssa.Const); ok {
						continue // a test of the rank against a constant (the clamp of negative ranks, a NaN/Inf shortcut) selects no bin
					}
					if xr && yr {
						continue // rank != rank: a NaN test
					}
					nCmp++
					t := tc.Of(bo)
					// normal form of `cumulative > rank` is bin:<(rank, cumulative)
					strict := t.isBin("<") && rankLike(leftValue(bo, t))
					if !strict {
						bad = "qualifying test is not the strict `cumulative > rank`: " + t.Key()
					}
					// the cumulative weight is a running SUM: cum = φ(0, cum + weight) (a difference, or a sum that does not
					// start at 0, is not the weight below the bin)
					{
						var phi *ssa.Phi
						var step *ssa.BinOp
						switch o := other.(type) {
						case *ssa.BinOp:
							step = o
							if p, ok := o.X.(*ssa.Phi); ok {
								phi = p
							} else if p, ok := o.Y.(*ssa.Phi); ok {
								phi = p
							}
						case *ssa.Phi:
							phi = o
							for _, e := range o.Edges {
								if b, ok := e.(*ssa.BinOp); ok && (b.X == ssa.Value(o) || b.Y == ssa.Value(o)) {
									step = b
								}
							}
						}
						if phi != nil && step != nil {
							zero, back := false, false
							for _, e := range phi.Edges {
								if k, ok := e.(*ssa.Const); ok && k.Value != nil && k.Value.String() == "0" {
									zero = true
								}
								if e == ssa.Value(step) {
									back = true
								}
							}
							if step.Op != token.ADD || !zero || !back {
								bad = firstNonEmpty(bad, "the cumulative weight is not a running sum from 0: "+step.String())
							}
						}
					}
					// … and it is the TRUE outcome that selects the bin: as an `if`, its taken branch returns; as the
					// value of a predicate it is returned as it is, not negated
					if refs := bo.Referrers(); refs != nil {
						for _, r := range *refs {
							switch r := r.(type) {
							case *ssa.If:
								taken := r.Block().Succs[0]
								if _, isRet := taken.Instrs[len(taken.Instrs)-1].(*ssa.Return); !isRet {
									bad = firstNonEmpty(bad, "the bin is selected when `cumulative > rank` is FALSE")
								}
							case *ssa.UnOp:
								if r.Op == token.NOT {
									bad = firstNonEmpty(bad, "the qualifying test is negated")
								}
							}
						}
					}
				}
			}
		}
		c.R.check(bad == "" && nCmp > 0, rule, name+"/strict-exceeds", name, c.fpos(m), "a bin qualifies exactly when the cumulative weight strictly exceeds the rank", firstNonEmpty(bad, fmt.Sprintf("%d comparison(s)", nCmp)))
	}
	c.R.floor(rule, "KeyAtRank bodies", nBodies, 3)

	// ascending accumulation + fallback, per store kind
	dense := c.P.NamedType(pkgStore, "DenseStore")
	if f := c.P.DeclaredMethod(dense, "KeyAtRank"); c.mustFunc(rule, f, "DenseStore.KeyAtRank") {
		paths, _ := exec(c, f, nil, 1)
		okLoop, okFall := false, false
		for _, p := range paths {
			r := p.RetT[0]
			l := linearOf(r)
			// inside the loop: array position + offset
			if len(l.Coef) >= 1 {
				hasOff := false
				for _, at := range l.Atoms {
					if at.Op == "field" && at.Sym == dr.offset && at.Args[0].isParam(0) {
						hasOff = true
					}
				}
				if hasOff {
					okLoop = true
				}
			}
			if r.Op == "field" && r.Sym == dr.maxIndex && r.Args[0].isParam(0) {
				okFall = true
			}
		}
		// the loop is a range over the bin array (ascending positions)
		asc := false
		for _, b := range f.Blocks {
			for _, in := range b.Instrs {
				if phi, ok := in.(*ssa.Phi); ok && phi.Comment == "rangeindex" {
					asc = true
				}
			}
		}
		for _, l := range countingLoops(c.P, f) {
			if l.StepOne {
				asc = true
			}
		}
		c.R.check(okLoop && asc, rule, funcName(f)+"/ascending", funcName(f), c.fpos(f), "cumulative weight is accumulated over the bin array in ascending position order and the qualifying position + offset is returned", fmt.Sprintf("loop result=%v ascending=%v", okLoop, asc))
		c.R.check(okFall, rule, funcName(f)+"/fallback-max", funcName(f), c.fpos(f), "when no bin qualifies the maximum index is returned", "")
	}
	sparse := c.P.NamedType(pkgStore, "SparseStore")
	if f := c.P.DeclaredMethod(sparse, "KeyAtRank"); c.mustFunc(rule, f, "SparseStore.KeyAtRank") {
		// iterates orderedBins(), whose sort.Slice less-function is ascending on index
		var ob *ssa.Function
		for _, b := range f.Blocks {
			for _, in := range b.Instrs {
				if call, ok := in.(*ssa.Call); ok {
					if fn, ok := call.Common().Value.(*ssa.Function); ok && inModule(fn) && fn.Signature.Results().Len() == 1 {
						if _, isSl := fn.Signature.Results().At(0).Type().Underlying().(*types.Slice); isSl {
							ob = fn
						}
					}
				}
			}
		}
		okLess := false
		found := "no sorted-bins helper"
		if ob != nil {
			for _, cl := range ob.AnonFuncs {
				ps, _ := exec(c, cl, nil, 1)
				for _, p := range ps {
					r := p.RetT[0]
					found = r.Key()
					if r.isBin("<") {
						x, y := r.Args[0], r.Args[1]
						isIdxOf := func(t *Term, pi int) bool {
							return t.Op == "field" && t.Sym == "index" && t.Args[0].Op == "index" && t.Args[0].Args[1].isParam(pi)
						}
						if isIdxOf(x, 0) && isIdxOf(y, 1) {
							okLess = true
						}
					}
				}
			}
		}
		c.R.check(okLess, rule, funcName(f)+"/ascending", funcName(f), c.fpos(f), "bins are visited in ascending index order (less(i,j) = bins[i].index < bins[j].index)", found)
		ps, _ := exec(c, f, nil, 2)
		okFall := false
		for _, p := range ps {
			r := p.RetT[0]
			if r.Op == "extract" && r.Sym == "0" && isMethodCall(r.Args[0], "MaxIndex") && errState(p, mk("extract", "1", nil, r.Args[0])) != 1 {
				okFall = true
			}
			// or the index of the LAST of the ascending ordered bins: orderedBins[len(orderedBins)−1].index
			if r.Op == "field" && r.Sym == "index" && r.Args[0].Op == "index" {
				arr, idx := r.Args[0].Args[0], linearOf(r.Args[0].Args[1])
				if idx.Const == -1 && len(idx.Coef) == 1 {
					for _, at := range idx.Atoms {
						if at.Op == "builtin" && at.Sym == "len" && at.Args[0].Key() == arr.Key() && ob != nil && arr.Op == "call" && arr.Sym == funcName(ob) {
							okFall = true
						}
					}
				}
			}
		}
		c.R.check(okFall, rule, funcName(f)+"/fallback-max", funcName(f), c.fpos(f), "when no bin qualifies the maximum index is returned", "")
	}
	if pr := c.paginated(); pr.err == "" {
		f := c.P.DeclaredMethod(pr.typ, "KeyAtRank")
		if c.mustFunc(rule, f, "BufferedPaginatedStore.KeyAtRank") {
			// the helper taking the predicate
			var helper *ssa.Function
			for _, b := range f.Blocks {
				for _, in := range b.Instrs {
					if call, ok := in.(*ssa.Call); ok {
						if fn, ok := call.Common().Value.(*ssa.Function); ok && recvNamed(fn) == pr.typ && len(fn.Params) == 2 {
							if _, isSig := fn.Params[1].Type().Underlying().(*types.Signature); isSig {
								helper = fn
							}
						}
					}
				}
			}
			if helper == nil {
				c.R.undecided(rule, funcName(f)+"/predicate-helper", funcName(f), c.fpos(f), "a helper scanning with a cumulative-count predicate", "unresolved")
			} else {
				// every cumulative update is handed to the predicate before the next one
				pred := helper.Params[1]
				argOf := map[ssa.Value]bool{}
				nCalls := 0
				for _, b := range helper.Blocks {
					for _, in := range b.Instrs {
						if call, ok := in.(*ssa.Call); ok && call.Common().Value == ssa.Value(pred) {
							nCalls++
							argOf[call.Common().Args[0]] = true
							// verdict must control a branch
							ctl := false
							for _, r := range *call.Referrers() {
								if _, ok := r.(*ssa.If); ok {
									ctl = true
								}
							}
							if !ctl {
								c.R.violate(rule, funcName(helper)+"/predicate-verdict-used", funcName(helper), c.ipos(call), "the predicate's verdict decides whether to return", "verdict not tested")
							}
						}
					}
				}
				bad := ""
				nUpd := 0
				for _, b := range helper.Blocks {
					for _, in := range b.Instrs {
						bo, ok := in.(*ssa.BinOp)
						if !ok || bo.Op != token.ADD || !isFloat(bo.Type()) {
							continue
						}
						nUpd++
						if !argOf[bo] {
							bad = "cumulative count updated without consulting the predicate: " + bo.String()
						}
					}
				}
				c.R.check(bad == "" && nUpd > 0 && nCalls == nUpd, rule, funcName(helper)+"/predicate-after-every-update", funcName(helper), c.fpos(helper),
					"the predicate is evaluated on the cumulative count after every buffered unit and every page line", firstNonEmpty(bad, fmt.Sprintf("%d updates, %d predicate calls", nUpd, nCalls)))
				// buffer sorted before scanning
				sorts := false
				if len(helper.Blocks) > 0 {
					for _, in := range helper.Blocks[0].Instrs {
						if call, ok := in.(*ssa.Call); ok && pr.isSortCall(newTermCtx(c.P), call) {
							sorts = true
						}
					}
				}
				c.R.check(sorts, rule, funcName(helper)+"/sorts-buffer-first", funcName(helper), c.fpos(helper), "the buffer is sorted before the ascending scan", "")
			}
			ps, _ := exec(c, f, nil, 1)
			okFall := false
			for _, p := range ps {
				r := p.RetT[0]
				if r.Op == "extract" && r.Sym == "0" && isMethodCall(r.Args[0], "MaxIndex") {
					okFall = true
				}
			}
			c.R.check(okFall, rule, funcName(f)+"/fallback-max", funcName(f), c.fpos(f), "when no bin qualifies the maximum index is returned", "")
		}
	}
}

// leftValue: the ssa operand that ends up on the left of the oriented comparison term.
func leftValue(bo *ssa.BinOp, t *Term) ssa.Value {
	switch bo.Op {
	case token.GTR, token.GEQ:
		return bo.Y
	}
	return bo.X
}

func c01Value(c *Ctx, a *sketchAnchors) {
	const rule = "C01-D4"
	mapI := c.P.NamedType(pkgMapping, "IndexMapping")
	n := 0
	for _, t := range c.P.Implementations(mapI) {
		f := c.P.DeclaredMethod(t, "Value")
		if !c.mustFunc(rule, f, t.Obj().Name()+".Value") {
			continue
		}
		n++
		ps, _ := execNoInline(c, f, nil, 1)
		ok := len(ps) >= 1
		found := ""
		// a field that every store in the package fills with 1 + RelativeAccuracy() of the object it belongs to
		// (a precomputed factor of an immutable mapping) stands for that expression
		cachedFactor := func(t *Term) bool {
			t = t.unver()
			if t.Op != "field" || !t.Args[0].isParam(0) {
				return false
			}
			nStores, good := 0, true
			for _, g := range c.P.Funcs {
				if g.Pkg == nil || g.Pkg != f.Pkg {
					continue
				}
				tcg := newTermCtx(c.P)
				tcg.inline = false
				for _, b := range g.Blocks {
					for _, in := range b.Instrs {
						st, isSt := in.(*ssa.Store)
						if !isSt {
							continue
						}
						fa, isFA := st.Addr.(*ssa.FieldAddr)
						if !isFA || fieldName(fa.X.Type(), fa.Field) != t.Sym || recvNamed(f) == nil || !types.Identical(derefType(fa.X.Type()), recvNamed(f)) {
							continue
						}
						nStores++
						v := tcg.Of(st.Val)
						okV := false
						if v.isBin("+") {
							for i := 0; i < 2; i++ {
								if v.Args[i].isConst("1") && isMethodCall(v.Args[1-i], "RelativeAccuracy") && sameVal(v.Args[1-i].Args[0], tcg.Of(fa.X)) {
									okV = true
								}
							}
						}
						if !okV {
							good = false
						}
					}
				}
			}
			return good && nStores > 0
		}
		for _, p := range ps {
			if !ok {
				break
			}
			r := p.RetT[0]
			found = r.Key()
			ok = r.isBin("*")
			if ok {
				isLB := func(t *Term) bool {
					return isMethodCall(t, "LowerBound") && len(t.Args) == 2 && t.Args[0].isParam(0) && t.Args[1].isParam(1)
				}
				isOnePlusAlpha := func(t *Term) bool {
					if !t.isBin("+") {
						return false
					}
					for i := 0; i < 2; i++ {
						if t.Args[i].isConst("1") && isMethodCall(t.Args[1-i], "RelativeAccuracy") && t.Args[1-i].Args[0].isParam(0) {
							return true
						}
					}
					return false
				}
				x, y := r.Args[0], r.Args[1]
				ok = isLB(x) && (isOnePlusAlpha(y) || cachedFactor(y)) || isLB(y) && (isOnePlusAlpha(x) || cachedFactor(x))
			}
		}
		c.R.check(ok, rule, t.Obj().Name()+".Value", funcName(f), c.fpos(f), "Value(i) = LowerBound(i)·(1 + RelativeAccuracy()) — the alpha-midpoint of the bin", found)
	}
	c.R.floor(rule, "mapping Value implementations", n, 3)
	_ = strings.Join
}
