package main

import (
	"fmt"
	"go/types"
	"sort"
	"strings"

	"golang.org/x/tools/go/ssa"
)

// C07 — wire format matches its documentation; decoder accepts every valid stream.
// Also hosts the grammar-agreement rule shared with C06-D1.

func init() {
	register("C07",
		"DECIDED: D1 flag byte table — every flag variable of the encoding package is folded from its initialiser (compile-time evaluation of NewFlag/newSubFlag, no repository code is run on inputs) and must equal the reference wire table (2 low bits type, 6 high bits subflag; the bytes other-language DDSketch implementations emit); all flags are pairwise distinct; Type() and SubFlag() invert NewFlag over every defined (type, subflag) pair. "+
			"D2 exhaustive dispatch — every feature flag has an arm in the block loop or in BOTH fallback decoders, every mapping flag that has a Go mapping type has an arm in mapping.Decode constructing that type (quadratic/quartic: reasoned gap, no implementation exists), every bin layout has an arm in the generic bin decoder and the paginated decoder handles or delegates all of them, every flag type has an arm in the block loop. "+
			"D3 per-flag payload agreement — for every block kind, the primitive-codec grammar of every writer and of every reader arm (including the plain decoder's skip arms, where skipping n bytes is the element fixed(n)) equals the documented grammar: N:uvarint (Δ:varint c:varfloat)^N, N:uvarint (Δ:varint)^N, N:uvarint i0:varint d:varint (c:varfloat)^N, varfloat for zero-count and count, float64LE for sum/min/max, float64LE×2 for mappings. "+
			"D4 order/repetition independence = C06-D3 (additive, block-local decoding). "+
			"SHARED (obligations of other properties that decide clauses this property states too, re-evaluated here under their home rule ids): C08-D4 (item loops of the bin decoders are controlled by the announced item count itself, so every valid stream — zero strides included — is consumed exactly). C19-D2/D3 (Equals of the mappings: a repeated or already known mapping block must be accepted, so Equals holds for a mapping and itself — symmetric tolerance table over absolute values). C06-D1 side pairing of the decoder (each store arm of the block loop decodes into the store of its side on every path — blocks may arrive in any order, also before the mapping block). C06-D2 (delta / stride discipline of every bin writer and reader: acc = φ(0, acc + Δ) for every item read, counts or not). C06-D3 (every block handler only adds to the state: repeated blocks and repeated indexes sum up, as documented). C04-D1/D2/D5/D6/D9 and C05-D8 (the add side of every store: a decoded bin is counted at its index). C04-D3 sparse entries (a bin block may carry bins of weight zero, which are no content: a weight from outside enters the sparse store's map only where it is known not to be zero). C08-D2 (skip arms of the plain decoder: exactly the block is consumed whenever its bytes are there, end of stream included). C06-D6 (the decoding constructors of both variants build the sketch with the mapping and stores they are given). C10-D1/D5 (statistics blocks: each written from the accumulator of its flag in the documented width and read back with the decoder of that width; the exact decoder refuses a stream only for missing statistics blocks). C19-D1 binary part (the index-mapping block of each kind: its flag, float64LE gamma field, float64LE offset field; the reader arm of that flag constructs the same kind from the two values in reading order). "+
			"NOT DECIDED: that an arbitrary grammar-generated stream decodes to the documented content (value semantics of the primitives), stride 0 / negative strides inside the paginated contiguous decoder.",
		"one obligation per flag variable, per (type,subflag) pair, per dispatch × defined constant, per writer block and reader arm",
		true, runC07)
}

// reference wire table: name -> byte
var flagTable = map[string]uint64{
	"flagTypeSketchFeatures": 0x00, "FlagTypeIndexMapping": 0x02, "FlagTypePositiveStore": 0x01, "FlagTypeNegativeStore": 0x03,
	"FlagZeroCountVarFloat": 0x04, "FlagCount": 0xA0, "FlagSum": 0x84, "FlagMin": 0x88, "FlagMax": 0x8C,
	"FlagIndexMappingBaseLogarithmic": 0x02, "FlagIndexMappingBaseLinear": 0x06, "FlagIndexMappingBaseQuadratic": 0x0A, "FlagIndexMappingBaseCubic": 0x0E, "FlagIndexMappingBaseQuartic": 0x12,
	"BinEncodingIndexDeltasAndCounts": 0x04, "BinEncodingIndexDeltas": 0x08, "BinEncodingContiguousCounts": 0x0C,
}

type encGlobals struct {
	flags, types, subs []*ssa.Global
	val                map[*ssa.Global]uint64
	fo                 *folder
}

func foldEncGlobals(c *Ctx) *encGlobals {
	fo := newFolder(c.P)
	fo.evalInit(pkgEnc)
	eg := &encGlobals{val: map[*ssa.Global]uint64{}, fo: fo}
	sp := c.P.SPkgs[pkgEnc]
	var names []string
	for n := range sp.Members {
		names = append(names, n)
	}
	sort.Strings(names)
	for _, n := range names {
		g, ok := sp.Members[n].(*ssa.Global)
		if !ok {
			continue
		}
		et := g.Type().(*types.Pointer).Elem()
		nt, ok := et.(*types.Named)
		if !ok || nt.Obj().Pkg() == nil || nt.Obj().Pkg().Path() != pkgEnc {
			continue
		}
		switch nt.Obj().Name() {
		case "Flag":
			eg.flags = append(eg.flags, g)
		case "FlagType":
			eg.types = append(eg.types, g)
		case "SubFlag":
			eg.subs = append(eg.subs, g)
		default:
			continue
		}
		if v, ok := fo.globals[g]; ok && v != nil {
			if s, ok := v.scalar(); ok {
				eg.val[g] = s
			}
		}
	}
	return eg
}

func runC07(c *Ctx) {
	a, err := c.anchors()
	if err != nil {
		c.R.undecided("C07", "anchors", "", "", "sketch anchors resolve", err.Error())
		return
	}
	eg := foldEncGlobals(c)
	c07Table(c, eg)
	c07Dispatch(c, a, eg)
	wireGrammarRules(c, a, "C07-D3")
	// every valid stream decodes: the item loops of the bin decoders consume exactly the announced number of items
	// whatever the stride (a loop that walks indexes instead of counting items drops a stride-0 block)
	c.shared(func() { c08ItemLoops(c, a) }, func(o *Obligation) bool { return true })
	// the documentation lets blocks repeat: every block handler adds to what is already there
	c.shared(func() { c06Additive(c, a) }, func(o *Obligation) bool { return true })
	// a bin block may carry bins of weight zero, which are no content: the sparse store keeps them out of its map
	c.shared(func() { c04SparseEntries(c, "C04-D3") }, func(o *Obligation) bool { return true })
	// "decodes into every store kind to the content the documentation assigns": decoded bins are added through the
	// receiver's entry points — the add side of every store kind
	c.shared(func() { c04AddPaths(c) }, func(o *Obligation) bool { return !strings.Contains(o.Key, "SparseStore/entries") })
	// a stream without mapping block decodes with the mapping the caller supplies: the decoding constructors of both
	// variants hand it to the sketch they build
	c.shared(func() { c06DecoderCtors(c, a, "C06-D6") }, func(o *Obligation) bool { return true })
	// the plain decoder skips the statistics blocks of an exact encoding: each skip arm consumes exactly its block when
	// the bytes are there — also when the block ends the stream
	c.shared(func() { c08EOFBeforeConsume(c, a) }, func(o *Obligation) bool { return true })
	// the statistics blocks: each written from the accumulator of its flag in the documented width, each read back with
	// the decoder of that width; the exact-summary decoder refuses a stream only for missing statistics blocks
	c.shared(func() { c10Decode(c, a); c10EncodeGuards(c, a) }, func(o *Obligation) bool { return true })
	// index deltas and strides are part of the documented layouts: every reader accumulates every delta it reads
	c.shared(func() { c06Deltas(c, a) }, func(o *Obligation) bool { return true })
	// blocks may come in any order: a store block is handed to the store of its side whatever else the stream has
	// carried so far (the arm decodes; it refuses nothing on its own)
	c.shared(func() { c06Sides(c, a) }, keyMentions("sides/decoder"))
	// a well-formed stream whose mapping block repeats the receiver's mapping is accepted: Equals holds for a mapping
	// and itself
	c.shared(func() { c19Equals(c, mappingInfos(c, "C07")) }, func(o *Obligation) bool { return true })
	// the index-mapping block: flag of the kind, then gamma, then index offset, read back into the same kind
	c.shared(func() { c19Binary(c, mappingInfos(c, "C07")) }, func(o *Obligation) bool { return true })
}

func c07Table(c *Ctx, eg *encGlobals) {
	const rule = "C07-D1"
	all := append(append(append([]*ssa.Global{}, eg.types...), eg.flags...), eg.subs...)
	for _, g := range all {
		v, folded := eg.val[g]
		want, known := flagTable[g.Name()]
		key := "flag/" + g.Name()
		switch {
		case !folded:
			c.R.undecided(rule, key, "encoding.init", c.P.pos(g.Pos()), "initialiser folds to a constant byte", "could not be evaluated at compile time")
		case !known:
			c.R.undecided(rule, key, "encoding.init", c.P.pos(g.Pos()), "a flag listed in the reference wire table", fmt.Sprintf("new flag with value 0x%02X: add it to the table with its documented meaning", v))
		default:
			c.R.check(v == want, rule, key, "encoding.init", c.P.pos(g.Pos()), fmt.Sprintf("0x%02X", want), fmt.Sprintf("0x%02X", v))
		}
	}
	c.R.floor(rule, "flag variables folded", len(eg.val), 17)
	// layout: flag types use only the 2 low bits; subflags only the 6 high bits
	for _, g := range eg.types {
		c.R.check(eg.val[g]&^0x03 == 0, rule, "layout/type/"+g.Name(), "encoding.init", c.P.pos(g.Pos()), "a flag type uses only the two low bits", fmt.Sprintf("0x%02X", eg.val[g]))
	}
	for _, g := range eg.subs {
		c.R.check(eg.val[g]&0x03 == 0, rule, "layout/subflag/"+g.Name(), "encoding.init", c.P.pos(g.Pos()), "a subflag uses only the six high bits", fmt.Sprintf("0x%02X", eg.val[g]))
	}
	// pairwise distinct within each class (flags among flags of the same type; types; subflags)
	distinct := func(gs []*ssa.Global, what string) {
		seen := map[uint64]string{}
		ok := true
		found := ""
		for _, g := range gs {
			if o, dup := seen[eg.val[g]]; dup {
				ok = false
				found = fmt.Sprintf("%s and %s are both 0x%02X", o, g.Name(), eg.val[g])
			}
			seen[eg.val[g]] = g.Name()
		}
		c.R.check(ok, rule, "distinct/"+what, "encoding.init", "", what+" are pairwise distinct", firstNonEmpty(found, fmt.Sprintf("%d values", len(gs))))
	}
	distinct(eg.flags, "flags")
	distinct(eg.types, "flag types")
	distinct(eg.subs, "bin encodings")
	// a store flag must never collide with a feature / mapping flag: NewFlag(storeType, binEncoding) for all pairs vs all flags
	newFlag := c.P.Func(pkgEnc, "NewFlag")
	flagT := c.P.NamedType(pkgEnc, "Flag")
	var typeM, subM *ssa.Function
	if flagT != nil {
		typeM, subM = c.P.DeclaredMethod(flagT, "Type"), c.P.DeclaredMethod(flagT, "SubFlag")
	}
	if newFlag == nil || typeM == nil || subM == nil {
		c.R.undecided(rule, "anchor/NewFlag-Type-SubFlag", "", "", "NewFlag, Flag.Type, Flag.SubFlag exist", "unresolved")
		return
	}
	mkv := func(t types.Type, v uint64) cval {
		return cval{known: true, typ: t, fields: []cval{{known: true, typ: types.Typ[types.Uint8], i: v}}}
	}
	n := 0
	for _, tg := range eg.types {
		// subflags: the 6-bit values actually defined for this type (from flags) + the bin encodings for store types
		subs := map[uint64]bool{}
		for _, fg := range eg.flags {
			if eg.val[fg]&0x03 == eg.val[tg] {
				subs[eg.val[fg]&^0x03] = true
			}
		}
		for _, sg := range eg.subs {
			subs[eg.val[sg]] = true
		}
		var ss []uint64
		for s := range subs {
			ss = append(ss, s)
		}
		sort.Slice(ss, func(i, j int) bool { return ss[i] < ss[j] })
		for _, s := range ss {
			n++
			tt := newFlag.Params[0].Type()
			st := newFlag.Params[1].Type()
			f := eg.fo.run(newFlag, []cval{mkv(tt, eg.val[tg]), mkv(st, s)}, false)
			fv, ok1 := f.scalar()
			ty := eg.fo.run(typeM, []cval{f}, false)
			su := eg.fo.run(subM, []cval{f}, false)
			tv, ok2 := ty.scalar()
			sv, ok3 := su.scalar()
			key := fmt.Sprintf("roundtrip/type=0x%02X/subflag=0x%02X", eg.val[tg], s)
			if !(ok1 && ok2 && ok3) {
				c.R.undecided(rule, key, "encoding.NewFlag", c.fpos(newFlag), "NewFlag / Type / SubFlag fold", "could not be evaluated")
				continue
			}
			c.R.check(fv == eg.val[tg]|s && tv == eg.val[tg] && sv == s, rule, key, "encoding.NewFlag", c.fpos(newFlag), "NewFlag(t,s) = t|s, Type() = t, SubFlag() = s",
				fmt.Sprintf("flag=0x%02X type=0x%02X subflag=0x%02X", fv, tv, sv))
		}
	}
	c.R.floor(rule, "(type, subflag) round-trip pairs", n, 16)
	c.R.assume("the reference wire table (flag name → byte) is transcribed into the checker from the format documentation in encoding/flag.go and the values shared with the other DDSketch implementations; a new flag must be added to it")
}

// globalsOfArms: the labels (global names) of dispatch arms, without "default".
func armNames(arms map[string][]*Path) map[string]bool {
	out := map[string]bool{}
	for l := range arms {
		if l != "default" {
			out[shortLabel(l)] = true
		}
	}
	return out
}

func c07Dispatch(c *Ctx, a *sketchAnchors, eg *encGlobals) {
	const rule = "C07-D2"
	paramSel := func(i int) func(*Term) bool { return func(t *Term) bool { return t.isParam(i) } }
	// --- feature flags
	var features []string
	for _, g := range eg.flags {
		if eg.val[g]&0x03 == flagTable["flagTypeSketchFeatures"] {
			features = append(features, g.Name())
		}
	}
	loop := c.blockLoop(a)
	loopArms := map[string]bool{}
	typeArms := map[string]bool{}
	if c.mustFunc(rule, loop, "decodeAndMergeWith") {
		paths, _ := exec(c, loop, nil, 2)
		arms, _ := dispatchArms(paths, func(t *Term) bool {
			return t.Op == "extract" && t.Sym == "0" && t.Args[0].Op == "call" && strings.HasSuffix(t.Args[0].Sym, "DecodeFlag")
		})
		loopArms = armNames(arms)
		tarms, _ := dispatchArms(paths, func(t *Term) bool { return isMethodCall(t, "Type") })
		typeArms = armNames(tarms)
	}
	var fallbacks []map[string]bool
	for _, m := range []*ssa.Function{c.P.DeclaredMethod(a.DDSketch, "DecodeAndMergeWith"), c.P.DeclaredMethod(a.Exact, "DecodeAndMergeWith")} {
		if m == nil || len(m.AnonFuncs) != 1 {
			c.R.undecided(rule, "anchor/fallback-decoder", "", "", "each sketch decoder passes exactly one fallback closure", "unresolved")
			continue
		}
		paths, _ := exec(c, m.AnonFuncs[0], nil, 2)
		arms, _ := dispatchArms(paths, paramSel(1))
		fallbacks = append(fallbacks, armNames(arms))
	}
	for _, fname := range features {
		inLoop := loopArms[fname]
		inBoth := len(fallbacks) == 2 && fallbacks[0][fname] && fallbacks[1][fname]
		c.R.check(inLoop || inBoth, rule, "feature/"+fname, "decoders", "", "handled by the block loop or by BOTH fallback decoders (plain and exact)",
			fmt.Sprintf("block loop=%v plain fallback=%v exact fallback=%v", inLoop, len(fallbacks) > 0 && fallbacks[0][fname], len(fallbacks) > 1 && fallbacks[1][fname]))
	}
	c.R.floor(rule, "feature flags", len(features), 5)
	// --- flag types
	for _, g := range eg.types {
		if g.Name() == "flagTypeSketchFeatures" {
			continue // the default arm of the type dispatch
		}
		c.R.check(typeArms[g.Name()], rule, "type/"+g.Name(), "decodeAndMergeWith", "", "the block loop has an arm for this flag type", fmt.Sprintf("arms: %v", keysOf(typeArms)))
	}
	// --- mapping flags
	mapTypes := map[string]string{"FlagIndexMappingBaseLogarithmic": "LogarithmicMapping", "FlagIndexMappingBaseLinear": "LinearlyInterpolatedMapping", "FlagIndexMappingBaseCubic": "CubicallyInterpolatedMapping"}
	gaps := map[string]string{"FlagIndexMappingBaseQuadratic": "no quadratic mapping is implemented in Go: decoder answers 'unknown mapping'", "FlagIndexMappingBaseQuartic": "no quartic mapping is implemented in Go: decoder answers 'unknown mapping'"}
	if f := c.P.Func(pkgMapping, "Decode"); c.mustFunc(rule, f, "mapping.Decode") {
		paths, _ := exec(c, f, nil, 1)
		arms, _ := dispatchArms(paths, paramSel(1))
		for _, g := range eg.flags {
			if eg.val[g]&0x03 != flagTable["FlagTypeIndexMapping"] {
				continue
			}
			name := g.Name()
			ps := arms["global:ddsketch/encoding."+name]
			if why, gap := gaps[name]; gap && c.P.NamedType(pkgMapping, strings.TrimSuffix(strings.TrimPrefix(name, "FlagIndexMappingBase"), "")+"Mapping") == nil {
				c.R.trivial(rule, "mapping/"+name, shortFn(f), c.fpos(f), "reasoned gap", why)
				continue
			}
			want := mapTypes[name]
			ok := len(ps) > 0 && want != ""
			found := fmt.Sprintf("%d arm path(s)", len(ps))
			for _, p := range ps {
				if p.RetNil(1) == -1 {
					continue
				}
				r := p.RetT[0]
				// result of a constructor whose result type is *want
				okP := false
				if r.Op == "extract" && r.Args[0].Op == "call" {
					if call, isCall := r.Args[0].V.(*ssa.Call); isCall {
						if fn, isFn := call.Common().Value.(*ssa.Function); isFn {
							rt := fn.Signature.Results().At(0).Type().String()
							okP = strings.HasSuffix(rt, "."+want)
							found = rt
						}
					}
				}
				ok = ok && okP
			}
			c.R.check(ok, rule, "mapping/"+name, shortFn(f), c.fpos(f), "an arm that constructs a *"+want, found)
		}
	}
	// --- bin layouts
	generic := c.P.Func(pkgStore, "DecodeAndMergeWith")
	if c.mustFunc(rule, generic, "store.DecodeAndMergeWith") {
		paths, _ := exec(c, generic, nil, 2)
		arms, _ := dispatchArms(paths, paramSel(2))
		names := armNames(arms)
		for _, g := range eg.subs {
			c.R.check(names[g.Name()], rule, "layout/generic/"+g.Name(), shortFn(generic), c.fpos(generic), "the generic bin decoder has an arm for this layout", fmt.Sprintf("arms: %v", keysOf(names)))
		}
	}
	if pr := c.paginated(); pr.err == "" {
		if f := c.P.DeclaredMethod(pr.typ, "DecodeAndMergeWith"); c.mustFunc(rule, f, "paginated DecodeAndMergeWith") {
			paths, _ := exec(c, f, nil, 2)
			arms, _ := dispatchArms(paths, paramSel(2))
			names := armNames(arms)
			delegates := false
			for _, p := range arms["default"] {
				for _, e := range p.Calls() {
					if e.Call.Op == "call" && generic != nil && e.Call.Sym == funcName(generic) {
						delegates = true
					}
				}
			}
			for _, g := range eg.subs {
				c.R.check(names[g.Name()] || delegates, rule, "layout/paginated/"+g.Name(), shortFn(f), c.fpos(f), "handled by an own arm or delegated to the generic decoder", fmt.Sprintf("own arm=%v default delegates=%v", names[g.Name()], delegates))
			}
		}
	}
}

func keysOf(m map[string]bool) []string {
	var out []string
	for k := range m {
		out = append(out, k)
	}
	sort.Strings(out)
	return out
}

// ---------------------------------------------------------------------------
// grammar agreement (C06-D1 / C07-D3)

func equalsDoc(got, doc string) bool {
	norm := func(s string) string { return strings.ReplaceAll(s, "X8", "L") }
	return norm(got) == doc
}

func wireGrammarRules(c *Ctx, a *sketchAnchors, rule string) {
	g := newGrammarCtx(c)
	// ---- writers: every module function that calls EncodeFlag directly
	encodeFlag := c.P.Func(pkgEnc, "EncodeFlag")
	nW := 0
	for _, f := range c.P.Funcs {
		calls := false
		for _, b := range f.Blocks {
			for _, in := range b.Instrs {
				if call, ok := in.(*ssa.Call); ok && call.Common().Value == ssa.Value(encodeFlag) {
					calls = true
				}
			}
		}
		if !calls || f.Pkg == nil || f.Pkg.Pkg.Path() == pkgEnc {
			continue
		}
		paths, complete := exec(c, f, nil, 2)
		if !complete {
			c.R.undecided(rule, "writer/"+shortFn(f)+"/paths", shortFn(f), c.fpos(f), "path enumeration completes", "too many paths")
			continue
		}
		best := map[string]string{}
		for _, p := range paths {
			for _, blk := range splitAtFlags(g.pathTokens(f, p)) {
				if blk[0].call == nil || blk[0].call.Parent() != f {
					continue // a block emitted by an expanded callee is reported under that callee
				}
				kind, _ := flagKindName(blk[0].flag)
				if kind == "" {
					kind = "?" + blk[0].flag.Key()
				}
				pl := payloadString(blk)
				if len(pl) >= len(best[kind]) {
					best[kind] = pl
				}
			}
		}
		for _, kind := range keysOfS(best) {
			nW++
			doc, known := documentedGrammar[kind]
			key := fmt.Sprintf("writer/%s/%s", shortFn(f), kind)
			if !known {
				c.R.undecided(rule, key, shortFn(f), c.fpos(f), "a block kind with a documented grammar", "payload ["+best[kind]+"] for undocumented kind "+kind)
				continue
			}
			c.R.check(equalsDoc(best[kind], doc), rule, key, shortFn(f), c.fpos(f), "payload grammar ["+doc+"]", "["+best[kind]+"]")
		}
	}
	c.R.floor(rule, "writer blocks", nW, 13)

	// ---- readers
	nR := 0
	readerArm := func(f *ssa.Function, sel func(*Term) bool, visits int) {
		paths, complete := exec(c, f, nil, visits)
		if !complete {
			c.R.undecided(rule, "reader/"+shortFn(f)+"/paths", shortFn(f), c.fpos(f), "path enumeration completes", "too many paths")
			return
		}
		arms, order := dispatchArms(paths, sel)
		for _, label := range order {
			if label == "default" {
				continue
			}
			kind := shortLabel(label)
			ts := g.longest(f, arms[label])
			got := relString(ts, 0)
			nR++
			doc, known := documentedGrammar[kind]
			key := fmt.Sprintf("reader/%s/%s", shortFn(f), kind)
			if !known {
				c.R.undecided(rule, key, shortFn(f), c.fpos(f), "an arm for a documented block kind", "arm "+kind+" consumes ["+got+"]")
				continue
			}
			c.R.check(equalsDoc(got, doc), rule, key, shortFn(f), c.fpos(f), "consumes exactly ["+doc+"] (skip of 8 bytes ≡ one float64LE)", "["+got+"]")
		}
	}
	paramSel := func(i int) func(*Term) bool { return func(t *Term) bool { return t.isParam(i) } }
	if f := c.P.Func(pkgStore, "DecodeAndMergeWith"); f != nil {
		readerArm(f, paramSel(2), 2)
	}
	if pr := c.paginated(); pr.err == "" {
		if f := c.P.DeclaredMethod(pr.typ, "DecodeAndMergeWith"); f != nil {
			readerArm(f, paramSel(2), 2)
		}
	}
	if f := c.P.Func(pkgMapping, "Decode"); f != nil {
		readerArm(f, paramSel(1), 1)
	}
	for _, m := range []*ssa.Function{c.P.DeclaredMethod(a.DDSketch, "DecodeAndMergeWith"), c.P.DeclaredMethod(a.Exact, "DecodeAndMergeWith")} {
		if m != nil {
			for _, cl := range m.AnonFuncs {
				readerArm(cl, paramSel(1), 1)
			}
		}
	}
	// zero-count arm of the block loop
	if f := c.blockLoop(a); f != nil {
		paths, _ := exec(c, f, nil, 2)
		best := ""
		found := false
		for _, p := range paths {
			if p.RetNil(0) == -1 {
				continue
			}
			for _, cd := range p.Conds {
				t := cd.Term
				if !(t.isBin("==") && cd.Taken) {
					continue
				}
				isZ := func(x *Term) bool { return x.Op == "global" && strings.HasSuffix(x.Sym, ".FlagZeroCountVarFloat") }
				if !(isZ(t.Args[0]) || isZ(t.Args[1])) {
					continue
				}
				found = true
				// tokens between this test and the next DecodeFlag
				var ts []tok
				for _, tk := range g.pathTokens(f, p) {
					var seq int
					for _, e := range p.Effects {
						if e.Instr == ssa.Instruction(tk.call) && e.Seq > cd.Seq && seq == 0 {
							seq = e.Seq
						}
					}
					if seq == 0 {
						continue
					}
					if tk.kind == "flag" {
						break
					}
					ts = append(ts, tk)
				}
				s := relString(ts, 99)
				if len(s) >= len(best) {
					best = s
				}
			}
		}
		nR++
		c.R.check(found && equalsDoc(best, documentedGrammar["FlagZeroCountVarFloat"]), rule, "reader/"+shortFn(f)+"/FlagZeroCountVarFloat", shortFn(f), c.fpos(f), "consumes exactly ["+documentedGrammar["FlagZeroCountVarFloat"]+"]", "["+best+"]")
	}
	c.R.floor(rule, "reader arms", nR, 16)
	c.R.assume("documented payload grammars are transcribed from the doc comments of encoding/flag.go")
}

func keysOfS(m map[string]string) []string {
	var out []string
	for k := range m {
		out = append(out, k)
	}
	sort.Strings(out)
	return out
}
