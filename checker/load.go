package main

import (
	"fmt"
	"go/ast"
	"go/token"
	"go/types"
	"os"
	"sort"
	"strings"

	"golang.org/x/tools/go/packages"
	"golang.org/x/tools/go/ssa"
	"golang.org/x/tools/go/ssa/ssautil"
)

const modPath = "github.com/DataDog/sketches-go"

// Package paths (API level anchors: renaming them is an API break).
const (
	pkgSketch  = modPath + "/ddsketch"
	pkgStore   = modPath + "/ddsketch/store"
	pkgMapping = modPath + "/ddsketch/mapping"
	pkgEnc     = modPath + "/ddsketch/encoding"
	pkgStat    = modPath + "/ddsketch/stat"
	pkgPB      = modPath + "/ddsketch/pb/sketchpb"
	pkgDataset = modPath + "/dataset"
)

// Program is the type-checked, SSA-built view of /repo's working tree.
type Program struct {
	Fset  *token.FileSet
	Pkgs  map[string]*packages.Package // module packages by path
	SSA   *ssa.Program
	SPkgs map[string]*ssa.Package
	Arch  string
	// all source-level functions of the module (incl. anonymous ones), sorted by position
	Funcs []*ssa.Function
	// statistics
	NBlocks, NInstr, NCalls int
}

func loadProgram(repo, goarch string) (*Program, error) {
	env := append(os.Environ(), "GOFLAGS=-mod=mod", "GOPROXY=off", "GOSUMDB=off", "GOTOOLCHAIN=local", "GOWORK=off", "CGO_ENABLED=0")
	if goarch != "" {
		env = append(env, "GOARCH="+goarch)
	}
	cfg := &packages.Config{
		Mode:  packages.LoadAllSyntax,
		Dir:   repo,
		Tests: false,
		Env:   env,
	}
	pkgs, err := packages.Load(cfg, "./...")
	if err != nil {
		return nil, fmt.Errorf("packages.Load: %v", err)
	}
	if len(pkgs) == 0 {
		return nil, fmt.Errorf("no packages loaded from %s", repo)
	}
	var errs []string
	packages.Visit(pkgs, nil, func(p *packages.Package) {
		for _, e := range p.Errors {
			errs = append(errs, e.Error())
		}
	})
	if len(errs) > 0 {
		return nil, fmt.Errorf("load/type-check errors: %s", strings.Join(errs, "; "))
	}
	p := &Program{Pkgs: map[string]*packages.Package{}, SPkgs: map[string]*ssa.Package{}, Arch: goarch}
	p.Fset = pkgs[0].Fset
	prog, spkgs := ssautil.AllPackages(pkgs, ssa.InstantiateGenerics|ssa.SanityCheckFunctions)
	prog.Build()
	p.SSA = prog
	for i, pk := range pkgs {
		if !strings.HasPrefix(pk.PkgPath, modPath) {
			continue
		}
		p.Pkgs[pk.PkgPath] = pk
		p.SPkgs[pk.PkgPath] = spkgs[i]
	}
	for _, want := range []string{pkgSketch, pkgStore, pkgMapping, pkgEnc, pkgStat, pkgPB, pkgDataset} {
		if p.Pkgs[want] == nil || p.SPkgs[want] == nil {
			return nil, fmt.Errorf("package %s not found in %s", want, repo)
		}
	}
	// collect module functions
	seen := map[*ssa.Function]bool{}
	var add func(f *ssa.Function)
	add = func(f *ssa.Function) {
		if f == nil || seen[f] {
			return
		}
		seen[f] = true
		p.Funcs = append(p.Funcs, f)
		for _, a := range f.AnonFuncs {
			add(a)
		}
	}
	for _, sp := range p.SPkgs {
		for _, m := range sp.Members {
			switch m := m.(type) {
			case *ssa.Function:
				add(m)
			case *ssa.Type:
				for _, t := range []types.Type{m.Type(), types.NewPointer(m.Type())} {
					ms := prog.MethodSets.MethodSet(t)
					for i := 0; i < ms.Len(); i++ {
						fn := prog.MethodValue(ms.At(i))
						if fn != nil && fn.Synthetic == "" {
							add(fn)
						}
					}
				}
			}
		}
	}
	sort.Slice(p.Funcs, func(i, j int) bool {
		a, b := p.Funcs[i], p.Funcs[j]
		pa, pb := p.Fset.Position(a.Pos()), p.Fset.Position(b.Pos())
		if pa.Filename != pb.Filename {
			return pa.Filename < pb.Filename
		}
		if pa.Offset != pb.Offset {
			return pa.Offset < pb.Offset
		}
		return a.String() < b.String()
	})
	for _, f := range p.Funcs {
		p.NBlocks += len(f.Blocks)
		for _, b := range f.Blocks {
			p.NInstr += len(b.Instrs)
			for _, in := range b.Instrs {
				if _, ok := in.(ssa.CallInstruction); ok {
					p.NCalls++
				}
			}
		}
	}
	resolveAliases(p)
	return p, nil
}

// inModule reports whether fn is declared in the module under analysis.
func inModule(fn *ssa.Function) bool {
	if fn == nil {
		return false
	}
	if fn.Pkg != nil {
		return strings.HasPrefix(fn.Pkg.Pkg.Path(), modPath)
	}
	if o := fn.Object(); o != nil && o.Pkg() != nil {
		return strings.HasPrefix(o.Pkg().Path(), modPath)
	}
	if fn.Parent() != nil {
		return inModule(fn.Parent())
	}
	return false
}

// Func looks up a package-level function.
func (p *Program) Func(pkg, name string) *ssa.Function {
	sp := p.SPkgs[pkg]
	if sp == nil {
		return nil
	}
	for fn, a := range aliasOf {
		if a == name && fn.Pkg == sp && fn.Signature.Recv() == nil {
			return fn
		}
	}
	return sp.Func(name)
}

// NamedType looks up a named type of the module.
func (p *Program) NamedType(pkg, name string) *types.Named {
	pk := p.Pkgs[pkg]
	if pk == nil {
		return nil
	}
	o := pk.Types.Scope().Lookup(name)
	if o == nil {
		return nil
	}
	tn, ok := o.(*types.TypeName)
	if !ok {
		return nil
	}
	n, _ := tn.Type().(*types.Named)
	return n
}

// Method returns the method `name` in the method set of *T (pointer receiver set),
// which may be a synthetic promotion wrapper.
func (p *Program) Method(pkg, typ, name string) *ssa.Function {
	n := p.NamedType(pkg, typ)
	if n == nil {
		return nil
	}
	return p.MethodOf(n, name)
}

func (p *Program) MethodOf(n *types.Named, name string) *ssa.Function {
	ms := p.SSA.MethodSets.MethodSet(types.NewPointer(n))
	for i := 0; i < ms.Len(); i++ {
		if fn := p.SSA.MethodValue(ms.At(i)); fn != nil && aliasOf[underlyingOfWrapperOrSelf(fn)] == name {
			return fn
		}
	}
	for i := 0; i < ms.Len(); i++ {
		if ms.At(i).Obj().Name() == name {
			return p.SSA.MethodValue(ms.At(i))
		}
	}
	return nil
}

// DeclaredMethod returns method name only if it is declared directly on T or *T (not promoted).
func (p *Program) DeclaredMethod(n *types.Named, name string) *ssa.Function {
	for i := 0; i < n.NumMethods(); i++ {
		if fn := p.SSA.FuncValue(n.Method(i)); fn != nil && aliasOf[fn] == name {
			return fn
		}
	}
	for i := 0; i < n.NumMethods(); i++ {
		m := n.Method(i)
		if m.Name() == name {
			return p.SSA.FuncValue(m)
		}
	}
	return nil
}

// Global looks up a package-level variable.
func (p *Program) Global(pkg, name string) *ssa.Global {
	sp := p.SPkgs[pkg]
	if sp == nil {
		return nil
	}
	g, _ := sp.Members[name].(*ssa.Global)
	return g
}

// Implementations returns the named struct types of the module whose pointer type implements iface.
func (p *Program) Implementations(iface *types.Named) []*types.Named {
	it, ok := iface.Underlying().(*types.Interface)
	if !ok {
		return nil
	}
	var out []*types.Named
	for _, pk := range p.Pkgs {
		sc := pk.Types.Scope()
		for _, nm := range sc.Names() {
			tn, ok := sc.Lookup(nm).(*types.TypeName)
			if !ok || tn.IsAlias() {
				continue
			}
			n, ok := tn.Type().(*types.Named)
			if !ok || n == iface {
				continue
			}
			if _, isI := n.Underlying().(*types.Interface); isI {
				continue
			}
			if types.Implements(types.NewPointer(n), it) || types.Implements(n, it) {
				out = append(out, n)
			}
		}
	}
	sort.Slice(out, func(i, j int) bool { return out[i].String() < out[j].String() })
	return out
}

func (p *Program) pos(pos token.Pos) string {
	if !pos.IsValid() {
		return "-"
	}
	q := p.Fset.Position(pos)
	f := q.Filename
	if i := strings.Index(f, "/ddsketch/"); i >= 0 {
		f = f[i+1:]
	} else if i := strings.Index(f, "/dataset/"); i >= 0 {
		f = f[i+1:]
	}
	return fmt.Sprintf("%s:%d:%d", f, q.Line, q.Column)
}

// funcName is a stable, readable identity of a function (no positions).
func funcName(f *ssa.Function) string {
	if f == nil {
		return "<nil>"
	}
	s := f.String()
	if !inModule(f) && f.Origin() != nil {
		s = libName(f)
	}
	s = strings.ReplaceAll(s, modPath+"/", "")
	if a, ok := aliasOf[f]; ok && strings.HasSuffix(s, "."+f.Name()) {
		s = strings.TrimSuffix(s, f.Name()) + a
	}
	return s
}

// instrPos finds a usable position for an instruction (falls back to the function).
func instrPos(in ssa.Instruction) token.Pos {
	if in == nil {
		return token.NoPos
	}
	if in.Pos().IsValid() {
		return in.Pos()
	}
	if v, ok := in.(ssa.Value); ok {
		if rs := v.Referrers(); rs != nil {
			for _, r := range *rs {
				if r.Pos().IsValid() {
					return r.Pos()
				}
			}
		}
	}
	var ops []*ssa.Value
	ops = in.Operands(ops)
	for _, o := range ops {
		if o != nil && *o != nil && (*o).Pos().IsValid() {
			return (*o).Pos()
		}
	}
	if in.Parent() != nil {
		return in.Parent().Pos()
	}
	return token.NoPos
}

// funcDecl returns the syntax of a source function, if any.
func funcSyntax(f *ssa.Function) ast.Node { return f.Syntax() }

// structFields lists the fields of a named struct type.
func structFields(n *types.Named) []*types.Var {
	st, ok := n.Underlying().(*types.Struct)
	if !ok {
		return nil
	}
	var out []*types.Var
	for i := 0; i < st.NumFields(); i++ {
		out = append(out, st.Field(i))
	}
	return out
}
