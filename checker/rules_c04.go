package main

import (
	"fmt"
	"go/ast"
	"go/constant"
	"go/token"
	"go/types"
	"math"
	"sort"
	"strings"

	"golang.org/x/tools/go/ssa"
)

// C04 — non-collapsing stores behave as exact index→count maps (structural clauses only).

func init() {
	register("C04",
		"WEAK CLAIM — the core of the property (array shifting/centering, page allocation and buffer compaction as functions on counts) is numeric and NOT decided. DECIDED are structural necessary conditions: "+
			"D1 entry points agree in every store — Add(i) is AddWithCount(i, 1) (delegation in either direction or equal effects after substituting the weight), AddBin(b) has the effects of AddWithCount(b.index, b.count), AddWithCount(_, 0) writes nothing. "+
			"D2 cached-total coherence in the dense family — every path that adds a weight into the bin array adds the same term to the cached total; when a collapsing adjust folds bins, the range it sums equals the range it resets and the sum goes to the edge bin (or the whole cached total goes to the single remaining bin). "+
			"D3 iteration contract — in every ForEach each callback verdict immediately controls a return; the dense and paginated iterators skip empty entries; Bins() closes its channel on every exit; ForEach and Bins of the paginated store (twin implementations of the same merge of sorted buffer and pages) yield the same (index, count) terms under the same path conditions; a weight from outside (a method parameter, a decoded value) is written into the sparse store's map only under a dominating test that it is not zero (entries of another map, callback arguments of an iteration, products and non-zero constants are accepted as they are): every query takes a map entry for a bin; a loop that calls the iteration callback is left only by its range test or on the callback's verdict, never on a comparison of weights. "+
			"D4 MinIndex/MaxIndex of the dense family and the sparse store return the undefined-index error exactly on the emptiness edge; the sparse store's extremes are folds from the opposite end of the int range that replace the running value exactly when a key lies beyond it, its total is a running sum from 0; the paginated store's extremes read slots of the page table only inside it (by the form of the page number or a taken test), scan every page from its first (MinIndex) resp. last (MaxIndex) line, read every line inside its page (0 ≤ line ≤ len(page) − 1, from the path's comparisons plus: a non-empty page has 1 << log2 lines, x & mask is a line number), leave the table only after its last page, and compare the page number with the page of the buffered extreme non-strictly. "+
			"D5 window loops of the dense read paths (ForEach, Bins, Encode, encodeSparsely) cover minIndex…maxIndex inclusive (ToProto/EncodeProto/encodeDensely/Reweight are checked by C09/C06/C16). "+
			"D6 the window-moving primitives of the dense store as linear forms — shiftCounts copies bins[min−off … max−off] to +shift, resets exactly the vacated slots for either sign of the shift and updates offset −= shift; resetBins zeroes bins[from−off … to−off]; centerCounts stores the new window and shifts by offset + len/2 − (newMin + (newMax−newMin+1)/2); truncating integer division is only applied to widths and lengths. "+
			"D9 page table of the paginated store — the slice of pages and the index of its first page are written only by the page accessor (resolved by role, with the helpers split off it), by Clear, or into a fresh object; elements of a page obtained from the accessor are touched only on paths that created the page (ensureExists is the constant true) or established by its length that it is not empty (Clear keeps emptied slots: a nil test is not enough); a slot pages[x − first] is computed from the table and its first page index of the same moment (no call whose write set reaches the table on a way between the two reads — the accessor re-bases the table when it grows to the left); and when an element page(P)[x & mask] is touched with P computed from that same x, P is x >> log2 (a division rounds the other way for negative indexes) or the path has compared the page of x with P; a walk over the table turns a slot number into a page number by adding the first page index before any other arithmetic. "+
			"SHARED (obligations of other properties that decide clauses this property states too, re-evaluated here under their home rule ids): for DenseStore, SparseStore and BufferedPaginatedStore only — C05-D8 for DenseStore.extendRange (the new window contains the requested range and, on a non-empty store, the old window: bounds are min / max of requested and current). C01-D3 as C04-D7 (rank lookup: first index whose cumulative weight strictly exceeds the rank, buffer sorted first), C02-D2/D3/D4 (merge from any store kind, argument neither written nor captured, cached total and window follow), C14-D2 (Copy defines every field, deep), C15-D1 (Clear covers every written field), C16-D2 (Reweight scales everything held). C13-D3 for the stores' Reweight (a factor ≤ 0 is refused with nothing written: no weightless bins are left behind). C14-D6 for the stores (a protobuf message taken from a store shares no memory with it). C09-D3 for the MergeWithProto loops (every bin of a message is added at its own index). C06-D1 for the store encoders and decoders (writer and reader of each bin layout agree on the width of every field), C06-D2 (every delta read is accumulated), C08-D4 (exactly the announced number of items is read). "+
			"NOT DECIDED: that weights are never lost, duplicated or misattributed by normalize/extendRange/shiftCounts/page()/compact() — value statements about counts.",
		"one obligation per store × entry point, per fold site, per callback call site, per window loop, per twin path",
		false, runC04)
}

func runC04(c *Ctx) {
	storeI := c.P.NamedType(pkgStore, "Store")
	if storeI == nil {
		c.R.undecided("C04", "anchor/store.Store", "", "", "interface exists", "unresolved")
		return
	}
	impls := c.P.Implementations(storeI)
	c04Entry(c, impls)
	c04Total(c, impls)
	c04Iteration(c, impls, "C04-D3")
	c04Extremes(c, impls)
	c04SparseFolds(c, "C04-D4")
	c04SparseEntries(c, "C04-D3")
	c04Windows(c)
	c04Shift(c, "C04-D6")
	c04Normalize(c, "C04-D6")
	// extending the dense window keeps the requested range and the old window inside the new one
	c.shared(func() { c05ExtendPost(c) }, keyMentions("DenseStore.extendRange"))
	c05Halving(c, "C04-D6")
	// the property also speaks of rank lookups, merges from any store kind, copies, clears and reweightings of the
	// three non-collapsing stores: the obligations that decide those clauses live with C01, C02, C14, C15 and C16
	// and are re-evaluated here for these three types only
	a, err := c.anchors()
	pr := c.paginated()
	if err != nil || pr.err != "" {
		return
	}
	c04PaginatedEmptiness(c, pr)
	c04PageTable(c, pr, "C04-D9")
	c04PageUse(c, pr, "C04-D9")
	c04PaginatedExtremes(c, pr, "C04-D4")
	if pr.sortFlag != "" {
		c.shared(func() { c14SortFlag(c, pr) }, func(o *Obligation) bool { return true })
	}
	mine := keyMentions("DenseStore", "SparseStore", "BufferedPaginatedStore")
	notCollapsing := func(o *Obligation) bool {
		return mine(o) && !strings.Contains(o.Key, "Collapsing") && !strings.Contains(o.Func, "Collapsing")
	}
	c01KeyAtRank(c, a, "C04-D7")
	c.shared(func() { c02AnyKind(c, a) }, notCollapsing)
	c.shared(func() { c02ArgUntouched(c, a, "C02-D2") }, notCollapsing)
	c.shared(func() { c14Copies(c, a) }, notCollapsing)
	c.shared(func() { c16Stores(c, a) }, notCollapsing)
	// … and refuses the factors that would leave weightless bins behind: every store's Reweight has the same decision
	// table (w ≤ 0 → error and nothing written)
	c.shared(func() { c13Reweight(c, a) }, func(o *Obligation) bool { return notCollapsing(o) && strings.Contains(o.Key, "/store.") })
	// additions "as bins" also arrive through protobuf messages: the rebuild loops add every bin at its own index
	c.shared(func() { c09Rebuild(c, a) }, keyMentions("MergeWithProto"))
	// … and a message taken from a store is a snapshot: it shares no memory with the store (a later addition or a
	// Clear-and-reuse of the store must not show through a message that is merged afterwards)
	c.shared(func() { c14Detached(c, "C14-D6") }, keyMentions("Store"))
	// … and through the binary encoding: the store encoders and decoders agree on the layout of each bin block (width of
	// every field), every reader accumulates every delta it reads, and reads exactly the announced number of items
	c.shared(func() { wireGrammarRules(c, a, "C06-D1") }, keyMentions("ddsketch/store."))
	c.shared(func() { c06Deltas(c, a) }, func(o *Obligation) bool { return true })
	c.shared(func() { c08ItemLoops(c, a) }, func(o *Obligation) bool { return true })
	dense := c.P.NamedType(pkgStore, "DenseStore")
	for _, t := range impls {
		if n := t.Obj().Name(); n == "DenseStore" || n == "SparseStore" || t == pr.typ {
			c.shared(func() { c15ClearCovers(c, t, dense, pr) }, notCollapsing)
		}
	}
}

func isBinPart(t *Term, part string) bool {
	// field:index(param:1) or call (Bin).Index(param:1)
	if t == nil {
		return false
	}
	if t.Op == "field" && t.Sym == part && t.Args[0].isParam(1) {
		return true
	}
	name := strings.ToUpper(part[:1]) + part[1:]
	return t.Op == "call" && strings.HasSuffix(t.Sym, "Bin)."+name) && t.Args[0].isParam(1)
}

func c04Entry(c *Ctx, impls []*types.Named) {
	const rule = "C04-D1"
	n := 0
	for _, t := range impls {
		tname := t.Obj().Name()
		add, awc, addBin := c.P.DeclaredMethod(t, "Add"), c.P.DeclaredMethod(t, "AddWithCount"), c.P.DeclaredMethod(t, "AddBin")
		if add == nil || awc == nil || addBin == nil {
			c.R.violate(rule, tname+"/declares-entry-points", tname, "", "Add, AddWithCount and AddBin are declared on the store type itself", fmt.Sprintf("Add=%v AddWithCount=%v AddBin=%v", add != nil, awc != nil, addBin != nil))
			continue
		}
		n++
		dom := mkDomain(paramScalar("count", 2, 2, constPoints("0", "1")))
		wp, _ := exec(c, awc, dom, 1)
		// AddWithCount(_, 0): no write
		bad := ""
		zero := pathsInClass(wp, "count", classOfPoint(0))
		for _, p := range zero {
			if len(p.Writes()) > 0 {
				bad = "weight 0 writes: " + describeWrites(p)
			}
		}
		if len(zero) == 0 {
			bad = "no path for weight 0"
		}
		c.R.check(bad == "", rule, tname+".AddWithCount/zero-weight-noop", shortFn(awc), c.fpos(awc), "AddWithCount(i, 0) changes nothing", firstNonEmpty(bad, fmt.Sprintf("%d path(s)", len(zero))))
		// Add ≡ AddWithCount(i, 1)
		ap, _ := exec(c, add, nil, 1)
		okAdd := false
		how := ""
		if len(ap) == 1 {
			ws := ap[0].Writes()
			if len(ws) == 1 && ws[0].Kind == "call" && isMethodCall(ws[0].Call, "AddWithCount") && ws[0].Call.Args[0].isRecv() && ws[0].Call.Args[1].isParam(1) && ws[0].Call.Args[2].isConst("1") && strings.Contains(ws[0].Call.Sym, "."+tname+")") {
				okAdd, how = true, "Add delegates to AddWithCount(i, 1)"
			}
		}
		if !okAdd {
			// the other direction: AddWithCount(count == 1) delegates to Add
			for _, p := range pathsInClass(wp, "count", classOfPoint(1)) {
				ws := p.Writes()
				if len(ws) == 1 && ws[0].Kind == "call" && isMethodCall(ws[0].Call, "Add") && ws[0].Call.Args[0].isRecv() && ws[0].Call.Args[1].isParam(1) && strings.Contains(ws[0].Call.Sym, "."+tname+")") {
					okAdd, how = true, "AddWithCount(i, 1) delegates to Add"
				}
			}
		}
		if !okAdd {
			// equal effects after substituting weight := 1
			for _, wpth := range pathsInClass(wp, "count", classOfPoint(1)) {
				for _, a := range ap {
					if effectsEqualSubst(a.Writes(), wpth.Writes()) {
						okAdd, how = true, "Add has the effects of AddWithCount with weight 1"
					}
				}
			}
		}
		c.R.check(okAdd, rule, tname+".Add/is-AddWithCount-1", shortFn(add), c.fpos(add), "Add(i) ≡ AddWithCount(i, 1)", firstNonEmpty(how, "neither delegation nor equal effects"))
		// AddBin
		bp, _ := exec(c, addBin, nil, 1)
		okBin := len(bp) > 0
		nDeleg := 0
		foundB := ""
		for _, p := range bp {
			ws := p.Writes()
			switch {
			case len(ws) == 0:
				// allowed only under count == 0
				taken, found := pathCond(p, func(t *Term) bool {
					return t.isBin("==") && (isBinPart(t.Args[0], "count") && t.Args[1].isConst("0") || isBinPart(t.Args[1], "count") && t.Args[0].isConst("0"))
				})
				if !(found && taken) {
					okBin = false
					foundB = "path without effect that is not the zero-weight shortcut"
				}
			case len(ws) == 1 && ws[0].Kind == "call" && isMethodCall(ws[0].Call, "AddWithCount") && ws[0].Call.Args[0].isRecv() && isBinPart(ws[0].Call.Args[1], "index") && isBinPart(ws[0].Call.Args[2], "count") && strings.Contains(ws[0].Call.Sym, "."+tname+")"):
				nDeleg++
			default:
				okBin = false
				foundB = describeWrites(p)
			}
		}
		c.R.check(okBin && nDeleg > 0, rule, tname+".AddBin/is-AddWithCount", shortFn(addBin), c.fpos(addBin), "AddBin(b) ≡ "+tname+".AddWithCount(b.index, b.count)", firstNonEmpty(foundB, fmt.Sprintf("%d delegating path(s)", nDeleg)))
	}
	c.R.floor(rule, "stores with entry points", n, 5)
}

// effectsEqualSubst: effects a (of Add) equal effects w (of AddWithCount) with param:2 := 1.
func effectsEqualSubst(a, w []Effect) bool {
	if len(a) != len(w) || len(a) == 0 {
		return false
	}
	var sub func(t *Term) *Term
	sub = func(t *Term) *Term {
		if t == nil {
			return nil
		}
		if t.isParam(2) {
			return mk("const", "1", nil)
		}
		n := &Term{Op: t.Op, Sym: t.Sym, V: t.V}
		for _, x := range t.Args {
			n.Args = append(n.Args, sub(x))
		}
		return n
	}
	eq := func(x, y *Term) bool {
		if x == nil || y == nil {
			return x == y
		}
		return canonSym(sub(x)) == canonSym(y)
	}
	for i := range a {
		if a[i].Kind != w[i].Kind {
			return false
		}
		if !eq(w[i].Addr, a[i].Addr) || !eq(w[i].Key, a[i].Key) || !eq(w[i].Val, a[i].Val) || !eq(w[i].Call, a[i].Call) {
			return false
		}
	}
	return true
}

func c04Total(c *Ctx, impls []*types.Named) {
	const rule = "C04-D2"
	n := 0
	for _, t := range impls {
		cnt := denseCountField(c, t)
		if cnt == nil {
			continue
		}
		tname := t.Obj().Name()
		awc := c.P.DeclaredMethod(t, "AddWithCount")
		if awc == nil {
			continue
		}
		n++
		dom := mkDomain(paramScalar("count", 2, 1, constPoints("0")))
		paths, _ := exec(c, awc, dom, 1)
		bad := ""
		nAdd := 0
		for _, p := range paths {
			var binAdd, totAdd *Term
			for _, e := range p.Effects {
				if e.Kind == "store" && e.Addr.Op == "index" && e.Val.isBin("+") {
					for i := 0; i < 2; i++ {
						if e.Val.Args[i].Key() == e.Addr.Key() {
							binAdd = e.Val.Args[1-i]
						}
					}
				}
				if e.Kind == "store" && termIsRecvPath(e.Addr, cnt) && e.Val.isBin("+") {
					for i := 0; i < 2; i++ {
						if termIsRecvPath(e.Val.Args[i], cnt) {
							totAdd = e.Val.Args[1-i]
						}
					}
				}
			}
			if binAdd == nil && totAdd == nil {
				continue
			}
			nAdd++
			if binAdd == nil || totAdd == nil || binAdd.Key() != totAdd.Key() || !binAdd.isParam(2) {
				bad = fmt.Sprintf("bin += %v but cached total += %v", binAdd, totAdd)
			}
		}
		c.R.check(bad == "" && nAdd > 0, rule, tname+".AddWithCount/total-follows", shortFn(awc), c.fpos(awc), "the weight added to a bin is added to the cached total on the same path", firstNonEmpty(bad, fmt.Sprintf("%d adding path(s)", nAdd)))
		// collapsing adjust: fold sites
		adj := c.P.DeclaredMethod(t, "adjust")
		if adj == nil || t.Obj().Name() == "DenseStore" {
			continue
		}
		c04Fold(c, rule, t, adj, cnt)
	}
	c.R.floor(rule, "dense-family stores", n, 3)
}

// c04Fold: in a collapsing adjust, the summed range equals the reset range and the sum lands in one bin.
func c04Fold(c *Ctx, rule string, t *types.Named, adj *ssa.Function, cnt []string) {
	tname := t.Obj().Name()
	tc := newTermCtx(c.P)
	// the summing loop: a counting loop whose body accumulates bins[i - offset] into a float φ
	var sumFirst, sumLast *Linear
	for _, l := range countingLoops(c.P, adj) {
		for b := range l.Blocks {
			for _, in := range b.Instrs {
				bo, ok := in.(*ssa.BinOp)
				if !ok || bo.Op.String() != "+" || !isFloat(bo.Type()) {
					continue
				}
				for _, v := range []ssa.Value{bo.X, bo.Y} {
					e := tc.Of(v)
					if e.Op == "index" {
						if f, la, ok := elementRange(l, e.Args[1]); ok {
							sumFirst, sumLast = f, la
						}
					}
				}
			}
		}
	}
	// the reset call: resetBins(from, to) resets elements from−offset … to−offset
	var rFrom, rTo *Term
	edgeAdd, single := false, false
	for _, b := range adj.Blocks {
		for _, in := range b.Instrs {
			switch in := in.(type) {
			case *ssa.Call:
				tt := tc.Of(in)
				if isMethodCall(tt, "resetBins") && len(tt.Args) == 3 {
					rFrom, rTo = tt.Args[1], tt.Args[2]
				}
			case *ssa.Store:
				at, vt := tc.Of(in.Addr), tc.Of(in.Val)
				if at.Op == "index" && vt.isBin("+") && (vt.Args[0].Op == "phi" || vt.Args[1].Op == "phi") {
					edgeAdd = true // bins[edge] += n
				}
				if at.Op == "index" && termIsRecvPath(vt, cnt) {
					single = true // bins[edge] = count (only one bucket remains)
				}
			}
		}
	}
	// the same transfer in one pass: the summing loop itself zeroes the very element it has just added
	inPlace := false
	if rFrom == nil {
		for _, l := range countingLoops(c.P, adj) {
			var summed, zeroed *Term
			for b := range l.Blocks {
				for _, in := range b.Instrs {
					switch in := in.(type) {
					case *ssa.BinOp:
						if in.Op.String() == "+" && isFloat(in.Type()) {
							for _, v := range []ssa.Value{in.X, in.Y} {
								if e := tc.Of(v); e.Op == "index" {
									summed = e
								}
							}
						}
					case *ssa.Store:
						if at := tc.Of(in.Addr); at.Op == "index" && tc.Of(in.Val).isConst("0") {
							zeroed = at
						}
					}
				}
			}
			if summed != nil && zeroed != nil && summed.Key() == zeroed.Key() {
				inPlace = true
			}
		}
	}
	if inPlace && sumFirst != nil {
		c.R.check(edgeAdd, rule, tname+".adjust/fold-range", shortFn(adj), c.fpos(adj), "the bins summed into the edge bin are exactly the bins that are then reset (here: each summed element is zeroed in the same pass)", fmt.Sprintf("summed and zeroed in place; edge += sum: %v", edgeAdd))
		c.R.check(single, rule, tname+".adjust/single-bucket", shortFn(adj), c.fpos(adj), "when only one bucket remains it receives the whole cached total", "")
		return
	}
	ok := sumFirst != nil && rFrom != nil
	found := "no fold loop / reset call found"
	if ok {
		off := mk("field", dr.offset, nil, mk("field", cnt[0], nil, mk("param", "0", nil)))
		if len(cnt) == 1 {
			off = mk("field", dr.offset, nil, mk("param", "0", nil))
		}
		wantFirst := linCombine(linearOf(rFrom), linearOf(off), -1)
		wantLast := linCombine(linearOf(rTo), linearOf(off), -1)
		ok = linCombineKey(sumFirst, wantFirst) && linCombineKey(sumLast, wantLast)
		found = fmt.Sprintf("summed elements %s … %s; reset %s … %s", sumFirst.Key(), sumLast.Key(), wantFirst.Key(), wantLast.Key())
	}
	c.R.check(ok && edgeAdd, rule, tname+".adjust/fold-range", shortFn(adj), c.fpos(adj), "the bins summed into the edge bin are exactly the bins that are then reset (weight is transferred, not lost or duplicated)", found+fmt.Sprintf("; edge += sum: %v", edgeAdd))
	c.R.check(single, rule, tname+".adjust/single-bucket", shortFn(adj), c.fpos(adj), "when only one bucket remains it receives the whole cached total", "")
}

func c04Iteration(c *Ctx, impls []*types.Named, rule string) {
	seen := map[*ssa.Function]bool{}
	n := 0
	for _, t := range impls {
		fe := c.P.MethodOf(t, "ForEach")
		if fe != nil && fe.Synthetic != "" {
			fe = underlyingOfWrapper(fe)
		}
		if fe == nil || seen[fe] {
			continue
		}
		seen[fe] = true
		n++
		name := funcName(fe)
		// the walk may live in a helper the rules do not know, to which ForEach hands its callback as it is (a walk
		// shared with Bins): the obligations are the helper's then
		cbParam := ssa.Value(fe.Params[1])
		if w, k := walkDelegate(fe, 1); w != nil {
			fe, cbParam = w, ssa.Value(w.Params[k])
		}
		// the walk ends when its range is exhausted or the callback asks to stop — on nothing else: a loop around a
		// callback call is never left on a test of weights (a running total "used up" stops early when a heavy bin
		// has absorbed the light ones in floating point)
		{
			badExit := ""
			for _, l := range naturalLoops(fe) {
				hasCB := false
				for b := range l.body {
					for _, in := range b.Instrs {
						if call, ok := in.(*ssa.Call); ok && call.Common().Value == cbParam {
							hasCB = true
						}
					}
				}
				if !hasCB {
					continue
				}
				for b := range l.body {
					iff, ok := b.Instrs[len(b.Instrs)-1].(*ssa.If)
					if !ok {
						continue
					}
					exits := false
					for _, sc := range b.Succs {
						if !l.body[sc] {
							exits = true
						}
					}
					if !exits {
						continue
					}
					if bo, ok := iff.Cond.(*ssa.BinOp); ok {
						isFloat := func(v ssa.Value) bool {
							bt, ok := v.Type().Underlying().(*types.Basic)
							return ok && bt.Info()&types.IsFloat != 0
						}
						if isFloat(bo.X) || isFloat(bo.Y) {
							badExit = "the iteration is left on a comparison of weights at " + c.ipos(iff)
						}
					}
				}
			}
			c.R.check(badExit == "", rule, name+"/ends-only-when-exhausted-or-stopped", name, c.fpos(fe), "a loop that calls the callback is left only by its range test or on the callback's verdict, never on a test of weights", firstNonEmpty(badExit, "ok"))
		}
		nth := 0
		for _, b := range fe.Blocks {
			for _, in := range b.Instrs {
				call, ok := in.(*ssa.Call)
				if !ok || call.Common().Value != cbParam {
					continue
				}
				nth++
				okCtl := false
				for _, r := range *call.Referrers() {
					if iff, ok := r.(*ssa.If); ok {
						// true edge returns
						tb := iff.Block().Succs[0]
						for hops := 0; hops < 3 && tb != nil; hops++ {
							if _, isRet := tb.Instrs[len(tb.Instrs)-1].(*ssa.Return); isRet && len(tb.Instrs) == 1 {
								okCtl = true
								break
							}
							if j, isJ := tb.Instrs[len(tb.Instrs)-1].(*ssa.Jump); isJ && len(tb.Instrs) == 1 {
								_ = j
								tb = tb.Succs[0]
								continue
							}
							break
						}
					}
				}
				c.R.check(okCtl, rule, fmt.Sprintf("%s/callback#%d/stop-honoured", name, nth), name, c.ipos(call), "a true verdict of the callback returns immediately", "")
			}
		}
		c.R.floor(rule, name+" callback call sites", nth, 1)
		// empty entries skipped (dense, paginated: arrays hold zeros)
		if t.Obj().Name() != "SparseStore" {
			paths, _ := exec(c, fe, nil, 2)
			bad := ""
			for _, p := range paths {
				for _, e := range p.Effects {
					if e.Kind != "call" || e.Call.Op != "dyncall" || len(e.Call.Args) != 3 {
						continue
					}
					cnt := e.Call.Args[2]
					// count taken from an array element must have been tested non-zero/positive on the path
					var elem *Term
					cnt.walk(func(x *Term) bool {
						if x.Op == "index" && elem == nil { // the count argument: any array element in it is a weight
							elem = x
						}
						return true
					})
					if elem == nil {
						continue
					}
					tested := false
					for _, cd := range p.Conds {
						if cd.Seq > e.Seq {
							continue
						}
						tm := cd.Term
						if tm.Op == "bin" && (tm.Args[0].Key() == elem.Key() && tm.Args[1].isConst("0") || tm.Args[1].Key() == elem.Key() && tm.Args[0].isConst("0")) {
							if tm.Sym == "<" && tm.Args[0].isConst("0") && cd.Taken || tm.Sym == "==" && !cd.Taken || tm.Sym == "!=" && cd.Taken {
								tested = true
							}
						}
					}
					if !tested {
						bad = "an array entry is yielded without having been tested non-empty: " + e.Call.Key()
					}
				}
			}
			c.R.check(bad == "", rule, name+"/skips-empty", name, c.fpos(fe), "only non-empty array entries are yielded", firstNonEmpty(bad, fmt.Sprintf("%d path(s)", len(paths))))
		}
	}
	c.R.floor(rule, "ForEach bodies", n, 3)
	// Bins closes its channel
	seenB := map[*ssa.Function]bool{}
	for _, t := range impls {
		bf := c.P.MethodOf(t, "Bins")
		if bf != nil && bf.Synthetic != "" {
			bf = underlyingOfWrapper(bf)
		}
		if bf == nil || seenB[bf] {
			continue
		}
		seenB[bf] = true
		closes := false
		for _, g := range bf.AnonFuncs {
			for _, b := range g.Blocks {
				for _, in := range b.Instrs {
					if d, ok := in.(*ssa.Defer); ok {
						if bi, ok := d.Common().Value.(*ssa.Builtin); ok && bi.Name() == "close" {
							closes = true
						}
					}
				}
			}
		}
		c.R.check(closes, rule, funcName(bf)+"/closes-channel", funcName(bf), c.fpos(bf), "the producer goroutine defers close(ch), so the channel is closed on every exit", "")
		// the producer sends only non-empty array entries (same obligation as ForEach/skips-empty)
		if t.Obj().Name() != "SparseStore" {
			for _, g := range bf.AnonFuncs {
				paths, _ := exec(c, g, nil, 2)
				bad := ""
				nSend := 0
				for _, p := range paths {
					var cnt *Term
					for _, e := range p.Effects {
						if e.Kind == "store" && e.Addr.Op == "field" && isFloatField(e.Addr) {
							cnt = e.Val
						}
						if e.Kind != "send" || cnt == nil {
							continue
						}
						nSend++
						var elem *Term
						cnt.walk(func(x *Term) bool {
							if x.Op == "index" && elem == nil {
								elem = x
							}
							return true
						})
						if elem != nil {
							tested := false
							for _, cd := range p.Conds {
								if cd.Seq > e.Seq {
									continue
								}
								tm := cd.Term
								if tm.Op == "bin" && (tm.Args[0].Key() == elem.Key() && tm.Args[1].isConst("0") || tm.Args[1].Key() == elem.Key() && tm.Args[0].isConst("0")) {
									if tm.Sym == "<" && tm.Args[0].isConst("0") && cd.Taken || tm.Sym == "==" && !cd.Taken || tm.Sym == "!=" && cd.Taken {
										tested = true
									}
								}
							}
							if !tested {
								bad = "an array entry is sent without having been tested non-empty: " + shorten(elem.Key(), 100)
							}
						}
						cnt = nil
					}
				}
				if nSend > 0 {
					c.R.check(bad == "", rule, funcName(g)+"/skips-empty", funcName(g), c.fpos(g), "only non-empty array entries are sent", firstNonEmpty(bad, fmt.Sprintf("%d send(s) on the enumerated paths", nSend)))
				}
			}
		}
	}
	// twins: paginated ForEach vs Bins
	if pr := c.paginated(); pr.err == "" {
		fe, bf := c.P.DeclaredMethod(pr.typ, "ForEach"), c.P.DeclaredMethod(pr.typ, "Bins")
		// one shared walk: ForEach hands its callback to a helper, and the producer of Bins calls the same helper with
		// a callback that sends Bin{index, count} for what it is given and never stops — the two agree by construction
		sharedWalk := false
		if fe != nil && bf != nil && len(bf.AnonFuncs) == 1 {
			if w, _ := walkDelegate(fe, 1); w != nil {
				prod := bf.AnonFuncs[0]
				for _, b := range prod.Blocks {
					for _, in := range b.Instrs {
						call, ok := in.(*ssa.Call)
						if !ok || call.Common().Value != ssa.Value(w) {
							continue
						}
						for _, arg := range call.Common().Args {
							mc, ok := arg.(*ssa.MakeClosure)
							if !ok {
								continue
							}
							cb := mc.Fn.(*ssa.Function)
							cps, _ := execPlain(c, cb, nil, 1)
							okCB := len(cps) == 1 && len(cb.Params) == 2
							if okCB {
								p := cps[0]
								var idx, cnt *Term
								sends := 0
								for _, e := range p.Effects {
									if e.Kind == "store" && e.Addr.Op == "field" && e.Addr.Sym == "index" {
										idx = e.Val
									}
									if e.Kind == "store" && e.Addr.Op == "field" && e.Addr.Sym == "count" {
										cnt = e.Val
									}
									if e.Kind == "send" {
										sends++
									}
								}
								okCB = sends == 1 && idx != nil && cnt != nil && idx.isParam(0) && cnt.isParam(1) && len(p.RetT) == 1 && p.RetT[0].isConst("false")
							}
							sharedWalk = okCB
						}
					}
				}
			}
		}
		if sharedWalk {
			c.R.okay(rule, "BufferedPaginatedStore/ForEach-vs-Bins", funcName(fe), c.fpos(fe), "the two iterators over (sorted buffer ⊕ pages) yield the same (index, count) terms under the same path conditions", "one shared walk; the producer sends what it is given and never stops")
			// … and the walk merges the pages with the buffer IN ORDER: each iterator sorts the buffer before the walk (in
			// the iterator itself, or first thing in the shared walk)
			w, _ := walkDelegate(fe, 1)
			sorts := func(f *ssa.Function) bool {
				if f == nil || len(f.Blocks) == 0 {
					return false
				}
				for _, b := range f.Blocks {
					for _, in := range b.Instrs {
						if call, ok := in.(*ssa.Call); ok && pr.isSortCall(newTermCtx(c.P), call) {
							return b == f.Blocks[0] || b.Dominates(f.Blocks[len(f.Blocks)-1]) || len(b.Preds) <= 1
						}
					}
				}
				return false
			}
			sf, sb := sorts(fe) || sorts(w), sorts(bf) || sorts(bf.AnonFuncs[0]) || sorts(w)
			c.R.check(sf && sb, rule, "BufferedPaginatedStore/iterators-sort-first", funcName(bf), c.fpos(bf), "ForEach and Bins sort the buffer before merging it with the pages", fmt.Sprintf("ForEach sorts=%v Bins sorts=%v (shared walk)", sf, sb))
		}
		if fe != nil && bf != nil && len(bf.AnonFuncs) == 1 && !sharedWalk {
			condSig := func(p *Path, skip func(t *Term) bool) string {
				var parts []string
				for _, cd := range p.Conds {
					if skip != nil && skip(cd.Term) {
						continue
					}
					// "is the buffer sorted already?" in front of the sort is part of sorting, not of the walk
					if cd.Term.Op == "call" && (cd.Term.Sym == "sort.IntsAreSorted" || cd.Term.Sym == "slices.IsSorted") {
						continue
					}
					s := normTwin(cd.Term.Key())
					if !cd.Taken {
						s = "!" + s
					}
					parts = append(parts, s)
				}
				return strings.Join(parts, "&")
			}
			a := map[string]int{}
			fpaths, _ := exec(c, fe, nil, 2)
			for _, p := range fpaths {
				stopped := false
				for _, cd := range p.Conds {
					if cd.Term.Op == "dyncall" && cd.Taken {
						stopped = true
					}
				}
				if stopped {
					continue // early return on the callback's request: no counterpart in Bins
				}
				var parts []string
				for _, e := range p.Effects {
					if e.Kind == "call" && e.Call.Op == "dyncall" && len(e.Call.Args) == 3 {
						parts = append(parts, normTwin(e.Call.Args[1].Key())+"→"+normTwin(e.Call.Args[2].Key()))
					}
				}
				a[condSig(p, func(t *Term) bool { return t.Op == "dyncall" })+"|"+strings.Join(parts, ";")]++
			}
			b := map[string]int{}
			bpaths, _ := exec(c, bf.AnonFuncs[0], nil, 2)
			for _, p := range bpaths {
				var parts []string
				var idx, cnt *Term
				for _, e := range p.Effects {
					if e.Kind == "store" && e.Addr.Op == "field" && e.Addr.Sym == "index" {
						idx = e.Val
					}
					if e.Kind == "store" && e.Addr.Op == "field" && e.Addr.Sym == "count" {
						cnt = e.Val
					}
					if e.Kind == "send" && idx != nil && cnt != nil {
						parts = append(parts, normTwin(idx.Key())+"→"+normTwin(cnt.Key()))
						idx, cnt = nil, nil
					}
				}
				b[condSig(p, nil)+"|"+strings.Join(parts, ";")]++
			}
			var diff []string
			for k := range a {
				if b[k] == 0 {
					diff = append(diff, "ForEach only: "+k)
				}
			}
			for k := range b {
				if a[k] == 0 {
					diff = append(diff, "Bins only: "+k)
				}
			}
			sort.Strings(diff)
			if len(diff) > 3 {
				diff = diff[:3]
			}
			c.R.check(len(diff) == 0 && len(a) > 3, rule, "BufferedPaginatedStore/ForEach-vs-Bins", funcName(fe), c.fpos(fe), "the two iterators over (sorted buffer ⊕ pages) yield the same (index, count) terms under the same path conditions", firstNonEmpty(strings.Join(diff, " | "), fmt.Sprintf("%d path signatures agree", len(a))))
			// both walk the buffer in merge order with the pages: both sort it first (in the function itself, before the
			// walk starts — for Bins before the producer goroutine is started)
			sortsFirst := func(f *ssa.Function) bool {
				if len(f.Blocks) == 0 {
					return false
				}
				for _, b := range f.Blocks {
					for _, in := range b.Instrs {
						if call, ok := in.(*ssa.Call); ok && pr.isSortCall(newTermCtx(c.P), call) {
							return b == f.Blocks[0] || b.Dominates(f.Blocks[len(f.Blocks)-1]) || len(b.Preds) <= 1
						}
					}
				}
				return false
			}
			sf, sb := sortsFirst(fe), sortsFirst(bf)
			c.R.check(sf && sb, rule, "BufferedPaginatedStore/iterators-sort-first", funcName(bf), c.fpos(bf), "ForEach and Bins sort the buffer before merging it with the pages", fmt.Sprintf("ForEach sorts=%v Bins sorts=%v", sf, sb))
		}
	}
}

func isFloatTerm(t *Term) bool { return t.V != nil && isFloat(t.V.Type()) }

// normTwin: make term keys of the two twin functions comparable: the receiver is param:0 in ForEach and a captured variable in the goroutine of Bins.
func normTwin(s string) string {
	s = strings.ReplaceAll(s, "oparam:0", "param:0")
	// SSA value names inside φ keys differ between the two functions: drop them
	for {
		i := strings.Index(s, "phi:")
		if i < 0 {
			break
		}
		j := i
		for j < len(s) && s[j] != ')' && s[j] != ',' && s[j] != '(' {
			j++
		}
		// keep going to the end of the "@function" part
		k := strings.Index(s[i:], "@")
		if k < 0 {
			break
		}
		end := i + k
		for end < len(s) && s[end] != ',' && !(s[end] == ')' && strings.Count(s[i:end+1], "(") < strings.Count(s[i:end+1], ")")) {
			end++
		}
		s = s[:i] + "PHI" + s[end:]
		_ = j
	}
	return s
}

func c04Extremes(c *Ctx, impls []*types.Named) {
	const rule = "C04-D4"
	seen := map[*ssa.Function]bool{}
	n := 0
	for _, t := range impls {
		if t.Obj().Name() == "BufferedPaginatedStore" {
			continue // emptiness is established by scanning inside loops: not decided
		}
		for _, name := range []string{"MinIndex", "MaxIndex"} {
			f := c.P.MethodOf(t, name)
			if f != nil && f.Synthetic != "" {
				f = underlyingOfWrapper(f)
			}
			if f == nil || seen[f] {
				continue
			}
			seen[f] = true
			n++
			// single pass with a "found" flag over a map: the flag is false before the range, raised only inside it, and
			// the error is returned exactly on the branch where it is still false — empty ⇔ no key was seen
			if foundFlagEmptiness(f) {
				c.R.okay(rule, funcName(f)+"/error-iff-empty", funcName(f), c.fpos(f), "the undefined-index error is returned exactly when the store is empty", "found-flag form: error exactly when the range saw no key")
				continue
			}
			paths, _ := exec(c, f, nil, 1)
			bad := ""
			nE, nV := 0, 0
			for _, p := range paths {
				empty, found := pathCond(p, func(t *Term) bool {
					if isMethodCall(t, "IsEmpty") {
						return true
					}
					if t.isBin("==") {
						for i := 0; i < 2; i++ {
							if t.Args[1-i].isConst("0") && (t.Args[i].unver().Op == "field" || t.Args[i].Op == "builtin" && t.Args[i].Sym == "len") {
								return true
							}
						}
					}
					return false
				})
				if !found {
					bad = "path without an emptiness test"
					continue
				}
				if empty {
					nE++
					if p.RetNil(1) != -1 {
						bad = "empty store does not return the undefined-index error: " + describeRet(p)
					}
				} else {
					nV++
					if p.RetNil(1) != 1 {
						bad = "non-empty store returns an error: " + describeRet(p)
					}
				}
			}
			c.R.check(bad == "" && nE > 0 && nV > 0, rule, funcName(f)+"/error-iff-empty", funcName(f), c.fpos(f), "the undefined-index error is returned exactly when the store is empty", firstNonEmpty(bad, fmt.Sprintf("%d empty / %d non-empty path(s)", nE, nV)))
		}
	}
	c.R.floor(rule, "MinIndex/MaxIndex bodies", n, 4)
}

func c04Windows(c *Ctx) {
	const rule = "C04-D5"
	dense := c.P.NamedType(pkgStore, "DenseStore")
	n := 0
	// the read paths: ForEach, Bins, Encode and whatever Encode delegates to with the store as receiver or first
	// argument (encodeSparsely / encodeDensely today, under any name, as methods or as plain functions)
	var roots []*ssa.Function
	seenF := map[*ssa.Function]bool{}
	var addF func(f *ssa.Function)
	addF = func(f *ssa.Function) {
		if f == nil || seenF[f] {
			return
		}
		seenF[f] = true
		roots = append(roots, f)
		for _, b := range f.Blocks {
			for _, in := range b.Instrs {
				ci, ok := in.(ssa.CallInstruction)
				if !ok {
					continue
				}
				cal, ok := ci.Common().Value.(*ssa.Function)
				if !ok || !inModule(cal) || len(cal.Params) == 0 || ast.IsExported(cal.Name()) {
					continue
				}
				if pt, ok := cal.Params[0].Type().(*types.Pointer); ok && types.Identical(pt.Elem(), dense) {
					addF(cal)
				}
			}
		}
	}
	for _, name := range []string{"ForEach", "Bins", "Encode"} {
		addF(c.P.DeclaredMethod(dense, name))
	}
	for _, f := range roots {
		fns := append([]*ssa.Function{f}, f.AnonFuncs...)
		for _, fn := range fns {
			for _, l := range countingLoops(c.P, fn) {
				// element reads bins[iv − offset] inside the loop
				tc := newTermCtx(c.P)
				var elem *Term
				for b := range l.Blocks {
					for _, in := range b.Instrs {
						if ia, ok := in.(*ssa.IndexAddr); ok {
							x := tc.Of(ia.X)
							if x.Op == "field" && x.Sym == dr.bins {
								elem = tc.Of(ia.Index)
							}
						}
					}
				}
				if elem == nil {
					continue
				}
				n++
				first, last, ok := elementRange(l, elem)
				recvIs := func(t *Term) bool { return t.isParam(0) || t.Op == "free" || t.Op == "oparam" && t.Sym == "0" }
				good := ok && isWindowRange(first, last, recvIs)
				found := "element index not affine in the loop variable"
				if ok {
					found = first.Key() + " … " + last.Key()
				}
				c.R.check(good, rule, funcName(fn)+"/window", funcName(fn), c.fpos(fn), "the loop visits exactly bins[minIndex−offset … maxIndex−offset] (inclusive: the last bin is not dropped)", found)
			}
		}
	}
	c.R.floor(rule, "dense window loops", n, 4)
}

// c04Shift (C04-D6): the window-moving primitives of the dense store, as linear forms.
// shiftCounts(shift): copy(bins[lo+shift:], bins[lo:hi+1]) with lo = minIndex−offset, hi = maxIndex−offset;
// the vacated slots are reset — shift>0: indexes minIndex … minIndex+shift−1, else maxIndex+shift+1 … maxIndex;
// offset −= shift. resetBins(from,to) zeroes bins[from−offset … to−offset]. centerCounts sets the new
// window and shifts by offset + len/2 − mid with mid = newMin + (newMax−newMin+1)/2.
func c04Shift(c *Ctx, rule string) {
	dense := c.P.NamedType(pkgStore, "DenseStore")
	recvF := func(name string) *Term { return mk("field", name, nil, mk("param", "0", nil)) }
	lin := func(terms map[*Term]int, k int) *Linear {
		l := &Linear{Coef: map[string]int{}, Atoms: map[string]*Term{}, Exact: true, Const: k}
		for t, co := range terms {
			l = linCombine(l, linearOf(t), co)
		}
		return l
	}
	minI, maxI, off := recvF(dr.minIndex), recvF(dr.maxIndex), recvF(dr.offset)
	shift := mk("param", "1", nil)
	eq := func(t *Term, want *Linear) bool { return t != nil && linCombineKey(linearOf(t), want) }
	if f := c.P.DeclaredMethod(dense, "shiftCounts"); c.mustFunc(rule, f, "DenseStore.shiftCounts") {
		paths, _ := exec(c, f, nil, 1)
		for i, p := range paths {
			pos, have := pathCond(p, func(t *Term) bool { return t.isBin("<") && t.Args[0].isConst("0") && t.Args[1].isParam(1) })
			key := fmt.Sprintf("%s/path%d[%s]", funcName(f), i, pathSig(p))
			if !have {
				// shift ≥ 0 / other formulations: require the same facts per sign via another comparison
				pos2, have2 := pathCond(p, func(t *Term) bool { return t.isBin("<=") && t.Args[0].isParam(1) && t.Args[1].isConst("0") })
				if have2 {
					pos, have = !pos2, true
				}
			}
			var cp, rs *Term
			var offStore *Term
			for _, e := range p.Effects {
				if e.Kind == "call" && e.Call.Op == "builtin" && e.Call.Sym == "copy" {
					cp = e.Call
				}
				if e.Kind == "call" && isMethodCall(e.Call, "resetBins") {
					rs = e.Call
				}
				if e.Kind == "store" && isRecvField(e.Addr, dr.offset) {
					offStore = e.Val
				}
			}
			ok := have && cp != nil && rs != nil && offStore != nil
			found := "copy / resetBins / offset update not all present"
			if ok {
				dst, src := cp.Args[0], cp.Args[1]
				okCopy := dst.Op == "slice" && src.Op == "slice" && isRecvField(dst.Args[0], dr.bins) && isRecvField(src.Args[0], dr.bins) &&
					eq(dst.Args[1], lin(map[*Term]int{minI: 1, off: -1, shift: 1}, 0)) && dst.Args[2].Op == "none" &&
					eq(src.Args[1], lin(map[*Term]int{minI: 1, off: -1}, 0)) && eq(src.Args[2], lin(map[*Term]int{maxI: 1, off: -1}, 1))
				var okReset bool
				if pos {
					okReset = eq(rs.Args[1], lin(map[*Term]int{minI: 1}, 0)) && eq(rs.Args[2], lin(map[*Term]int{minI: 1, shift: 1}, -1))
				} else {
					okReset = eq(rs.Args[1], lin(map[*Term]int{maxI: 1, shift: 1}, 1)) && eq(rs.Args[2], lin(map[*Term]int{maxI: 1}, 0))
				}
				okOff := eq(offStore, lin(map[*Term]int{off: 1, shift: -1}, 0))
				ok = okCopy && okReset && okOff
				found = fmt.Sprintf("copy ok=%v reset ok=%v (shift>0: %v) offset ok=%v", okCopy, okReset, pos, okOff)
			}
			c.R.check(ok, rule, key, funcName(f), c.fpos(f), "window [min−off, max−off] copied to +shift, exactly the vacated slots reset, offset −= shift", found)
		}
		c.R.floor(rule, "shiftCounts paths", len(paths), 2)
	}
	if f := c.P.DeclaredMethod(dense, "resetBins"); c.mustFunc(rule, f, "DenseStore.resetBins") {
		ok := false
		found := "no counting loop"
		for _, l := range countingLoops(c.P, f) {
			tc := newTermCtx(c.P)
			for b := range l.Blocks {
				for _, in := range b.Instrs {
					if st, isSt := in.(*ssa.Store); isSt {
						at, vt := tc.Of(st.Addr), tc.Of(st.Val)
						if at.Op == "index" && isRecvField(at.Args[0], dr.bins) && vt.isConst("0") {
							fi, la, okR := elementRange(l, at.Args[1])
							if okR {
								p1, p2 := mk("param", "1", nil), mk("param", "2", nil)
								ok = linCombineKey(fi, lin(map[*Term]int{p1: 1, off: -1}, 0)) && linCombineKey(la, lin(map[*Term]int{p2: 1, off: -1}, 0))
								found = fi.Key() + " … " + la.Key()
							}
						}
					}
				}
			}
		}
		c.R.check(ok, rule, funcName(f)+"/range", funcName(f), c.fpos(f), "zeroes exactly bins[from−offset … to−offset]", found)
	}
	if f := c.P.DeclaredMethod(dense, "centerCounts"); c.mustFunc(rule, f, "DenseStore.centerCounts") {
		paths, _ := exec(c, f, nil, 1)
		ok := len(paths) == 1
		found := ""
		if ok {
			p := paths[0]
			var sh *Term
			newMin, newMax := false, false
			for _, e := range p.Effects {
				if e.Kind == "call" && isMethodCall(e.Call, "shiftCounts") {
					sh = e.Call.Args[1]
				}
				if e.Kind == "store" && isRecvField(e.Addr, dr.minIndex) && e.Val.isParam(1) {
					newMin = true
				}
				if e.Kind == "store" && isRecvField(e.Addr, dr.maxIndex) && e.Val.isParam(2) {
					newMax = true
				}
			}
			ok = sh != nil && newMin && newMax
			if ok {
				// shift = offset + len(bins)/2 − (newMin + (newMax−newMin+1)/2): linear over the two quotient atoms
				l := linearOf(sh)
				var qLen, qW bool
				rest := &Linear{Coef: map[string]int{}, Atoms: map[string]*Term{}, Exact: true, Const: l.Const}
				for k, co := range l.Coef {
					at := l.Atoms[k]
					switch {
					case at.isBin("/") && at.Args[1].isConst("2") && at.Args[0].Op == "builtin" && at.Args[0].Sym == "len" && co == 1:
						qLen = true
					case at.isBin("/") && at.Args[1].isConst("2") && co == -1 && linCombineKey(linearOf(at.Args[0]), lin(map[*Term]int{mk("param", "2", nil): 1, mk("param", "1", nil): -1}, 1)):
						qW = true
					default:
						rest.Coef[k] = co
						rest.Atoms[k] = at
					}
				}
				ok = qLen && qW && linCombineKey(rest, lin(map[*Term]int{off: 1, mk("param", "1", nil): -1}, 0))
				found = "shift = " + l.Key()
			}
		}
		c.R.check(ok, rule, funcName(f)+"/centre", funcName(f), c.fpos(f), "new window stored; shift = offset + len(bins)/2 − (newMin + (newMax−newMin+1)/2)", found)
	}
}

// c04PaginatedEmptiness (C04-D8): the paginated store has no cached total. "Empty" means: nothing buffered AND no
// page line holds weight — pages can be allocated while holding only zeros (a decoded block of zero counts, a
// cleared-and-reused store), so emptiness cannot be read off the page bookkeeping. IsEmpty may answer true only
// after a full scan of every line of every page (or by comparing TotalCount() with 0), and TotalCount adds the
// buffer length and every line of every page.
func c04PaginatedEmptiness(c *Ctx, pr *paginatedRoles) {
	const rule = "C04-D8"
	pagesF := ""
	for _, f := range structFields(pr.typ) {
		if f.Type().String() == "[][]float64" {
			pagesF = f.Name()
		}
	}
	if pagesF == "" {
		c.R.undecided(rule, "anchor/pages-field", "", "", "the paginated store has a [][]float64 field", "not found")
		return
	}
	// fullScan: the function reads pages[i][j] with both indexes induction variables of full scans; returns the outermost loop header
	fullScan := func(f *ssa.Function) *ssa.BasicBlock {
		tc := newTermCtx(c.P)
		fullScanProg = c.P
		var outer *ssa.BasicBlock
		loops := naturalLoops(f)
		for _, b := range f.Blocks {
			for _, in := range b.Instrs {
				ia, ok := in.(*ssa.IndexAddr)
				if !ok {
					continue
				}
				x := tc.Of(ia.X)
				if !(x.Op == "index" && isRecvField(x.Args[0], pagesF)) {
					continue
				}
				inner, okI := ia.X.(*ssa.UnOp)
				if !okI {
					continue
				}
				pia, okP := inner.X.(*ssa.IndexAddr)
				if !okP || !isRangeIndex(ia.Index) || !isRangeIndex(pia.Index) {
					continue
				}
				// outermost natural loop containing the read
				for _, l := range loops {
					if l.body[b] && (outer == nil || l.body[outer]) {
						outer = l.header
					}
				}
			}
		}
		return outer
	}
	// the "pages unused" marker: the constant Clear writes into an int field of the store; a return taken under
	// `that field == marker` needs no scan (every page slot is then empty: only the page accessor moves the field away
	// from the marker, before it gives a page a length — C04-D9 makes it the only writer)
	markField, markConst := "", ""
	if clr := c.P.DeclaredMethod(pr.typ, "Clear"); clr != nil {
		tcc := newTermCtx(c.P)
		for _, b := range clr.Blocks {
			for _, in := range b.Instrs {
				if st, ok := in.(*ssa.Store); ok {
					at, vt := tcc.Of(st.Addr), tcc.Of(st.Val)
					if at.Op == "field" && at.Args[0].isRecv() && vt.Op == "const" && len(vt.Sym) > 8 {
						markField, markConst = at.Sym, vt.Sym
					}
				}
			}
		}
	}
	unusedExit := func(fn *ssa.Function, b *ssa.BasicBlock) bool {
		id := b.Idom()
		if id == nil || markField == "" {
			return false
		}
		iff, ok := id.Instrs[len(id.Instrs)-1].(*ssa.If)
		if !ok {
			return false
		}
		t := newTermCtx(c.P).Of(iff.Cond)
		if !(t.isBin("==") || t.isBin("!=")) {
			return false
		}
		isMark := isRecvField(t.Args[0], markField) && t.Args[1].isConst(markConst) || isRecvField(t.Args[1], markField) && t.Args[0].isConst(markConst)
		taken := id.Succs[0] == b
		return isMark && taken == t.isBin("==")
	}
	if f := c.P.DeclaredMethod(pr.typ, "IsEmpty"); c.mustFunc(rule, f, "BufferedPaginatedStore.IsEmpty") {
		hdr := fullScan(f)
		tc := newTermCtx(c.P)
		bad := ""
		nTrue := 0
		for _, b := range f.Blocks {
			ret, ok := b.Instrs[len(b.Instrs)-1].(*ssa.Return)
			if !ok || len(ret.Results) != 1 {
				continue
			}
			r := tc.Of(ret.Results[0])
			switch {
			case r.isConst("false"):
				// inside the scan, "not empty" is answered from a line that holds weight: the return is controlled by
				// `line > 0` (or `line != 0`) taken — allocated pages hold zeros (decoded zero counts, cancelled weights)
				if hdr != nil && hdr.Dominates(b) && b != hdr {
					inScan := false
					for _, l := range naturalLoops(f) {
						if id := b.Idom(); l.header == hdr && id != nil && l.body[id] {
							inScan = true // the return leaves the scan from one of its blocks
						}
					}
					if id := b.Idom(); inScan && id != nil {
						if iff, ok := id.Instrs[len(id.Instrs)-1].(*ssa.If); ok {
							t := tc.Of(iff.Cond)
							taken := id.Succs[0] == b
							isLine := func(x *Term) bool {
								x = stripConv(x)
								return x.Op == "index" && x.Args[0].Op == "index" && isRecvField(x.Args[0].Args[0], pagesF)
							}
							okPol := false
							switch {
							case t.isBin("<") && t.Args[0].isConst("0") && isLine(t.Args[1]):
								okPol = taken
							case (t.isBin("!=") || t.isBin("==")) && (t.Args[0].isConst("0") && isLine(t.Args[1]) || t.Args[1].isConst("0") && isLine(t.Args[0])):
								okPol = taken == t.isBin("!=")
							}
							if !okPol {
								bad = firstNonEmpty(bad, "answers non-empty from inside the scan without the evidence that the line holds weight: "+t.Key())
							}
						}
					}
				}
			case r.isConst("true"):
				nTrue++
				if (hdr == nil || !hdr.Dominates(b)) && !unusedExit(f, b) {
					bad = "answers true without having scanned every line of every page"
				}
			case (r.isBin("==") || r.isBin("<=")) && (isMethodCall(r.Args[0], "TotalCount") && r.Args[1].isConst("0") || isMethodCall(r.Args[1], "TotalCount") && r.Args[0].isConst("0")):
				nTrue++
			default:
				nTrue++
				if hdr == nil || !hdr.Dominates(b) {
					bad = "answers " + r.Key() + " without having scanned every line of every page"
				}
			}
		}
		// the buffer is consulted
		usesBuf := false
		for _, b := range f.Blocks {
			for _, in := range b.Instrs {
				if call, ok := in.(*ssa.Call); ok {
					t := tc.Of(call)
					if t.Op == "builtin" && t.Sym == "len" && isRecvField(t.Args[0], pr.bufFld) || isMethodCall(t, "TotalCount") {
						usesBuf = true
					}
				}
			}
		}
		if !usesBuf {
			bad = firstNonEmpty(bad, "does not consult the buffer")
		}
		c.R.check(bad == "" && nTrue > 0, rule, "BufferedPaginatedStore.IsEmpty/full-scan", shortFn(f), c.fpos(f), "true only after the buffer was found empty and every line of every page was scanned (allocated pages may hold only zeros)", firstNonEmpty(bad, "ok"))
	}
	if f := c.P.DeclaredMethod(pr.typ, "TotalCount"); c.mustFunc(rule, f, "BufferedPaginatedStore.TotalCount") {
		hdr := fullScan(f)
		tc := newTermCtx(c.P)
		usesBuf := false
		for _, b := range f.Blocks {
			for _, in := range b.Instrs {
				if call, ok := in.(*ssa.Call); ok {
					t := tc.Of(call)
					if t.Op == "builtin" && t.Sym == "len" && isRecvField(t.Args[0], pr.bufFld) {
						usesBuf = true
					}
				}
			}
		}
		okRet := true
		for _, b := range f.Blocks {
			if _, ok := b.Instrs[len(b.Instrs)-1].(*ssa.Return); ok && (hdr == nil || !hdr.Dominates(b)) && !unusedExit(f, b) {
				okRet = false
			}
		}
		c.R.check(hdr != nil && usesBuf && okRet, rule, "BufferedPaginatedStore.TotalCount/full-scan", shortFn(f), c.fpos(f), "the total is the buffer length plus every line of every page, returned only after the full scan", fmt.Sprintf("full scan=%v uses buffer length=%v returns after scan=%v", hdr != nil, usesBuf, okRet))
	}
}

// c04PageTable: the paginated store's page table — the slice of pages and the index of its first page — has one
// owner. Only the page accessor (by role: the method (pageIndex int, ensureExists bool) []float64, with the helpers
// split off it) grows or re-bases the table; Clear resets it; a fresh object (constructor, Copy) is filled directly.
// Every other function reaches pages through the accessor. The accessor is where the table's invariants live (slots
// kept by Clear are reused, `first page index == maxInt` means "unused" but not "no slots", growth keeps the offset
// consistent): a second writer has to re-establish all of them, and nothing here could check that it does.
func c04PageTable(c *Ctx, pr *paginatedRoles, rule string) {
	if pr == nil || pr.typ == nil {
		return
	}
	var acc *ssa.Function
	for i := 0; i < pr.typ.NumMethods(); i++ {
		f := c.P.SSA.FuncValue(pr.typ.Method(i))
		if f == nil || len(f.Params) != 3 || f.Signature.Results().Len() != 1 {
			continue
		}
		if f.Params[1].Type().String() == "int" && f.Params[2].Type().String() == "bool" && f.Signature.Results().At(0).Type().String() == "[]float64" {
			acc = f
		}
	}
	if acc == nil {
		c.R.undecided(rule, "page-table/accessor", "", "", "the page accessor (pageIndex int, ensureExists bool) []float64 of the paginated store", "not found")
		return
	}
	roleAnchors[acc] = true
	owners := map[*ssa.Function]bool{}
	for _, f := range withNewHelpers(acc) {
		owners[f] = true
	}
	// the table's fields: what the accessor writes, by type
	table := map[string]bool{}
	for f := range owners {
		for _, b := range f.Blocks {
			for _, in := range b.Instrs {
				if st, ok := in.(*ssa.Store); ok {
					if fa, ok := st.Addr.(*ssa.FieldAddr); ok && types.Identical(derefType(fa.X.Type()), pr.typ) {
						if ts := derefType(fa.Type()).String(); ts == "[][]float64" || ts == "int" {
							table[fieldName(fa.X.Type(), fa.Field)] = true
						}
					}
				}
			}
		}
	}
	if len(table) < 2 {
		c.R.undecided(rule, "page-table/fields", shortFn(acc), c.fpos(acc), "the accessor writes the page slice and the first page index", fmt.Sprint(table))
		return
	}
	n := 0
	for _, f := range c.P.Funcs {
		if !inModule(f) {
			continue
		}
		for _, b := range f.Blocks {
			for _, in := range b.Instrs {
				st, ok := in.(*ssa.Store)
				if !ok {
					continue
				}
				fa, ok := st.Addr.(*ssa.FieldAddr)
				if !ok || !types.Identical(derefType(fa.X.Type()), pr.typ) || !table[fieldName(fa.X.Type(), fa.Field)] {
					continue
				}
				n++
				fld := fieldName(fa.X.Type(), fa.Field)
				_, fresh := fa.X.(*ssa.Alloc)
				isClear := f.Name() == "Clear" && recvNamed(f) == pr.typ
				ok = owners[f] || fresh || isClear
				c.R.check(ok, rule, fmt.Sprintf("page-table/%s/writes-%s", helperKey(f), fld), shortFn(f), c.ipos(st), "the page table is written only by the page accessor (and its helpers), by Clear, or into a fresh object", map[bool]string{true: "owner", false: "a second writer of the page table"}[ok])
			}
		}
	}
	c.R.floor(rule, "stores to the page table", n, 5)
	c04PageSlots(c, pr, rule, table)
}

// c04PageSlots: a slot of the page table is `pages[x − first]`, with the table and its first page index as they are
// at the same moment: the accessor re-bases the table when it grows to the left, so a first page index read before a
// call that may grow the table (anything that adds to the store) does not belong to the table read after it. For
// every such slot expression, no call whose write set reaches the table lies on a way from the read of the base to the
// read of the table (or back).
func c04PageSlots(c *Ctx, pr *paginatedRoles, rule string, table map[string]bool) {
	fieldLoad := func(v ssa.Value) (*ssa.UnOp, string) {
		u, ok := v.(*ssa.UnOp)
		if !ok || u.Op != token.MUL {
			return nil, ""
		}
		fa, ok := u.X.(*ssa.FieldAddr)
		if !ok || !types.Identical(derefType(fa.X.Type()), pr.typ) {
			return nil, ""
		}
		return u, fieldName(fa.X.Type(), fa.Field)
	}
	touchesTable := func(fn *ssa.Function) bool {
		for l := range c.Mod.Mods[fn] {
			rest := locRest(l)
			for fld := range table {
				if rest == "."+fld {
					return true
				}
			}
		}
		return false
	}
	n := 0
	for _, f := range c.P.Funcs {
		if !inModule(f) || len(f.Blocks) == 0 {
			continue
		}
		// block reachability (lazily)
		var reach map[*ssa.BasicBlock]map[*ssa.BasicBlock]bool
		reaches := func(a, b *ssa.BasicBlock) bool { // a path of ≥ 1 edge from a to b
			if reach == nil {
				reach = map[*ssa.BasicBlock]map[*ssa.BasicBlock]bool{}
			}
			if reach[a] == nil {
				seen := map[*ssa.BasicBlock]bool{}
				var dfs func(x *ssa.BasicBlock)
				dfs = func(x *ssa.BasicBlock) {
					for _, sc := range x.Succs {
						if !seen[sc] {
							seen[sc] = true
							dfs(sc)
						}
					}
				}
				dfs(a)
				reach[a] = seen
			}
			return reach[a][b]
		}
		pos := func(in ssa.Instruction) int {
			for i, x := range in.Block().Instrs {
				if x == in {
					return i
				}
			}
			return -1
		}
		// after(a, b): instruction b can execute after instruction a
		after := func(a, b ssa.Instruction) bool {
			if a.Block() == b.Block() && pos(a) < pos(b) {
				return true
			}
			return reaches(a.Block(), b.Block())
		}
		perFn := 0
		for _, b := range f.Blocks {
			for _, in := range b.Instrs {
				var base, idx ssa.Value
				switch x := in.(type) {
				case *ssa.IndexAddr:
					base, idx = x.X, x.Index
				case *ssa.Index:
					base, idx = x.X, x.Index
				default:
					continue
				}
				tl, fld := fieldLoad(base)
				if tl == nil || !table[fld] || derefType(tl.Type()).String() != "[][]float64" {
					continue
				}
				sub, ok := idx.(*ssa.BinOp)
				if !ok || sub.Op != token.SUB {
					continue
				}
				ml, mfld := fieldLoad(sub.Y)
				if ml == nil || !table[mfld] {
					continue
				}
				n++
				perFn++
				bad := ""
				for _, b2 := range f.Blocks {
					for _, in2 := range b2.Instrs {
						call, ok := in2.(ssa.CallInstruction)
						if !ok {
							continue
						}
						var callees []*ssa.Function
						if cal := call.Common().StaticCallee(); cal != nil {
							callees = append(callees, cal)
						}
						for _, a := range call.Common().Args {
							if mc, ok := a.(*ssa.MakeClosure); ok {
								callees = append(callees, mc.Fn.(*ssa.Function))
							}
						}
						mod := false
						for _, cal := range callees {
							if touchesTable(cal) {
								mod = true
							}
						}
						if !mod {
							continue
						}
						ci := in2.(ssa.Instruction)
						if after(ml, ci) && after(ci, tl) || after(tl, ci) && after(ci, ml) && after(ml, in) {
							bad = "the call at " + c.ipos(ci) + " may re-base the page table between the read of its first page index and the read of the table"
						}
					}
				}
				c.R.check(bad == "", rule, fmt.Sprintf("page-table/%s/slot%d-from-current-base", helperKey(f), perFn), shortFn(f), c.ipos(in),
					"a slot pages[x − first] uses the table and its first page index of the same moment (no call that may grow the table in between)", firstNonEmpty(bad, "no table-changing call in between"))
			}
		}
	}
	c.R.floor(rule, "page slots computed from the first page index", n, 4)
	// the other direction — from a slot back to indexes: a walk over the table (`for pageOffset, page := range pages`)
	// turns a slot number into a page number by adding the table's first page index BEFORE anything else is done with
	// it (`(first + pageOffset) << log2`, or the index helper on that sum); a slot number that is shifted or scaled on
	// its own (`first + pageOffset<<log2`) yields indexes of other pages
	nw := 0
	for _, f := range c.P.Funcs {
		if !inModule(f) || len(f.Blocks) == 0 {
			continue
		}
		for _, b := range f.Blocks {
			for _, in := range b.Instrs {
				// `for pageOffset, page := range pages` over a slice: page = pages[k] with k = rangeindex + 1
				ia, ok := in.(*ssa.IndexAddr)
				if !ok {
					continue
				}
				tl, fld := fieldLoad(ia.X)
				if tl == nil || !table[fld] || derefType(tl.Type()).String() != "[][]float64" {
					continue
				}
				key, ok := ia.Index.(*ssa.BinOp)
				if !ok || key.Op != token.ADD {
					continue
				}
				ph, ok := key.X.(*ssa.Phi)
				if !ok || ph.Comment != "rangeindex" || key.Referrers() == nil {
					continue
				}
				used := false
				bad := ""
				for _, u := range *key.Referrers() {
					switch u := u.(type) {
					case *ssa.BinOp:
						switch u.Op {
						case token.EQL, token.NEQ, token.LSS, token.LEQ, token.GTR, token.GEQ:
						case token.ADD:
							used = true
							other := u.X
							if u.X == ssa.Value(key) {
								other = u.Y
							}
							if _, ofld := fieldLoad(other); !(table[ofld] && derefType(other.Type()).String() == "int") {
								bad = "the slot number is added to something else than the table's first page index at " + c.ipos(u)
							}
						default:
							used = true
							bad = "the slot number is combined by " + u.Op.String() + " on its own at " + c.ipos(u) + ", before the table's first page index is added"
						}
					}
				}
				if !used {
					continue
				}
				nw++
				c.R.check(bad == "", rule, fmt.Sprintf("page-table/%s/walk-slot-to-page", helperKey(f)), shortFn(f), c.ipos(ia),
					"a slot number of the page table becomes a page number by adding the first page index before any other arithmetic", firstNonEmpty(bad, "first + slot"))
			}
		}
	}
	c.R.floor(rule, "walks over the page table that use the slot number", nw, 2)
}

// c04PageUse: what the page accessor returns for ensureExists == false may be nil OR an emptied slot (Clear keeps the
// slots as zero-length pages): an element of it is touched only on a path that created the page (ensureExists is
// the constant true) or has established that it is not empty by its LENGTH — a nil test lets the emptied slots of a
// cleared store through.
func c04PageUse(c *Ctx, pr *paginatedRoles, rule string) {
	if pr == nil || pr.typ == nil {
		return
	}
	var acc *ssa.Function
	for f := range roleAnchors {
		if recvNamed(f) == pr.typ && len(f.Params) == 3 && f.Params[2].Type().String() == "bool" && f.Signature.Results().Len() == 1 {
			acc = f
		}
	}
	if acc == nil {
		return // reported by page-table/accessor
	}
	isPage := func(t *Term) *Term {
		t = t.unver()
		if t.Op == "call" && t.Sym == funcName(acc) && len(t.Args) == 3 {
			return t
		}
		return nil
	}
	n := 0
	for i := 0; i < pr.typ.NumMethods(); i++ {
		f := c.P.SSA.FuncValue(pr.typ.Method(i))
		if f == nil || f == acc {
			continue
		}
		uses := false
		for _, g := range withNewHelpers(f) {
			for _, b := range g.Blocks {
				for _, in := range b.Instrs {
					if call, ok := in.(*ssa.Call); ok {
						if cal, ok := call.Common().Value.(*ssa.Function); ok && cal == acc {
							uses = true
						}
					}
				}
			}
		}
		if !uses {
			continue
		}
		paths, _ := exec(c, f, nil, 2)
		bad := ""
		nAcc := 0
		check := func(p *Path, addr *Term, seq int) {
			if addr == nil || addr.Op != "index" || len(addr.Args) != 2 {
				return
			}
			pg := isPage(addr.Args[0])
			if pg == nil {
				return
			}
			nAcc++
			// the line belongs to the page: an element page(P)[x & mask] is the bin of index x only when P is the page of
			// that same x (x >> log2 — a division rounds the other way for negative indexes), or the path has compared
			// the page of x with P; reported when P is computed from x in another way
			recvFld := func(t *Term) bool {
				t = stripVers(t)
				return t.Op == "field" && len(t.Args) == 1 && stripVers(t.Args[0]).isParam(0)
			}
			lineForm := func(t *Term) *Term {
				t = stripConv(stripVers(t))
				if t.isBin("&") {
					for i := 0; i < 2; i++ {
						if recvFld(t.Args[i]) {
							return stripConv(stripVers(t.Args[1-i]))
						}
					}
				}
				return nil
			}
			pageForm := func(t *Term) *Term {
				t = stripConv(stripVers(t))
				if t.isBin(">>") && recvFld(t.Args[1]) {
					return stripConv(stripVers(t.Args[0]))
				}
				return nil
			}
			if xl := lineForm(addr.Args[1]); xl != nil {
				okPair := false
				pT := stripConv(stripVers(pg.Args[1]))
				if xp := pageForm(pT); xp != nil && stripVers(xp).Key() == stripVers(xl).Key() {
					okPair = true
				}
				for _, cd := range p.Conds {
					t := cd.Term
					if okPair || !t.isBin("==") || !cd.Taken {
						continue
					}
					for i := 0; i < 2; i++ {
						if xp := pageForm(t.Args[i]); xp != nil && stripVers(xp).Key() == stripVers(xl).Key() && stripConv(stripVers(t.Args[1-i])).Key() == pT.Key() {
							okPair = true
						}
					}
				}
				// decided only when the page argument is computed from that very index (a grouped loop that walks the
				// indexes of one page relates them by comparisons this rule does not follow)
				mentions := false
				pT.walk(func(y *Term) bool {
					if stripVers(y).Key() == stripVers(xl).Key() {
						mentions = true
					}
					return true
				})
				if !okPair && mentions {
					bad = "the line of index " + xl.Key() + " is touched on page " + pT.Key() + ", which is not known to be the page of that index: [" + pathSig(p) + "]"
					return
				}
			}
			if pg.Args[2].isConst("true") {
				return
			}
			for _, cd := range p.Conds {
				if cd.Seq > seq {
					continue
				}
				t := cd.Term
				isLen := func(x *Term) bool {
					x = stripConv(x)
					return x.Op == "builtin" && x.Sym == "len" && len(x.Args) == 1 && isPage(x.Args[0]) != nil && isPage(x.Args[0]).Key() == pg.Key()
				}
				switch {
				case t.isBin("<") && t.Args[0].isConst("0") && isLen(t.Args[1]) && cd.Taken, // 0 < len
					t.isBin("<=") && t.Args[0].isConst("1") && isLen(t.Args[1]) && cd.Taken,
					(t.isBin("==") || t.isBin("!=")) && (t.Args[0].isConst("0") && isLen(t.Args[1]) || t.Args[1].isConst("0") && isLen(t.Args[0])) && cd.Taken == t.isBin("!="):
					return
				case t.isBin("<") && isLen(t.Args[1]) && cd.Taken: // k < len(page): the access is in bounds
					return
				}
			}
			bad = "an element of " + pg.Key() + " is touched without the evidence that the page is not empty: [" + p.String() + "]"
		}
		for _, p := range paths {
			for _, ld := range p.Loads {
				check(p, ld.Addr, ld.Seq)
			}
			for _, e := range p.Effects {
				if e.Kind == "store" {
					check(p, e.Addr, e.Seq)
				}
			}
		}
		if nAcc == 0 {
			continue
		}
		n++
		c.R.check(bad == "", rule, "page-use/"+helperKey(f), shortFn(f), c.fpos(f), "elements of a page are touched only after the page was created (ensureExists = true) or shown non-empty by its length", firstNonEmpty(bad, fmt.Sprintf("%d element access(es)", nAcc)))
	}
	c.R.floor(rule, "methods touching elements of a page returned by the accessor", n, 3)
}

// isFloatField: the address is a field of type float64 (the count of a Bin being built).
func isFloatField(addr *Term) bool {
	if addr == nil || addr.V == nil {
		return addr != nil && addr.Sym == "count"
	}
	if pt, ok := addr.V.Type().Underlying().(*types.Pointer); ok {
		return pt.Elem().String() == "float64"
	}
	return false
}

// c04Normalize: the dense store's slot of an index is index − offset, and a slot is handed out only for an index
// inside the window: a path that does not extend the range to the index has established min ≤ index ≤ max; a path that
// extends it passes (index, index) and computes the slot from the offset as it is AFTER the extension.
func c04Normalize(c *Ctx, rule string) {
	dense := c.P.NamedType(pkgStore, "DenseStore")
	if dense == nil {
		return
	}
	types_ := []*types.Named{dense}
	if cts, err := collapsingTypes(c); err == "" {
		for _, ct := range cts {
			types_ = append(types_, ct.t)
		}
	}
	for _, t := range types_ {
		f := c.P.DeclaredMethod(t, "normalize")
		if f == nil {
			continue // no such helper: its obligations are the add paths' (C04-D1/D2)
		}
		// fields of the dense part, seen directly or through the embedded struct
		isF := func(x *Term, fld string) bool {
			x = stripVers(x)
			if x.Op != "field" || x.Sym != fld || len(x.Args) != 1 {
				return false
			}
			o := stripVers(x.Args[0])
			return o.isParam(0) || o.Op == "field" && len(o.Args) == 1 && stripVers(o.Args[0]).isParam(0)
		}
		paths, _ := exec(c, f, nil, 1)
		bad := ""
		nSlots := 0
		for _, p := range paths {
			if len(p.RetT) != 1 {
				continue
			}
			r := stripVers(p.RetT[0])
			if !(r.isBin("-") && r.Args[0].isParam(1)) {
				continue // an edge slot of a collapsing store (C05-D3), not the slot of the index
			}
			nSlots++
			if !isF(r.Args[1], dr.offset) {
				bad = firstNonEmpty(bad, "the slot is "+r.Key()+", not index − offset")
			}
			extended := false
			for _, e := range p.Calls() {
				if isMethodCall(e.Call, "extendRange") && len(e.Call.Args) == 3 {
					extended = true
					if !(e.Call.Args[0].isParam(0) && e.Call.Args[1].isParam(1) && e.Call.Args[2].isParam(1)) {
						bad = firstNonEmpty(bad, "the range is extended to "+e.Call.Key()+", not to the index")
					}
				}
			}
			if extended {
				continue
			}
			lo, hi := false, false
			for _, cd := range p.Conds {
				tm := cd.Term
				if len(tm.Args) != 2 {
					continue
				}
				x, y := tm.Args[0], tm.Args[1]
				switch {
				case tm.isBin("<") && !cd.Taken && x.isParam(1) && isF(y, dr.minIndex), // !(index < min)
					tm.isBin("<=") && cd.Taken && isF(x, dr.minIndex) && y.isParam(1),  // min ≤ index
					tm.isBin("<=") && !cd.Taken && x.isParam(1) && isF(y, dr.minIndex), // !(index ≤ min)
					tm.isBin("<") && cd.Taken && isF(x, dr.minIndex) && y.isParam(1):   // min < index
					lo = true
				case tm.isBin("<") && !cd.Taken && isF(x, dr.maxIndex) && y.isParam(1), // !(max < index)
					tm.isBin("<=") && cd.Taken && x.isParam(1) && isF(y, dr.maxIndex),  // index ≤ max
					tm.isBin("<=") && !cd.Taken && isF(x, dr.maxIndex) && y.isParam(1), // !(max ≤ index)
					tm.isBin("<") && cd.Taken && x.isParam(1) && isF(y, dr.maxIndex):   // index < max
					hi = true
				}
			}
			if !lo || !hi {
				bad = firstNonEmpty(bad, fmt.Sprintf("a slot is handed out without extending the range although min ≤ index ≤ max is not established (lower=%v upper=%v) on [%s]", lo, hi, pathSig(p)))
			}
		}
		c.R.check(bad == "" && nSlots > 0, rule, t.Obj().Name()+".normalize/slot-inside-window", shortFn(f), c.fpos(f), "slot = index − offset, handed out only for an index inside the window or after extending the range to it", firstNonEmpty(bad, fmt.Sprintf("%d path(s) handing out the slot of the index", nSlots)))
	}
}

// c04SparseFolds: the sparse store answers its extremes and its total by folding over the map. MaxIndex / MinIndex:
// the running extreme starts at the opposite end of the int range and is replaced by a key exactly on the outcome
// `key > running` (resp. `<`) of the comparison; TotalCount: a running sum of the map's values from 0.
func c04SparseFolds(c *Ctx, rule string) {
	sp := c.P.NamedType(pkgStore, "SparseStore")
	if sp == nil {
		return
	}
	mapKV := func(v ssa.Value, idx int) bool { // v is the key (idx 1) / value (idx 2) of a map iteration
		ex, ok := v.(*ssa.Extract)
		if !ok || ex.Index != idx {
			return false
		}
		_, isNext := ex.Tuple.(*ssa.Next)
		return isNext
	}
	for _, side := range []struct {
		name string
		max  bool
	}{{"MaxIndex", true}, {"MinIndex", false}} {
		f := c.P.DeclaredMethod(sp, side.name)
		if f == nil {
			continue
		}
		bad := "no fold over the map's keys found"
		for _, b := range f.Blocks {
			for _, in := range b.Instrs {
				cmp, ok := in.(*ssa.BinOp)
				if !ok {
					continue
				}
				var key ssa.Value
				var run *ssa.Phi
				keyLeft := false
				if mapKV(cmp.X, 1) {
					if p, ok := cmp.Y.(*ssa.Phi); ok {
						key, run, keyLeft = cmp.X, p, true
					}
				} else if mapKV(cmp.Y, 1) {
					if p, ok := cmp.X.(*ssa.Phi); ok {
						key, run = cmp.Y, p
					}
				}
				if key == nil {
					continue
				}
				// orientation: true outcome means "key beyond the running extreme"
				greater := cmp.Op == token.GTR || cmp.Op == token.GEQ // X > Y
				less := cmp.Op == token.LSS || cmp.Op == token.LEQ
				if !greater && !less {
					continue
				}
				keyBeyond := keyLeft && (side.max && greater || !side.max && less) || !keyLeft && (side.max && less || !side.max && greater)
				bad = ""
				if !keyBeyond {
					bad = "the running extreme is replaced on the wrong outcome of " + cmp.String()
				}
				// the comparison controls an if whose taken branch carries the key into the running extreme
				var iff *ssa.If
				if refs := cmp.Referrers(); refs != nil {
					for _, r := range *refs {
						if i, ok := r.(*ssa.If); ok {
							iff = i
						}
					}
				}
				if iff == nil {
					bad = firstNonEmpty(bad, "the comparison does not control the replacement")
					continue
				}
				taken, notTaken := iff.Block().Succs[0], iff.Block().Succs[1]
				carried := false
				for _, e := range run.Edges {
					if m, ok := e.(*ssa.Phi); ok {
						for i, me := range m.Edges {
							pred := m.Block().Preds[i]
							if me == key && (pred == taken || pred == iff.Block() && m.Block() == taken) {
								carried = true
							}
							if me == key && (pred == notTaken || pred == iff.Block() && m.Block() == notTaken) {
								bad = firstNonEmpty(bad, "the key replaces the running extreme on the FALSE outcome of "+cmp.String())
							}
						}
					}
				}
				if !carried {
					bad = firstNonEmpty(bad, "the taken branch does not carry the key into the running extreme")
				}
				// initial value: the opposite end of the int range
				okInit := false
				for _, e := range run.Edges {
					if k, ok := e.(*ssa.Const); ok && k.Value != nil {
						if v, exact := constantInt64(k); exact && (side.max && v <= math.MinInt32 || !side.max && v >= math.MaxInt32) {
							okInit = true
						}
					}
				}
				// … or the first key always replaces it: a "found" flag, false before the range, sends the first key to the
				// very block that carries the key (`if !found || key > running { found = true; running = key }`)
				if !okInit && foundFlagEmptiness(f) {
					for _, fb := range f.Blocks {
						fi, ok := fb.Instrs[len(fb.Instrs)-1].(*ssa.If)
						if !ok {
							continue
						}
						switch v := fi.Cond.(type) {
						case *ssa.Phi:
							if bt, ok := v.Type().Underlying().(*types.Basic); ok && bt.Kind() == types.Bool && fb.Succs[1] == taken {
								okInit = true
							}
						case *ssa.UnOp:
							if _, isPhi := v.X.(*ssa.Phi); isPhi && v.Op == token.NOT && fb.Succs[0] == taken {
								okInit = true
							}
						}
					}
				}
				if !okInit {
					bad = firstNonEmpty(bad, "the running extreme does not start at the opposite end of the int range")
				}
			}
		}
		c.R.check(bad == "", rule, "SparseStore."+side.name+"/fold", shortFn(f), c.fpos(f), "running extreme from the opposite end of the int range, replaced by a key exactly when the key lies beyond it", firstNonEmpty(bad, "ok"))
	}
	if f := c.P.DeclaredMethod(sp, "TotalCount"); f != nil {
		ok := false
		found := "no running sum of the map's values found"
		for _, b := range f.Blocks {
			for _, in := range b.Instrs {
				p, isPhi := in.(*ssa.Phi)
				if !isPhi {
					continue
				}
				zero, step := false, false
				for _, e := range p.Edges {
					if k, isC := e.(*ssa.Const); isC && k.Value != nil && k.Value.String() == "0" {
						zero = true
					}
					if bo, isB := e.(*ssa.BinOp); isB {
						if bo.Op == token.ADD && (bo.X == ssa.Value(p) && mapKV(bo.Y, 2) || bo.Y == ssa.Value(p) && mapKV(bo.X, 2)) {
							step = true
						} else {
							found = "the total is updated with " + bo.String()
						}
					}
				}
				if zero && step {
					// … and it is what is returned
					for _, b2 := range f.Blocks {
						if r, isR := b2.Instrs[len(b2.Instrs)-1].(*ssa.Return); isR && len(r.Results) == 1 && r.Results[0] == ssa.Value(p) {
							ok = true
						}
					}
				}
			}
		}
		c.R.check(ok, rule, "SparseStore.TotalCount/fold", shortFn(f), c.fpos(f), "total = φ(0, total + value) over the map, returned", map[bool]string{true: "ok", false: found}[ok])
	}
}

func constantInt64(k *ssa.Const) (int64, bool) {
	if k.Value == nil || k.Value.Kind() != constant.Int {
		return 0, false
	}
	return constant.Int64Val(k.Value)
}

// c04PaginatedExtremes: MinIndex / MaxIndex of the paginated store walk the page table by page number. On every
// enumerated path (loops unrolled up to two visits): a slot pages[P − first] is read only with P inside the table —
// P ≥ first and P < first + len(pages), by the form of P or by a taken test —, and the lines of a page are scanned from
// its very first line (MinIndex: line 0) resp. its very last (MaxIndex: len(page) − 1): a scan that starts one line in
// misses a minimum on line 0, one that runs to P == first + len(pages) reads past the table when every page is empty.
func c04PaginatedExtremes(c *Ctx, pr *paginatedRoles, rule string) {
	if pr == nil || pr.typ == nil {
		return
	}
	var pagesF, firstF string
	for f := range roleAnchors {
		if recvNamed(f) == pr.typ && len(f.Params) == 3 && f.Params[2].Type().String() == "bool" {
			// the accessor: the table's fields are what it writes
			for _, b := range f.Blocks {
				for _, in := range b.Instrs {
					if st, ok := in.(*ssa.Store); ok {
						if fa, ok := st.Addr.(*ssa.FieldAddr); ok && types.Identical(derefType(fa.X.Type()), pr.typ) {
							switch derefType(fa.Type()).String() {
							case "[][]float64":
								pagesF = fieldName(fa.X.Type(), fa.Field)
							case "int":
								firstF = fieldName(fa.X.Type(), fa.Field)
							}
						}
					}
				}
			}
		}
	}
	if pagesF == "" || firstF == "" {
		return // reported by page-table/accessor
	}
	canonKey := func(t *Term) *Linear {
		l := linearOf(stripVers(t))
		out := &Linear{Coef: map[string]int{}, Atoms: map[string]*Term{}, Exact: l.Exact, Const: l.Const}
		for k, cf := range l.Coef {
			at := stripVers(l.Atoms[k])
			key := k
			switch {
			case isRecvField(at, firstF):
				key = "first"
			case at.Op == "builtin" && at.Sym == "len" && len(at.Args) == 1 && isRecvField(stripVers(at.Args[0]), pagesF):
				key = "npages"
			default:
				key = at.Key()
			}
			out.Coef[key] += cf
			out.Atoms[key] = at
		}
		for k, v := range out.Coef {
			if v == 0 {
				delete(out.Coef, k)
			}
		}
		return out
	}
	isConstLin := func(l *Linear) (int, bool) { return l.Const, len(l.Coef) == 0 }
	for _, side := range []struct {
		name string
		min  bool
	}{{"MinIndex", true}, {"MaxIndex", false}} {
		f := c.P.DeclaredMethod(pr.typ, side.name)
		if f == nil {
			continue
		}
		paths, _ := exec(c, f, nil, 2)
		bad := ""
		nSlot, nLine := 0, 0
		for _, p := range paths {
			firstLine := map[string]bool{} // page term key -> first line already seen
			for _, ld := range p.Loads {
				a := ld.Addr
				if a == nil || a.Op != "index" || len(a.Args) != 2 {
					continue
				}
				base := stripVers(a.Args[0])
				switch {
				case isRecvField(base, pagesF):
					// a slot of the table
					nSlot++
					P := canonKey(a.Args[1])
					P.Coef["first"]++ // P = K + first
					if P.Coef["first"] == 0 {
						delete(P.Coef, "first")
					}
					// facts of the path up to the read, each as a linear form known to be ≥ 0 (integers: a < b is b − a − 1 ≥ 0)
					var facts []*Linear
					for _, cd := range p.Conds {
						if cd.Seq > ld.Seq {
							continue
						}
						t := cd.Term
						if len(t.Args) != 2 || !(t.isBin("<") || t.isBin("<=")) {
							continue
						}
						a, b := canonKey(t.Args[0]), canonKey(t.Args[1])
						var f *Linear
						switch {
						case t.isBin("<") && cd.Taken: // a < b
							f = linCombine(b, a, -1)
							f.Const--
						case t.isBin("<=") && cd.Taken: // a ≤ b
							f = linCombine(b, a, -1)
						case t.isBin("<") && !cd.Taken: // b ≤ a
							f = linCombine(a, b, -1)
						default: // !(a ≤ b): b < a
							f = linCombine(a, b, -1)
							f.Const--
						}
						facts = append(facts, f)
					}
					isNonNegConst := func(l *Linear) bool {
						for _, v := range l.Coef {
							if v != 0 {
								return false
							}
						}
						return l.Const >= 0
					}
					proves := func(q *Linear) bool { // q ≥ 0 from the form itself, one fact, or the sum of two
						if isNonNegConst(q) {
							return true
						}
						for i, f1 := range facts {
							r1 := linCombine(q, f1, -1)
							if isNonNegConst(r1) {
								return true
							}
							for _, f2 := range facts[i+1:] {
								if isNonNegConst(linCombine(r1, f2, -1)) {
									return true
								}
							}
						}
						return false
					}
					// lower: P − first ≥ 0; upper: first + npages − P − 1 ≥ 0
					lowD := linCombine(P, &Linear{Coef: map[string]int{"first": 1}, Atoms: map[string]*Term{}, Exact: true}, -1)
					lowerOK := proves(lowD)
					upQ := linCombine(&Linear{Coef: map[string]int{"first": 1, "npages": 1}, Atoms: map[string]*Term{}, Exact: true, Const: -1}, P, -1)
					upperOK := proves(upQ)
					if !lowerOK || !upperOK {
						bad = firstNonEmpty(bad, fmt.Sprintf("a slot of the page table is read at page number %s without the evidence first ≤ P (%v) and P < first + len(pages) (%v) on [%s]", shorten(a.Args[1].Key(), 70), lowerOK, upperOK, pathSig(p)))
					}
				case base.Op == "index" && isRecvField(stripVers(base.Args[0]), pagesF):
					// a line of a page: the first one read on this path for this page
					if firstLine[base.Key()] {
						continue
					}
					firstLine[base.Key()] = true
					nLine++
					L := linearOf(stripVers(a.Args[1]))
					okFirst := false
					if side.min {
						k, isC := isConstLin(L)
						okFirst = isC && k == 0
					} else {
						// len(page) − 1
						okFirst = L.Const == -1 && len(L.Coef) == 1
						for k, cf := range L.Coef {
							at := stripVers(L.Atoms[k])
							if !(cf == 1 && at.Op == "builtin" && at.Sym == "len" && len(at.Args) == 1 && stripVers(at.Args[0]).Key() == base.Key()) {
								okFirst = false
							}
						}
					}
					if !okFirst {
						bad = firstNonEmpty(bad, fmt.Sprintf("the scan of a page starts at line %s on [%s]", shorten(a.Args[1].Key(), 60), pathSig(p)))
					}
				}
			}
			// every line read lies inside its page: 0 ≤ L ≤ len(page) − 1, from the path's own comparisons plus two facts
			// about the representation — a page that is not empty has exactly 1 << log2 lines (only the accessor gives a
			// page a length, C04-D9), and a line number x & mask is between 0 and (1 << log2) − 1 (mask = 2^log2 − 1 in the
			// constructor and in Copy, C14-D2)
			for _, ld := range p.Loads {
				a := ld.Addr
				if a == nil || a.Op != "index" || len(a.Args) != 2 {
					continue
				}
				base := stripVers(a.Args[0])
				if !(base.Op == "index" && isRecvField(stripVers(base.Args[0]), pagesF)) {
					continue
				}
				nonEmpty := false
				for _, cd := range p.Conds {
					if cd.Seq > ld.Seq {
						continue
					}
					t := cd.Term
					if (t.isBin("==") || t.isBin("!=")) && len(t.Args) == 2 {
						for i := 0; i < 2; i++ {
							l := stripVers(stripConv(t.Args[i]))
							if t.Args[1-i].isConst("0") && l.Op == "builtin" && l.Sym == "len" && stripVers(l.Args[0]).Key() == base.Key() && cd.Taken == t.isBin("!=") {
								nonEmpty = true
							}
						}
					}
					if t.isBin("<") && t.Args[0].isConst("0") && cd.Taken {
						if l := stripVers(stripConv(t.Args[1])); l.Op == "builtin" && l.Sym == "len" && stripVers(l.Args[0]).Key() == base.Key() {
							nonEmpty = true
						}
					}
				}
				var axioms []*Linear
				lineCanon := func(t *Term) *Linear {
					l := linearOf(stripVers(t))
					out := &Linear{Coef: map[string]int{}, Atoms: map[string]*Term{}, Exact: l.Exact, Const: l.Const}
					for k, cf := range l.Coef {
						at := stripVers(l.Atoms[k])
						key := at.Key()
						switch {
						case at.Op == "builtin" && at.Sym == "len" && len(at.Args) == 1 && stripVers(at.Args[0]).Key() == base.Key() && nonEmpty:
							key = "plen"
						case at.isBin("<<") && at.Args[0].isConst("1") && stripVers(at.Args[1]).Op == "field":
							key = "plen"
						case at.isBin("&") && (stripVers(at.Args[0]).Op == "field" || stripVers(at.Args[1]).Op == "field"):
							// a line number: 0 ≤ x & mask ≤ plen − 1
							axioms = append(axioms, &Linear{Coef: map[string]int{key: 1}, Atoms: map[string]*Term{}, Exact: true})
							axioms = append(axioms, &Linear{Coef: map[string]int{"plen": 1, key: -1}, Atoms: map[string]*Term{}, Exact: true, Const: -1})
						}
						out.Coef[key] += cf
					}
					for k, v := range out.Coef {
						if v == 0 {
							delete(out.Coef, k)
						}
					}
					return out
				}
				L := lineCanon(a.Args[1])
				var facts []*Linear
				for _, cd := range p.Conds {
					if cd.Seq > ld.Seq {
						continue
					}
					t := cd.Term
					if len(t.Args) != 2 || !(t.isBin("<") || t.isBin("<=")) {
						continue
					}
					x, y := lineCanon(t.Args[0]), lineCanon(t.Args[1])
					var f0 *Linear
					switch {
					case t.isBin("<") && cd.Taken:
						f0 = linCombine(y, x, -1)
						f0.Const--
					case t.isBin("<=") && cd.Taken:
						f0 = linCombine(y, x, -1)
					case t.isBin("<") && !cd.Taken:
						f0 = linCombine(x, y, -1)
					default:
						f0 = linCombine(x, y, -1)
						f0.Const--
					}
					facts = append(facts, f0)
				}
				facts = append(facts, axioms...)
				nonNeg := func(l *Linear) bool {
					for _, v := range l.Coef {
						if v != 0 {
							return false
						}
					}
					return l.Const >= 0
				}
				proves := func(q *Linear) bool {
					if nonNeg(q) {
						return true
					}
					for i, f1 := range facts {
						r1 := linCombine(q, f1, -1)
						if nonNeg(r1) {
							return true
						}
						for _, f2 := range facts[i+1:] {
							if nonNeg(linCombine(r1, f2, -1)) {
								return true
							}
						}
					}
					return false
				}
				up := linCombine(&Linear{Coef: map[string]int{"plen": 1}, Atoms: map[string]*Term{}, Exact: true, Const: -1}, L, -1)
				if !proves(L) || !proves(up) {
					bad = firstNonEmpty(bad, fmt.Sprintf("a line is read at %s without the evidence that it lies inside its page (0 ≤ line: %v, line ≤ len(page) − 1: %v) on [%s]", shorten(a.Args[1].Key(), 70), proves(L), proves(up), pathSig(p)))
				}
			}
		}
		// the walk may stop early at the page of the buffered extreme — but that page itself is still scanned: the
		// page number is compared with `index >> log2` non-strictly (a strict comparison skips the page that may hold
		// a bin beyond the buffered extreme)
		inLoop := map[*ssa.BasicBlock]bool{}
		for _, comp := range loopSCCs(f) {
			for _, b := range comp {
				inLoop[b] = true
			}
		}
		// the walk stops at a bound of the table only once it is OUTSIDE the table: a refuted loop test that compares
		// the page number with the table's first page (MaxIndex) or its end (MinIndex) establishes P < first resp.
		// P ≥ first + len(pages) — a test that is refuted already AT the first page leaves that page unscanned
		for _, p := range paths {
			for _, cd := range p.Conds {
				t := cd.Term
				if cd.Taken || cd.If == nil || !inLoop[cd.If.Block()] || len(t.Args) != 2 || !(t.isBin("<") || t.isBin("<=")) {
					continue
				}
				a, b := canonKey(t.Args[0]), canonKey(t.Args[1])
				// refuted a < b: b ≤ a, i.e. a − b ≥ 0 ; refuted a ≤ b: b < a, i.e. a − b − 1 ≥ 0
				f0 := linCombine(a, b, -1)
				if t.isBin("<=") {
					f0.Const--
				}
				only := func(l *Linear, keys ...string) bool { // the difference speaks of P-like forms over these atoms only
					for k, v := range l.Coef {
						if v == 0 {
							continue
						}
						ok := false
						for _, kk := range keys {
							if k == kk {
								ok = true
							}
						}
						if !ok {
							return false
						}
					}
					return true
				}
				if !only(f0, "first", "npages") {
					continue // not a comparison of a page number with a bound of the table
				}
				// a page number on the walk is first + npages − 1 − k (MaxIndex) or first + k (MinIndex): the refuted
				// test must put it at first − 1 or below, resp. at first + npages or above. In both cases the fact
				// f0 ≥ 0, with P eliminated, reads: (what the walk has passed) ≥ (the whole table)
				// k: how many pages the walk has passed when the test is evaluated (from the page number's own form)
				k := 0
				if side.min {
					k = a.Const // P = first + k on the left of P < first + npages
					if a.Coef["npages"] != 0 {
						k = b.Const
					}
				} else {
					pl := b // first ≤ P: P = first + npages − 1 − k on the right
					if a.Coef["npages"] != 0 {
						pl = a
					}
					k = -1 - pl.Const
				}
				if f0.Const > k {
					bad = firstNonEmpty(bad, fmt.Sprintf("the walk may leave the table after %d page(s) although the refuted test only shows len(pages) ≤ %d: %s", k, f0.Const, shorten(t.Key(), 100)))
				}
				if side.min {
					// expected shape: P − (first + npages) ≥ 0 with P = first + k  ⇒  k − npages ≥ 0: coef(npages) = −1, coef(first) = 0
					if !(f0.Coef["npages"] == -1 && f0.Coef["first"] == 0 && f0.Const >= 0) {
						bad = firstNonEmpty(bad, "the walk leaves the table through a test that does not put the page number at or beyond first + len(pages): "+shorten(t.Key(), 110))
					}
				} else {
					// expected shape: first − 1 − P ≥ 0 with P = first + npages − 1 − k ⇒ k − npages ≥ 0
					if !(f0.Coef["npages"] == -1 && f0.Coef["first"] == 0 && f0.Const >= 0) {
						bad = firstNonEmpty(bad, "the walk leaves the table through a test that does not put the page number below first: "+shorten(t.Key(), 110))
					}
				}
			}
		}
		for _, p := range paths {
			for _, cd := range p.Conds {
				t := cd.Term
				if !t.isBin("<") || len(t.Args) != 2 {
					continue
				}
				if cd.If == nil || !inLoop[cd.If.Block()] {
					continue // a comparison outside the walk (e.g. clamping a precomputed bound) decides nothing about a page
				}
				isPageOf := func(x *Term) bool {
					x = stripVers(x)
					return x.isBin(">>") && stripVers(x.Args[0]).Op != "const"
				}
				mentionsFirst := func(x *Term) bool {
					hit := false
					stripVers(x).walk(func(y *Term) bool {
						if isRecvField(y, firstF) {
							hit = true
						}
						return true
					})
					return hit
				}
				if isPageOf(t.Args[0]) && mentionsFirst(t.Args[1]) || isPageOf(t.Args[1]) && mentionsFirst(t.Args[0]) {
					bad = firstNonEmpty(bad, "the page number is compared strictly with the page of a buffered index: "+shorten(t.Key(), 120))
				}
			}
		}
		c.R.check(bad == "" && nSlot > 0 && nLine > 0, rule, "BufferedPaginatedStore."+side.name+"/page-walk", shortFn(f), c.fpos(f),
			map[bool]string{true: "slots read only inside the table; every page scanned from line 0", false: "slots read only inside the table; every page scanned from its last line"}[side.min],
			firstNonEmpty(bad, fmt.Sprintf("%d slot read(s), %d page scan(s) on %d path(s)", nSlot, nLine, len(paths))))
	}
}

// walkDelegate: f does not call its function-typed parameter number cb itself but hands it, unchanged, to exactly one
// function the rules do not know by name (a new helper); returns that helper and the index of the parameter there.
func walkDelegate(f *ssa.Function, cb int) (*ssa.Function, int) {
	if f == nil || cb >= len(f.Params) {
		return nil, 0
	}
	var w *ssa.Function
	wk := 0
	for _, b := range f.Blocks {
		for _, in := range b.Instrs {
			call, ok := in.(*ssa.Call)
			if !ok {
				continue
			}
			if call.Common().Value == ssa.Value(f.Params[cb]) {
				return nil, 0 // calls the callback itself
			}
			if g, ok := call.Common().Value.(*ssa.Function); ok && inlineNewHelpers(g) && len(g.Blocks) > 0 {
				for k, a := range call.Common().Args {
					if a == ssa.Value(f.Params[cb]) {
						if w != nil && w != g {
							return nil, 0
						}
						w, wk = g, k
					}
				}
			}
		}
	}
	return w, wk
}

// foundFlagEmptiness: f ranges over a map, keeps a bool that starts false and is only ever set to true inside the
// range body, and returns a non-nil error exactly on the branch where that bool is false after the range.
func foundFlagEmptiness(f *ssa.Function) bool {
	if f == nil {
		return false
	}
	inRange := map[*ssa.BasicBlock]bool{}
	for _, comp := range loopSCCs(f) {
		hasNext := false
		for _, b := range comp {
			for _, in := range b.Instrs {
				if _, ok := in.(*ssa.Next); ok {
					hasNext = true
				}
			}
		}
		if hasNext {
			for _, b := range comp {
				inRange[b] = true
			}
		}
	}
	if len(inRange) == 0 {
		return false
	}
	for _, b := range f.Blocks {
		if inRange[b] {
			continue
		}
		iff, ok := b.Instrs[len(b.Instrs)-1].(*ssa.If)
		if !ok {
			continue
		}
		var flag *ssa.Phi
		neg := false
		switch v := iff.Cond.(type) {
		case *ssa.Phi:
			flag = v
		case *ssa.UnOp:
			if p, ok := v.X.(*ssa.Phi); ok && v.Op == token.NOT {
				flag, neg = p, true
			}
		}
		if flag == nil {
			continue
		}
		// every value the flag can take: false from outside the range, true (or itself) from inside
		okFlag := true
		var seen = map[*ssa.Phi]bool{}
		var check func(p *ssa.Phi)
		check = func(p *ssa.Phi) {
			if seen[p] {
				return
			}
			seen[p] = true
			for i, e := range p.Edges {
				pred := p.Block().Preds[i]
				switch v := e.(type) {
				case *ssa.Const:
					isTrue := v.Value != nil && v.Value.String() == "true"
					if isTrue && !inRange[pred] || !isTrue && inRange[pred] && false {
						okFlag = false
					}
				case *ssa.Phi:
					check(v)
				default:
					okFlag = false
				}
			}
		}
		check(flag)
		if !okFlag {
			continue
		}
		// the branch on which the flag is false returns a non-nil error; the other one returns nil
		falseSucc, trueSucc := b.Succs[1], b.Succs[0]
		if neg {
			falseSucc, trueSucc = b.Succs[0], b.Succs[1]
		}
		retErr := func(blk *ssa.BasicBlock) int { // +1 nil error, −1 non-nil, 0 unknown
			r, ok := blk.Instrs[len(blk.Instrs)-1].(*ssa.Return)
			if !ok || len(r.Results) != 2 {
				return 0
			}
			if k, ok := r.Results[1].(*ssa.Const); ok && k.IsNil() {
				return 1
			}
			return -1
		}
		if retErr(falseSucc) == -1 && retErr(trueSucc) == 1 {
			return true
		}
	}
	return false
}

// c04SparseEntries: the sparse store's map holds its bins, and every query (emptiness, extremes, iteration, the
// encoders) takes a map entry for a bin with weight. A weight that comes from outside — a method's parameter, a
// decoded value — is therefore written into the map only where it is known not to be zero (AddWithCount returns
// early on a zero count; every other writer goes through it). Weights that are themselves entries of a sparse map
// (a merge of two sparse stores, a copy), the callback arguments of an iteration (iterations skip empty bins: D3)
// and the products of Reweight (C16-D2 / C13) are accepted as they are.
func c04SparseEntries(c *Ctx, rule string) {
	sparse := c.P.NamedType(pkgStore, "SparseStore")
	if sparse == nil {
		c.R.undecided(rule, "SparseStore/entries", "", "", "type resolves", "unresolved")
		return
	}
	isSparseMap := func(v ssa.Value) bool {
		// *(&x.field) with x of type *SparseStore and a map field
		if u, ok := v.(*ssa.UnOp); ok && u.Op == token.MUL {
			if fa, ok := u.X.(*ssa.FieldAddr); ok {
				if pt, ok := fa.X.Type().Underlying().(*types.Pointer); ok {
					if nt, ok := pt.Elem().(*types.Named); ok && nt == sparse {
						_, isMap := u.Type().Underlying().(*types.Map)
						return isMap
					}
				}
			}
		}
		return false
	}
	n := 0
	perFn := map[*ssa.Function]int{}
	for _, f := range c.P.Funcs {
		if !inModule(f) || len(f.Blocks) == 0 {
			continue
		}
		var dom map[*ssa.BasicBlock]bool
		for _, b := range f.Blocks {
			for _, in := range b.Instrs {
				mu, ok := in.(*ssa.MapUpdate)
				if !ok || !isSparseMap(mu.Map) {
					continue
				}
				n++
				perFn[f]++
				key := "SparseStore/entries/" + helperKey(f) + fmt.Sprintf("#%d", perFn[f])
				// the weight written: X in m[k] = m[k] + X, or the whole value
				x := mu.Value
				if bo, ok := x.(*ssa.BinOp); ok && bo.Op == token.ADD {
					isOwn := func(v ssa.Value) bool {
						lk, ok := v.(*ssa.Lookup)
						return ok && (lk.X == mu.Map || isSparseMap(lk.X)) && lk.Index == mu.Key
					}
					if isOwn(bo.X) {
						x = bo.Y
					} else if isOwn(bo.Y) {
						x = bo.X
					}
				}
				origin := ""
				var walk func(v ssa.Value, depth int)
				walk = func(v ssa.Value, depth int) {
					if origin != "" || depth > 6 {
						return
					}
					switch t := v.(type) {
					case *ssa.Lookup:
						if _, isMap := t.X.Type().Underlying().(*types.Map); isMap {
							origin = "an entry of a map"
						}
					case *ssa.Extract:
						if nx, ok := t.Tuple.(*ssa.Next); ok && !nx.IsString {
							origin = "an entry of a map"
						}
					case *ssa.Parameter:
						if f.Parent() != nil {
							origin = "a callback argument"
						}
					case *ssa.Const:
						if t.Value != nil && t.Value.Kind() != constant.Unknown && constant.Sign(t.Value) != 0 {
							origin = "a constant that is not zero"
						}
					case *ssa.BinOp:
						if t.Op == token.MUL {
							origin = "a product"
						}
					case *ssa.Phi:
						for _, e := range t.Edges {
							walk(e, depth+1)
						}
					case *ssa.Convert:
						walk(t.X, depth+1)
					case *ssa.Call:
						if fn := t.Common().StaticCallee(); fn != nil && fn.Pkg != nil && fn.Pkg.Pkg.Path() == "math" && (fn.Name() == "Ldexp") {
							origin = "a product"
						}
					}
				}
				walk(x, 0)
				if origin != "" {
					c.R.okay(rule, key, shortFn(f), c.ipos(mu), "a weight from outside enters the map only where it is known not to be zero", "the weight is "+origin)
					continue
				}
				// a dominating test of x against zero on the side where x ≠ 0
				if dom == nil {
					dom = map[*ssa.BasicBlock]bool{}
				}
				guarded := false
				for d := b; d != nil && !guarded; d = d.Idom() {
					id := d.Idom()
					if id == nil {
						break
					}
					iff, ok := id.Instrs[len(id.Instrs)-1].(*ssa.If)
					if !ok {
						continue
					}
					bo, ok := iff.Cond.(*ssa.BinOp)
					if !ok {
						continue
					}
					isZero := func(v ssa.Value) bool {
						k, ok := v.(*ssa.Const)
						if !ok || k.Value == nil {
							return false
						}
						s := k.Value.String()
						return s == "0" || s == "0.0"
					}
					var op token.Token
					switch {
					case bo.X == x && isZero(bo.Y):
						op = bo.Op
					case bo.Y == x && isZero(bo.X):
						op = map[token.Token]token.Token{token.EQL: token.EQL, token.NEQ: token.NEQ, token.LSS: token.GTR, token.GTR: token.LSS, token.LEQ: token.GEQ, token.GEQ: token.LEQ}[bo.Op]
					default:
						continue
					}
					// which successor carries x ≠ 0
					side := -1
					switch op {
					case token.EQL, token.LEQ, token.GEQ:
						side = 1
					case token.NEQ, token.LSS, token.GTR:
						side = 0
					}
					if side < 0 || len(id.Succs) != 2 || id.Succs[0] == id.Succs[1] {
						continue
					}
					if s := id.Succs[side]; s == d && len(s.Preds) == 1 || s.Dominates(b) && len(s.Preds) == 1 {
						guarded = true
					}
				}
				c.R.check(guarded, rule, key, shortFn(f), c.ipos(mu), "a weight from outside enters the map only where it is known not to be zero",
					map[bool]string{true: "written under a test against zero", false: "the weight " + x.Name() + " is written without a test against zero on the way"}[guarded])
			}
		}
	}
	c.R.floor(rule, "updates of the sparse store's map", n, 2)
}

// c04AddPaths: the obligations that make a store a faithful map from index to accumulated weight on the ADD side —
// entry points, window and shift discipline of the dense family, the paginated store's page table and page use, the
// sparse store's entries. Properties that state what a sketch answers after additions re-evaluate them (under their
// home rule ids): a quantile is only as right as the bin its value was counted in.
func c04AddPaths(c *Ctx) {
	storeI := c.P.NamedType(pkgStore, "Store")
	if storeI == nil {
		return
	}
	impls := c.P.Implementations(storeI)
	c04Entry(c, impls)
	c04Windows(c)
	c04Shift(c, "C04-D6")
	c04Normalize(c, "C04-D6")
	c05ExtendPost(c)
	c04SparseEntries(c, "C04-D3")
	if pr := c.paginated(); pr.err == "" {
		c04PageTable(c, pr, "C04-D9")
		c04PageUse(c, pr, "C04-D9")
	}
}

// c04Readers: the READ side of the same map — totals, emptiness, extreme indexes and iteration of every store.
func c04Readers(c *Ctx) {
	storeI := c.P.NamedType(pkgStore, "Store")
	if storeI == nil {
		return
	}
	impls := c.P.Implementations(storeI)
	c04Total(c, impls)
	c04Extremes(c, impls)
	c04SparseFolds(c, "C04-D4")
	if pr := c.paginated(); pr.err == "" {
		c04PaginatedEmptiness(c, pr)
		c04PaginatedExtremes(c, pr, "C04-D4")
	}
}
