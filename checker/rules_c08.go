package main

import (
	"fmt"
	"go/token"
	"go/types"
	"strconv"
	"strings"

	"golang.org/x/tools/go/ssa"
)

// C08 — malformed or truncated encodings are reported, never absorbed or fatal.

func init() {
	register("C08",
		"DECIDED: D1 error discipline — for every call site, in any function reachable from the public decoders, whose callee is declared in the module and returns an error: on every CFG path the error is either returned directly or nil-tested, and every path on which it is non-nil returns a non-nil error (nothing is absorbed). "+
			"D2 (structural part; bounds are C18-D1) — primitive decoders and the plain decoder's skip arms return io.EOF before any store to the cursor. "+
			"D3 refusals are wired — the default arm of every flag dispatch (sketch decoder, both fallback decoders, mapping.Decode, generic and paginated bin decoders) returns a non-nil error or delegates to a decoder that does; a mapping mismatch returns an error and the mapping is only assigned under the nil-or-Equals guard; every success return of the sketch decoder has passed the missing-mapping test. "+
			"D4 bin decoders succeed only after the announced number of items: every exit of an item loop is controlled by the decoded count or returns a non-nil error; a counter against N is φ(0, counter + 1) tested with < (or advances by len(X) for a batch X that one inner range loop reads item by item and that was cut to at most N − counter); every store's bin decoder returns nil only after a primitive decoder (or the decoder it delegates to) has run; the generic and the paginated decoder return no error of their own making on a known layout (only what the primitives refuse, or an unknown layout). "+
			"D5 block order of the exact variant — every path of its Encode reaches the inner sketch's Encode, and the Count block (when written) precedes it: the decoder's final refusal of 'bins without a count' then never hits a prefix cut between blocks. "+
			"SHARED (obligations of other properties that decide clauses this property states too, re-evaluated here under their home rule ids): C19-D2/D3 (Equals of the three mappings: same-type comma-ok test and the symmetric tolerance table over gamma AND offset of the two operands). C19-D1 binary part (the reader arm of each mapping flag decodes both float64LE fields and returns each error: a cut inside the mapping block is an error). C18-D1 (the primitive decoders, unrolled completely: every byte read is preceded by its own length test, end of input is io.EOF with nothing consumed). "+
			"NOT DECIDED: panics from absurd-but-well-formed input (an index of 2^62 handed to a dense store); enumeration of truncation points is replaced by the every-path argument.",
		"one obligation per (call site × path class) for D1, per decoder arm for D3, per loop exit for D4; non-trivial = required a path or dominance evaluation",
		false, runC08)
}

func hasErrorResult(sig *types.Signature) int {
	rs := sig.Results()
	for i := 0; i < rs.Len(); i++ {
		if types.TypeString(rs.At(i).Type(), nil) == "error" {
			return i
		}
	}
	return -1
}

func decoderRoots(c *Ctx, a *sketchAnchors) []*ssa.Function {
	var roots []*ssa.Function
	roots = append(roots, c.P.Func(pkgSketch, "DecodeDDSketch"), c.P.Func(pkgSketch, "DecodeDDSketchWithExactSummaryStatistics"),
		c.P.DeclaredMethod(a.DDSketch, "DecodeAndMergeWith"), c.P.DeclaredMethod(a.Exact, "DecodeAndMergeWith"),
		c.P.Func(pkgMapping, "Decode"), c.P.Func(pkgStore, "DecodeAndMergeWith"))
	if st := c.P.NamedType(pkgStore, "Store"); st != nil {
		for _, n := range c.P.Implementations(st) {
			roots = append(roots, c.P.MethodOf(n, "DecodeAndMergeWith"))
		}
	}
	return roots
}

func runC08(c *Ctx) {
	a, err := c.anchors()
	if err != nil {
		c.R.undecided("C08", "anchors", "", "", "sketch anchors resolve", err.Error())
		return
	}
	c08ErrDiscipline(c, a)
	c08EOFBeforeConsume(c, a)
	c08Refusals(c, a)
	c08ItemLoops(c, a)
	// "a stream whose mapping differs from the receiver's is reported" rests on the mappings' Equals
	c.shared(func() { c19Equals(c, mappingInfos(c, "C08")) }, func(o *Obligation) bool { return true })
	// "no input makes a decoder panic; running out of input is io.EOF": every byte read of the primitive decoders is guarded
	c.shared(func() { c18Decoders(c) }, func(o *Obligation) bool { return true })
	// the exact variant's decoder: each statistics arm folds only after its primitive decoded; the final
	// "bins without statistics" refusal is exactly count == 0 && !empty (a cut between blocks stays a success)
	c.shared(func() { c10Decode(c, a) }, func(o *Obligation) bool { return true })
	c08ExactOrder(c, a)
	c08LoopExit(c, a)
	c08MappingArm(c, a)
	// a cut inside the mapping block is an error: its reader decodes the flag's two float64LE fields, each error returned
	c.shared(func() { c19Binary(c, mappingInfos(c, "C08")) }, func(o *Obligation) bool { return true })
}

// c08MappingArm: every mapping block is DECODED — by mapping.Decode with the block's own flag, which carries the kind —
// before anything is decided about it. A shortcut that recognises "the receiver's own mapping" from the payload bytes
// alone skips the kind (and the undefined kinds) the flag byte announces.
func c08MappingArm(c *Ctx, a *sketchAnchors) {
	const rule = "C08-D3"
	f := c.blockLoop(a)
	if f == nil {
		return
	}
	ps, _ := execPlain(c, f, nil, 1)
	n := 0
	bad := ""
	for _, p := range ps {
		armSeq := -1
		var flagT *Term
		for _, cd := range p.Conds {
			t := cd.Term
			if t.isBin("==") && cd.Taken {
				for i := 0; i < 2; i++ {
					if g := t.Args[i]; g.Op == "global" && strings.HasSuffix(g.Sym, ".FlagTypeIndexMapping") {
						armSeq = cd.Seq
						if ty := t.Args[1-i]; isMethodCall(ty, "Type") && len(ty.Args) == 1 {
							flagT = ty.Args[0]
						}
					}
				}
			}
		}
		if armSeq < 0 {
			continue
		}
		n++
		decoded := false
		for _, e := range p.Calls() {
			if e.Seq > armSeq && e.Call.Op == "call" && strings.HasSuffix(e.Call.Sym, "mapping.Decode") && len(e.Call.Args) == 2 {
				if flagT == nil || sameVal(e.Call.Args[1], flagT) || e.Call.Args[1].Key() == flagT.Key() {
					decoded = true
				} else {
					bad = "the mapping block is decoded with a flag that is not its own: " + e.Call.Args[1].Key()
				}
				break
			}
			if e.Seq > armSeq && !e.Pure && e.Kind == "call" {
				break // something else happened first
			}
		}
		if !decoded && !p.Panics {
			bad = firstNonEmpty(bad, "a path through the mapping arm does not decode the block with mapping.Decode: ["+pathSig(p)+"]")
		}
	}
	c.R.check(bad == "" && n > 0, rule, shortFn(f)+"/mapping-arm-decodes", shortFn(f), c.fpos(f), "every path through the mapping arm first decodes the block with mapping.Decode and the block's own flag", firstNonEmpty(bad, fmt.Sprintf("%d path(s) through the arm", n)))
}

// moduleErrCallee: the callee (static or interface method) is declared in the module and returns an error.
func moduleErrCall(c *Ctx, call *ssa.Call) (name string, errIdx int, ok bool) {
	com := call.Common()
	if com.IsInvoke() {
		if com.Method.Pkg() == nil || !strings.HasPrefix(com.Method.Pkg().Path(), modPath) {
			return "", 0, false
		}
		sig := com.Method.Type().(*types.Signature)
		i := hasErrorResult(sig)
		if i < 0 {
			return "", 0, false
		}
		recv := types.TypeString(com.Value.Type(), shortQual)
		return recv + "." + com.Method.Name(), i, true
	}
	var fn *ssa.Function
	switch v := com.Value.(type) {
	case *ssa.Function:
		fn = v
	case *ssa.MakeClosure:
		fn = v.Fn.(*ssa.Function)
	default:
		// function value (e.g. the fallback decoder passed as parameter): its type tells whether it returns an error
		if sig, ok := com.Value.Type().Underlying().(*types.Signature); ok {
			if i := hasErrorResult(sig); i >= 0 {
				return "func-value " + com.Value.Name(), i, true
			}
		}
		return "", 0, false
	}
	if !inModule(fn) {
		return "", 0, false
	}
	i := hasErrorResult(fn.Signature)
	if i < 0 {
		return "", 0, false
	}
	return funcName(fn), i, true
}

func c08ErrDiscipline(c *Ctx, a *sketchAnchors) {
	const rule = "C08-D1"
	g := newCallGraph(c.P, c.Mod)
	reach := g.reach(decoderRoots(c, a)...)
	// function literals created by a reachable function run as part of it (the fallback decoders are passed as closures)
	for changed := true; changed; {
		changed = false
		for f := range reach {
			for _, an := range f.AnonFuncs {
				if !reach[an] {
					reach[an] = true
					changed = true
					for g2 := range g.reach(an) {
						if !reach[g2] {
							reach[g2] = true
						}
					}
				}
			}
		}
	}
	sites := 0
	nfn := 0
	for _, f := range sortedFuncs(reach) {
		if len(f.Blocks) == 0 || f.Synthetic != "" {
			continue
		}
		// call sites with a module error result
		type site struct {
			call   *ssa.Call
			name   string
			errIdx int
		}
		var ss []site
		for _, b := range f.Blocks {
			for _, in := range b.Instrs {
				if call, ok := in.(*ssa.Call); ok {
					if name, i, ok := moduleErrCall(c, call); ok {
						ss = append(ss, site{call, name, i})
					}
				}
			}
		}
		if len(ss) == 0 {
			continue
		}
		nfn++
		paths, complete := pathsOf(c.P, f, nil, execOpts{MaxVisits: 2, Pure: c.Mod.PureCall, NoDynInline: true}) // every reachable function, helpers and function literals included, is analysed on its own: no inlining of any kind
		if !complete {
			c.R.undecided(rule, "paths/"+shortFn(f), shortFn(f), c.fpos(f), "path enumeration completes", fmt.Sprintf("more than %d paths", len(paths)))
			continue
		}
		nth := map[string]int{}
		for _, s := range ss {
			sites++
			nth[s.name]++
			key := fmt.Sprintf("%s/callsite/%s#%d", shortFn(f), s.name, nth[s.name])
			// syntactic discard: the error result is never used at all
			used := false
			if s.call.Type().(interface{ String() string }) != nil {
				if tup, ok := s.call.Type().(*types.Tuple); ok && tup.Len() > 1 {
					for _, r := range *s.call.Referrers() {
						if ex, ok := r.(*ssa.Extract); ok && ex.Index == s.errIdx && len(nonDebugRefs(ex)) > 0 {
							used = true
						}
					}
				} else {
					used = len(nonDebugRefs(s.call)) > 0
				}
			}
			if !used {
				c.R.violate(rule, key, shortFn(f), c.ipos(s.call), "the error of "+s.name+" is returned or tested", "error result discarded (never used)")
				continue
			}
			// path-wise: every occurrence on every path
			bad := ""
			occ := 0
			for _, p := range paths {
				for ei, e := range p.Effects {
					if e.Instr != ssa.Instruction(s.call) {
						continue
					}
					occ++
					// the error value of this occurrence
					isErrVal := func(t *Term) bool {
						if t == nil {
							return false
						}
						if t.V == ssa.Value(s.call) {
							return true
						}
						if ex, ok := t.V.(*ssa.Extract); ok && ex.Tuple == ssa.Value(s.call) && ex.Index == s.errIdx {
							return true
						}
						return false
					}
					// window: until the next occurrence of the same call on this path
					endSeq := 1 << 30
					for _, e2 := range p.Effects[ei+1:] {
						if e2.Instr == e.Instr {
							endSeq = e2.Seq
							break
						}
					}
					state := 0
					for _, cnd := range p.Conds {
						if cnd.Seq < e.Seq || cnd.Seq > endSeq {
							continue
						}
						if x, neq, ok := nilTest(cnd.Term); ok && isErrVal(x) {
							if neq == cnd.Taken {
								state = 1
							} else {
								state = -1
							}
							break
						}
					}
					last := p.RetT
					retIsIt := len(last) > 0 && isErrVal(last[len(last)-1]) && endSeq == 1<<30
					switch state {
					case 1:
						// must end in a non-nil error return (no later occurrence may intervene)
						if p.Ret == nil || len(p.RetT) == 0 {
							bad = "path with a non-nil error does not return it: " + describeRet(p)
						} else if !(isErrVal(last[len(last)-1]) || p.RetNil(len(p.RetT)-1) == -1) {
							bad = fmt.Sprintf("error is non-nil on path [%s] but the function returns %s", p, describeRet(p))
						}
					case 0:
						if !retIsIt {
							// neither tested nor returned on this path. It may still be stored for a later test (named results): accept if the function's result is the value via a φ
							if !(len(last) > 0 && last[len(last)-1].contains(mkErrKey(s.call, s.errIdx))) {
								bad = fmt.Sprintf("error neither tested nor returned on path [%s]: %s", p, describeRet(p))
							}
						}
					}
				}
			}
			if occ == 0 {
				c.R.undecided(rule, key, shortFn(f), c.ipos(s.call), "call site lies on an enumerated path", "no enumerated path passes through the call")
				continue
			}
			c.R.check(bad == "", rule, key, shortFn(f), c.ipos(s.call), "the error of "+s.name+" is returned, or nil-tested with every non-nil path returning a non-nil error",
				firstNonEmpty(bad, fmt.Sprintf("%d occurrence(s) on %d path(s) propagate", occ, len(paths))))
		}
	}
	c.R.count("decode_reachable_functions", len(reach))
	c.R.floor(rule, "error-returning call sites below the decoders", sites, 30)
	c.R.floor(rule, "decode-reachable functions with such call sites", nfn, 9)
}

func mkErrKey(call *ssa.Call, idx int) string {
	return "" // placeholder: φ-carried errors are handled by named-result functions whose returns are φ-resolved per path
}

func nonDebugRefs(v ssa.Value) []ssa.Instruction {
	var out []ssa.Instruction
	if v.Referrers() == nil {
		return nil
	}
	for _, r := range *v.Referrers() {
		if _, ok := r.(*ssa.DebugRef); ok {
			continue
		}
		out = append(out, r)
	}
	return out
}

// encDecoders: exported functions of the encoding package shaped func(*[]byte) (T, error)
func encDecoders(c *Ctx) []*ssa.Function {
	var out []*ssa.Function
	sp := c.P.SPkgs[pkgEnc]
	for _, m := range sp.Members {
		f, ok := m.(*ssa.Function)
		if !ok || f.Object() == nil || !f.Object().Exported() || len(f.Params) != 1 {
			continue
		}
		if types.TypeString(f.Params[0].Type(), nil) != "*[]byte" {
			continue
		}
		if f.Signature.Results().Len() == 2 && hasErrorResult(f.Signature) == 1 {
			out = append(out, f)
		}
	}
	return sortedFuncs(funcSet(out))
}

func encEncoders(c *Ctx) []*ssa.Function {
	var out []*ssa.Function
	sp := c.P.SPkgs[pkgEnc]
	for _, m := range sp.Members {
		f, ok := m.(*ssa.Function)
		if !ok || f.Object() == nil || !f.Object().Exported() || len(f.Params) != 2 {
			continue
		}
		if types.TypeString(f.Params[0].Type(), nil) != "*[]byte" || f.Signature.Results().Len() != 0 {
			continue
		}
		out = append(out, f)
	}
	return sortedFuncs(funcSet(out))
}

func funcSet(fs []*ssa.Function) map[*ssa.Function]bool {
	m := map[*ssa.Function]bool{}
	for _, f := range fs {
		m[f] = true
	}
	return m
}

// D2 (structural part): EOF is returned before the cursor is touched.
func c08EOFBeforeConsume(c *Ctx, a *sketchAnchors) {
	const rule = "C08-D2"
	n := 0
	fns := encDecoders(c)
	// plus the plain decoder's fallback closure (skip arms)
	if dm := c.P.DeclaredMethod(a.DDSketch, "DecodeAndMergeWith"); dm != nil {
		fns = append(fns, dm.AnonFuncs...)
	}
	for _, f := range fns {
		paths, _ := exec(c, f, nil, 2)
		nEOF := 0
		bad := ""
		for _, p := range paths {
			if len(p.RetT) == 0 {
				continue
			}
			last := p.RetT[len(p.RetT)-1]
			if last.Key() != "global:io.EOF" {
				continue
			}
			nEOF++
			for _, e := range p.Effects {
				if e.Kind == "store" && e.Addr.isParam(0) {
					bad = "cursor advanced before io.EOF is returned: " + e.String()
				}
				if e.Kind == "call" && !e.Pure {
					bad = "state-changing call before io.EOF is returned: " + e.String()
				}
			}
		}
		n++
		key := shortFn(f) + "/eof-consumes-nothing"
		if nEOF == 0 {
			// decoders built on other decoders propagate their callee's EOF (D1); only report for leaf decoders
			leaf := true
			for _, b := range f.Blocks {
				for _, in := range b.Instrs {
					if call, ok := in.(*ssa.Call); ok {
						if _, _, ok := moduleErrCall(c, call); ok {
							leaf = false
						}
					}
				}
			}
			if leaf {
				c.R.violate(rule, key, shortFn(f), c.fpos(f), "a path returning io.EOF when the buffer is too short", "no path returns io.EOF")
			} else {
				c.R.trivial(rule, key, shortFn(f), c.fpos(f), "EOF comes from the callee (covered by D1)", "composite decoder")
			}
			continue
		}
		c.R.check(bad == "", rule, key, shortFn(f), c.fpos(f), "every path returning io.EOF has not stored to *b nor called anything state-changing", firstNonEmpty(bad, fmt.Sprintf("%d EOF path(s)", nEOF)))
	}
	c.R.floor(rule, "leaf/composite decoders examined", n, 7)
	// the plain decoder skips the exact-statistics payloads it does not keep: a skip of K bytes happens on a path that
	// has established len(*b) ≥ K with the same K, io.EOF is returned exactly when len(*b) < K, and K is 8 — the
	// size of the float64LE payload of the Sum / Min / Max blocks (C07 grammar)
	if dm := c.P.DeclaredMethod(a.DDSketch, "DecodeAndMergeWith"); dm != nil {
		for _, cl := range dm.AnonFuncs {
			paths, _ := exec(c, cl, nil, 1)
			nSkip := 0
			bad := ""
			lenBound := func(p *Path) (k string, short bool, ok bool) {
				for _, cd := range p.Conds {
					t := cd.Term
					isLen := func(l *Term) bool {
						l = stripConv(l)
						return l.Op == "builtin" && l.Sym == "len" && len(l.Args) == 1 && l.Args[0].unver().Op == "load" && l.Args[0].unver().Args[0].isParam(0)
					}
					if t.isBin("<") && t.Args[1].Op == "const" && isLen(t.Args[0]) { // len(*b) < K
						return t.Args[1].Sym, cd.Taken, true
					}
					if t.isBin("<=") && t.Args[0].Op == "const" && isLen(t.Args[1]) { // K <= len(*b), i.e. len(*b) >= K
						return t.Args[0].Sym, !cd.Taken, true
					}
				}
				return "", false, false
			}
			for _, p := range paths {
				var adv *Term
				for _, e := range p.Effects {
					if e.Kind == "store" && e.Addr.isParam(0) {
						adv = e.Val
					}
				}
				k, short, tested := lenBound(p)
				switch {
				case adv != nil && adv.Op == "slice" && len(adv.Args) == 3 && adv.Args[1].Op == "const":
					nSkip++
					if !tested || short || k != adv.Args[1].Sym || k != "8" {
						bad = fmt.Sprintf("skips %s byte(s) on a path that established len(*b) ≥ %s (tested=%v): [%s]", adv.Args[1].Sym, k, tested && !short, p.String())
					}
				case tested && short:
					if last := p.RetT[len(p.RetT)-1]; last.Key() != "global:io.EOF" || k != "8" {
						bad = fmt.Sprintf("len(*b) < %s returns %s", k, last.Key())
					}
				case tested && !short && adv == nil:
					bad = "enough input established but nothing skipped: [" + p.String() + "]"
				}
			}
			c.R.check(bad == "" && nSkip > 0, rule, shortFn(cl)+"/skip-arms", shortFn(cl), c.fpos(cl), "skip of 8 bytes exactly when len(*b) ≥ 8, io.EOF exactly when len(*b) < 8", firstNonEmpty(bad, fmt.Sprintf("%d skipping path(s)", nSkip)))
		}
	}
}

// flagSel recognisers
func isGlobalOfEnc(t *Term) bool {
	return t != nil && t.Op == "global" && strings.HasPrefix(t.Sym, "ddsketch/encoding.")
}

// D3: refusals are wired.
func c08Refusals(c *Ctx, a *sketchAnchors) {
	const rule = "C08-D3"
	type disp struct {
		f     *ssa.Function
		sel   func(t *Term) bool
		what  string
		deleg func(p *Path) bool // default arm may delegate
	}
	var ds []disp
	paramSel := func(i int) func(*Term) bool { return func(t *Term) bool { return t.isParam(i) } }
	if f := c.P.Func(pkgMapping, "Decode"); f != nil {
		ds = append(ds, disp{f: f, sel: paramSel(1), what: "mapping flag"})
	}
	generic := c.P.Func(pkgStore, "DecodeAndMergeWith")
	if generic != nil {
		ds = append(ds, disp{f: generic, sel: paramSel(2), what: "bin encoding mode"})
	}
	if n := c.P.NamedType(pkgStore, "BufferedPaginatedStore"); n != nil {
		if f := c.P.DeclaredMethod(n, "DecodeAndMergeWith"); f != nil {
			ds = append(ds, disp{f: f, sel: paramSel(2), what: "bin encoding mode", deleg: func(p *Path) bool {
				// default delegates to the generic decoder with the same buffer and mode, returning its result
				for _, e := range p.Calls() {
					t := e.Call
					if t.Op == "call" && t.Sym == funcName(generic) && len(t.Args) == 3 && t.Args[0].isParam(0) && t.Args[1].isParam(1) && t.Args[2].isParam(2) {
						return len(p.RetT) == 1 && sameVal(p.RetT[0], t)
					}
				}
				return false
			}})
		}
	}
	for _, m := range []*ssa.Function{c.P.DeclaredMethod(a.DDSketch, "DecodeAndMergeWith"), c.P.DeclaredMethod(a.Exact, "DecodeAndMergeWith")} {
		if m == nil {
			continue
		}
		for _, an := range m.AnonFuncs {
			ds = append(ds, disp{f: an, sel: paramSel(1), what: "feature flag (fallback decoder)"})
		}
	}
	nd := 0
	for _, d := range ds {
		paths, _ := exec(c, d.f, nil, 2)
		arms, _ := dispatchArms(paths, d.sel)
		def := arms["default"]
		key := shortFn(d.f) + "/default-arm"
		nd++
		if len(def) == 0 {
			c.R.violate(rule, key, shortFn(d.f), c.fpos(d.f), "a default arm for unknown "+d.what, fmt.Sprintf("no path on which every %s comparison fails (%d arms)", d.what, len(arms)))
			continue
		}
		bad := ""
		for _, p := range def {
			if p.RetNil(len(p.RetT)-1) == -1 && len(p.Writes()) == 0 {
				continue
			}
			if d.deleg != nil && d.deleg(p) {
				continue
			}
			bad = fmt.Sprintf("default arm: %s; %s", describeRet(p), describeWrites(p))
		}
		c.R.check(bad == "", rule, key, shortFn(d.f), c.fpos(d.f), "unknown "+d.what+" ⇒ non-nil error and no write (or delegation to a decoder that refuses)", firstNonEmpty(bad, fmt.Sprintf("%d default path(s), %d known arms", len(def), len(arms)-1)))
	}
	c.R.floor(rule, "flag dispatches with a default arm", nd, 5)

	// the sketch-level block loop
	f := c.blockLoop(a)
	if f == nil {
		// role: the method of *DDSketch that both DecodeAndMergeWith variants call with a fallback closure
		c.R.undecided(rule, "anchor/decodeAndMergeWith", "", "", "the shared block-loop decoder exists", "unresolved")
		return
	}
	paths, complete := exec(c, f, nil, 2)
	if !complete {
		c.R.undecided(rule, "paths/"+shortFn(f), shortFn(f), c.fpos(f), "path enumeration completes", "too many paths")
		return
	}
	c.R.count("block_loop_paths", len(paths))
	isMapField := func(t *Term) bool { return isRecvField(t, a.mapField) }
	isMapNil := func(t *Term) (neq, ok bool) {
		x, n, k := nilTest(t)
		if k && isMapField(x) {
			return n, true
		}
		return false, false
	}
	// (a) unknown flag reaches the fallback decoder and its error is returned: D1 covers the return; here: the fallback is called on the default/default path
	nFallback := 0
	for _, p := range paths {
		for _, e := range p.Calls() {
			if e.Call.Op == "dyncall" && len(e.Call.Args) == 3 && e.Call.Args[0].isParam(2) {
				nFallback++
			}
		}
	}
	c.R.check(nFallback > 0, rule, shortFn(f)+"/fallback-called", shortFn(f), c.fpos(f), "flags not handled by the block loop are passed to the fallback decoder", fmt.Sprintf("%d path occurrence(s)", nFallback))
	// (b) missing mapping: every success return is preceded by a taken `mapping != nil`
	badB := ""
	nSucc := 0
	for _, p := range paths {
		if p.RetNil(0) != 1 {
			continue
		}
		nSucc++
		ok := false
		for i := len(p.Conds) - 1; i >= 0; i-- {
			if neq, k := isMapNil(p.Conds[i].Term); k {
				ok = neq == p.Conds[i].Taken
				// must be after the last store to the mapping field
				for _, e := range p.Effects {
					if e.Kind == "store" && isMapField(e.Addr) && e.Seq > p.Conds[i].Seq {
						ok = false
					}
				}
				break
			}
		}
		if !ok {
			badB = "success path without a passed mapping != nil test: [" + p.String() + "]"
		}
	}
	c.R.check(badB == "" && nSucc > 0, rule, shortFn(f)+"/missing-mapping", shortFn(f), c.fpos(f), "every success return has passed the `mapping != nil` test after the last mapping assignment", firstNonEmpty(badB, fmt.Sprintf("%d success path(s)", nSucc)))
	// (c) mapping mismatch: store to the mapping only under (mapping == nil || Equals true); Equals false ⇒ error, no further write
	badC := ""
	nStore, nMismatch := 0, 0
	for _, p := range paths {
		for _, e := range p.Effects {
			if e.Kind != "store" || !isMapField(e.Addr) {
				continue
			}
			nStore++
			guard := false
			for i := len(p.Conds) - 1; i >= 0; i-- {
				cd := p.Conds[i]
				if cd.Seq > e.Seq {
					continue
				}
				if neq, k := isMapNil(cd.Term); k {
					if neq != cd.Taken { // mapping == nil
						guard = true
					}
					break
				}
				if isMethodCall(cd.Term, "Equals") && len(cd.Term.Args) == 2 && (isMapField(cd.Term.Args[0]) || isMapField(cd.Term.Args[1])) {
					guard = cd.Taken
					break
				}
			}
			if !guard {
				badC = "mapping assigned without the nil-or-Equals guard on path [" + p.String() + "]"
			}
		}
		for _, cd := range p.Conds {
			if isMethodCall(cd.Term, "Equals") && !cd.Taken && len(cd.Term.Args) == 2 && (isMapField(cd.Term.Args[0]) || isMapField(cd.Term.Args[1])) {
				nMismatch++
				// the path must end right there with an error: no effect after the test, non-nil error
				for _, e := range p.Effects {
					if e.Seq > cd.Seq && !(e.Kind == "call" && e.Pure) {
						badC = "mapping mismatch continues decoding: " + e.String()
					}
				}
				if p.RetNil(0) != -1 {
					badC = "mapping mismatch does not return an error: " + describeRet(p)
				}
			}
		}
	}
	// the guard speaks of the mapping the receiver has NOW: a stream may carry several mapping blocks (concatenated
	// encodings), and each is compared with the mapping as it stands after the previous one was adopted — not with a
	// copy taken before decoding started
	for _, p := range paths {
		for _, cd := range p.Conds {
			var mt *Term
			if x, _, k := nilTest(cd.Term); k && isMapField(x) {
				mt = x
			}
			if isMethodCall(cd.Term, "Equals") && len(cd.Term.Args) == 2 {
				for _, x := range cd.Term.Args {
					if isMapField(x) {
						mt = x
					}
				}
			}
			if mt == nil {
				continue
			}
			have := 0
			if mt.Op == "ver" {
				have, _ = strconv.Atoi(mt.Sym)
			}
			want := 0
			for _, e := range p.Effects {
				if e.Kind == "store" && e.Seq < cd.Seq && isMapField(e.Addr) {
					want++
				}
			}
			if have != want {
				badC = firstNonEmpty(badC, fmt.Sprintf("a mapping test reads the receiver's mapping as it was %d assignment(s) ago: %s", want-have, shorten(cd.Term.Key(), 100)))
			}
		}
	}
	// the refusal itself is reserved for a real mismatch: a path that ends in a fresh error right after consulting the
	// receiver's mapping has seen Equals answer false (a receiver that merely HAS a mapping is not a mismatch)
	for _, p := range paths {
		if len(p.RetT) == 0 || p.RetNil(len(p.RetT)-1) != -1 {
			continue
		}
		rt := p.RetT[len(p.RetT)-1]
		if !(rt.Op == "call" && (strings.HasPrefix(rt.Sym, "errors.New") || strings.HasPrefix(rt.Sym, "fmt.Errorf"))) {
			continue
		}
		lastSeq, sawEqualsFalse, aboutMapping := 0, false, false
		for _, cd := range p.Conds {
			if neq, k := isMapNil(cd.Term); k {
				aboutMapping = neq == cd.Taken // "the receiver has a mapping"; the opposite is the missing-mapping refusal
				lastSeq = cd.Seq
			}
			if isMethodCall(cd.Term, "Equals") && len(cd.Term.Args) == 2 && (isMapField(cd.Term.Args[0]) || isMapField(cd.Term.Args[1])) {
				aboutMapping = true
				lastSeq = cd.Seq
				if !cd.Taken {
					sawEqualsFalse = true
				}
			}
		}
		if !aboutMapping || lastSeq != p.Conds[len(p.Conds)-1].Seq {
			continue // the error is decided by a later condition (e.g. the missing-mapping test at the end)
		}
		laterEffect := false
		for _, e := range p.Effects {
			if e.Seq > lastSeq && !(e.Kind == "call" && e.Pure) && !(e.Kind == "call" && e.Call == rt) {
				laterEffect = true
			}
		}
		if !laterEffect && !sawEqualsFalse {
			badC = firstNonEmpty(badC, "a stream is refused right after the receiver's mapping was consulted although Equals did not answer false: ["+p.String()+"]")
		}
	}
	c.R.check(badC == "" && nStore > 0 && nMismatch > 0, rule, shortFn(f)+"/mapping-mismatch", shortFn(f), c.fpos(f),
		"decoded mapping is assigned only when the receiver has none or Equals holds; a mismatch returns an error immediately", firstNonEmpty(badC, fmt.Sprintf("%d guarded assignment(s), %d mismatch path(s)", nStore, nMismatch)))
}

// D4: item loops of bin decoders.
func c08ItemLoops(c *Ctx, a *sketchAnchors) {
	const rule = "C08-D4"
	var fns []*ssa.Function
	if f := c.P.Func(pkgStore, "DecodeAndMergeWith"); f != nil {
		fns = append(fns, f)
	}
	if n := c.P.NamedType(pkgStore, "BufferedPaginatedStore"); n != nil {
		if f := c.P.DeclaredMethod(n, "DecodeAndMergeWith"); f != nil {
			fns = append(fns, f)
		}
	}
	nloops := 0
	for _, f := range withNewHelpers(fns...) {
		tc := newTermCtx(c.P)
		// the decoded item counts: first results of DecodeUvarint64 calls
		for li, comp := range loopSCCs(f) {
			in := map[*ssa.BasicBlock]bool{}
			for _, b := range comp {
				in[b] = true
			}
			// does the loop decode items? (contains a call to a module decoder)
			decodes := false
			for _, b := range comp {
				for _, ins := range b.Instrs {
					if call, ok := ins.(*ssa.Call); ok {
						if _, _, ok := moduleErrCall(c, call); ok {
							decodes = true
						}
					}
				}
			}
			if !decodes {
				continue
			}
			nloops++
			nexit := 0
			for _, b := range comp {
				for si, s := range b.Succs {
					if in[s] {
						continue
					}
					nexit++
					key := fmt.Sprintf("%s/loop%d/exit%d", shortFn(f), li, nexit)
					// exit target returning a non-nil error?
					if retErr := blockReturnsErr(c, s); retErr {
						c.R.okay(rule, key, shortFn(f), c.ipos(b.Instrs[len(b.Instrs)-1]), "exit is an error return", "error return")
						continue
					}
					iff, ok := b.Instrs[len(b.Instrs)-1].(*ssa.If)
					if !ok {
						c.R.violate(rule, key, shortFn(f), c.ipos(b.Instrs[len(b.Instrs)-1]), "loop exit controlled by the decoded item count or an error return", "unconditional exit from the item loop")
						continue
					}
					ct := tc.Of(iff.Cond)
					mentionsN := false
					if ct.Op == "bin" && len(ct.Args) == 2 {
						mentionsN = isCountDerived(tc, ct.Args[0], 0) || isCountDerived(tc, ct.Args[1], 0)
					}
					_ = si
					c.R.check(mentionsN, rule, key, shortFn(f), c.ipos(iff), "loop exit decided by comparing with the decoded item count itself (a counter against N, or N minus what was consumed against 0), or an error return", "exit condition "+ct.Key())
					// a counter against N reads exactly N items: the counter is φ(0, counter + 1) and the loop goes on
					// exactly while counter < N (≤, a start at 1, or a step of 2 read one item too many or too few)
					if bo, isBin := iff.Cond.(*ssa.BinOp); isBin && mentionsN {
						var ctr *ssa.Phi
						ctrLeft := false
						if p, ok := bo.X.(*ssa.Phi); ok && in[p.Block()] {
							ctr, ctrLeft = p, true
						} else if p, ok := bo.Y.(*ssa.Phi); ok && in[p.Block()] {
							ctr = p
						}
						if ctr != nil {
							var init *ssa.Const
							var step *ssa.BinOp
							for _, e := range ctr.Edges {
								if k, ok := e.(*ssa.Const); ok {
									init = k
								}
								if b2, ok := e.(*ssa.BinOp); ok && (b2.X == ssa.Value(ctr) || b2.Y == ssa.Value(ctr)) {
									step = b2
								}
							}
							if init != nil && step != nil && step.Op == token.ADD {
								// an ascending counter
								one := false
								if k, ok := step.Y.(*ssa.Const); ok && k.Value != nil && k.Value.String() == "1" {
									one = true
								}
								if k, ok := step.X.(*ssa.Const); ok && k.Value != nil && k.Value.String() == "1" {
									one = true
								}
								strict := ctrLeft && bo.Op == token.LSS || !ctrLeft && bo.Op == token.GTR
								zero := init.Value != nil && init.Value.String() == "0"
								if !one {
									// a batch step: counter += len(X) where one inner `range X` loop reads one item per
									// element and X was cut to at most N − counter elements
									nv := bo.Y
									if !ctrLeft {
										nv = bo.X
									}
									other := step.Y
									if step.Y == ssa.Value(ctr) {
										other = step.X
									}
									if why := c08BatchStep(c, tc, comp, ctr, nv, other); why == "" {
										one = true
									} else {
										c.R.check(false, rule, key+"/exactly-N", shortFn(f), c.ipos(iff), "counter = φ(0, counter + 1), loop while counter < N (or counter += len(X) for a batch X of at most N − counter items read by one inner range loop): exactly the announced number of items is read",
											fmt.Sprintf("start %s, step %s, test %s: %s", init.Name(), step.String(), bo.String(), why))
										continue
									}
								}
								c.R.check(strict && zero && one, rule, key+"/exactly-N", shortFn(f), c.ipos(iff), "counter = φ(0, counter + 1), loop while counter < N: exactly the announced number of items is read",
									fmt.Sprintf("start %s, step %s, test %s", init.Name(), step.String(), bo.String()))
							}
						}
					}
				}
			}
		}
	}
	c.R.floor(rule, "item loops in bin decoders", nloops, 3) // two layouts may share one loop
	c08BatchSizes(c, rule, withNewHelpers(fns...))
	// every store's bin decoder reports success only after it has read something: a path that returns nil has called
	// a primitive decoder, or handed the cursor to another bin decoder (a block that lost everything after its flag
	// byte is a truncated block, not an empty one)
	if storeI := c.P.NamedType(pkgStore, "Store"); storeI != nil {
		nd := 0
		for _, t := range c.P.Implementations(storeI) {
			f := c.P.DeclaredMethod(t, "DecodeAndMergeWith")
			if f == nil {
				continue
			}
			nd++
			paths, _ := exec(c, f, nil, 1)
			bad := ""
			for _, p := range paths {
				if len(p.RetT) != 1 || p.RetNil(0) != 1 {
					continue
				}
				read := false
				for _, e := range p.Calls() {
					if e.Call.Op == "call" && (strings.Contains(e.Call.Sym, "encoding.Decode") || strings.HasSuffix(e.Call.Sym, "DecodeAndMergeWith")) {
						read = true
					}
				}
				if !read {
					bad = "a path reports success without having decoded anything: [" + p.String() + "]"
				}
			}
			c.R.check(bad == "", rule, t.Obj().Name()+".DecodeAndMergeWith/success-after-reading", shortFn(f), c.fpos(f),
				"nil is returned only after a primitive decoder (or another bin decoder) has run", firstNonEmpty(bad, fmt.Sprintf("%d path(s)", len(paths))))
		}
		c.R.floor(rule, "store bin decoders", nd, 5)
	}
	// … and the two bin decoders that read the layouts refuse a block only for what the primitives refuse (or for an
	// unknown layout): an error they mint themselves in the middle of a layout — a range guard, a sanity check —
	// would have to be shown never to fire on a well-formed block, which nothing here can do
	for _, f := range fns {
		paths, _ := exec(c, f, nil, 1)
		arms, _ := dispatchArms(paths, func(t *Term) bool { return t.isParam(len(f.Params) - 1) })
		isDefault := map[*Path]bool{}
		for _, p := range arms["default"] {
			isDefault[p] = true
		}
		bad := ""
		n := 0
		for _, p := range paths {
			last := len(p.RetT) - 1
			if last < 0 || p.RetNil(last) != -1 {
				continue
			}
			n++
			r := p.RetT[last]
			fromCall := r.Op == "extract" && len(r.Args) == 1 && (r.Args[0].Op == "call" || r.Args[0].Op == "invoke")
			viaCall := r.Op == "call" || r.Op == "invoke" // return f(...) delegating
			if fromCall && (strings.Contains(r.Args[0].Sym, "encoding.Decode") || strings.HasSuffix(r.Args[0].Sym, "DecodeAndMergeWith")) {
				continue
			}
			if viaCall && strings.HasSuffix(r.Sym, "DecodeAndMergeWith") {
				continue
			}
			if isDefault[p] {
				continue
			}
			// decided by the layout selector alone, however the test is written (before the dispatch, as a range test …)
			modeOnly, sawMode := true, false
			for _, cd := range p.Conds {
				cd.Term.walk(func(x *Term) bool {
					switch {
					case x.isParam(len(f.Params) - 1):
						sawMode = true
					case x.Op == "param", x.Op == "load", x.Op == "field", x.Op == "call", x.Op == "invoke", x.Op == "extract":
						modeOnly = false
					}
					return true
				})
			}
			if modeOnly && sawMode {
				continue
			}
			bad = "an error of the decoder's own making on a known layout: " + describeRet(p) + " on [" + pathSig(p) + "]"
		}
		c.R.check(bad == "", rule, shortFn(f)+"/refuses-only-what-the-primitives-refuse", shortFn(f), c.fpos(f),
			"every error return is the error of a primitive decoder (or of the decoder delegated to), or the refusal of an unknown layout", firstNonEmpty(bad, fmt.Sprintf("%d error path(s)", n)))
	}
}

// c08BatchStep decides the batch form of an item counter: `step` (the amount added to the counter in one turn of the
// outer loop) is len(X); every item decode of the outer loop is the single decode of the body of one inner
// `for … range X`; and X is φ(A, A[:N−counter]) joined under the test N−counter < len(A), so that len(X) ≤ N−counter.
// It answers "" when all of that holds, otherwise what is missing.
func c08BatchStep(c *Ctx, tc *TermCtx, comp []*ssa.BasicBlock, ctr *ssa.Phi, nv, step ssa.Value) string {
	unconv := func(v ssa.Value) ssa.Value {
		for {
			cv, ok := v.(*ssa.Convert)
			if !ok {
				return v
			}
			v = cv.X
		}
	}
	lenOf := func(v ssa.Value) ssa.Value {
		if call, ok := unconv(v).(*ssa.Call); ok {
			if b, isB := call.Common().Value.(*ssa.Builtin); isB && b.Name() == "len" && len(call.Common().Args) == 1 {
				return call.Common().Args[0]
			}
		}
		return nil
	}
	x := lenOf(step)
	if x == nil {
		return "the step is not the length of a batch"
	}
	in := map[*ssa.BasicBlock]bool{}
	for _, b := range comp {
		in[b] = true
	}
	// the inner range loop over X: header φ(−1, φ+1), test φ+1 < len(X)
	var body *ssa.BasicBlock
	for _, b := range comp {
		iff, ok := b.Instrs[len(b.Instrs)-1].(*ssa.If)
		if !ok {
			continue
		}
		bo, ok := iff.Cond.(*ssa.BinOp)
		if !ok || bo.Op != token.LSS || lenOf(bo.Y) != x {
			continue
		}
		inc, ok := bo.X.(*ssa.BinOp)
		if !ok || inc.Op != token.ADD {
			continue
		}
		ph, ok := inc.X.(*ssa.Phi)
		k, okK := inc.Y.(*ssa.Const)
		if !ok || !okK || k.Value == nil || k.Value.String() != "1" || ph.Block() != b || len(ph.Edges) != 2 {
			continue
		}
		okInit, okStep := false, false
		for _, e := range ph.Edges {
			if k, isK := e.(*ssa.Const); isK && k.Value != nil && k.Value.String() == "-1" {
				okInit = true
			}
			if e == ssa.Value(inc) {
				okStep = true
			}
		}
		if okInit && okStep {
			body = b.Succs[0]
		}
	}
	if body == nil {
		return "no inner range loop over the batch"
	}
	ndec := 0
	for _, b := range comp {
		for _, ins := range b.Instrs {
			if call, ok := ins.(*ssa.Call); ok {
				if _, _, ok := moduleErrCall(c, call); ok {
					ndec++
					if b != body {
						return "an item is decoded outside the body of the range loop over the batch"
					}
				}
			}
		}
	}
	if ndec != 1 {
		return fmt.Sprintf("%d decodes in the body of the range loop over the batch", ndec)
	}
	// len(X) ≤ N − counter
	ph, ok := x.(*ssa.Phi)
	if !ok || len(ph.Edges) != 2 || !in[ph.Block()] {
		return "the batch is not cut to what remains"
	}
	isRemaining := func(v ssa.Value) bool {
		bo, ok := unconv(v).(*ssa.BinOp)
		return ok && bo.Op == token.SUB && bo.X == nv && bo.Y == ssa.Value(ctr)
	}
	for i := 0; i < 2; i++ {
		full, cut := ph.Edges[i], ph.Edges[1-i]
		sl, ok := cut.(*ssa.Slice)
		if !ok || sl.X != full || sl.Low != nil || sl.High == nil || !isRemaining(sl.High) {
			continue
		}
		// the edge that brings the full batch comes from the block that tests remaining < len(full) and goes to the cut on true
		from := ph.Block().Preds[i]
		iff, ok := from.Instrs[len(from.Instrs)-1].(*ssa.If)
		if !ok || from.Succs[1] != ph.Block() || from.Succs[0] != sl.Block() {
			continue
		}
		bo, ok := iff.Cond.(*ssa.BinOp)
		if !ok {
			continue
		}
		if bo.Op == token.LSS && isRemaining(bo.X) && lenOf(bo.Y) == full || bo.Op == token.GTR && isRemaining(bo.Y) && lenOf(bo.X) == full {
			return ""
		}
	}
	return "the batch is not cut to what remains"
}

// c08BatchSizes: a decoder that consumes the announced items in batches of min(remaining, room) and then
// subtracts the batch from what remains relies on room ≥ 0 — with a negative room the remaining count GROWS and
// the decoder reads past the block. room = A − len(x) is non-negative when A is cap(x) or max(cap(x), …)
// (cap(x) ≥ len(x) always); any other A is not accepted.
func c08BatchSizes(c *Ctx, rule string, fns []*ssa.Function) {
	isMinMax := func(call *ssa.Call, name string) bool {
		switch v := call.Common().Value.(type) {
		case *ssa.Builtin:
			return v.Name() == name
		case *ssa.Function:
			return v.Name() == name && inModule(v)
		}
		return false
	}
	var dominatesLen func(v ssa.Value, x string, tc *TermCtx, depth int) bool
	dominatesLen = func(v ssa.Value, x string, tc *TermCtx, depth int) bool {
		if depth > 4 {
			return false
		}
		if call, ok := v.(*ssa.Call); ok {
			if b, isB := call.Common().Value.(*ssa.Builtin); isB && b.Name() == "cap" && tc.Of(call.Common().Args[0]).unver().Key() == x {
				return true
			}
			if isMinMax(call, "max") {
				for _, a := range call.Common().Args {
					if dominatesLen(a, x, tc, depth+1) {
						return true
					}
				}
			}
		}
		return false
	}
	n := 0
	for _, f := range fns {
		tc := newTermCtx(c.P)
		nth := 0
		for _, b := range f.Blocks {
			for _, in := range b.Instrs {
				call, ok := in.(*ssa.Call)
				if !ok || !isMinMax(call, "min") {
					continue
				}
				for _, a := range call.Common().Args {
					sub, ok := a.(*ssa.BinOp)
					if !ok || sub.Op != token.SUB {
						continue
					}
					lenCall, ok := sub.Y.(*ssa.Call)
					if !ok {
						continue
					}
					if bi, isB := lenCall.Common().Value.(*ssa.Builtin); !isB || bi.Name() != "len" {
						continue
					}
					x := tc.Of(lenCall.Common().Args[0]).unver().Key()
					n++
					nth++
					ok = dominatesLen(sub.X, x, tc, 0)
					c.R.check(ok, rule, fmt.Sprintf("%s/batch-room#%d/non-negative", shortFn(f), nth), shortFn(f), c.ipos(sub),
						"the room of a batch, A − len(x), has A = cap(x) or max(cap(x), …): never negative, so the remaining item count only shrinks", "A = "+tc.Of(sub.X).Key())
				}
			}
		}
	}
	c.R.count("batch_room_subtractions", n)
}

// blockReturnsErr: block (possibly through jumps) ends in a return whose last result is a non-nil error value.
func blockReturnsErr(c *Ctx, b *ssa.BasicBlock) bool {
	for hops := 0; hops < 4; hops++ {
		last := b.Instrs[len(b.Instrs)-1]
		switch t := last.(type) {
		case *ssa.Return:
			if len(t.Results) == 0 {
				return false
			}
			r := t.Results[len(t.Results)-1]
			if types.TypeString(r.Type(), nil) != "error" {
				return false
			}
			if cst, ok := r.(*ssa.Const); ok && cst.Value == nil {
				return false
			}
			// an error value that is the (tested) result of a call, a global or a fresh error
			return true
		case *ssa.Jump:
			if len(b.Instrs) != 1 {
				return false
			}
			b = b.Succs[0]
		default:
			return false
		}
	}
	return false
}

// isCountDerived: the term is the announced item count N (first result of DecodeUvarint64), possibly
// converted, or "N minus what has been consumed so far" carried by a loop φ. A value that mixes N with
// anything else (min(N, len(buffer)), N/2, …) is not.
func isCountDerived(tc *TermCtx, t *Term, depth int) bool {
	if t == nil || depth > 6 {
		return false
	}
	switch t.Op {
	case "extract":
		return t.Sym == "0" && t.Args[0].Op == "call" && strings.HasSuffix(t.Args[0].Sym, "DecodeUvarint64")
	case "conv":
		return isCountDerived(tc, t.Args[0], depth+1)
	case "bin":
		if t.Sym == "-" {
			return isCountDerived(tc, t.Args[0], depth+1)
		}
	case "phi":
		base := false
		for _, a := range tc.PhiEdges(t) {
			switch {
			case a.Op == "bin" && a.Sym == "-" && a.Args[0].Key() == t.Key():
				// N' = N' − consumed
			case a.Key() == t.Key():
			case a.Op != "phi" && isCountDerived(tc, a, depth+1):
				base = true
			case a.Op == "phi" && depth < 3 && isCountDerived(tc, a, depth+1):
				base = true
			default:
				return false
			}
		}
		return base
	}
	return false
}

// c08ExactOrder (D5): the exact variant's decoder refuses "bins without statistics" (count == 0 && !empty) when the
// input ends; a prefix cut between blocks therefore decodes only if the Count block comes BEFORE every block that
// makes the sketch non-empty. On every path of the exact Encode that writes a Count block, that write precedes
// the inner sketch's Encode; every path reaches the inner Encode.
func c08ExactOrder(c *Ctx, a *sketchAnchors) {
	const rule = "C08-D5"
	f := c.P.DeclaredMethod(a.Exact, "Encode")
	if !c.mustFunc(rule, f, "(*Exact).Encode") {
		return
	}
	ps, _ := exec(c, f, nil, 1)
	bad := ""
	nCount := 0
	for _, p := range ps {
		innerSeq, countSeq := -1, -1
		for _, e := range p.Calls() {
			t := e.Call
			if isMethodCall(t, "Encode") && len(t.Args) == 3 && (isRecvField(t.Args[0].unver(), a.innerFld) || t.Args[0].isRecv()) && strings.Contains(t.Sym, "DDSketch)") && !strings.Contains(t.Sym, "WithExact") {
				if innerSeq < 0 {
					innerSeq = e.Seq
				}
			}
			if t.Op == "call" && strings.HasSuffix(t.Sym, "encoding.EncodeFlag") && len(t.Args) == 2 && t.Args[1].Op == "global" && strings.HasSuffix(t.Args[1].Sym, ".FlagCount") {
				countSeq = e.Seq
			}
		}
		if innerSeq < 0 {
			bad = "a path does not encode the inner sketch: [" + p.String() + "]"
			continue
		}
		if countSeq >= 0 {
			nCount++
			if countSeq > innerSeq {
				bad = "the Count block is written after the inner sketch's blocks: a prefix cut between blocks holds bins without a count and is refused by the decoder's final check"
			}
		}
	}
	c.R.check(bad == "" && nCount > 0, rule, shortFn(f)+"/count-block-first", shortFn(f), c.fpos(f), "every path encodes the inner sketch, and the Count block (when written) precedes it", firstNonEmpty(bad, fmt.Sprintf("%d path(s), %d writing a Count block", len(ps), nCount)))
}

// c08LoopExit: the block loop of the sketch decoder reads a flag only after it has established that input is left,
// and reports success only after it has established that none is left — `for len(*b) > 0`. A loop that stops one
// byte early reports a stream with a trailing flag as success; one that goes on at length 0 turns every complete
// stream into io.EOF.
func c08LoopExit(c *Ctx, a *sketchAnchors) {
	const rule = "C08-D3"
	f := c.blockLoop(a)
	if f == nil {
		c.R.undecided(rule, "block-loop/anchor", "", "", "the shared block loop resolves by role", "not found")
		return
	}
	ps, _ := execPlain(c, f, nil, 1)
	// evidence of one condition about the amount of input: +1 some left, −1 none left, 0 not about that
	inputLeft := func(cd PathCond) int {
		t := cd.Term
		isLen := func(l *Term) bool {
			l = stripConv(l)
			return l.Op == "builtin" && l.Sym == "len" && len(l.Args) == 1
		}
		v := 0
		switch {
		case t.isBin("<") && t.Args[0].isConst("0") && isLen(t.Args[1]): // 0 < len
			v = 1
		case t.isBin("<=") && t.Args[0].isConst("1") && isLen(t.Args[1]): // 1 <= len
			v = 1
		case t.isBin("!=") && (t.Args[0].isConst("0") && isLen(t.Args[1]) || t.Args[1].isConst("0") && isLen(t.Args[0])):
			v = 1
		case t.isBin("==") && (t.Args[0].isConst("0") && isLen(t.Args[1]) || t.Args[1].isConst("0") && isLen(t.Args[0])):
			v = -1
		}
		if !cd.Taken {
			v = -v
		}
		return v
	}
	bad := ""
	nSucc, nRead := 0, 0
	for _, p := range ps {
		// the first flag read on the path comes after "some input left"
		firstRead := -1
		for _, e := range p.Calls() {
			if e.Call.Op == "call" && strings.HasSuffix(e.Call.Sym, "encoding.DecodeFlag") {
				firstRead = e.Seq
				break
			}
		}
		if firstRead >= 0 {
			nRead++
			ok := false
			for _, cd := range p.Conds {
				if cd.Seq < firstRead && inputLeft(cd) == 1 {
					ok = true
				}
			}
			if !ok {
				bad = "a flag is read without the evidence that input is left: [" + p.String() + "]"
			}
		}
		if len(p.RetT) > 0 && p.RetNil(len(p.RetT)-1) == 1 {
			nSucc++
			last := 0
			for _, cd := range p.Conds {
				if v := inputLeft(cd); v != 0 {
					last = v
				}
			}
			if last != -1 {
				bad = "success is returned without the evidence that no input is left: [" + p.String() + "]"
			}
		}
	}
	c.R.check(bad == "" && nSucc > 0 && nRead > 0, rule, shortFn(f)+"/loop-runs-while-input-is-left", shortFn(f), c.fpos(f), "flags are read only while len(*b) > 0; success only at len(*b) == 0", firstNonEmpty(bad, fmt.Sprintf("%d success path(s), %d reading path(s)", nSucc, nRead)))
}
