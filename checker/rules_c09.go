package main

import (
	"fmt"
	"go/types"
	"reflect"
	"sort"
	"strconv"
	"strings"

	"golang.org/x/tools/go/ssa"
)

// C09 — protobuf forms round-trip and the streaming writer equals the message.

func init() {
	register("C09",
		"DECIDED: D1 tag table — for every Set*/Add* method of the streaming builders the first appended varint equals (fieldNumber<<3)|wireType with number and type parsed from the struct tag of the same-named field of the generated message (protobuf, protobuf_key, protobuf_val; the tag is appended to a scratch truncated to length 0 — in the append itself or by the statement before it; a packed repeated scalar may be written unpacked with the element's wire type), and the value is written with the encoding of that kind: fixed64 ↔ AppendFixed64(Float64bits(v)), zigzag32 ↔ AppendVarint(EncodeZigZag(int64(v))), varint ↔ AppendVarint(v), bytes ↔ tag, length of the sub-buffer, then both written in that order after the callback filled a reset sub-buffer. "+
			"D2 ToProto ↔ EncodeProto correspondence for the dense, sparse and paginated stores and the sketch: same set of message fields / builder setters, each fed from the same normalised term (same receiver field, conversion, window), sub-messages go to the same side, empty stores behave alike; for the sparse and paginated stores an entry is exported under the same tests on both sides (every entry of the iteration, or the same selection). "+
			"D3 rebuild path — nothing reachable from a protobuf message handed to a function outside the generated package is written (a message can be rebuilt from twice); FromProtoWithStoreProvider feeds PositiveValues into the store that becomes the positive store (same for negative), copies ZeroCount, builds the mapping from pb.Mapping and returns its error; FromProto returns that function's result for its own message on every path; MergeWithProto (both copies) adds BinCounts[k] at int(k) AND ContiguousBinCounts[i] at i + int(offset). D4 kind round trip = C19-D1. "+
			"SHARED (re-evaluated here under their home rule ids): C04-D1/D2/D3/D5/D6/D9 and C05-D8 (the add side of every store: a bin rebuilt from a message is counted at its index). C14-D5 for every function with Proto or Builder in its name (no conversion leaves or uses package-level state: each call builds on its own builder and scratch). C19-D1 protobuf part — for each mapping kind the interpolation enum and (gamma, offset) written by ToProto and by the streaming EncodeProto are the ones whose FromProto arm constructs that same kind. "+
			"NOT DECIDED: behaviour of the protobuf runtime; bit-for-bit equality of weights (follows from float64 transport).",
		"one obligation per builder method (tag + value encoding), per store/sketch correspondence clause, per rebuild clause",
		true, runC09)
}

type pbField struct {
	name string
	kind string
	num  int
	rep  bool
}

func wireTypeOf(kind string) int {
	switch kind {
	case "fixed64", "sfixed64", "double":
		return 1
	case "fixed32", "sfixed32", "float":
		return 5
	case "bytes", "string", "group":
		return 2
	}
	return 0
}

func parsePB(tag string) (kind string, num int, rep bool, ok bool) {
	parts := strings.Split(tag, ",")
	if len(parts) < 2 {
		return "", 0, false, false
	}
	n, err := strconv.Atoi(parts[1])
	if err != nil {
		return "", 0, false, false
	}
	for _, p := range parts[2:] {
		if p == "rep" {
			rep = true
		}
	}
	return parts[0], n, rep, true
}

func runC09(c *Ctx) {
	a, err := c.anchors()
	if err != nil {
		c.R.undecided("C09", "anchors", "", "", "sketch anchors resolve", err.Error())
		return
	}
	c09Tags(c)
	c09Stores(c, a)
	c09Sketch(c, a)
	c09Rebuild(c, a)
	// the mapping part of the message: ToProto, EncodeProto and FromProto of every mapping kind agree on enum and parameters
	c.shared(func() { c19Proto(c, mappingInfos(c, "C09")) }, func(o *Obligation) bool { return true })
	// a sketch rebuilt from a message adds every bin through the store's entry points: the add side of every store kind
	c.shared(func() { c04AddPaths(c) }, func(o *Obligation) bool { return true })
	// every conversion works on its own objects: a builder, scratch buffer or result kept in a package-level variable
	// lets two conversions (overlapping in time, or one started from inside the other's writer) corrupt each other
	c.shared(func() { c14NoPackageState(c, "C14-D5") }, keyMentions("Proto", "Builder"))
}

func c09Tags(c *Ctx) {
	const rule = "C09-D1"
	pk := c.P.Pkgs[pkgPB]
	n := 0
	// message structs and their builders
	sc := pk.Types.Scope()
	var msgs []string
	for _, nm := range sc.Names() {
		if strings.HasSuffix(nm, "Builder") {
			continue
		}
		if tn, ok := sc.Lookup(nm).(*types.TypeName); ok {
			if _, isSt := tn.Type().Underlying().(*types.Struct); isSt && sc.Lookup(nm+"Builder") != nil {
				msgs = append(msgs, nm)
			}
		}
	}
	sort.Strings(msgs)
	for _, m := range msgs {
		st := sc.Lookup(m).Type().Underlying().(*types.Struct)
		bt := c.P.NamedType(pkgPB, m+"Builder")
		// a builder is meant to be reused: Reset(w) makes w the destination of everything streamed afterwards
		if rs := c.P.DeclaredMethod(bt, "Reset"); rs != nil && len(rs.Params) == 2 {
			ps, _ := exec(c, rs, nil, 1)
			ok := len(ps) > 0
			for _, p := range ps {
				set := false
				for _, e := range p.Effects {
					if e.Kind == "store" && e.Addr.Op == "field" && e.Addr.Sym == "writer" && e.Addr.Args[0].isParam(0) {
						set = stripConv(e.Val).isParam(1)
					}
				}
				if !set {
					ok = false
				}
			}
			c.R.check(ok, rule, m+"Builder/Reset", shortFn(rs), c.fpos(rs), "Reset(w) makes w the builder's writer on every path", fmt.Sprintf("%d path(s)", len(ps)))
		}
		for i := 0; i < st.NumFields(); i++ {
			fld := st.Field(i)
			tag := reflect.StructTag(st.Tag(i))
			pb, has := tag.Lookup("protobuf")
			if !has {
				continue
			}
			kind, num, rep, ok := parsePB(pb)
			if !ok {
				continue
			}
			var meth *ssa.Function
			for _, pre := range []string{"Set", "Add"} {
				if f := c.P.DeclaredMethod(bt, pre+fld.Name()); f != nil {
					meth = f
				}
			}
			key := fmt.Sprintf("%sBuilder/%s", m, fld.Name())
			if meth == nil {
				c.R.violate(rule, key, m+"Builder", "", "a Set/Add method for every message field", "no builder method for field "+fld.Name())
				continue
			}
			n++
			// map fields: bytes with an entry builder
			if k, hasK := tag.Lookup("protobuf_key"); hasK {
				v, _ := tag.Lookup("protobuf_val")
				c09CheckMethod(c, rule, key, meth, "bytes", num, rep)
				entry := c.P.NamedType(pkgPB, m+"_"+fld.Name()+"EntryBuilder")
				if entry == nil {
					c.R.violate(rule, key+"/entry-builder", m+"Builder", "", "an entry builder for the map field", "not found")
					continue
				}
				for _, e := range []struct{ name, tag string }{{"Key", k}, {"Value", v}} {
					ek, en, _, ok := parsePB(e.tag)
					f := c.P.DeclaredMethod(entry, "Set"+e.name)
					if !ok || f == nil {
						c.R.violate(rule, key+"/entry/"+e.name, m+"Builder", "", "entry setter and tag", "missing")
						continue
					}
					n++
					c09CheckMethod(c, rule, key+"/entry/"+e.name, f, ek, en, false)
				}
				continue
			}
			c09CheckMethod(c, rule, key, meth, kind, num, rep)
		}
	}
	c.R.floor(rule, "builder methods checked against struct tags", n, 12)
}

// c09CheckMethod: tag constant and value encoding of one builder method.
func c09CheckMethod(c *Ctx, rule, key string, f *ssa.Function, kind string, num int, rep bool) {
	want := uint64(num<<3 | wireTypeOf(kind))
	paths, _ := exec(c, f, nil, 1)
	okAny := false
	found := ""
	skipBad := ""
	for _, p := range paths {
		// sequence of protowire appends and writes
		var seq []*Term
		for _, e := range p.Calls() {
			t := e.Call
			if t.Op == "call" && strings.Contains(t.Sym, "protowire.Append") || t.Op == "invoke" && strings.HasSuffix(t.Sym, ".Write") || t.Op == "dyncall" ||
				t.Op == "call" && (strings.HasSuffix(t.Sym, "Buffer).Reset") || strings.HasSuffix(t.Sym, "Buffer).Len") || strings.HasSuffix(t.Sym, "Buffer).Bytes")) {
				seq = append(seq, t)
			}
		}
		if len(seq) == 0 {
			// proto3 zero-value elision is the only reason to write nothing: every condition of the path must be
			// the test of the value against zero, taken in the direction "v is zero" (a decoder then yields 0, i.e. v).
			zeroOnly := len(p.Conds) > 0
			for _, pc := range p.Conds {
				t := pc.Term
				isZ := (t.isBin("!=") || t.isBin("==")) && (t.Args[0].isConst("0") && stripConv(t.Args[1]).isParam(1) || t.Args[1].isConst("0") && stripConv(t.Args[0]).isParam(1))
				if !isZ || pc.Taken != t.isBin("==") {
					zeroOnly = false
					skipBad = fmt.Sprintf("writes nothing under %s=%v, which is not the proto3 zero-value elision `v == 0`", t.Key(), pc.Taken)
				}
			}
			if !zeroOnly && skipBad == "" {
				skipBad = "a path writes nothing unconditionally"
			}
			continue
		}
		var apps []*Term
		for _, t := range seq {
			if t.Op == "call" && strings.Contains(t.Sym, "protowire.Append") {
				apps = append(apps, t)
			}
		}
		// the tag written as one raw byte — append(scratch[:0], tag) — which is its varint encoding when tag < 0x80: a
		// pseudo AppendVarint(dst, tag) in front of the value append
		if len(apps) == 1 {
			elems := map[string]*Term{}
			for _, e := range p.Effects {
				if e.Kind == "store" && e.Addr.Op == "index" && e.Addr.Args[0].unver().Op == "alloc" && e.Addr.Args[1].isConst("0") {
					elems[e.Addr.Args[0].unver().Key()] = e.Val
				}
				if e.Kind == "call" && e.Call.Op == "builtin" && e.Call.Sym == "append" && len(e.Call.Args) == 2 {
					src := e.Call.Args[1].unver()
					if src.Op == "slice" && src.Args[0].unver().Op == "alloc" {
						one := false
						if al, ok := src.Args[0].unver().V.(*ssa.Alloc); ok {
							if pt, ok := al.Type().Underlying().(*types.Pointer); ok {
								if at, ok := pt.Elem().Underlying().(*types.Array); ok && at.Len() == 1 {
									one = true
								}
							}
						}
						if tb := elems[src.Args[0].unver().Key()]; one && tb != nil && stripConv(tb).Op == "const" {
							if v, err := strconv.ParseUint(stripConv(tb).Sym, 0, 64); err == nil && v < 0x80 && stripVers(apps[0].Args[0]).Key() == stripVers(e.Call).Key() {
								pseudo := mk("call", "protowire.AppendVarint", nil, e.Call.Args[0], mk("const", strconv.FormatUint(v, 10), nil))
								apps = append([]*Term{pseudo}, apps...)
							}
						}
					}
				}
			}
		}
		if len(apps) < 2 {
			found = "fewer than two appends"
			continue
		}
		tagT := apps[0].Args[1]
		tagOK := tagT.Op == "const" && tagT.Sym == strconv.FormatUint(want, 10) && strings.HasSuffix(apps[0].Sym, "AppendVarint")
		// the tag starts a fresh scratch: it is appended to scratch[:0] (a builder is reused across fields and, after
		// Reset, across messages: appending to the untruncated scratch re-emits the previous field in front of this one)
		{
			dst := apps[0].Args[0].unver()
			// `x.scratch = x.scratch[:0]` as a statement of its own: the value appended to is the last one stored
			// into the same field before the append
			appSeq, dstKey := -1, dst.Key()
			for _, e := range p.Calls() {
				if e.Call == apps[0] {
					appSeq = e.Seq
				}
			}
			for _, e := range p.Writes() {
				if e.Kind == "store" && e.Seq < appSeq && e.Addr != nil && e.Addr.unver().Key() == dstKey {
					dst = e.Val.unver()
				}
			}
			fresh := dst.Op == "slice" && len(dst.Args) == 3 && dst.Args[2].isConst("0") && (dst.Args[1].Op == "none" || dst.Args[1].isConst("0"))
			if !fresh {
				tagOK = false
				found = "the tag is appended to " + dst.Key() + " instead of a scratch truncated to length 0"
			}
		}
		// the tag starts a fresh scratch: appended to scratch[:0] (or scratch was truncated just before)
		valOK := false
		v := apps[1]
		arg := v.Args[1]
		switch kind {
		case "fixed64":
			valOK = strings.HasSuffix(v.Sym, "AppendFixed64") && arg.Op == "call" && arg.Sym == "math.Float64bits" && arg.Args[0].isParam(1)
		case "zigzag32", "zigzag64":
			valOK = strings.HasSuffix(v.Sym, "AppendVarint") && arg.Op == "call" && strings.HasSuffix(arg.Sym, "EncodeZigZag") && stripConv(arg.Args[0]).isParam(1)
		case "varint":
			valOK = strings.HasSuffix(v.Sym, "AppendVarint") && stripConv(arg).isParam(1)
		}
		// a scalar field: the two appends are followed by exactly one write of the scratch to the builder's own writer
		if kind != "bytes" && valOK {
			nW := 0
			for _, t := range seq {
				if t.Op == "invoke" && strings.HasSuffix(t.Sym, ".Write") {
					nW++
					w, data := t.Args[0].unver(), t.Args[1].unver()
					isScratch := data.Op == "field" && data.Sym == "scratch" && data.Args[0].isParam(0)
					isEncoded := data.Key() == v.unver().Key() // the value of the second append itself (kept in a local)
					if !(w.Op == "field" && w.Sym == "writer" && w.Args[0].isParam(0) && (isScratch || isEncoded)) {
						valOK = false
						found = "writes " + data.Key() + " to " + w.Key()
					}
				}
			}
			if nW != 1 {
				valOK = false
				found = fmt.Sprintf("the encoded field is handed to the writer %d time(s)", nW)
			}
		}
		switch kind {
		case "fixed64", "zigzag32", "zigzag64", "varint":
		case "bytes":
			// length of the sub-buffer, then write scratch, then write the sub-buffer; callback ran before on a reset buffer
			lenOK := strings.HasSuffix(v.Sym, "AppendVarint") && stripConv(arg).Op == "call" && strings.HasSuffix(stripConv(arg).Sym, "Buffer).Len")
			order := ""
			for _, t := range seq {
				switch {
				case strings.HasSuffix(t.Sym, "Buffer).Reset"):
					order += "R"
				case t.Op == "dyncall":
					order += "C"
				case strings.HasSuffix(t.Sym, "AppendVarint"):
					order += "A"
				case strings.HasSuffix(t.Sym, ".Write"):
					if len(t.Args) > 1 && t.Args[1].Op == "call" && strings.HasSuffix(t.Args[1].Sym, "Buffer).Bytes") {
						order += "B"
					} else {
						order += "W"
					}
				}
			}
			valOK = lenOK && strings.HasPrefix(order, "RC") && strings.Contains(order, "AA") && strings.HasSuffix(order, "WB")
			found = "order " + order
			// one and the same sub-buffer throughout: the one that was reset is the one the nested builder writes into
			// (its writer, set before the callback runs), the one whose length is announced and the one whose bytes
			// are written (a buffer that is not reset carries the sub-messages of earlier calls of a reused builder)
			{
				bufKey := func(t *Term) string { return stripVers(stripConv(t)).Key() }
				var resetB, lenB, bytesB, nestedW string
				cbSeq := -1
				for _, e := range p.Calls() {
					t := e.Call
					switch {
					case t.Op == "call" && strings.HasSuffix(t.Sym, "Buffer).Reset") && resetB == "":
						resetB = bufKey(t.Args[0])
					case t.Op == "call" && strings.HasSuffix(t.Sym, "Buffer).Len"):
						lenB = bufKey(t.Args[0])
					case t.Op == "call" && strings.HasSuffix(t.Sym, "Buffer).Bytes"):
						bytesB = bufKey(t.Args[0])
					case t.Op == "dyncall" && cbSeq < 0:
						cbSeq = e.Seq
					}
				}
				for _, e := range p.Effects {
					if e.Kind == "store" && e.Addr.Op == "field" && e.Addr.Sym == "writer" && e.Seq < cbSeq && !e.Addr.Args[0].isParam(0) {
						nestedW = bufKey(e.Val)
					}
				}
				if valOK && !(resetB != "" && resetB == lenB && resetB == bytesB && resetB == nestedW) {
					valOK = false
					found = fmt.Sprintf("sub-buffers differ: reset %s, nested writer %s, announced length of %s, written bytes of %s", resetB, nestedW, lenB, bytesB)
				}
			}
		default:
			found = "unknown kind " + kind
		}
		if tagOK && valOK {
			okAny = true
		} else {
			found = firstNonEmpty(found, "") + fmt.Sprintf(" tag=%s (want %d) value=%s", tagT.Key(), want, v.Key())
			okAny = false
			break
		}
	}
	c.R.check(okAny, rule, key, shortFn(f), c.fpos(f), fmt.Sprintf("tag %d = (%d<<3)|%d and the %s value encoding", want, num, wireTypeOf(kind), kind), firstNonEmpty(found, "ok"))
	c.R.check(skipBad == "", rule, key+"/always-written", shortFn(f), c.fpos(f), "the field is written for every value except (optionally) the proto3 zero value, which decodes to the same value", firstNonEmpty(skipBad, "ok"))
}

// settersCalled: builder setter names called (transitively through closures) by f with their argument terms.
func settersCalled(c *Ctx, f *ssa.Function) map[string][]*Term {
	out := map[string][]*Term{}
	var visit func(fn *ssa.Function)
	visit = func(fn *ssa.Function) {
		tc := newTermCtx(c.P)
		for _, b := range fn.Blocks {
			for _, in := range b.Instrs {
				if call, ok := in.(*ssa.Call); ok {
					t := tc.Of(call)
					if t.Op == "call" && strings.Contains(t.Sym, "sketchpb.") && strings.Contains(t.Sym, "Builder).") {
						name := t.Sym[strings.LastIndex(t.Sym, ".")+1:]
						out[name] = append(out[name], t)
					}
				}
			}
		}
		for _, an := range fn.AnonFuncs {
			visit(an)
		}
	}
	visit(f)
	return out
}

func c09Stores(c *Ctx, a *sketchAnchors) {
	const rule = "C09-D2"
	dense := c.P.NamedType(pkgStore, "DenseStore")
	sparse := c.P.NamedType(pkgStore, "SparseStore")
	pr := c.paginated()
	// ---- dense
	if tp, ep := c.P.DeclaredMethod(dense, "ToProto"), c.P.DeclaredMethod(dense, "EncodeProto"); c.mustFunc(rule, tp, "DenseStore.ToProto") && c.mustFunc(rule, ep, "DenseStore.EncodeProto") {
		paths, _ := exec(c, tp, nil, 1)
		var lo, hi, off *Term
		okEmpty := false
		for _, p := range paths {
			fl := resultFields(p)
			if v := fl["ContiguousBinCounts"]; v != nil && v.Op == "make" {
				for _, e := range p.Calls() {
					if e.Call.Op == "builtin" && e.Call.Sym == "copy" && sameVal(e.Call.Args[0], v) && e.Call.Args[1].Op == "slice" {
						lo, hi = e.Call.Args[1].Args[1], e.Call.Args[1].Args[2]
					}
				}
				off = fl["ContiguousBinIndexOffset"]
				if fl["BinCounts"] != nil {
					lo = nil
				}
			} else if len(fl) == 0 || fl["ContiguousBinCounts"] != nil && fl["ContiguousBinCounts"].Op == "nil" {
				okEmpty = true
			}
		}
		okWin := false
		if lo != nil && hi != nil {
			first, last := linearOf(lo), linearOf(hi)
			last.Const--
			okWin = isWindowRange(first, last, func(t *Term) bool { return t.isParam(0) })
		}
		c.R.check(okWin && okEmpty, rule, "DenseStore/ToProto/window", shortFn(tp), c.fpos(tp), "non-empty: ContiguousBinCounts = copy of bins[minIndex−offset : maxIndex−offset+1]; empty: no counts", fmt.Sprintf("lo=%v hi=%v empty-branch=%v", lo, hi, okEmpty))
		okOff := off != nil && off.Op == "conv" && off.Args[0].Op == "field" && off.Args[0].Sym == dr.minIndex
		c.R.check(okOff, rule, "DenseStore/ToProto/offset", shortFn(tp), c.fpos(tp), "ContiguousBinIndexOffset = int32(minIndex)", fmt.Sprint(off))
		// EncodeProto
		set := settersCalled(c, ep)
		names := keysOfT(set)
		c.R.check(len(set) == 2 && len(set["AddContiguousBinCounts"]) == 1 && len(set["SetContiguousBinIndexOffset"]) == 1, rule, "DenseStore/EncodeProto/setters", shortFn(ep), c.fpos(ep), "exactly AddContiguousBinCounts and SetContiguousBinIndexOffset (the fields ToProto fills)", strings.Join(names, ","))
		okLoop := false
		foundL := "no counting loop"
		for _, l := range countingLoops(c.P, ep) {
			tc := newTermCtx(c.P)
			for b := range l.Blocks {
				for _, in := range b.Instrs {
					if call, ok := in.(*ssa.Call); ok {
						t := tc.Of(call)
						if isMethodCall(t, "AddContiguousBinCounts") && t.Args[1].Op == "index" {
							f, la, ok := elementRange(l, t.Args[1].Args[1])
							if ok {
								foundL = f.Key() + " … " + la.Key()
								okLoop = isWindowRange(f, la, func(t *Term) bool { return t.isParam(0) })
							}
						}
					}
				}
			}
		}
		c.R.check(okLoop, rule, "DenseStore/EncodeProto/window", shortFn(ep), c.fpos(ep), "adds bins[minIndex−offset … maxIndex−offset] — the window ToProto copies", foundL)
		if s := set["SetContiguousBinIndexOffset"]; len(s) == 1 {
			c.R.check(off != nil && s[0].Args[1].Key() == off.Key(), rule, "DenseStore/EncodeProto/offset", shortFn(ep), c.fpos(ep), "same offset term as ToProto", s[0].Args[1].Key())
		}
		// empty store: returns before any setter
		eps, _ := exec(c, ep, nil, 1)
		okE := false
		for _, p := range eps {
			if taken, found := pathCond(p, func(t *Term) bool {
				return isMethodCall(t, "IsEmpty") || t.isBin("==") && (t.Args[0].isConst("0") || t.Args[1].isConst("0"))
			}); found && taken && len(p.Writes()) == 0 {
				okE = true
			}
		}
		c.R.check(okE, rule, "DenseStore/EncodeProto/empty", shortFn(ep), c.fpos(ep), "an empty store writes nothing (as ToProto yields no counts)", "")
	}
	// ---- sparse and paginated: BinCounts[int32(index)] = count  vs  AddBinCounts{SetKey(int32(index)); SetValue(count)}
	type mp struct {
		name string
		t    *types.Named
	}
	var sp []mp
	sp = append(sp, mp{"SparseStore", sparse})
	if pr.err == "" {
		sp = append(sp, mp{"BufferedPaginatedStore", pr.typ})
	}
	for _, x := range sp {
		tp, ep := c.P.DeclaredMethod(x.t, "ToProto"), c.P.DeclaredMethod(x.t, "EncodeProto")
		if !c.mustFunc(rule, tp, x.name+".ToProto") || !c.mustFunc(rule, ep, x.name+".EncodeProto") {
			continue
		}
		// ToProto: a map update key=int32(idx) value=count where (idx,count) come from the same iteration
		var key, val *Term
		fns := append([]*ssa.Function{tp}, tp.AnonFuncs...)
		for _, fn := range fns {
			tc := newTermCtx(c.P)
			for _, b := range fn.Blocks {
				for _, in := range b.Instrs {
					if mu, ok := in.(*ssa.MapUpdate); ok {
						key, val = tc.Of(mu.Key), tc.Of(mu.Value)
					}
				}
			}
		}
		set := settersCalled(c, ep)
		okT := key != nil && key.Op == "conv" && key.Sym == "int32"
		// the two exports run for the same iterations: the tests under which an entry is exported (other than the
		// iteration's own continuation test) are the same on both sides
		guardsOf := func(fn *ssa.Function, site ssa.Instruction, norm func(*Term) string) []string {
			tc := newTermCtx(c.P)
			var out []string
			b := site.Block()
			for id := b.Idom(); id != nil; id = id.Idom() {
				iff, ok := id.Instrs[len(id.Instrs)-1].(*ssa.If)
				if !ok || len(id.Succs) != 2 {
					continue
				}
				side := -1
				for i, sc := range id.Succs {
					if len(sc.Preds) == 1 && (sc == b || sc.Dominates(b)) {
						side = i
					}
				}
				if side < 0 {
					continue
				}
				ct := tc.Of(iff.Cond)
				if ct.Op == "extract" && ct.Args[0].Op == "next" {
					continue // range continuation
				}
				str := ct.Key()
				if ct.Op == "bin" && len(ct.Args) == 2 {
					str = norm(ct.Args[0]) + " " + ct.Sym + " " + norm(ct.Args[1])
				}
				out = append(out, fmt.Sprintf("%v:%s", side == 0, str))
			}
			sort.Strings(out)
			return out
		}
		var tpSite, epSite ssa.Instruction
		var tpFn, epFn *ssa.Function
		for _, fn := range fns {
			for _, b := range fn.Blocks {
				for _, in := range b.Instrs {
					if _, ok := in.(*ssa.MapUpdate); ok {
						tpSite, tpFn = in, fn
					}
				}
			}
		}
		for _, fn := range append([]*ssa.Function{ep}, ep.AnonFuncs...) {
			for _, b := range fn.Blocks {
				for _, in := range b.Instrs {
					if call, ok := in.(*ssa.Call); ok {
						if cal := call.Common().StaticCallee(); cal != nil && cal.Name() == "AddBinCounts" {
							epSite, epFn = in, fn
						}
					}
				}
			}
		}
		var k2, v2 *Term
		if s := set["SetKey"]; len(s) == 1 {
			k2 = s[0].Args[1]
		}
		if s := set["SetValue"]; len(s) == 1 {
			v2 = s[0].Args[1]
		}
		okE := len(set["AddBinCounts"]) == 1 && k2 != nil && v2 != nil && k2.Op == "conv" && k2.Sym == "int32"
		// same source: both are (index, count) of one iteration: range key/value of the counts map, or the ForEach callback's parameters
		src := func(t *Term) string {
			t = stripConv(t)
			switch {
			case t.Op == "param":
				return "cb-param-" + t.Sym
			case t.Op == "oparam":
				return "cb-param-" + t.Sym
			case t.Op == "extract" && t.Args[0].Op == "next":
				return "range-" + t.Sym
			case t.Op == "free":
				return "captured"
			case t.Op == "load" && t.Args[0].Op == "free":
				return "captured-" + t.Args[0].Sym
			}
			return t.Key()
		}
		same := okT && okE && (src(key) == src(k2) || strings.HasPrefix(src(k2), "captured")) && (src(val) == src(v2) || strings.HasPrefix(src(v2), "captured"))
		c.R.check(same, rule, x.name+"/ToProto-vs-EncodeProto", shortFn(ep), c.fpos(ep), "BinCounts[int32(index)] = count  ↔  AddBinCounts{SetKey(int32(index)); SetValue(count)} over the same iteration; no other field",
			fmt.Sprintf("ToProto key=%v val=%v; EncodeProto key=%v val=%v setters=%v", key, val, k2, v2, keysOfT(set)))
		if tpSite != nil && epSite != nil {
			norm := func(t *Term) string { return src(t) }
			g1, g2 := guardsOf(tpFn, tpSite, norm), guardsOf(epFn, epSite, norm)
			c.R.check(strings.Join(g1, ";") == strings.Join(g2, ";"), rule, x.name+"/ToProto-vs-EncodeProto/same-entries", shortFn(ep), c.fpos(ep),
				"an entry is exported under the same tests on both sides (every entry of the iteration, or the same selection)", fmt.Sprintf("ToProto under %v; EncodeProto under %v", g1, g2))
		}
		c.R.check(len(set) == 3, rule, x.name+"/EncodeProto/setters", shortFn(ep), c.fpos(ep), "only AddBinCounts/SetKey/SetValue are used", strings.Join(keysOfT(set), ","))
		// iteration callbacks never stop
		for _, fn := range append(append([]*ssa.Function{}, tp.AnonFuncs...), ep.AnonFuncs...) {
			if fn.Signature.Results().Len() == 1 && fn.Signature.Results().At(0).Type().String() == "bool" {
				ps, _ := exec(c, fn, nil, 1)
				ok := len(ps) > 0
				for _, p := range ps {
					if !p.RetT[0].isConst("false") {
						ok = false
					}
				}
				c.R.check(ok, rule, x.name+"/"+fn.Name()+"/never-stops", shortFn(fn), c.fpos(fn), "the ForEach callback returns false (every bin is exported)", "")
			}
		}
	}
}

func keysOfT(m map[string][]*Term) []string {
	var out []string
	for k := range m {
		out = append(out, k)
	}
	sort.Strings(out)
	return out
}

func c09Sketch(c *Ctx, a *sketchAnchors) {
	const rule = "C09-D2"
	tp, ep := c.P.DeclaredMethod(a.DDSketch, "ToProto"), c.P.DeclaredMethod(a.DDSketch, "EncodeProto")
	if !c.mustFunc(rule, tp, "DDSketch.ToProto") || !c.mustFunc(rule, ep, "DDSketch.EncodeProto") {
		return
	}
	ps, _ := exec(c, tp, nil, 1)
	ok := len(ps) == 1
	found := ""
	if ok {
		fl := resultFields(ps[0])
		chk := func(msgField, recvFld, meth string) bool {
			v := fl[msgField]
			return v != nil && isMethodCall(v, meth) && len(v.Args) == 1 && isRecvField(v.Args[0], recvFld)
		}
		ok = chk("Mapping", a.mapField, "ToProto") && chk("PositiveValues", a.posField, "ToProto") && chk("NegativeValues", a.negField, "ToProto") &&
			fl["ZeroCount"] != nil && isRecvField(fl["ZeroCount"], a.zeroField) && len(fl) == 4
		found = fmt.Sprint(fl)
	}
	c.R.check(ok, rule, "DDSketch/ToProto", shortFn(tp), c.fpos(tp), "Mapping←mapping.ToProto(), PositiveValues←positive.ToProto(), NegativeValues←negative.ToProto(), ZeroCount←zero weight", found)
	// EncodeProto: each Set* closure encodes the matching part
	eps, _ := exec(c, ep, nil, 1)
	okE := len(eps) == 1
	foundE := ""
	if okE {
		seen := map[string]string{}
		for _, e := range eps[0].Calls() {
			t := e.Call
			if !(t.Op == "call" && strings.Contains(t.Sym, "DDSketchBuilder).")) {
				continue
			}
			name := t.Sym[strings.LastIndex(t.Sym, ".")+1:]
			if name == "SetZeroCount" {
				if isRecvField(t.Args[1], a.zeroField) {
					seen[name] = "zero"
				}
				continue
			}
			mc, _ := t.Args[1].V.(*ssa.MakeClosure)
			if mc == nil {
				continue
			}
			cps, _ := exec(c, mc.Fn.(*ssa.Function), nil, 1)
			for _, cp := range cps {
				for _, ce := range cp.Calls() {
					if isMethodCall(ce.Call, "EncodeProto") && len(ce.Call.Args) == 2 && ce.Call.Args[1].isParam(0) {
						for _, fld := range []string{a.mapField, a.posField, a.negField} {
							if isRecvField(ce.Call.Args[0], fld) {
								seen[name] = fld
							}
						}
					}
				}
			}
		}
		okE = seen["SetMapping"] == a.mapField && seen["SetPositiveValues"] == a.posField && seen["SetNegativeValues"] == a.negField && seen["SetZeroCount"] == "zero" && len(seen) == 4
		foundE = fmt.Sprint(seen)
	}
	c.R.check(okE, rule, "DDSketch/EncodeProto", shortFn(ep), c.fpos(ep), "SetMapping↔mapping, SetPositiveValues↔positive store, SetNegativeValues↔negative store, SetZeroCount↔zero weight", foundE)
}

func c09Rebuild(c *Ctx, a *sketchAnchors) {
	const rule = "C09-D3"
	// a rebuild reads its message: nothing reachable from a protobuf message handed to a function outside the generated
	// package is written (a message rebuilt from twice must give the same sketch twice)
	{
		n := 0
		for _, f := range c.P.Funcs {
			if !inModule(f) || f.Synthetic != "" || f.Parent() != nil || len(f.Blocks) == 0 || f.Pkg == nil || f.Pkg.Pkg.Path() == pkgPB {
				continue
			}
			for i, prm := range f.Params {
				pt, ok := prm.Type().(*types.Pointer)
				if !ok {
					continue
				}
				nt, ok := pt.Elem().(*types.Named)
				if !ok || nt.Obj().Pkg() == nil || nt.Obj().Pkg().Path() != pkgPB || strings.HasSuffix(nt.Obj().Name(), "Builder") {
					continue
				}
				n++
				mods := c.Mod.ModsRooted(f, i)
				c.R.check(len(mods) == 0, rule, helperKey(f)+"/message-only-read/"+prm.Name(), shortFn(f), c.fpos(f),
					"nothing reachable from the protobuf message argument is written", firstNonEmpty(strings.Join(mods, " "), "read only"))
			}
		}
		c.R.floor(rule, "functions taking a protobuf message", n, 6)
	}
	f := c.P.Func(pkgSketch, "FromProtoWithStoreProvider")
	if c.mustFunc(rule, f, "FromProtoWithStoreProvider") {
		paths, _ := exec(c, f, nil, 1)
		nOK := 0
		bad := ""
		for _, p := range paths {
			// merges performed on this path: store value -> message field
			merged := map[string]*Term{}
			var mergedV []*Term
			for _, e := range p.Calls() {
				if e.Call.Op == "call" && strings.HasSuffix(e.Call.Sym, "MergeWithProto") && len(e.Call.Args) == 2 {
					src := e.Call.Args[1]
					if src.Op == "field" && src.Args[0].isParam(0) {
						merged[src.Sym] = e.Call.Args[0]
						mergedV = append(mergedV, e.Call.Args[0])
					}
				}
			}
			var mapErr *Term
			for _, e := range p.Calls() {
				if e.Call.Op == "call" && strings.HasSuffix(e.Call.Sym, "mapping.FromProto") && e.Call.Args[0].Op == "field" && e.Call.Args[0].Sym == "Mapping" {
					mapErr = mk("extract", "1", nil, e.Call)
				}
			}
			if p.RetNil(1) == -1 {
				if mapErr == nil || !sameVal(p.RetT[1].Args[0], mapErr.Args[0]) {
					bad = "error path does not return the mapping's error: " + describeRet(p)
				}
				continue
			}
			fl := resultFields(p)
			if fl[a.posField] == nil || fl[a.negField] == nil {
				bad = "result does not set both stores"
				continue
			}
			// the store merged from PositiveValues (if any on this path) must be the positive store of the result
			if k, has := merged["PositiveValues"]; has && !sameVal(k, fl[a.posField]) {
				bad = "PositiveValues merged into a store that is not the result's positive store"
			}
			if k, has := merged["NegativeValues"]; has && !sameVal(k, fl[a.negField]) {
				bad = "NegativeValues merged into a store that is not the result's negative store"
			}
			// nil-guards: a part may be skipped only under `pb.X == nil`
			for _, part := range []string{"PositiveValues", "NegativeValues"} {
				// evidence on the path about pb.<part>: +1 known nil, −1 known non-nil, 0 not tested
				ev := 0
				for _, cd := range p.Conds {
					if x, neq, ok := nilTest(cd.Term); ok && x.Op == "field" && x.Sym == part {
						if neq == cd.Taken {
							ev = -1
						} else {
							ev = 1
						}
					}
				}
				_, has := merged[part]
				switch {
				case has && ev != -1:
					bad = part + " merged without evidence that it is non-nil (a message without that side must be skipped, not dereferenced)"
				case !has && ev != 1:
					bad = part + " not merged although not known to be nil"
				}
			}
			z := fl[a.zeroField]
			if z == nil || !(z.Op == "field" && z.Sym == "ZeroCount" && z.Args[0].isParam(0)) {
				bad = "zero weight is not pb.ZeroCount"
			}
			m := fl[a.mapField]
			if m == nil || mapErr == nil || !(m.Op == "extract" && m.Sym == "0" && sameVal(m.Args[0], mapErr.Args[0])) {
				bad = "mapping is not mapping.FromProto(pb.Mapping)"
			}
			if sameVal(fl[a.posField], fl[a.negField]) {
				bad = "both sides use the same store"
			}
			nOK++
		}
		c.R.check(bad == "" && nOK > 0, rule, "FromProtoWithStoreProvider", shortFn(f), c.fpos(f), "PositiveValues→positive store, NegativeValues→negative store, ZeroCount copied, mapping from pb.Mapping with its error returned", firstNonEmpty(bad, fmt.Sprintf("%d success path(s)", nOK)))
	}
	// the store-level convenience constructor returns a fresh store that received the message
	if g := c.P.Func(pkgStore, "FromProto"); g != nil {
		ps, _ := exec(c, g, nil, 1)
		ok := len(ps) > 0
		found := fmt.Sprintf("%d path(s)", len(ps))
		for _, p := range ps {
			merged := false
			for _, e := range p.Calls() {
				if e.Call.Op == "call" && strings.HasSuffix(e.Call.Sym, ".MergeWithProto") && len(e.Call.Args) == 2 && len(p.RetT) == 1 && sameVal(stripConv(e.Call.Args[0]), stripConv(p.RetT[0])) && e.Call.Args[1].isParam(0) {
					merged = true
				}
				if isMethodCall(e.Call, "MergeWithProto") && len(e.Call.Args) == 2 && len(p.RetT) == 1 && sameVal(stripConv(e.Call.Args[0]), stripConv(p.RetT[0])) && e.Call.Args[1].isParam(0) {
					merged = true
				}
			}
			if !merged {
				ok = false
				found = "the returned store does not receive the message: " + describeRet(p)
			}
		}
		c.R.check(ok, rule, "store.FromProto/receives-the-message", shortFn(g), c.fpos(g), "the message is merged into the store that is returned, on every path", found)
	}
	// the convenience entry point rebuilds through the provider form (or would have to meet the same obligations)
	if g := c.P.Func(pkgSketch, "FromProto"); g != nil {
		ps, _ := exec(c, g, nil, 1)
		ok := len(ps) > 0
		found := ""
		for _, p := range ps {
			r := p.RetT[0]
			del := r.Op == "extract" && r.Args[0].Op == "call" && r.Args[0].Sym == funcName(f) && len(r.Args[0].Args) == 2 && r.Args[0].Args[0].isParam(0)
			if !del {
				ok = false
				found = describeRet(p)
			}
		}
		c.R.check(ok, rule, "FromProto/delegates", shortFn(g), c.fpos(g), "FromProto(pb) returns FromProtoWithStoreProvider(pb, …) — the rebuild path whose obligations are decided above", firstNonEmpty(found, "delegates"))
	}
	// MergeWithProto: both loops
	var fns []*ssa.Function
	if g := c.P.Func(pkgStore, "MergeWithProto"); g != nil {
		fns = append(fns, g)
	}
	if pr := c.paginated(); pr.err == "" {
		if g := c.P.DeclaredMethod(pr.typ, "MergeWithProto"); g != nil {
			fns = append(fns, g)
		}
	}
	for _, g := range fns {
		tc := newTermCtx(c.P)
		sparseOK, contigOK := false, false
		found := ""
		for _, b := range g.Blocks {
			for _, in := range b.Instrs {
				call, ok := in.(*ssa.Call)
				if !ok {
					continue
				}
				t := tc.Of(call)
				if !isMethodCall(t, "AddWithCount") || len(t.Args) != 3 {
					continue
				}
				idx, cnt := stripConv(t.Args[1]), t.Args[2]
				found += " " + idx.Key()
				// sparse: key/value of range over BinCounts
				if idx.Op == "extract" && idx.Args[0].Op == "next" && idx.Sym == "1" && cnt.Op == "extract" && cnt.Sym == "2" && sameVal(idx.Args[0], cnt.Args[0]) {
					r := idx.Args[0].Args[0]
					if r.Op == "range" && r.Args[0].Op == "field" && r.Args[0].Sym == "BinCounts" {
						sparseOK = true
					}
				}
				// contiguous: i + int(offset), count = ContiguousBinCounts[i]
				if idx.isBin("+") && cnt.Op == "index" && cnt.Args[0].Op == "field" && cnt.Args[0].Sym == "ContiguousBinCounts" {
					for i := 0; i < 2; i++ {
						iv, off := idx.Args[i], stripConv(idx.Args[1-i])
						if iv.Key() == cnt.Args[1].Key() && off.Op == "field" && off.Sym == "ContiguousBinIndexOffset" {
							contigOK = true
						}
					}
				}
			}
		}
		// both forms are added on every call: a path may leave one of them out only on evidence that this form's
		// own collection is empty (its range loop made no iteration, or a len(...) == 0 style test) — a guard that
		// chooses one form because the OTHER is present drops weight
		extra := ""
		ps, _ := exec(c, g, nil, 2)
		formOf := func(t *Term) string {
			if !isMethodCall(t, "AddWithCount") || len(t.Args) != 3 {
				return ""
			}
			if cnt := t.Args[2]; cnt.Op == "index" && cnt.Args[0].Op == "field" && cnt.Args[0].Sym == "ContiguousBinCounts" {
				return "ContiguousBinCounts"
			}
			if cnt := t.Args[2]; cnt.Op == "extract" {
				return "BinCounts"
			}
			return ""
		}
		emptyEvidence := func(p *Path, fld string) bool {
			for _, cd := range p.Conds {
				t := cd.Term
				mentions := false
				t.walk(func(x *Term) bool {
					if x.Op == "field" && x.Sym == fld && len(x.Args) == 1 && x.Args[0].isParam(1) {
						mentions = true
					}
					return true
				})
				if !mentions {
					continue
				}
				isLen := func(x *Term) bool { return x.Op == "builtin" && x.Sym == "len" }
				switch {
				case t.Op == "extract" && t.Sym == "0" && t.Args[0].Op == "next" && !cd.Taken: // range over a map ended at once
					return true
				case t.isBin("<") && t.Args[0].isConst("0") && isLen(t.Args[1]) && !cd.Taken: // 0 < len false
					return true
				case t.isBin("<=") && isLen(t.Args[0]) && t.Args[1].isConst("0") && cd.Taken:
					return true
				case t.isBin("==") && (isLen(t.Args[0]) && t.Args[1].isConst("0") || isLen(t.Args[1]) && t.Args[0].isConst("0")) && cd.Taken:
					return true
				case t.isBin("!=") && (isLen(t.Args[0]) && t.Args[1].isConst("0") || isLen(t.Args[1]) && t.Args[0].isConst("0")) && !cd.Taken:
					return true
				}
			}
			return false
		}
		for _, p := range ps {
			did := map[string]bool{}
			for _, e := range p.Calls() {
				if f := formOf(e.Call); f != "" {
					did[f] = true
				}
				// delegation to a sibling MergeWithProto with the same message (itself checked by this rule) does both
				if isMethodCall(e.Call, "MergeWithProto") && len(e.Call.Args) == 2 && e.Call.Args[1].isParam(1) {
					did["BinCounts"], did["ContiguousBinCounts"] = true, true
				}
			}
			for _, fld := range []string{"BinCounts", "ContiguousBinCounts"} {
				if !did[fld] && !emptyEvidence(p, fld) {
					extra = fmt.Sprintf("a path leaves out %s without evidence that it is empty: [%s]", fld, p.String())
				}
			}
		}
		c.R.check(extra == "" && len(ps) > 0, rule, shortFn(g)+"/forms-not-exclusive", shortFn(g), c.fpos(g), "a bin form is left out only when its own collection is empty: both forms are always added", firstNonEmpty(extra, fmt.Sprintf("%d path(s)", len(ps))))
		c.R.check(sparseOK && contigOK, rule, shortFn(g)+"/both-forms-add-up", shortFn(g), c.fpos(g), "adds BinCounts[k] at int(k) and ContiguousBinCounts[i] at i + int(ContiguousBinIndexOffset)", fmt.Sprintf("sparse=%v contiguous=%v", sparseOK, contigOK))
	}
	c.R.floor(rule, "MergeWithProto copies", len(fns), 2)
}
