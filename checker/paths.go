package main

import (
	"fmt"
	"go/token"
	"go/types"
	"os"
	"strconv"
	"strings"

	"golang.org/x/tools/go/ssa"
)

// E-TABLE: path-sensitive abstract execution of a function over a finite
// partition of tracked scalars. No arithmetic, no solver: scalars are only
// ever located relative to a finite, totally ordered list of symbolic points
// (plus NaN), and every other condition is an opaque boolean atom that keeps
// one truth value along a path until memory may have changed.

// ClassSet is a bit set of classes of one scalar. Class 0 is NaN; class
// 1+pos with pos in [0,2n] is the position in the order: even pos are the
// open intervals between points, odd pos 2k+1 is point k itself.
type ClassSet uint64

func allClasses(npoints int) ClassSet { return ClassSet(1)<<(2*npoints+2) - 1 }

func classOfPoint(k int) int    { return 1 + 2*k + 1 }
func classBelowPoint(k int) int { return 1 + 2*k }
func classAbovePoint(k int) int { return 1 + 2*k + 2 }

const classNaN = 0

func (s ClassSet) has(c int) bool { return s&(1<<uint(c)) != 0 }

// Domain tells the executor which terms are tracked scalars and which terms
// are the symbolic points of their order.
type Domain struct {
	// Scalar: is t (possibly negated) a tracked scalar? name identifies it.
	Scalar func(t *Term) (name string, neg bool, ok bool)
	// Point: is t the k-th point in the order of scalar name?
	Point func(name string, t *Term) (k int, ok bool)
	// NPoints: number of points per scalar.
	NPoints map[string]int
	// Integer scalars have no NaN class.
	Integer map[string]bool
}

type Effect struct {
	Kind   string // store mapupdate call go defer send panic
	Instr  ssa.Instruction
	Addr   *Term // store: address; mapupdate: map
	Key    *Term // mapupdate key
	Val    *Term // stored value
	Call   *Term // call/go/defer: call term
	Pure   bool  // call known not to modify memory
	Fresh  bool  // store into memory allocated by this function (local variable cell or new object)
	InLoop bool
	Block  *ssa.BasicBlock
	Seq    int         // position in the interleaved sequence of effects and conditions of the path
	Via    []*ssa.Call // calls through which the executor entered inlined callees (outermost first); nil at top level
}

func (e Effect) String() string {
	switch e.Kind {
	case "store":
		return fmt.Sprintf("store %s <- %s", e.Addr, e.Val)
	case "mapupdate":
		return fmt.Sprintf("mapupdate %s[%s] <- %s", e.Addr, e.Key, e.Val)
	case "call", "go", "defer":
		return fmt.Sprintf("%s %s", e.Kind, e.Call)
	}
	return e.Kind
}

type PathCond struct {
	Term  *Term
	Taken bool
	If    *ssa.If
	// if the condition was a scalar/point atom
	Scalar string
	Seq    int
}

type Path struct {
	Blocks  []*ssa.BasicBlock
	Conds   []PathCond
	Effects []Effect
	Ret     *ssa.Return
	RetT    []*Term
	Panics  bool
	// Loads: reads through element/field addresses in path order (Seq shares the numbering of Effects and Conds)
	Loads   []Effect
	Classes map[string]ClassSet
	Atoms   map[string]bool
	Free    []string // condition shapes not understood (explored both ways)
	tc      *TermCtx
}

func (p *Path) String() string {
	var sb strings.Builder
	for i, c := range p.Conds {
		if i > 0 {
			sb.WriteString(" & ")
		}
		if !c.Taken {
			sb.WriteString("!")
		}
		sb.WriteString(c.Term.Key())
	}
	return sb.String()
}

// impure effects only (stores, map updates, impure calls, go/defer/send)
func (p *Path) Writes() []Effect {
	var out []Effect
	for _, e := range p.Effects {
		if e.Kind == "call" && e.Pure {
			continue
		}
		if e.Kind == "store" && e.Fresh {
			continue
		}
		out = append(out, e)
	}
	return out
}

// rootIsAlloc: the address is (a field/element chain over) an allocation of the current function,
// or over a fresh object returned by a constructor-like call that was made on this path.
func rootIsAlloc(addr *Term) bool {
	x := addr
	for x != nil && (x.Op == "field" || x.Op == "index" || x.Op == "ver") && len(x.Args) > 0 {
		x = x.Args[0]
	}
	return x != nil && (x.Op == "alloc" || x.Op == "make")
}

func (p *Path) Calls() []Effect {
	var out []Effect
	for _, e := range p.Effects {
		if e.Kind == "call" {
			out = append(out, e)
		}
	}
	return out
}

// RetIsNilErr reports, for result index i: +1 constant nil, -1 definitely non-nil, 0 unknown.
func (p *Path) RetNil(i int) int {
	if p.Ret == nil || i >= len(p.RetT) {
		return 0
	}
	t := p.RetT[i]
	if t.Op == "nil" {
		return 1
	}
	switch t.Op {
	case "global": // package level error variable
		return -1
	case "call":
		if strings.HasPrefix(t.Sym, "errors.New") || strings.HasPrefix(t.Sym, "fmt.Errorf") {
			return -1
		}
	}
	// value known non-nil from a path condition "t != nil" taken
	for ci := len(p.Conds) - 1; ci >= 0; ci-- {
		c := p.Conds[ci]
		ct := c.Term
		if ct.Op == "bin" && (ct.Sym == "!=" || ct.Sym == "==") {
			var other *Term
			if ct.Args[0].Op == "nil" {
				other = ct.Args[1]
			} else if ct.Args[1].Op == "nil" {
				other = ct.Args[0]
			}
			if other != nil && (other.V != nil && t.V != nil && other.V == t.V || (other.V == nil || t.V == nil) && other.Key() == t.Key()) {
				neq := ct.Sym == "!="
				if neq == c.Taken {
					return -1
				}
				return 1
			}
		}
	}
	return 0
}

type execOpts struct {
	MaxVisits int // per block per path (1 = simple paths)
	MaxPaths  int
	Pure      func(call ssa.CallInstruction) bool
	NoInline  bool // do not inline single-block module functions into terms
	// InlineCallee: execute the body of this statically resolved module callee inside the caller's paths
	// (its stores, calls and branches appear in the path with the arguments substituted). nil = never.
	InlineCallee func(callee *ssa.Function) bool
	// NoDynInline: leave calls through function values as call effects even when the path resolves them to a
	// local function literal (for per-call-site rules that examine the call itself)
	NoDynInline bool
	abandoned   *int
}

type executor struct {
	prog    *Program
	fn      *ssa.Function
	dom     *Domain
	opts    execOpts
	paths   []*Path
	inLoop  map[*ssa.BasicBlock]bool
	over    bool
	escapd  map[*ssa.Alloc]bool
	scanned map[*ssa.Function]bool
	// abandoned: path prefixes dropped because a block would have been visited more than MaxVisits times
	abandoned int
}

type pstate struct {
	blocks  []*ssa.BasicBlock
	visits  map[*ssa.BasicBlock]int
	pred    map[*ssa.BasicBlock]*ssa.BasicBlock
	conds   []PathCond
	effects []Effect
	loads   []Effect
	classes map[string]ClassSet
	atoms   map[string]bool
	free    []string
	epoch   int
	seq     int
	locals  map[*ssa.Alloc]*Term
	stored  map[string]int              // address key -> number of stores so far on the path
	elems   map[elemKey]*Term           // elements of local array literals (copy-on-write, shared between forks)
	maps    map[*ssa.MakeMap][]mapEntry // local map literals with constant keys (copy-on-write)
	frames  []actFrame                  // activations of inlined callees (innermost last); entries are immutable
	subst   map[*ssa.Parameter]*Term    // parameters of the inlined activations (copy-on-write)
	tc      *TermCtx
}

// actFrame: an inlined call in progress — where to resume the caller and what to restore.
type actFrame struct {
	fn     *ssa.Function
	call   *ssa.Call
	block  *ssa.BasicBlock
	idx    int
	visits map[*ssa.BasicBlock]int // visit counts of the callee's blocks before this activation
}

type mapEntry struct{ key, val *Term }

type elemKey struct {
	a *ssa.Alloc
	k string
}

func (s *pstate) elemsCopy() map[elemKey]*Term {
	n := map[elemKey]*Term{}
	for k, v := range s.elems {
		n[k] = v
	}
	return n
}

func (s *pstate) clone() *pstate {
	n := &pstate{
		blocks:  append([]*ssa.BasicBlock(nil), s.blocks...),
		visits:  map[*ssa.BasicBlock]int{},
		pred:    map[*ssa.BasicBlock]*ssa.BasicBlock{},
		conds:   append([]PathCond(nil), s.conds...),
		effects: append([]Effect(nil), s.effects...),
		loads:   append([]Effect(nil), s.loads...),
		classes: map[string]ClassSet{},
		atoms:   map[string]bool{},
		free:    append([]string(nil), s.free...),
		epoch:   s.epoch,
		seq:     s.seq,
		locals:  map[*ssa.Alloc]*Term{},
		stored:  map[string]int{},
		elems:   s.elems,
		maps:    s.maps,
		frames:  append([]actFrame(nil), s.frames...),
		subst:   s.subst,
	}
	for k, v := range s.stored {
		n.stored[k] = v
	}
	for k, v := range s.visits {
		n.visits[k] = v
	}
	for k, v := range s.pred {
		n.pred[k] = v
	}
	for k, v := range s.classes {
		n.classes[k] = v
	}
	for k, v := range s.atoms {
		n.atoms[k] = v
	}
	for k, v := range s.locals {
		n.locals[k] = v
	}
	return n
}

// pathsOfAll enumerates ALL paths of fn: it reports how many prefixes had to be abandoned at the
// visit bound (0 means the enumeration is exhaustive: every loop terminated within the bound).
func pathsOfAll(prog *Program, fn *ssa.Function, dom *Domain, opts execOpts) ([]*Path, bool, int) {
	var ab int
	opts.abandoned = &ab
	ps, ok := pathsOf(prog, fn, dom, opts)
	return ps, ok, ab
}

// pathsOf enumerates the paths of fn under the domain.
func pathsOf(prog *Program, fn *ssa.Function, dom *Domain, opts execOpts) ([]*Path, bool) {
	if opts.MaxVisits == 0 {
		opts.MaxVisits = 1
	}
	if opts.MaxPaths == 0 {
		opts.MaxPaths = 20000
	}
	if dom == nil {
		dom = &Domain{}
	}
	if os.Getenv("DDV_LOG_FUNCS") != "" {
		fmt.Fprintf(os.Stderr, "PATHFN %s\n", funcName(fn))
	}
	ex := &executor{prog: prog, fn: fn, dom: dom, opts: opts, inLoop: map[*ssa.BasicBlock]bool{}, escapd: map[*ssa.Alloc]bool{}}
	if len(fn.Blocks) == 0 {
		return nil, true
	}
	ex.scanned = map[*ssa.Function]bool{}
	ex.scan(fn)
	st := &pstate{visits: map[*ssa.BasicBlock]int{}, pred: map[*ssa.BasicBlock]*ssa.BasicBlock{}, classes: map[string]ClassSet{}, atoms: map[string]bool{}, locals: map[*ssa.Alloc]*Term{}, stored: map[string]int{}}
	ex.run(st, fn.Blocks[0], nil)
	if opts.abandoned != nil {
		*opts.abandoned = ex.abandoned
	}
	return ex.paths, !ex.over
}

// scan prepares a function for execution: which of its blocks are in loops, which local cells escape.
func (ex *executor) scan(fn *ssa.Function) {
	if ex.scanned[fn] {
		return
	}
	ex.scanned[fn] = true
	for b, v := range loopBlocks(fn) {
		ex.inLoop[b] = v
	}
	// locals whose address escapes are not tracked
	for _, b := range fn.Blocks {
		for _, in := range b.Instrs {
			var ops []*ssa.Value
			ops = in.Operands(ops)
			for _, o := range ops {
				a, ok := (*o).(*ssa.Alloc)
				if !ok {
					continue
				}
				switch in := in.(type) {
				case *ssa.Store:
					if in.Addr == a && in.Val != a {
						continue
					}
				case *ssa.UnOp:
					if in.Op == token.MUL {
						continue
					}
				}
				ex.escapd[a] = true
			}
		}
	}
}

// inlinable: a statically resolved module callee with a body, no defers, not already active (no recursion).
func (ex *executor) inlinable(st *pstate, call *ssa.Call) *ssa.Function {
	if call.Common().IsInvoke() {
		return nil
	}
	f, ok := call.Common().Value.(*ssa.Function)
	if ok && ex.opts.InlineCallee == nil {
		return nil
	}
	if !ok {
		// a call through a function value that the path resolves to a capture-free function literal of the
		// function under analysis (an entry of a local dispatch table)
		if t := st.tc.Of(call.Common().Value); t != nil && !ex.opts.NoDynInline {
			if lit, isF := t.V.(*ssa.Function); isF && lit.Parent() != nil && len(lit.FreeVars) == 0 && len(lit.Blocks) > 0 && len(lit.Blocks) <= 80 && len(st.frames) < 4 {
				owner := lit.Parent() == ex.fn
				for _, fr := range st.frames {
					if fr.fn == lit {
						return nil
					}
					if lit.Parent() == fr.fn {
						owner = true
					}
				}
				if owner {
					return lit
				}
			}
		}
		return nil
	}
	if len(f.Blocks) == 0 || len(f.Blocks) > 80 || f == ex.fn || len(st.frames) >= 4 || !ex.opts.InlineCallee(f) {
		return nil
	}
	for _, fr := range st.frames {
		if fr.fn == f {
			return nil
		}
	}
	if !onlySyncDefers(f) {
		return nil
	}
	return f
}

// enter starts the activation of callee f for the call at b.Instrs[idx].
func (ex *executor) enter(st *pstate, f *ssa.Function, call *ssa.Call, b *ssa.BasicBlock, idx int) {
	ex.scan(f)
	tc := st.tc
	sub := map[*ssa.Parameter]*Term{}
	for k, v := range st.subst {
		sub[k] = v
	}
	for i, p := range f.Params {
		if i < len(call.Call.Args) {
			sub[p] = tc.Of(call.Call.Args[i])
		}
	}
	fr := actFrame{fn: f, call: call, block: b, idx: idx, visits: map[*ssa.BasicBlock]int{}}
	for _, cb := range f.Blocks {
		fr.visits[cb] = st.visits[cb]
		st.visits[cb] = 0
		// a previous activation on this path left terms for the callee's values: they are recomputed
		for _, in := range cb.Instrs {
			if v, ok := in.(ssa.Value); ok {
				delete(tc.memo, v)
			}
			if a, ok := in.(*ssa.Alloc); ok {
				delete(st.locals, a)
			}
		}
	}
	st.frames = append(st.frames, fr)
	st.subst = sub
	tc.subst = sub
	ex.run(st, f.Blocks[0], nil)
}

// leave ends the innermost activation at one of its returns and resumes the caller.
func (ex *executor) leave(st *pstate, ret *ssa.Return) {
	tc := st.tc
	fr := st.frames[len(st.frames)-1]
	var rs []*Term
	for _, r := range ret.Results {
		rs = append(rs, tc.Of(r))
	}
	st.frames = st.frames[:len(st.frames)-1]
	for cb, n := range fr.visits {
		st.visits[cb] = n
	}
	switch len(rs) {
	case 0:
	case 1:
		tc.memo[fr.call] = rs[0]
	default:
		tc.memo[fr.call] = mk("tuple", "", fr.call, rs...)
	}
	ex.execFrom(st, fr.block, fr.idx+1)
}

func loopBlocks(fn *ssa.Function) map[*ssa.BasicBlock]bool {
	// a block is in a loop iff it can reach itself
	in := map[*ssa.BasicBlock]bool{}
	for _, b := range fn.Blocks {
		seen := map[*ssa.BasicBlock]bool{}
		var stack []*ssa.BasicBlock
		stack = append(stack, b.Succs...)
		for len(stack) > 0 {
			x := stack[len(stack)-1]
			stack = stack[:len(stack)-1]
			if x == b {
				in[b] = true
				break
			}
			if seen[x] {
				continue
			}
			seen[x] = true
			stack = append(stack, x.Succs...)
		}
	}
	return in
}

func (ex *executor) newTC(st *pstate) {
	tc := newTermCtx(ex.prog)
	tc.pred = st.pred
	tc.localVal = func(a *ssa.Alloc) *Term {
		if ex.escapd[a] {
			return nil
		}
		return st.locals[a]
	}
	tc.loadVer = func(k string) int { return st.stored[k] }
	tc.elemVal = func(a *ssa.Alloc, k string) *Term { return st.elems[elemKey{a, k}] }
	tc.inline = !ex.opts.NoInline
	tc.subst = st.subst
	st.tc = tc
}

func (ex *executor) run(st *pstate, b *ssa.BasicBlock, from *ssa.BasicBlock) {
	if ex.over {
		return
	}
	if st.visits[b] >= ex.opts.MaxVisits {
		ex.abandoned++
		return // do not follow: path abandoned (back edge beyond the visit bound)
	}
	st.visits[b]++
	st.blocks = append(st.blocks, b)
	if from != nil {
		st.pred[b] = from
	}
	if st.tc == nil {
		ex.newTC(st)
	} else if st.visits[b] > 1 {
		// re-entering a block: the values it defines are recomputed; everything else (in particular
		// loads that were evaluated before later stores) keeps its term
		old := st.tc.memo
		ex.newTC(st)
		st.tc.memo = old
		// φ-nodes take the values their operands had at the END of the previous iteration: evaluate
		// them against the old memo before anything is invalidated
		newPhi := map[ssa.Value]*Term{}
		for _, in := range b.Instrs {
			phi, ok := in.(*ssa.Phi)
			if !ok {
				break
			}
			for i, pb := range b.Preds {
				if pb == from {
					newPhi[phi] = st.tc.Of(phi.Edges[i])
				}
			}
		}
		for _, in := range b.Instrs {
			if v, ok := in.(ssa.Value); ok {
				delete(st.tc.memo, v)
			}
		}

		// values depending on them (defined in blocks dominated by b) are dropped as well
		for v := range st.tc.memo {
			if in, ok := v.(ssa.Instruction); ok && in.Block() != nil && in.Block() != b && b.Dominates(in.Block()) && st.visits[in.Block()] > 0 && ex.inLoop[in.Block()] {
				delete(st.tc.memo, v)
			}
		}
		for v, t := range newPhi {
			st.tc.memo[v] = t
		}
	} else {
		// pred map is shared by reference with tc; memo stays valid for first visits
		st.tc.pred = st.pred
	}
	tc := st.tc
	// φ-nodes are evaluated eagerly on entry, so that a later re-entry through a self edge
	// (`x = φ(…, x)`) finds the value of the previous iteration
	for _, in := range b.Instrs {
		phi, ok := in.(*ssa.Phi)
		if !ok {
			break
		}
		tc.Of(phi)
	}
	ex.execFrom(st, b, 0)
}

// execFrom executes the instructions of b from index start on.
func (ex *executor) execFrom(st *pstate, b *ssa.BasicBlock, start int) {
	tc := st.tc
	for idx := start; idx < len(b.Instrs); idx++ {
		in := b.Instrs[idx]
		switch in := in.(type) {
		case *ssa.Store:
			addr := tc.Of(in.Addr)
			val := tc.Of(in.Val)
			if a, ok := in.Addr.(*ssa.Alloc); ok && !ex.escapd[a] {
				st.locals[a] = val
				continue
			}
			if ia, ok := in.Addr.(*ssa.IndexAddr); ok {
				if a, isA := ia.X.(*ssa.Alloc); isA && a.Comment == "varargs" && varargsOfLibraryCall(a) {
					// the argument list of a variadic call being filled in: a temporary of this call, not an effect
					if k, isC := ia.Index.(*ssa.Const); isC {
						st.elems = st.elemsCopy()
						st.elems[elemKey{a, tc.Of(k).Sym}] = val
					}
					continue
				}
				if a := literalArrayOf(ia.X); a != nil {
					if k, isC := ia.Index.(*ssa.Const); isC && !ex.inLoop[b] {
						// element of a local array literal: tracked like a local, no effect on outside memory
						st.elems = st.elemsCopy()
						st.elems[elemKey{a, tc.Of(k).Sym}] = val
						continue
					}
				}
			}
			st.seq++
			st.effects = append(st.effects, Effect{Seq: st.seq, Kind: "store", Instr: in, Addr: addr, Val: val, InLoop: ex.inLoop[b] || st.viaLoop(ex), Block: b, Via: st.via(), Fresh: rootIsAlloc(addr)})
			st.stored[addr.Key()]++
			st.epoch++
		case *ssa.MapUpdate:
			if mm := literalMapOf(in.Map); mm != nil && !ex.inLoop[b] {
				// an entry of a local map literal: tracked like a local
				nm := map[*ssa.MakeMap][]mapEntry{}
				for k, v := range st.maps {
					nm[k] = v
				}
				nm[mm] = append(append([]mapEntry(nil), nm[mm]...), mapEntry{tc.Of(in.Key), tc.Of(in.Value)})
				st.maps = nm
				continue
			}
			st.seq++
			st.effects = append(st.effects, Effect{Seq: st.seq, Kind: "mapupdate", Instr: in, Addr: tc.Of(in.Map), Key: tc.Of(in.Key), Val: tc.Of(in.Value), InLoop: ex.inLoop[b] || st.viaLoop(ex), Block: b, Via: st.via()})
			st.epoch++
		case *ssa.Call:
			if isSyncCall(in.Common()) {
				continue
			}
			if f := ex.inlinable(st, in); f != nil {
				ex.enter(st, f, in, b, idx)
				return
			}
			t := tc.Of(in)
			pure := ex.opts.Pure != nil && ex.opts.Pure(in)
			if bi, ok := in.Common().Value.(*ssa.Builtin); ok {
				switch bi.Name() {
				case "len", "cap", "min", "max", "real", "imag", "complex":
					pure = true
				case "append":
					pure = true // result must be stored to have an effect
				}
			}
			st.seq++
			st.effects = append(st.effects, Effect{Seq: st.seq, Kind: "call", Instr: in, Call: t, Pure: pure, InLoop: ex.inLoop[b] || st.viaLoop(ex), Block: b, Via: st.via()})
			if !pure {
				st.epoch++
			}
		case *ssa.Go:
			st.seq++
			st.effects = append(st.effects, Effect{Seq: st.seq, Kind: "go", Instr: in, Call: callTermOf(tc, in.Common()), InLoop: ex.inLoop[b] || st.viaLoop(ex), Block: b, Via: st.via()})
			st.epoch++
		case *ssa.Defer:
			if isSyncCall(in.Common()) {
				continue
			}
			st.seq++
			st.effects = append(st.effects, Effect{Seq: st.seq, Kind: "defer", Instr: in, Call: callTermOf(tc, in.Common()), InLoop: ex.inLoop[b] || st.viaLoop(ex), Block: b, Via: st.via()})
		case *ssa.Send:
			st.seq++
			st.effects = append(st.effects, Effect{Seq: st.seq, Kind: "send", Instr: in, Addr: tc.Of(in.Chan), Val: tc.Of(in.X), InLoop: ex.inLoop[b] || st.viaLoop(ex), Block: b, Via: st.via()})
			st.epoch++
		case *ssa.Panic:
			ex.emit(st, nil, true)
			return
		case *ssa.Return:
			if len(st.frames) > 0 {
				ex.leave(st, in)
				return
			}
			ex.emit(st, in, false)
			return
		case *ssa.Jump:
			ex.run(st, b.Succs[0], b)
			return
		case *ssa.If:
			ex.branch(st, b, in)
			return
		case *ssa.Lookup:
			// `f, ok := table[selector]` on a local map literal: a dispatch — one path per entry (as a switch
			// over the keys would give) plus the miss
			mm := literalMapOf(in.X)
			if mm == nil || !in.CommaOk || len(st.maps[mm]) == 0 {
				continue
			}
			sel := tc.Of(in.Index)
			entries := st.maps[mm]
			eq := func(k *Term) *Term {
				x, y := k, sel
				if x.Key() > y.Key() {
					x, y = y, x
				}
				return mk("bin", "==", nil, x, y)
			}
			for i := 0; i <= len(entries); i++ {
				s2 := st
				if i < len(entries) {
					s2 = st.clone()
					s2.tc = nil
					ex.newTC(s2)
					s2.tc.memo = copyMemo(st.tc.memo)
				}
				for j := 0; j < i && j < len(entries); j++ {
					s2.seq++
					s2.conds = append(s2.conds, PathCond{Term: eq(entries[j].key), Taken: false, Seq: s2.seq})
				}
				if i < len(entries) {
					s2.seq++
					s2.conds = append(s2.conds, PathCond{Term: eq(entries[i].key), Taken: true, Seq: s2.seq})
					s2.tc.memo[in] = mk("tuple", "", in, entries[i].val, mk("const", "true", nil))
				} else {
					s2.tc.memo[in] = mk("tuple", "", in, mk("nil", "", nil), mk("const", "false", nil))
				}
				ex.execFrom(s2, b, idx+1)
			}
			return
		default:
			if v, ok := in.(ssa.Value); ok {
				// build eagerly so that loads observe the locals as of now
				if u, ok := v.(*ssa.UnOp); ok && u.Op == token.MUL {
					tc.Of(v)
					if _, isIA := u.X.(*ssa.IndexAddr); isIA {
						st.seq++
						st.loads = append(st.loads, Effect{Seq: st.seq, Kind: "load", Instr: u, Addr: tc.Of(u.X), InLoop: ex.inLoop[b] || st.viaLoop(ex), Block: b, Via: st.via()})
					}
				}
			}
		}
	}
}

func callTermOf(tc *TermCtx, com *ssa.CallCommon) *Term {
	var args []*Term
	if com.IsInvoke() {
		args = append(args, tc.Of(com.Value))
		for _, a := range com.Args {
			args = append(args, tc.Of(a))
		}
		return mk("invoke", com.Value.Type().String()+"."+com.Method.Name(), nil, args...)
	}
	for _, a := range com.Args {
		args = append(args, tc.Of(a))
	}
	switch f := com.Value.(type) {
	case *ssa.Function:
		return mk("call", funcName(f), nil, args...)
	case *ssa.Builtin:
		return mk("builtin", f.Name(), nil, args...)
	case *ssa.MakeClosure:
		return mk("call", "closure:"+funcName(f.Fn.(*ssa.Function)), nil, append([]*Term{tc.Of(f)}, args...)...)
	}
	return mk("dyncall", "", nil, append([]*Term{tc.Of(com.Value)}, args...)...)
}

func (ex *executor) emit(st *pstate, ret *ssa.Return, panics bool) {
	if len(ex.paths) >= ex.opts.MaxPaths {
		ex.over = true
		return
	}
	p := &Path{Blocks: st.blocks, Conds: st.conds, Effects: st.effects, Ret: ret, Panics: panics, Loads: st.loads, Classes: st.classes, Atoms: st.atoms, Free: st.free, tc: st.tc}
	if ret != nil {
		for _, r := range ret.Results {
			t := st.tc.Of(r)
			// an error wrapped with fmt.Errorf("… %w …", …, e, …) on a path that has established e != nil is that error
			// with a message around it (errors.Is / errors.Unwrap see e): the path returns e
			if e := wrappedError(r); e != nil {
				te := st.tc.Of(e)
				for _, cd := range st.conds {
					if x, neq, ok := nilTest(cd.Term); ok && x.Key() == te.Key() && neq == cd.Taken {
						t = te
					}
				}
			}
			p.RetT = append(p.RetT, t)
		}
	}
	// snapshot (state is cloned on branches, so slices are stable here)
	ex.paths = append(ex.paths, p)
}

// condResult: how a condition restricts the state when true / false.
type condEval struct {
	kind   string // "const" "scalar" "atom" "free"
	value  bool   // const
	scalar string
	tset   ClassSet // classes (of all) for which the condition is true
	key    string
	note   string
}

func flipOp(op string) string {
	switch op {
	case "<":
		return ">"
	case "<=":
		return ">="
	case ">":
		return "<"
	case ">=":
		return "<="
	}
	return op
}

func negTerm(t *Term) *Term {
	if t.Op == "un" && t.Sym == "-" {
		return t.Args[0]
	}
	if t.Op == "const" {
		if t.Sym == "0" {
			return t
		}
		if strings.HasPrefix(t.Sym, "-") {
			return mk("const", t.Sym[1:], nil)
		}
		return mk("const", "-"+t.Sym, nil)
	}
	return mk("un", "-", nil, t)
}

func (ex *executor) scalarKey(st *pstate, name string, t *Term) string {
	if t.hasLoad() {
		return fmt.Sprintf("%s@%d", name, st.epoch)
	}
	return name
}

// knownNilness: 1 = the nil literal, -1 = known non-nil (a package-level variable of type error — the same
// convention as Path.RetNil — or a freshly made error), 0 = unknown.
func knownNilness(t *Term) int {
	switch t.Op {
	case "nil":
		return 1
	case "global":
		if g, ok := t.V.(*ssa.Global); ok {
			if pt, ok := g.Type().(*types.Pointer); ok && pt.Elem().String() == "error" {
				return -1
			}
		}
	case "call":
		if strings.HasPrefix(t.Sym, "errors.New") || strings.HasPrefix(t.Sym, "fmt.Errorf") {
			return -1
		}
	}
	return 0
}

func (ex *executor) evalCond(st *pstate, t *Term) condEval {
	dom := ex.dom
	switch {
	case t.Op == "const" && (t.Sym == "true" || t.Sym == "false"):
		return condEval{kind: "const", value: t.Sym == "true"}
	case t.Op == "un" && t.Sym == "!":
		r := ex.evalCond(st, t.Args[0])
		switch r.kind {
		case "const":
			r.value = !r.value
		case "scalar":
			r.tset = ^r.tset
		case "atom", "free":
			// negation handled by caller through key polarity
			r.note = "neg"
		}
		return r
	case t.Op == "bin" && (t.Sym == "<" || t.Sym == "<=" || t.Sym == "==" || t.Sym == "!=") && t.Args[0].Op == "const" && t.Args[1].Op == "const" && isIntLit(t.Args[0].Sym) && isIntLit(t.Args[1].Sym):
		// both operands are integer literals (typically a path-resolved loop counter against its bound)
		a, _ := strconv.ParseInt(t.Args[0].Sym, 10, 64)
		b, _ := strconv.ParseInt(t.Args[1].Sym, 10, 64)
		var v bool
		switch t.Sym {
		case "<":
			v = a < b
		case "<=":
			v = a <= b
		case "==":
			v = a == b
		case "!=":
			v = a != b
		}
		return condEval{kind: "const", value: v}
	case t.Op == "bin" && (t.Sym == "==" || t.Sym == "!=") && (t.Args[0].Op == "nil" || t.Args[1].Op == "nil") && knownNilness(t.Args[0]) != 0 && knownNilness(t.Args[1]) != 0:
		// a comparison with nil of a value whose nil-ness is known (typically the error result of an inlined callee:
		// nil on its success path, a package-level error variable or errors.New(…) on its failure path)
		eq := knownNilness(t.Args[0]) == knownNilness(t.Args[1])
		return condEval{kind: "const", value: eq == (t.Sym == "==")}
	case t.Op == "bin" && (t.Sym == "<" || t.Sym == "<=" || t.Sym == "==" || t.Sym == "!="):
		x, y := t.Args[0], t.Args[1]
		op := t.Sym
		if dom.Scalar != nil {
			try := func(s, p *Term, op string) (condEval, bool) {
				name, neg, ok := dom.Scalar(s)
				if !ok {
					return condEval{}, false
				}
				pt := p
				if neg {
					pt = negTerm(p)
					op = flipOp(op)
				}
				// x != x / x == x
				if s.Key() == p.Key() {
					n := dom.NPoints[name]
					all := allClasses(n)
					var ts ClassSet
					if op == "!=" {
						ts = 1 << classNaN
					} else if op == "==" || op == "<=" || op == ">=" {
						ts = all &^ (1 << classNaN)
					}
					return condEval{kind: "scalar", scalar: ex.scalarKey(st, name, s), tset: ts}, true
				}
				k, ok := dom.Point(name, pt)
				if !ok {
					return condEval{}, false
				}
				n := dom.NPoints[name]
				var ts ClassSet
				pp := 2*k + 1
				for pos := 0; pos <= 2*n; pos++ {
					var tr bool
					switch op {
					case "<":
						tr = pos < pp
					case "<=":
						tr = pos <= pp
					case ">":
						tr = pos > pp
					case ">=":
						tr = pos >= pp
					case "==":
						tr = pos == pp
					case "!=":
						tr = pos != pp
					}
					if tr {
						ts |= 1 << uint(1+pos)
					}
				}
				if op == "!=" {
					ts |= 1 << classNaN
				}
				return condEval{kind: "scalar", scalar: ex.scalarKey(st, name, s), tset: ts}, true
			}
			if r, ok := try(x, y, op); ok {
				return r
			}
			if r, ok := try(y, x, flipOp(op)); ok {
				return r
			}
		}
	case t.Op == "call" && (t.Sym == "math.IsNaN" || t.Sym == "math.IsInf") && dom.Scalar != nil:
		if name, _, ok := dom.Scalar(t.Args[0]); ok {
			n := dom.NPoints[name]
			if t.Sym == "math.IsNaN" {
				return condEval{kind: "scalar", scalar: ex.scalarKey(st, name, t.Args[0]), tset: 1 << classNaN}
			}
			// IsInf(x, sign): needs ±Inf to be points: ask the domain
			var ts ClassSet
			okAll := true
			sign := t.Args[1]
			for _, sg := range []string{"1", "-1"} {
				if sign.isConst("0") || sign.isConst(sg) {
					inf := mk("call", "math.Inf", nil, mk("const", sg, nil))
					if k, ok := dom.Point(name, inf); ok {
						ts |= 1 << uint(classOfPoint(k))
					} else {
						okAll = false
					}
				}
			}
			_ = n
			if okAll && ts != 0 {
				return condEval{kind: "scalar", scalar: ex.scalarKey(st, name, t.Args[0]), tset: ts}
			}
		}
	}
	key := t.Key()
	if t.hasLoad() {
		key = fmt.Sprintf("%s@%d", key, st.epoch)
	}
	return condEval{kind: "atom", key: key}
}

func (ex *executor) branch(st *pstate, b *ssa.BasicBlock, in *ssa.If) {
	t := st.tc.Of(in.Cond)
	r := ex.evalCond(st, t)
	neg := false
	if r.note == "neg" {
		neg = true
	}
	take := func(s *pstate, taken bool) {
		s.seq++
		s.conds = append(s.conds, PathCond{Term: t, Taken: taken, If: in, Scalar: r.scalar, Seq: s.seq})
		succ := b.Succs[0]
		if !taken {
			succ = b.Succs[1]
		}
		ex.run(s, succ, b)
	}
	switch r.kind {
	case "const":
		take(st, r.value)
	case "scalar":
		name := r.scalar
		base := name
		if i := strings.Index(base, "@"); i >= 0 {
			base = base[:i]
		}
		all := allClasses(ex.dom.NPoints[base])
		if ex.dom.Integer[base] {
			all &^= 1 << classNaN
		}
		cur, ok := st.classes[name]
		if !ok {
			cur = all
		}
		tset := cur & r.tset & all
		fset := cur &^ r.tset & all
		if tset != 0 && fset != 0 {
			s2 := st.clone()
			s2.tc = nil
			ex.newTC(s2)
			s2.tc.memo = copyMemo(st.tc.memo)
			st.classes[name] = tset
			s2.classes[name] = fset
			take(st, true)
			take(s2, false)
		} else if tset != 0 {
			st.classes[name] = tset
			take(st, true)
		} else if fset != 0 {
			st.classes[name] = fset
			take(st, false)
		}
	default:
		key := r.key
		if v, ok := st.atoms[key]; ok {
			if neg {
				v = !v
			}
			take(st, v)
			return
		}
		s2 := st.clone()
		s2.tc = nil
		ex.newTC(s2)
		s2.tc.memo = copyMemo(st.tc.memo)
		st.atoms[key] = !neg
		s2.atoms[key] = neg
		take(st, true)
		take(s2, false)
	}
}

func copyMemo(m map[ssa.Value]*Term) map[ssa.Value]*Term {
	n := make(map[ssa.Value]*Term, len(m))
	for k, v := range m {
		n[k] = v
	}
	return n
}

// ---------------------------------------------------------------------------
// dominance helpers

// instrDominates: does instruction a dominate instruction b (same function)?
func instrDominates(a, b ssa.Instruction) bool {
	ba, bb := a.Block(), b.Block()
	if ba == bb {
		for _, in := range ba.Instrs {
			if in == a {
				return true
			}
			if in == b {
				return false
			}
		}
		return false
	}
	return ba.Dominates(bb)
}

// reachableFrom returns the blocks reachable from b (following successors), excluding b unless in a cycle.
func reachableFrom(b *ssa.BasicBlock) map[*ssa.BasicBlock]bool {
	seen := map[*ssa.BasicBlock]bool{}
	var stack []*ssa.BasicBlock
	stack = append(stack, b.Succs...)
	for len(stack) > 0 {
		x := stack[len(stack)-1]
		stack = stack[:len(stack)-1]
		if seen[x] {
			continue
		}
		seen[x] = true
		stack = append(stack, x.Succs...)
	}
	return seen
}

func isIntLit(s string) bool {
	_, err := strconv.ParseInt(s, 10, 64)
	return err == nil
}

// via: the chain of inlined calls the state is currently inside (nil at top level).
func (s *pstate) via() []*ssa.Call {
	if len(s.frames) == 0 {
		return nil
	}
	out := make([]*ssa.Call, len(s.frames))
	for i, fr := range s.frames {
		out[i] = fr.call
	}
	return out
}

// viaLoop: is one of the inlined calls the state is inside made from a loop?
func (s *pstate) viaLoop(ex *executor) bool {
	for _, fr := range s.frames {
		if ex.inLoop[fr.block] {
			return true
		}
	}
	return false
}

// hasLoopStoreTo: some store to field fld (of the receiver) on this path happens inside a loop.
func (p *Path) hasLoopStoreTo(fld string) bool {
	for _, e := range p.Effects {
		if e.Kind == "store" && e.InLoop && isRecvField(e.Addr.unver(), fld) {
			return true
		}
	}
	return false
}
