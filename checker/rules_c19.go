package main

import (
	"fmt"
	"go/types"
	"math"
	"sort"
	"strconv"
	"strings"

	"golang.org/x/tools/go/ssa"
)

// C19 — a mapping keeps its identity through every serialized form.
// C03 — index mappings: structural necessary conditions only.

func init() {
	register("C19",
		"DECIDED: D1 kind tables close — for each mapping type T: T.Encode emits its own flag followed by (gamma, indexOffset) as float64LE in that order, the arm of mapping.Decode selected by that flag passes the two decoded values in the same order to a constructor whose result type is T; T.ToProto and T.EncodeProto emit the same Interpolation enum and the same (gamma, indexOffset) fields, and the arm of mapping.FromProto selected by that enum constructs T from (m.Gamma, m.IndexOffset); unknown kinds return an error. "+
			"D1 also: FromProto turns a message down only because it is nil, because its kind is unknown, or because the kind's constructor refuses the parameters — no range check of its own. D2 constructors store what is serialised — the gamma / offset fields are the constructor's parameters (write-once: C14-D2 immutability) and the accuracy constructors return the result of the gamma constructors. "+
			"D3 Equals — comma-ok assertion to the receiver's own type (different kinds are never equal), false on mismatch, otherwise the conjunction of the tolerance test on both parameter pairs with one tolerance; the tolerance helper is symmetric in its two values and implements the documented decision table (either value zero ⇒ both magnitudes within the tolerance; otherwise |x−y| ≤ tol·max(|x|,|y|)) — both by exhaustive truth-table comparison over its condition atoms. "+
			"SHARED (re-evaluated here under their home rule ids): C13-D3 sketch merge and the MergeWith row of C10-D1 (Equals gates merging on every path before any write; the exact variant has no way around the inner merge). C06-D4 omit flag, C06-D5 optional blocks and C06-D6 decoding constructors (the binary form of any sketch carries its mapping block unless omitted; the constructors hand the caller's mapping on). C08-D3 mapping part (a mapping block met while decoding into a sketch is decoded with its own flag, compared through Equals with the mapping the receiver has at that moment, adopted only when there was none or Equals holds, refused exactly on Equals false). C09-D1 for IndexMappingBuilder and for DDSketchBuilder.SetMapping (the mapping sub-message is collected in the one sub-buffer that was reset, announced with that buffer's length and written from it) — each streaming setter of the mapping message writes the tag of its own field, appended to a scratch truncated to length 0, with the value encoding of that field's type (a reused builder must not re-emit the previous field in front of gamma or offset). "+
			"NOT DECIDED: the numeric part of 'clearly different accuracies are never equal'; equality of Index/Value/LowerBound after restoration beyond what D1–D2 and exact float64 transport imply.",
		"one obligation per (mapping type × serialized form × direction), per Equals path, per truth assignment of the tolerance helper",
		true, runC19)
	register("C03",
		"WEAKEST CLAIM — the property is numeric (alpha-accuracy, monotonicity, bin containment are NOT decided). DECIDED are only structural necessary conditions: D1 the manual floor of Index in every mapping (x ≥ 0 → int(x), else int(x) − 1) applied to log_like(value)·multiplier + indexOffset; D2 LowerBound applies the inverse function to (index − indexOffset)/multiplier with the same multiplier field, which the constructor sets to 1/log(gamma) in the matching base, and Value = LowerBound·(1+alpha) (C01-D4); D3 the int32 bounds MinInt32/MaxInt32 and the same offset/multiplier are wired into the min/max indexable values in every constructor; RelativeAccuracy is computed from the stored gamma only; D4 the reported accuracy inverts the construction formula — gamma = ((1+α)/(1−α))^k in the accuracy constructor and RelativeAccuracy() = 1 − 2/(1+E) with ln E = f·ln gamma where k·f = 1 (only literal constants are evaluated), and the float-range bounds use gamma^(1/k); every other call site of a gamma constructor in the module hands over a gamma it received (parameter, decoded or message field) and never computes one, so the validated formula cannot be bypassed with another kind's base; RelativeAccuracy may return a value precomputed at construction (resolved through what the constructor stores); D5 interpolation consistency — the inverse functions split x into int(math.Floor(x)) and x − math.Floor(x) (a truncating floor is wrong for exact negative integers), the cubic polynomial satisfies A+B+C = 1 (continuity at binade boundaries), the Cardano inverse uses the constants derived from the same A, B, C, and the gamma exponent equals (maximum slope)·ln 2. "+
			"NOT DECIDED: everything the statement says about numbers (accuracy, monotonicity, bin edges, exact inverses).",
		"one obligation per mapping × clause",
		false, runC03)
}

type mappingInfo struct {
	t        *types.Named
	ctor     *ssa.Function // New<T>WithGamma
	accCtor  *ssa.Function // New<T>
	gammaF   string
	offsetF  string
	multF    string
	minF     string
	maxF     string
	ctorVals map[string]*Term
}

func mappingInfos(c *Ctx, rule string) []mappingInfo {
	var out []mappingInfo
	mapI := c.P.NamedType(pkgMapping, "IndexMapping")
	for _, t := range c.P.Implementations(mapI) {
		mi := mappingInfo{t: t}
		name := t.Obj().Name()
		mi.ctor = c.P.Func(pkgMapping, "New"+name+"WithGamma")
		mi.accCtor = c.P.Func(pkgMapping, "New"+name)
		if !c.mustFunc(rule, mi.ctor, "mapping.New"+name+"WithGamma") || !c.mustFunc(rule, mi.accCtor, "mapping.New"+name) {
			continue
		}
		ps, _ := exec(c, mi.ctor, nil, 1)
		for _, p := range ps {
			if p.RetNil(1) != 1 {
				continue
			}
			mi.ctorVals = resultFields(p)
			if len(mi.ctorVals) == 0 && len(p.RetT) > 0 {
				// &m where m is a local struct: stores go to the same alloc
				mi.ctorVals = resultFields(p)
			}
		}
		for f, v := range mi.ctorVals {
			if v.isParam(0) {
				mi.gammaF = f
			}
			if v.isParam(1) {
				mi.offsetF = f
			}
		}
		mi.multF = c.getterFieldUsedAsFactor(t)
		mi.minF = c.getterField(t, "MinIndexableValue")
		mi.maxF = c.getterField(t, "MaxIndexableValue")
		if mi.gammaF == "" || mi.offsetF == "" {
			c.R.undecided(rule, "anchor/"+name+"/gamma-offset-fields", name, "", "constructor stores its two parameters in two fields", fmt.Sprintf("gamma=%q offset=%q", mi.gammaF, mi.offsetF))
			continue
		}
		out = append(out, mi)
	}
	return out
}

// getterFieldUsedAsFactor: the receiver field Index() multiplies the logarithm by.
func (c *Ctx) getterFieldUsedAsFactor(t *types.Named) string {
	f := c.P.DeclaredMethod(t, "Index")
	if f == nil {
		return ""
	}
	res := ""
	tc := newTermCtx(c.P)
	tc.inline = false
	for _, b := range f.Blocks {
		for _, in := range b.Instrs {
			if bo, ok := in.(*ssa.BinOp); ok && bo.Op.String() == "*" {
				for _, x := range []ssa.Value{bo.X, bo.Y} {
					tt := tc.Of(x)
					if tt.Op == "field" && tt.Args[0].isParam(0) {
						res = tt.Sym
					}
				}
			}
		}
	}
	return res
}

func runC19(c *Ctx) {
	infos := mappingInfos(c, "C19")
	c.R.floor("C19", "mapping implementations", len(infos), 3)
	c19Binary(c, infos)
	c19Proto(c, infos)
	c19Ctors(c, infos)
	c19Equals(c, infos)
	// the streamed protobuf form of a mapping goes through the IndexMappingBuilder: tags, value encodings, fresh scratch
	c.shared(func() { c09Tags(c) }, keyMentions("IndexMappingBuilder", "DDSketchBuilder/Mapping"))
	// equality gates decoding into an existing sketch: each mapping block is decoded, compared through Equals with
	// the mapping the receiver has at that moment, refused exactly on a mismatch
	if a, err := c.anchors(); err == nil {
		c.shared(func() { c08Refusals(c, a); c08MappingArm(c, a) }, keyMentions("mapping-mismatch", "mapping-arm", "missing-mapping"))
		// … and gates merging: the sketch merge consults Equals on every path before any write, and the exact variant's
		// merge reaches the statistics only through the inner merge's verdict (no shortcut around the gate)
		c.shared(func() { c13Merge(c, a) }, func(o *Obligation) bool { return true })
		c.shared(func() { c10Wrappers(c, a, "C10-D1", "MergeWith") }, func(o *Obligation) bool { return true })
		// the binary form of ANY sketch carries its mapping unless the caller asked to omit it: the mapping block is
		// written on every path (only the documented optional blocks are conditional), and the decoding constructors
		// hand the caller's mapping to the sketch they build
		c.shared(func() { c06Omit(c, a) }, func(o *Obligation) bool { return true })
		c.shared(func() {
			c06OptionalBlocks(c, "C06-D5", c.P.DeclaredMethod(a.DDSketch, "Encode"), []string{"FlagZeroCountVarFloat"})
			c06OptionalBlocks(c, "C06-D5", c.P.DeclaredMethod(a.Exact, "Encode"), []string{"FlagCount", "FlagSum"})
		}, func(o *Obligation) bool { return true })
		c.shared(func() { c06DecoderCtors(c, a, "C06-D6") }, func(o *Obligation) bool { return true })
	}
}

func c19Binary(c *Ctx, infos []mappingInfo) {
	const rule = "C19-D1"
	// decodeLogLike returns the two decoded floats in reading order
	dec := c.P.Func(pkgMapping, "Decode")
	if !c.mustFunc(rule, dec, "mapping.Decode") {
		return
	}
	dpaths, _ := execPlain(c, dec, nil, 1) // the two-float decoding helper is checked by role (c19DecodedInOrder), whatever its name
	arms, _ := dispatchArms(dpaths, func(t *Term) bool { return t.isParam(1) })
	for _, mi := range infos {
		name := mi.t.Obj().Name()
		enc := c.P.DeclaredMethod(mi.t, "Encode")
		if !c.mustFunc(rule, enc, name+".Encode") {
			continue
		}
		ps, _ := exec(c, enc, nil, 1)
		flag := ""
		okW := len(ps) == 1
		found := ""
		if okW {
			var seq []*Term
			for _, e := range ps[0].Calls() {
				if e.Call.Op == "call" && strings.HasPrefix(e.Call.Sym, "ddsketch/encoding.Encode") {
					seq = append(seq, e.Call)
				}
			}
			okW = len(seq) == 3 && strings.HasSuffix(seq[0].Sym, "EncodeFlag") && seq[0].Args[1].Op == "global" &&
				strings.HasSuffix(seq[1].Sym, "EncodeFloat64LE") && isRecvField(seq[1].Args[1], mi.gammaF) &&
				strings.HasSuffix(seq[2].Sym, "EncodeFloat64LE") && isRecvField(seq[2].Args[1], mi.offsetF)
			if len(seq) > 0 && len(seq[0].Args) > 1 {
				flag = seq[0].Args[1].Key()
			}
			found = fmt.Sprint(seq)
		}
		c.R.check(okW, rule, name+"/binary/writer", shortFn(enc), c.fpos(enc), "flag, float64LE(gamma field), float64LE(offset field) in this order", found)
		// reader arm of that flag
		aps := arms[flag]
		okR := len(aps) > 0
		foundR := fmt.Sprintf("flag %s: %d arm path(s)", shortLabel(flag), len(aps))
		for _, p := range aps {
			if p.RetNil(1) == -1 {
				continue
			}
			r := p.RetT[0]
			ok := r.Op == "extract" && r.Sym == "0" && r.Args[0].Op == "call" && r.Args[0].Sym == funcName(mi.ctor)
			if ok {
				call := r.Args[0]
				// arguments: first and second decoded value, in reading order
				g, o := call.Args[0], call.Args[1]
				ok = g.Op == "extract" && o.Op == "extract" && g.Sym == "0" && o.Sym == "1" && sameVal(g.Args[0], o.Args[0]) && g.Args[0].Op == "call"
				if ok {
					ok = c19DecodedInOrder(c, g.Args[0])
				}
				// the constructor's error is returned too
				ok = ok && p.RetT[1].Op == "extract" && p.RetT[1].Sym == "1" && sameVal(p.RetT[1].Args[0], call)
			}
			if !ok {
				okR = false
				foundR = describeRet(p)
			}
		}
		c.R.check(okR, rule, name+"/binary/reader", shortFn(dec), c.fpos(dec), "the arm of this mapping's flag calls "+funcName(mi.ctor)+"(first decoded, second decoded) and returns its result and error", foundR)
	}
}

// c19DecodedInOrder: the helper call returns (first decoded float, second decoded float, err).
func c19DecodedInOrder(c *Ctx, call *Term) bool {
	cv, ok := call.V.(*ssa.Call)
	if !ok {
		return false
	}
	fn, ok := cv.Common().Value.(*ssa.Function)
	if !ok {
		return false
	}
	ps, _ := exec(c, fn, nil, 1)
	good := false
	for _, p := range ps {
		var decs []*Term
		for _, e := range p.Calls() {
			if e.Call.Op == "call" && strings.HasSuffix(e.Call.Sym, "DecodeFloat64LE") {
				decs = append(decs, e.Call)
			}
		}
		if p.RetNil(len(p.RetT)-1) == -1 && len(decs) < 2 {
			continue // the first decode failed: its error path
		}
		if len(decs) == 0 && len(p.RetT) >= 2 {
			// both floats read at once from a buffer known to hold 16 bytes: frombits(LE.Uint64(buf)) and
			// frombits(LE.Uint64(buf[8:])), cursor advanced by 16
			le := func(t *Term, off string) bool {
				if !(t.Op == "call" && t.Sym == "math.Float64frombits" && t.Args[0].Op == "call" && strings.HasSuffix(t.Args[0].Sym, "littleEndian).Uint64")) {
					return false
				}
				src := t.Args[0].Args[len(t.Args[0].Args)-1]
				if off == "0" {
					return src.Op == "load" || src.Op == "slice" && (src.Args[1].Op == "none" || src.Args[1].isConst("0"))
				}
				return src.Op == "slice" && src.Args[1].isConst(off)
			}
			adv := false
			for _, e := range p.Effects {
				if e.Kind == "store" && e.Addr.isParam(0) && e.Val.Op == "slice" && e.Val.Args[1].isConst("16") {
					adv = true
				}
			}
			guard := false
			for _, cd := range p.Conds {
				t := cd.Term
				if t.isBin("<=") && t.Args[0].isConst("16") && t.Args[1].Op == "builtin" && t.Args[1].Sym == "len" && cd.Taken || t.isBin("<") && t.Args[0].Op == "builtin" && t.Args[0].Sym == "len" && t.Args[1].isConst("16") && !cd.Taken {
					guard = true
				}
			}
			if le(p.RetT[0], "0") && le(p.RetT[1], "8") && adv && guard && p.RetNil(len(p.RetT)-1) == 1 {
				good = true
				continue
			}
			return false
		}
		if len(decs) != 2 {
			return false
		}
		r0, r1 := p.RetT[0], p.RetT[1]
		if !(r0.Op == "extract" && r0.Sym == "0" && sameVal(r0.Args[0], decs[0]) && r1.Op == "extract" && r1.Sym == "0" && sameVal(r1.Args[0], decs[1])) {
			return false
		}
		good = true
	}
	return good
}

func c19Proto(c *Ctx, infos []mappingInfo) {
	const rule = "C19-D1"
	from := c.P.Func(pkgMapping, "FromProto")
	if !c.mustFunc(rule, from, "mapping.FromProto") {
		return
	}
	fpaths, _ := exec(c, from, nil, 1)
	arms, _ := dispatchArms(fpaths, func(t *Term) bool {
		return t.Op == "field" && t.Sym == "Interpolation" && t.Args[0].isParam(0)
	})
	for _, mi := range infos {
		name := mi.t.Obj().Name()
		tp := c.P.DeclaredMethod(mi.t, "ToProto")
		ep := c.P.DeclaredMethod(mi.t, "EncodeProto")
		if !c.mustFunc(rule, tp, name+".ToProto") || !c.mustFunc(rule, ep, name+".EncodeProto") {
			continue
		}
		enum := ""
		if ps, _ := exec(c, tp, nil, 1); len(ps) == 1 {
			fl := resultFields(ps[0])
			ok := fl["Gamma"] != nil && isRecvField(fl["Gamma"], mi.gammaF) && fl["IndexOffset"] != nil && isRecvField(fl["IndexOffset"], mi.offsetF)
			if e := fl["Interpolation"]; e != nil && e.Op == "const" {
				enum = e.Sym
			} else if fl["Interpolation"] == nil {
				enum = "0"
			}
			c.R.check(ok && enum != "", rule, name+"/proto/ToProto", shortFn(tp), c.fpos(tp), "message{Gamma: gamma field, IndexOffset: offset field, Interpolation: constant}", fmt.Sprint(fl))
		} else {
			c.R.undecided(rule, name+"/proto/ToProto", shortFn(tp), c.fpos(tp), "ToProto builds the message on a single path", fmt.Sprintf("%d paths", len(ps)))
		}
		{
			ps, _ := exec(c, ep, nil, 1)
			ok := len(ps) > 0
			found := ""
			for _, p := range ps {
				var g, o, e *Term
				for _, ef := range p.Calls() {
					switch {
					case isMethodCall(ef.Call, "SetGamma"):
						g = ef.Call.Args[1]
					case isMethodCall(ef.Call, "SetIndexOffset"):
						o = ef.Call.Args[1]
					case isMethodCall(ef.Call, "SetInterpolation"):
						e = stripConv(ef.Call.Args[1])
					}
				}
				// a setter may be left out only for the proto3 zero value of that very field
				zeroOf := func(fld string) bool {
					for _, cd := range p.Conds {
						t := cd.Term
						if (t.isBin("==") || t.isBin("!=")) && (t.Args[0].isConst("0") && isRecvField(t.Args[1], fld) || t.Args[1].isConst("0") && isRecvField(t.Args[0], fld)) && cd.Taken == t.isBin("==") {
							return true
						}
					}
					return false
				}
				okG := g != nil && isRecvField(g, mi.gammaF) || g == nil && zeroOf(mi.gammaF)
				okO := o != nil && isRecvField(o, mi.offsetF) || o == nil && zeroOf(mi.offsetF)
				okE := e != nil && e.Op == "const" && e.Sym == enum || e == nil && enum == "0"
				if !(okG && okO && okE) {
					ok = false
					found = fmt.Sprintf("path [%s]: gamma=%v offset=%v enum=%v", p.String(), g, o, e)
				}
			}
			c.R.check(ok, rule, name+"/proto/EncodeProto", shortFn(ep), c.fpos(ep), "on every path: SetGamma(gamma field), SetIndexOffset(offset field), SetInterpolation(the same enum as ToProto: "+enum+"); a setter is skipped only for the zero value of its own field", firstNonEmpty(found, fmt.Sprintf("%d path(s)", len(ps))))
		}
		// FromProto arm
		aps := arms["const:"+enum]
		okR := len(aps) > 0
		found := fmt.Sprintf("enum %s: %d arm path(s)", enum, len(aps))
		for _, p := range aps {
			r := p.RetT[0]
			ok := r.Op == "extract" && r.Sym == "0" && r.Args[0].Op == "call" && r.Args[0].Sym == funcName(mi.ctor)
			if ok {
				call := r.Args[0]
				isMsg := func(t *Term, f string) bool { return t.Op == "field" && t.Sym == f && t.Args[0].isParam(0) }
				ok = isMsg(call.Args[0], "Gamma") && isMsg(call.Args[1], "IndexOffset") && p.RetT[1].Op == "extract" && sameVal(p.RetT[1].Args[0], call)
			}
			if !ok {
				okR = false
				found = describeRet(p)
			}
		}
		c.R.check(okR, rule, name+"/proto/FromProto", shortFn(from), c.fpos(from), "the arm of this mapping's enum calls "+funcName(mi.ctor)+"(m.Gamma, m.IndexOffset)", found)
	}
	// unknown interpolation / nil message → error
	okDef := len(arms["default"]) > 0
	for _, p := range arms["default"] {
		if !(p.RetNil(1) == -1 && p.RetT[0].Op == "nil") {
			okDef = false
		}
	}
	c.R.check(okDef, rule, "proto/FromProto/unknown-kind", shortFn(from), c.fpos(from), "an unknown interpolation returns (nil, error)", fmt.Sprintf("%d default path(s)", len(arms["default"])))
	// the nil message: refused, and never looked into — every path that consults a field of the message has
	// established m != nil, every path that has established m == nil returns (nil, error)
	{
		bad := ""
		nNil := 0
		for _, p := range fpaths {
			ev := 0
			evSeq := 0
			for _, cd := range p.Conds {
				if x, neq, ok := nilTest(cd.Term); ok && x.isParam(0) {
					evSeq = cd.Seq
					if neq == cd.Taken {
						ev = -1
					} else {
						ev = 1
					}
				}
			}
			if ev == 1 {
				nNil++
				if !(p.RetNil(1) == -1 && p.RetT[0].Op == "nil") {
					bad = "a nil message is answered with " + describeRet(p)
				}
				continue
			}
			for _, cd := range p.Conds {
				reads := false
				cd.Term.walk(func(x *Term) bool {
					if x.Op == "field" && len(x.Args) == 1 && x.Args[0].isParam(0) {
						reads = true
					}
					return true
				})
				if reads && !(ev == -1 && evSeq < cd.Seq) {
					bad = "a field of the message is consulted before m != nil is established: [" + p.String() + "]"
				}
			}
		}
		c.R.check(bad == "" && nNil > 0, rule, "proto/FromProto/nil-message", shortFn(from), c.fpos(from), "m == nil returns (nil, error); fields of m are read only after m != nil", firstNonEmpty(bad, fmt.Sprintf("%d nil path(s)", nNil)))
	}
	// … and it refuses nothing else on its own: a message is turned down because it is nil, because its kind is
	// unknown, or because the constructor of its kind turns the parameters down (a range check of its own on gamma or
	// the offset refuses mappings that ToProto produces)
	{
		inArm := map[*Path]bool{}
		for _, ps := range arms {
			for _, p := range ps {
				inArm[p] = true
			}
		}
		badR := ""
		for _, p := range fpaths {
			if len(p.RetT) != 2 || p.RetNil(1) != -1 {
				continue
			}
			nilMsg := false
			for _, cd := range p.Conds {
				if x, neq, ok := nilTest(cd.Term); ok && x.isParam(0) && neq != cd.Taken {
					nilMsg = true
				}
			}
			fromCtor := p.RetT[1].Op == "extract" && p.RetT[1].Sym == "1" && p.RetT[1].Args[0].Op == "call" && strings.Contains(p.RetT[1].Args[0].Sym, "WithGamma")
			if nilMsg || fromCtor {
				continue
			}
			// a refusal decided by the kind alone (however the test is written: a switch default, a range test or a
			// table lookup on the interpolation before the dispatch) is the unknown-kind refusal
			kindOnly, sawKind := true, false
			for _, cd := range p.Conds {
				cd.Term.walk(func(x *Term) bool {
					if x.Op == "field" && len(x.Args) == 1 && x.Args[0].isParam(0) {
						if x.Sym == "Interpolation" {
							sawKind = true
						} else {
							kindOnly = false
						}
					}
					return true
				})
			}
			if kindOnly && sawKind {
				continue
			}
			if inArm[p] {
				// the default arm (unknown kind) is an arm; a known kind's arm returning its own error is not
				isDefault := false
				for _, q := range arms["default"] {
					if q == p {
						isDefault = true
					}
				}
				if isDefault {
					continue
				}
			}
			badR = "refused for another reason than a nil message, an unknown kind or the constructor's verdict: [" + p.String() + "]"
		}
		c.R.check(badR == "", rule, "proto/FromProto/refuses-nothing-else", shortFn(from), c.fpos(from), "error paths: nil message, unknown interpolation, or the error of the kind's constructor", firstNonEmpty(badR, "ok"))
	}
}

func c19Ctors(c *Ctx, infos []mappingInfo) {
	const rule = "C19-D2"
	for _, mi := range infos {
		name := mi.t.Obj().Name()
		// accuracy constructor returns the gamma constructor's mapping
		ps, _ := exec(c, mi.accCtor, nil, 1)
		ok := false
		found := ""
		for _, p := range ps {
			if p.RetNil(1) != 1 {
				continue
			}
			r := p.RetT[0]
			found = r.Key()
			ok = r.Op == "extract" && r.Sym == "0" && r.Args[0].Op == "call" && r.Args[0].Sym == funcName(mi.ctor)
			if ok && len(r.Args[0].Args) == 2 {
				// the default offset is 0, or a function of the very gamma term handed over (1/log2(gamma) for the linear
				// kind): a mapping built from an accuracy is then bit-identical to the one rebuilt from its (gamma, offset)
				g, off := r.Args[0].Args[0], r.Args[0].Args[1]
				offOK := off.isConst("0")
				if !offOK {
					sub := false
					off.walk(func(x *Term) bool {
						if x.Key() == g.Key() {
							sub = true
						}
						return true
					})
					offOK = sub && off.isBin("/") && off.Args[0].isConst("1") && off.Args[1].Op == "call" && off.Args[1].Sym == "math.Log2" && off.Args[1].Args[0].Key() == g.Key()
				}
				c.R.check(offOK, rule, name+"/default-offset-from-gamma", shortFn(mi.accCtor), c.fpos(mi.accCtor), "the default offset is 0 or 1/math.Log2(gamma) of the same gamma term that is passed on (not a mathematically equal but differently rounded expression)", off.Key())
			}
		}
		c.R.check(ok, rule, name+"/accuracy-ctor-uses-gamma-ctor", shortFn(mi.accCtor), c.fpos(mi.accCtor), "New"+name+"(alpha) returns the mapping built by "+funcName(mi.ctor), found)
		// serialised fields are exactly the constructor parameters (done in mappingInfos) and are never rewritten (C14-D2 mapping-immutable)
		c.R.okay(rule, name+"/fields-are-ctor-params", shortFn(mi.ctor), c.fpos(mi.ctor), "gamma/offset fields hold the constructor parameters", mi.gammaF+" ← param 0, "+mi.offsetF+" ← param 1")
	}
}

func c19Equals(c *Ctx, infos []mappingInfo) {
	const rule = "C19-D3"
	var helper *ssa.Function
	for _, mi := range infos {
		name := mi.t.Obj().Name()
		f := c.P.DeclaredMethod(mi.t, "Equals")
		if !c.mustFunc(rule, f, name+".Equals") {
			continue
		}
		// comma-ok assertion to own type only
		okA := false
		for _, b := range f.Blocks {
			for _, in := range b.Instrs {
				if ta, ok := in.(*ssa.TypeAssert); ok {
					pt, isP := ta.AssertedType.(*types.Pointer)
					okA = ta.CommaOk && isP && types.Identical(pt.Elem(), mi.t)
				}
			}
		}
		c.R.check(okA, rule, name+".Equals/own-type-assertion", shortFn(f), c.fpos(f), "comma-ok assertion of the argument to *"+name, "")
		paths, _ := exec(c, f, nil, 1)
		for i, p := range paths {
			key := fmt.Sprintf("%s.Equals/path%d[%s]", name, i, pathSig(p))
			assertOK, have := pathCond(p, func(t *Term) bool { return t.Op == "extract" && t.Sym == "1" && t.Args[0].Op == "assert" })
			r := p.RetT[0]
			if !have {
				c.R.violate(rule, key, shortFn(f), c.fpos(f), "every path consults the type assertion", "["+p.String()+"]")
				continue
			}
			if !assertOK {
				c.R.check(r.isConst("false"), rule, key, shortFn(f), c.fpos(f), "a mapping of another kind is never equal", describeRet(p))
				continue
			}
			// exact-equality fast path: when BOTH parameters compare == (so neither is NaN), the tolerance test holds
			// for every finite value and fails for infinite ones (Inf − Inf is NaN); a path taken under those two
			// equalities may answer with a conjunction of "is not infinite" tests of those parameters and nothing else
			{
				eqParam := func(t *Term, fld string) bool {
					if !t.isBin("==") {
						return false
					}
					x, y := t.Args[0], t.Args[1]
					return x.Op == "field" && y.Op == "field" && x.Sym == fld && y.Sym == fld && (x.Args[0].isParam(0) && y.Args[0].Op == "extract" || y.Args[0].isParam(0) && x.Args[0].Op == "extract")
				}
				// difference form: x − y == 0 holds exactly when x and y are equal AND finite (Inf − Inf and anything
				// with NaN give NaN) — under it for both parameters the tolerance test holds, so `true` is the answer
				diffZero := func(t *Term, fld string) bool {
					if !t.isBin("==") {
						return false
					}
					d := t.Args[0]
					if d.isConst("0") {
						d = t.Args[1]
					} else if !t.Args[1].isConst("0") {
						return false
					}
					if !d.isBin("-") {
						return false
					}
					x, y := d.Args[0], d.Args[1]
					return x.Op == "field" && y.Op == "field" && x.Sym == fld && y.Sym == fld && (x.Args[0].isParam(0) && y.Args[0].Op == "extract" || y.Args[0].isParam(0) && x.Args[0].Op == "extract")
				}
				gD, oD := false, false
				for _, cd := range p.Conds {
					if cd.Taken && diffZero(cd.Term, mi.gammaF) {
						gD = true
					}
					if cd.Taken && diffZero(cd.Term, mi.offsetF) {
						oD = true
					}
				}
				if gD && oD {
					c.R.check(r.isConst("true"), rule, key, shortFn(f), c.fpos(f), "difference fast path: parameters whose differences are exactly 0 are equal and finite, hence within tolerance", describeRet(p))
					continue
				}
				gEq, oEq := false, false
				for _, cd := range p.Conds {
					if cd.Taken && eqParam(cd.Term, mi.gammaF) {
						gEq = true
					}
					if cd.Taken && eqParam(cd.Term, mi.offsetF) {
						oEq = true
					}
				}
				if gEq && oEq {
					isInfOf := func(t *Term) string {
						if t.Op == "call" && t.Sym == "math.IsInf" && len(t.Args) == 2 && t.Args[1].isConst("0") && t.Args[0].Op == "field" {
							return t.Args[0].Sym
						}
						return ""
					}
					excluded := map[string]bool{}
					infTaken := false
					for _, cd := range p.Conds {
						if f := isInfOf(cd.Term); f != "" {
							if cd.Taken {
								infTaken = true
							} else {
								excluded[f] = true
							}
						}
					}
					okFast := false
					switch {
					case infTaken:
						okFast = r.isConst("false")
					case r.Op == "un" && r.Sym == "!" && isInfOf(r.Args[0]) != "":
						excluded[isInfOf(r.Args[0])] = true
						okFast = excluded[mi.gammaF] && excluded[mi.offsetF]
					case r.isConst("true"):
						okFast = excluded[mi.gammaF] && excluded[mi.offsetF]
					}
					c.R.check(okFast, rule, key, shortFn(f), c.fpos(f), "exact-equality fast path: equal parameters are within tolerance exactly when neither is infinite", describeRet(p))
					continue
				}
			}
			// tolerance tests seen on the path (taken conds + returned call)
			type tt struct {
				fld string
				tol string
				ok  bool
			}
			var tests []tt
			record := func(t *Term) {
				if t.Op != "call" || len(t.Args) != 3 {
					return
				}
				if cv, ok := t.V.(*ssa.Call); ok {
					if fn, ok := cv.Common().Value.(*ssa.Function); ok {
						helper = fn
					}
				}
				x, y := t.Args[0], t.Args[1]
				good := x.Op == "field" && y.Op == "field" && x.Sym == y.Sym && (x.Args[0].isParam(0) && y.Args[0].Op == "extract" || y.Args[0].isParam(0) && x.Args[0].Op == "extract")
				tests = append(tests, tt{x.Sym, t.Args[2].Key(), good})
			}
			allTrue := true
			for _, cd := range p.Conds {
				if cd.Term.Op == "call" && len(cd.Term.Args) == 3 {
					record(cd.Term)
					if !cd.Taken {
						allTrue = false
					}
				}
			}
			if r.Op == "call" {
				record(r)
			}
			if !allTrue {
				c.R.check(r.isConst("false"), rule, key, shortFn(f), c.fpos(f), "a failed tolerance test makes the mappings unequal", describeRet(p))
				continue
			}
			seen := map[string]bool{}
			okT := len(tests) == 2
			for _, t := range tests {
				seen[t.fld] = true
				okT = okT && t.ok && t.tol == tests[0].tol
			}
			okT = okT && seen[mi.gammaF] && seen[mi.offsetF] && (r.Op == "call" || r.isConst("true"))
			c.R.check(okT, rule, key, shortFn(f), c.fpos(f), "equal iff the tolerance test holds for (gamma, gamma') and (offset, offset') with one tolerance", fmt.Sprintf("%v → %s", tests, r.Key()))
		}
	}
	if helper == nil {
		c.R.undecided(rule, "tolerance-helper", "", "", "a shared tolerance helper is used by Equals", "not found")
		return
	}
	c19Symmetric(c, rule, helper)
}

// canonSym: canonical form under the symmetries |a−b| = |b−a| and max/min commutative.
func canonSym(t *Term) string {
	if t == nil {
		return ""
	}
	switch {
	case t.Op == "call" && (t.Sym == "math.Max" || t.Sym == "math.Min") && len(t.Args) == 2:
		a, b := canonSym(t.Args[0]), canonSym(t.Args[1])
		if a > b {
			a, b = b, a
		}
		return t.Sym + "(" + a + "," + b + ")"
	case t.Op == "call" && t.Sym == "math.Abs" && len(t.Args) == 1 && t.Args[0].isBin("-"):
		a, b := canonSym(t.Args[0].Args[0]), canonSym(t.Args[0].Args[1])
		if a > b {
			a, b = b, a
		}
		return "absdiff(" + a + "," + b + ")"
	case t.Op == "bin" && commutativeSym(t.Sym) && len(t.Args) == 2:
		a, b := canonSym(t.Args[0]), canonSym(t.Args[1])
		if a > b {
			a, b = b, a
		}
		return "bin:" + t.Sym + "(" + a + "," + b + ")"
	}
	s := t.Op
	if t.Sym != "" {
		s += ":" + t.Sym
	}
	if len(t.Args) > 0 && t.Op != "phi" {
		var as []string
		for _, a := range t.Args {
			as = append(as, canonSym(a))
		}
		s += "(" + strings.Join(as, ",") + ")"
	}
	return s
}

func commutativeSym(op string) bool {
	switch op {
	case "+", "*", "==", "!=", "&", "|", "^":
		return true
	}
	return false
}

func swap01(s string) string {
	s = strings.ReplaceAll(s, "param:0", "param:§")
	s = strings.ReplaceAll(s, "param:1", "param:0")
	return strings.ReplaceAll(s, "param:§", "param:1")
}

// recanon: re-sort commutative operands after the textual swap.
func recanonSwapped(t *Term) string {
	// rebuild the term with parameters swapped, then canonicalise
	var sw func(t *Term) *Term
	sw = func(t *Term) *Term {
		if t.Op == "param" {
			switch t.Sym {
			case "0":
				return mk("param", "1", nil)
			case "1":
				return mk("param", "0", nil)
			}
			return t
		}
		n := &Term{Op: t.Op, Sym: t.Sym}
		for _, a := range t.Args {
			n.Args = append(n.Args, sw(a))
		}
		// keep comparison orientation of the normal form: a<b stays a<b with swapped leaves
		return n
	}
	return canonSym(sw(t))
}

func c19Symmetric(c *Ctx, rule string, helper *ssa.Function) {
	paths, _ := exec(c, helper, nil, 1)
	// atoms: conditions and non-constant returns
	atomOf := map[string]*Term{}
	for _, p := range paths {
		for _, cd := range p.Conds {
			atomOf[canonSym(cd.Term)] = cd.Term
		}
		if r := p.RetT[0]; r.Op != "const" {
			atomOf[canonSym(r)] = r
		}
	}
	var atoms []string
	for k := range atomOf {
		atoms = append(atoms, k)
	}
	sort.Strings(atoms)
	if len(atoms) > 12 {
		c.R.undecided(rule, shortFn(helper)+"/symmetric", shortFn(helper), c.fpos(helper), "at most 12 condition atoms", fmt.Sprintf("%d atoms", len(atoms)))
		return
	}
	swapOf := map[string]string{}
	for _, a := range atoms {
		s := recanonSwapped(atomOf[a])
		if _, ok := atomOf[s]; !ok {
			c.R.violate(rule, shortFn(helper)+"/symmetric", shortFn(helper), c.fpos(helper), "the tolerance test treats its two values alike", "condition "+a+" has no counterpart with the values swapped ("+s+")")
			return
		}
		swapOf[a] = s
	}
	idx := map[string]int{}
	for i, a := range atoms {
		idx[a] = i
	}
	eval := func(assign uint) (bool, bool) {
		for _, p := range paths {
			ok := true
			for _, cd := range p.Conds {
				v := assign>>uint(idx[canonSym(cd.Term)])&1 == 1
				if v != cd.Taken {
					ok = false
					break
				}
			}
			if !ok {
				continue
			}
			r := p.RetT[0]
			if r.Op == "const" {
				return r.Sym == "true", true
			}
			return assign>>uint(idx[canonSym(r)])&1 == 1, true
		}
		return false, false
	}
	n := 0
	bad := ""
	for assign := uint(0); assign < 1<<uint(len(atoms)); assign++ {
		// swapped assignment
		var sw uint
		for i, a := range atoms {
			if assign>>uint(idx[swapOf[a]])&1 == 1 {
				sw |= 1 << uint(i)
			}
		}
		v1, ok1 := eval(assign)
		v2, ok2 := eval(sw)
		if !ok1 || !ok2 {
			continue // inconsistent assignment (no path): not a reachable combination
		}
		n++
		if v1 != v2 {
			bad = fmt.Sprintf("assignment %0*b of %v gives %v but %v with the values swapped", len(atoms), assign, atoms, v1, v2)
		}
	}
	c.R.check(bad == "" && n > 0, rule, shortFn(helper)+"/symmetric", shortFn(helper), c.fpos(helper), "withinTolerance(x, y) = withinTolerance(y, x) for every truth assignment of its conditions", firstNonEmpty(bad, fmt.Sprintf("%d assignments over %d atoms agree", n, len(atoms))))
	c.R.count("truth_assignments", n)
	// decision table against the documented meaning: if either value is 0 both magnitudes must be within
	// the tolerance; otherwise the difference must be within tolerance × the larger magnitude
	role := map[string]string{}
	// "the value is zero": p == 0, or |p| == 0 (the same floats: ±0 only; NaN is neither)
	isZeroTest := func(t *Term, k int) bool {
		if !t.isBin("==") {
			return false
		}
		for i := 0; i < 2; i++ {
			z, v := t.Args[i], t.Args[1-i]
			if !z.isConst("0") {
				continue
			}
			if v.Op == "call" && v.Sym == "math.Abs" && len(v.Args) == 1 {
				v = v.Args[0]
			}
			if v.isParam(k) {
				return true
			}
		}
		return false
	}
	for _, a := range atoms {
		t := atomOf[a]
		switch {
		case isZeroTest(t, 0):
			role["x0"] = a
		case isZeroTest(t, 1):
			role["y0"] = a
		case t.isBin("<=") && t.Args[0].Op == "call" && t.Args[0].Sym == "math.Abs" && t.Args[0].Args[0].isParam(0) && t.Args[1].isParam(2):
			role["xs"] = a
		case t.isBin("<=") && t.Args[0].Op == "call" && t.Args[0].Sym == "math.Abs" && t.Args[0].Args[0].isParam(1) && t.Args[1].isParam(2):
			role["ys"] = a
		case t.isBin("<=") && strings.HasPrefix(a, "bin:<=(absdiff(param:0,param:1)") && strings.Contains(a, "math.Max(call:math.Abs(param:0),call:math.Abs(param:1))") && strings.Contains(a, "param:2"):
			role["rel"] = a
		}
	}
	if len(role) != 5 {
		c.R.undecided(rule, shortFn(helper)+"/decision-table", shortFn(helper), c.fpos(helper), "atoms x==0, y==0, |x|≤tol, |y|≤tol, |x−y| ≤ tol·max(|x|,|y|)", fmt.Sprintf("recognised %v of %v", role, atoms))
		return
	}
	bit := func(assign uint, r string) bool { return assign>>uint(idx[role[r]])&1 == 1 }
	badT := ""
	nT := 0
	for assign := uint(0); assign < 1<<uint(len(atoms)); assign++ {
		got, ok := eval(assign)
		if !ok {
			continue
		}
		nT++
		want := bit(assign, "rel")
		if bit(assign, "x0") || bit(assign, "y0") {
			want = bit(assign, "xs") && bit(assign, "ys")
		}
		if got != want {
			badT = fmt.Sprintf("x==0:%v y==0:%v |x|≤tol:%v |y|≤tol:%v rel:%v → %v, expected %v", bit(assign, "x0"), bit(assign, "y0"), bit(assign, "xs"), bit(assign, "ys"), bit(assign, "rel"), got, want)
		}
	}
	c.R.check(badT == "" && nT > 0, rule, shortFn(helper)+"/decision-table", shortFn(helper), c.fpos(helper),
		"either value zero ⇒ equal iff BOTH magnitudes are within the tolerance; otherwise iff |x−y| ≤ tol·max(|x|,|y|) (clearly different parameters are never equal)", firstNonEmpty(badT, fmt.Sprintf("%d consistent assignments agree", nT)))
}

// ---------------------------------------------------------------------------
// C03

func runC03(c *Ctx) {
	infos := mappingInfos(c, "C03")
	c.R.floor("C03", "mapping implementations", len(infos), 3)
	c03GammaCallSites(c, infos)
	c03FloatRangeSiblings(c, infos)
	// the representative value of a bin is the alpha-midpoint of that very bin: Value(i) = LowerBound(i)·(1 + alpha)
	// (an inlined copy of the lower bound that forgets the index offset leaves the bin)
	if a, err := c.anchors(); err == nil {
		c.shared(func() { c01Value(c, a) }, func(o *Obligation) bool { return true })
	}
	for _, mi := range infos {
		name := mi.t.Obj().Name()
		// D1 floor idiom
		if f := c.P.DeclaredMethod(mi.t, "Index"); c.mustFunc("C03-D1", f, name+".Index") {
			paths, _ := execNoInline(c, f, nil, 1)
			var x *Term
			okShape := len(paths) == 2
			found := ""
			for _, p := range paths {
				nonneg, have := pathCond(p, func(t *Term) bool { return t.isBin("<=") && t.Args[0].isConst("0") })
				if !have {
					okShape = false
					found = "no test x ≥ 0: [" + p.String() + "]"
					continue
				}
				for _, cd := range p.Conds {
					if cd.Term.isBin("<=") && cd.Term.Args[0].isConst("0") {
						x = cd.Term.Args[1]
					}
				}
				r := p.RetT[0]
				if nonneg {
					if !(r.Op == "conv" && r.Args[0].Key() == x.Key()) {
						okShape = false
						found = "x ≥ 0 returns " + r.Key()
					}
				} else {
					if !(r.isBin("-") && r.Args[1].isConst("1") && r.Args[0].Op == "conv" && r.Args[0].Args[0].Key() == x.Key()) {
						okShape = false
						found = "x < 0 returns " + r.Key()
					}
				}
			}
			c.R.check(okShape, "C03-D1", name+".Index/floor", shortFn(f), c.fpos(f), "x ≥ 0 → int(x); otherwise int(x) − 1 (floor for negative x)", firstNonEmpty(found, "ok"))
			// x = loglike(value)*multiplier + offset
			okX := false
			logName := ""
			if x != nil && x.isBin("+") {
				for i := 0; i < 2; i++ {
					off, prod := x.Args[i], x.Args[1-i]
					if isRecvField(off, mi.offsetF) && prod.isBin("*") {
						for j := 0; j < 2; j++ {
							mul, lg := prod.Args[j], prod.Args[1-j]
							if isRecvField(mul, mi.multF) && (lg.Op == "call") && len(lg.Args) >= 1 && lg.Args[len(lg.Args)-1].isParam(1) {
								okX = true
								logName = lg.Sym
							}
						}
					}
				}
			}
			c.R.check(okX, "C03-D1", name+".Index/argument", shortFn(f), c.fpos(f), "x = log_like(value)·multiplier + indexOffset", fmt.Sprint(x))
			// D2 LowerBound
			if lb := c.P.DeclaredMethod(mi.t, "LowerBound"); c.mustFunc("C03-D2", lb, name+".LowerBound") {
				ps, _ := execNoInline(c, lb, nil, 1)
				ok := len(ps) == 1
				found := ""
				if ok {
					r := ps[0].RetT[0]
					found = r.Key()
					ok = r.Op == "call" && len(r.Args) >= 1
					if ok {
						arg := r.Args[len(r.Args)-1]
						ok = arg.isBin("/") && isRecvField(arg.Args[1], mi.multF) && arg.Args[0].isBin("-") && isRecvField(arg.Args[0].Args[1], mi.offsetF) &&
							arg.Args[0].Args[0].Op == "conv" && arg.Args[0].Args[0].Args[0].isParam(1)
						// inverse pairing by name
						pair := map[string]string{"math.Log": "math.Exp"}
						if want, known := pair[logName]; known {
							ok = ok && r.Sym == want
						} else {
							ok = ok && strings.Contains(logName, "approximateLog") && strings.Contains(r.Sym, "approximateInverseLog")
						}
					}
				}
				c.R.check(ok, "C03-D2", name+".LowerBound/inverse", shortFn(lb), c.fpos(lb), "inverse_log_like((index − indexOffset)/multiplier) with the same multiplier and the matching inverse function", found)
			}
		}
		// multiplier = 1/log_base(gamma)
		if v := mi.ctorVals[mi.multF]; true {
			ok := v != nil && v.isBin("/") && v.Args[0].isConst("1") && v.Args[1].Op == "call" && (v.Args[1].Sym == "math.Log" || v.Args[1].Sym == "math.Log2") && v.Args[1].Args[0].isParam(0)
			want := "math.Log2"
			if strings.HasPrefix(mi.t.Obj().Name(), "Logarithmic") {
				want = "math.Log"
			}
			ok = ok && v.Args[1].Sym == want
			c.R.check(ok, "C03-D2", name+"/multiplier", shortFn(mi.ctor), c.fpos(mi.ctor), "multiplier = 1/"+want+"(gamma)", fmt.Sprint(v))
		}
		// D3 int32 bounds wired in
		for _, side := range []struct{ fld, cst, outer string }{{mi.minF, "-2147483648", "math.Max"}, {mi.maxF, "2147483647", "math.Min"}} {
			v := mi.ctorVals[side.fld]
			ok := v != nil && v.Op == "call" && v.Sym == side.outer
			has := false
			usesOff, usesMul := false, false
			if v != nil {
				v.walk(func(x *Term) bool {
					if x.isConst(side.cst) {
						has = true
					}
					if x.isParam(1) {
						usesOff = true
					}
					if x.isBin("/") && x.Args[0].isConst("1") { // the multiplier expression
						usesMul = true
					}
					return true
				})
			}
			c.R.check(ok && has && usesOff && usesMul, "C03-D3", name+"/bound/"+side.fld, shortFn(mi.ctor), c.fpos(mi.ctor), side.outer+"(… index bound "+side.cst+" with the same offset and multiplier …, float range bound)", fmt.Sprint(v))
			// the safety margin is one unit of the logarithm, i.e. it is added to the exponent AFTER the division by
			// the multiplier: exp((bound − offset)/multiplier ± 1). Inside the division it would be a margin of a single
			// index, which the interpolated logarithms (they lag the exact one by a fraction of a unit) overrun.
			margin := false
			wantOp := "+"
			if side.outer == "math.Min" {
				wantOp = "-"
			}
			if v != nil {
				v.walk(func(x *Term) bool {
					// the exponential is the inverse of the logarithm the multiplier was built with: 1/Log ↔ Exp, 1/Log2 ↔ Exp2
					wantExp := "math.Exp2"
					if strings.HasPrefix(mi.t.Obj().Name(), "Logarithmic") {
						wantExp = "math.Exp"
					}
					if x.Op != "call" || x.Sym != wantExp || len(x.Args) != 1 {
						return true
					}
					e := x.Args[0]
					var q, k *Term
					switch {
					case e.isBin("+") && wantOp == "+":
						for i := 0; i < 2; i++ {
							if e.Args[i].Op == "const" {
								k, q = e.Args[i], e.Args[1-i]
							}
						}
					case e.isBin("-") && wantOp == "-":
						q, k = e.Args[0], e.Args[1]
					}
					if q == nil || k == nil || k.Op != "const" || !q.isBin("/") {
						return true
					}
					kv, err := strconv.ParseFloat(k.Sym, 64)
					num := q.Args[0]
					if err == nil && kv >= 1 && num.isBin("-") && num.Args[0].isConst(side.cst) && num.Args[1].isParam(1) {
						margin = true
					}
					return true
				})
			}
			c.R.check(margin, "C03-D3", name+"/bound/"+side.fld+"/margin-in-the-exponent", shortFn(mi.ctor), c.fpos(mi.ctor), "exp(("+side.cst+" − offset)/multiplier "+wantOp+" 1): the unit margin is applied after the division", fmt.Sprint(v))
		}
		// D4: the reported accuracy inverts the construction formula (constants only are evaluated)
		k1 := c03AccuracyInverse(c, mi)
		// D5: interpolation: floor decomposition in the inverse, polynomial constants consistent
		c03Interpolation(c, mi, k1)
		// RelativeAccuracy from gamma only
		if f := c.P.DeclaredMethod(mi.t, "RelativeAccuracy"); c.mustFunc("C03-D3", f, name+".RelativeAccuracy") {
			rts := c03AccuracyTerms(c, mi)
			ok := len(rts) >= 1
			for _, rt := range rts {
				only := true
				uses := false
				rt.walk(func(x *Term) bool {
					if x.Op == "field" {
						if x.Sym == mi.gammaF {
							uses = true
						} else {
							only = false
						}
					}
					return true
				})
				if !(only && uses) || rt.Key() != rts[0].Key() {
					ok = false
				}
			}
			c.R.check(ok, "C03-D3", name+".RelativeAccuracy/from-gamma", shortFn(f), c.fpos(f), "the reported accuracy is a function of the stored gamma only", "")
		}
	}
}

func constFloat(t *Term) (float64, bool) {
	if t == nil || t.Op != "const" {
		return 0, false
	}
	v, err := strconv.ParseFloat(t.Sym, 64)
	return v, err == nil
}

// c03AccuracyInverse: gamma = ((1+α)/(1−α))^k1 in the accuracy constructor; RelativeAccuracy() =
// 1 − 2/(1+E) with ln E = f·ln gamma; the two are inverse functions iff k1·f = 1. The adjusted
// gamma used for the indexable range must be gamma^(1/k1). Only literal constants are evaluated.
func c03AccuracyInverse(c *Ctx, mi mappingInfo) float64 {
	const rule = "C03-D4"
	name := mi.t.Obj().Name()
	isRatio := func(t *Term) bool {
		if !t.isBin("/") {
			return false
		}
		n, d := t.Args[0], t.Args[1]
		okN := n.isBin("+") && (n.Args[0].isConst("1") && n.Args[1].isParam(0) || n.Args[1].isConst("1") && n.Args[0].isParam(0))
		okD := d.isBin("-") && d.Args[0].isConst("1") && d.Args[1].isParam(0)
		return okN && okD
	}
	k1, okK := 0.0, false
	ps, _ := exec(c, mi.accCtor, nil, 1)
	for _, p := range ps {
		if p.RetNil(1) != 1 {
			continue
		}
		for _, e := range p.Calls() {
			if e.Call.Op == "call" && e.Call.Sym == funcName(mi.ctor) {
				g := e.Call.Args[0]
				switch {
				case isRatio(g):
					k1, okK = 1, true
				case g.Op == "call" && g.Sym == "math.Pow" && isRatio(g.Args[0]):
					k1, okK = constFloat(g.Args[1])
				}
			}
		}
	}
	f, okF := 0.0, false
	found := ""
	if ra := c.P.DeclaredMethod(mi.t, "RelativeAccuracy"); ra != nil {
		rts := c03AccuracyTerms(c, mi)
		same := len(rts) >= 1
		for _, rt := range rts {
			if rt.Key() != rts[0].Key() {
				same = false
				found = "paths disagree: " + rt.Key() + " / " + rts[0].Key()
			}
		}
		_ = ra
		if same {
			r := rts[0]
			found = r.Key()
			// 1 − 2/(1+E)
			if r.isBin("-") && r.Args[0].isConst("1") && r.Args[1].isBin("/") && r.Args[1].Args[0].isConst("2") && r.Args[1].Args[1].isBin("+") {
				sum := r.Args[1].Args[1]
				var E *Term
				for i := 0; i < 2; i++ {
					if sum.Args[i].isConst("1") {
						E = sum.Args[1-i]
					}
				}
				isG := func(t *Term) bool { return isRecvField(t, mi.gammaF) }
				const ln2 = 0.6931471805599453
				switch {
				case E == nil:
				case isG(E):
					f, okF = 1, true
				case E.Op == "call" && E.Sym == "math.Exp":
					x := E.Args[0]
					switch {
					case x.Op == "call" && x.Sym == "math.Log" && isG(x.Args[0]):
						f, okF = 1, true
					case x.Op == "call" && x.Sym == "math.Log2" && isG(x.Args[0]):
						f, okF = 1/ln2, true
					case x.isBin("*"):
						for i := 0; i < 2; i++ {
							if k, ok := constFloat(x.Args[i]); ok && x.Args[1-i].Op == "call" && isG(x.Args[1-i].Args[0]) {
								switch x.Args[1-i].Sym {
								case "math.Log2":
									f, okF = k/ln2, true
								case "math.Log":
									f, okF = k, true
								}
							}
						}
					}
				}
			}
		}
	}
	okInv := okK && okF && math.Abs(k1*f-1) < 1e-12
	c.R.check(okInv, rule, name+"/accuracy-inverts-construction", shortFn(mi.accCtor), c.fpos(mi.accCtor),
		"gamma = ((1+α)/(1−α))^k and RelativeAccuracy() = 1 − 2/(1+E) with ln E = f·ln gamma and k·f = 1 (the reported accuracy equals the one the mapping was built with)",
		fmt.Sprintf("k=%v (found=%v) f=%v (found=%v); RelativeAccuracy = %s", k1, okK, f, okF, found))
	// adjusted gamma in the range bounds: gamma^(1/k)
	if okK && k1 != 1 {
		okAdj := false
		foundAdj := "no math.Pow(gamma, c) in the constructor"
		for _, fld := range []string{mi.minF, mi.maxF} {
			if v := mi.ctorVals[fld]; v != nil {
				v.walk(func(x *Term) bool {
					if x.Op == "call" && x.Sym == "math.Pow" && x.Args[0].isParam(0) {
						if e, ok := constFloat(x.Args[1]); ok {
							foundAdj = fmt.Sprintf("gamma^%v", e)
							okAdj = math.Abs(e*k1-1) < 1e-12
						}
					}
					return true
				})
			}
		}
		c.R.check(okAdj, rule, name+"/adjusted-gamma", shortFn(mi.ctor), c.fpos(mi.ctor), "the float-range bounds use gamma^(1/k), the base of the non-interpolated logarithm", foundAdj)
	}
	if !okK {
		return 0
	}
	return k1
}

// c03Interpolation: structural consistency of approximateLog / approximateInverseLog.
func c03Interpolation(c *Ctx, mi mappingInfo, k1 float64) {
	const rule = "C03-D5"
	name := mi.t.Obj().Name()
	lg := c.P.DeclaredMethod(mi.t, "approximateLog")
	inv := c.P.DeclaredMethod(mi.t, "approximateInverseLog")
	if lg == nil || inv == nil {
		return // the logarithmic mapping uses math.Log / math.Exp directly (paired by C03-D2)
	}
	// (a) the inverse uses x only through floor(x) and x − floor(x)
	ip, _ := exec(c, inv, nil, 1)
	okFloor := len(ip) == 1
	found := ""
	if okFloor {
		r := ip[0].RetT[0]
		hasExp := false
		bare := 0
		var walk func(t *Term, parent *Term)
		walk = func(t *Term, parent *Term) {
			if t.isParam(1) {
				okCtx := parent != nil && (parent.Op == "call" && parent.Sym == "math.Floor" || parent.isBin("-") && parent.Args[0] == t && parent.Args[1].Op == "call" && parent.Args[1].Sym == "math.Floor" && parent.Args[1].Args[0].isParam(1))
				if !okCtx {
					bare++
				}
			}
			if t.Op == "conv" && t.Sym == "int" && t.Args[0].Op == "call" && t.Args[0].Sym == "math.Floor" && t.Args[0].Args[0].isParam(1) {
				hasExp = true
			}
			for _, a := range t.Args {
				walk(a, t)
			}
		}
		walk(r, nil)
		okFloor = hasExp && bare == 0
		found = fmt.Sprintf("exponent=int(Floor(x)): %v; other uses of x outside Floor(x) / x−Floor(x): %d", hasExp, bare)
	}
	c.R.check(okFloor, rule, name+"/inverse-floor-decomposition", shortFn(inv), c.fpos(inv), "the inverse splits x into the exponent int(math.Floor(x)) and the fraction x − math.Floor(x) (a truncating floor is wrong for exact negative integers)", found)
	// (b) polynomial of the forward function: ((A·s+B)·s+C)·s + e  or  e + s
	lp, _ := exec(c, lg, nil, 1)
	if len(lp) != 1 {
		return
	}
	r := lp[0].RetT[0]
	// collect the float constants of the forward polynomial in Horner order
	var consts []float64
	r.walk(func(t *Term) bool {
		if v, ok := constFloat(t); ok && t.V != nil && isFloat(t.V.Type()) {
			consts = append(consts, v)
		}
		return true
	})
	const ln2 = 0.6931471805599453
	switch {
	case strings.Contains(name, "Linear"):
		// e + (s+1) − 1: slope 1
		l := linearOf(r)
		ok := l.Const == -1 && len(l.Coef) == 2
		for _, co := range l.Coef {
			if co != 1 {
				ok = false
			}
		}
		c.R.check(ok, rule, name+"/forward-shape", shortFn(lg), c.fpos(lg), "approximateLog = exponent + significandPlusOne − 1", r.Key())
		c.R.check(k1 == 0 || math.Abs(k1-ln2) < 1e-12, rule, name+"/accuracy-exponent-matches-slope", shortFn(lg), c.fpos(lg), "gamma exponent = (maximum slope 1)·ln 2", fmt.Sprint(k1))
	case strings.Contains(name, "Cubic"):
		// Horner constants: the three float constants other than the literal 1 of (s+1)−1
		var abc []float64
		for _, v := range consts {
			if v != 1 {
				abc = append(abc, v)
			}
		}
		if len(abc) != 3 {
			c.R.undecided(rule, name+"/forward-shape", shortFn(lg), c.fpos(lg), "a cubic in Horner form with three constants", fmt.Sprint(consts))
			return
		}
		// walk order yields A, B, C for ((A·s+B)·s+C)·s + e
		A, B, C := abc[0], abc[1], abc[2]
		c.R.check(math.Abs(A+B+C-1) < 1e-12, rule, name+"/continuous-at-binade", shortFn(lg), c.fpos(lg), "P(1) = A+B+C = 1 (the interpolation is continuous where the exponent increments)", fmt.Sprintf("A=%v B=%v C=%v sum=%v", A, B, C, A+B+C))
		c.R.check(k1 == 0 || math.Abs(k1-C*ln2) < 1e-12, rule, name+"/accuracy-exponent-matches-slope", shortFn(lg), c.fpos(lg), "gamma exponent = (maximum slope C)·ln 2", fmt.Sprintf("k=%v C·ln2=%v", k1, C*ln2))
		// inverse: Cardano constants derived from the same A, B, C
		want := map[string]float64{"d0=B²−3AC": B*B - 3*A*C, "2B³−9ABC": 2*B*B*B - 9*A*B*C, "27A²": 27 * A * A, "3A": 3 * A, "B": B}
		var have []float64
		ip[0].RetT[0].walk(func(t *Term) bool {
			if v, ok := constFloat(t); ok && t.V != nil && isFloat(t.V.Type()) {
				have = append(have, v)
			}
			return true
		})
		var missing []string
		for nm, w := range want {
			ok := false
			for _, h := range have {
				if math.Abs(h-w) <= 1e-12*math.Max(1, math.Abs(w)) {
					ok = true
				}
			}
			if !ok {
				missing = append(missing, fmt.Sprintf("%s=%v", nm, w))
			}
		}
		sort.Strings(missing)
		c.R.check(len(missing) == 0, rule, name+"/inverse-constants", shortFn(inv), c.fpos(inv), "the inverse (Cardano) uses the constants derived from the forward polynomial's A, B, C", firstNonEmpty(strings.Join(missing, " "), "all present"))
	}
}

// rewriteTerm rebuilds t bottom-up, replacing every sub-term for which fn returns a non-nil term.
func rewriteTerm(t *Term, fn func(*Term) *Term) *Term {
	if t == nil {
		return nil
	}
	if r := fn(t); r != nil {
		return r
	}
	if len(t.Args) == 0 || t.Op == "phi" {
		return t
	}
	args := make([]*Term, len(t.Args))
	changed := false
	for i, a := range t.Args {
		args[i] = rewriteTerm(a, fn)
		if args[i] != a {
			changed = true
		}
	}
	if !changed {
		return t
	}
	return mk(t.Op, t.Sym, t.V, args...)
}

// c03AccuracyTerms: what RelativeAccuracy() returns on each of its paths, with every read of a field other than
// gamma / offset replaced by what the gamma constructor stores into that field (its parameters standing for the
// gamma and offset fields): a mapping is immutable, so a value precomputed at construction IS that expression.
// A path guarded by a field the constructor sets to a constant (a "has been precomputed" flag) and taken the other
// way belongs to zero-value structs only; it is resolved like any other.
func c03AccuracyTerms(c *Ctx, mi mappingInfo) []*Term {
	f := c.P.DeclaredMethod(mi.t, "RelativeAccuracy")
	if f == nil {
		return nil
	}
	recvFld := func(fld string) *Term { return mk("field", fld, nil, mk("param", "0", nil)) }
	var resolve func(t *Term, depth int) *Term
	resolve = func(t *Term, depth int) *Term {
		return rewriteTerm(t, func(x *Term) *Term {
			x0 := x.unver()
			if x0.Op == "field" && len(x0.Args) == 1 && x0.Args[0].isParam(0) && x0.Sym != mi.gammaF && x0.Sym != mi.offsetF && depth < 3 {
				if def := mi.ctorVals[x0.Sym]; def != nil {
					d := rewriteTerm(def, func(y *Term) *Term {
						switch {
						case y.isParam(0):
							return recvFld(mi.gammaF)
						case y.isParam(1):
							return recvFld(mi.offsetF)
						}
						return nil
					})
					return resolve(d, depth+1)
				}
			}
			if x0 != x {
				return x0
			}
			return nil
		})
	}
	ps, _ := exec(c, f, nil, 1)
	var out []*Term
	for _, p := range ps {
		if len(p.RetT) == 1 {
			out = append(out, resolve(p.RetT[0], 0))
		}
	}
	return out
}

// c03GammaCallSites (D4): the base gamma that gives a mapping kind the requested accuracy is a different function of
// alpha for each kind ((1+α)/(1−α) raised to a kind-specific power), and C03-D4 validates that formula inside the
// accuracy constructor of each kind. Every other call of a gamma constructor in the module must hand over a gamma it
// received (a parameter, a decoded or message field) — never one it computes: a gamma computed from an accuracy
// outside the accuracy constructor of the same kind bypasses the validated formula (the logarithmic base under cubic
// interpolation gives about 1.01·α).
func c03GammaCallSites(c *Ctx, infos []mappingInfo) {
	const rule = "C03-D4"
	ctorKind := map[*ssa.Function]mappingInfo{}
	for _, mi := range infos {
		ctorKind[mi.ctor] = mi
	}
	n := 0
	for _, g := range c.P.Funcs {
		if !inModule(g) {
			continue
		}
		tc := newTermCtx(c.P)
		tc.inline = false
		k := 0
		for _, b := range g.Blocks {
			for _, in := range b.Instrs {
				call, ok := in.(*ssa.Call)
				if !ok {
					continue
				}
				cal, ok := call.Common().Value.(*ssa.Function)
				if !ok {
					continue
				}
				mi, isCtor := ctorKind[cal]
				if !isCtor || len(call.Common().Args) < 1 {
					continue
				}
				n++
				k++
				key := fmt.Sprintf("%s/gamma-argument-of-%s#%d", helperKey(g), cal.Name(), k)
				if g == mi.accCtor {
					c.R.check(true, rule, key, shortFn(g), c.ipos(call), "the accuracy constructor of the kind computes its gamma (formula validated by accuracy-inverts-construction)", "accuracy constructor of the same kind")
					continue
				}
				arg := tc.Of(call.Common().Args[0])
				computed := ""
				arg.walk(func(x *Term) bool {
					if x.Op == "bin" || x.Op == "call" && strings.HasPrefix(x.Sym, "math.") {
						computed = x.Key()
					}
					return true
				})
				c.R.check(computed == "", rule, key, shortFn(g), c.ipos(call), "outside the accuracy constructor of its kind a gamma constructor receives a gamma that was handed over (parameter, decoded or message field), not one computed on the spot", firstNonEmpty(computed, arg.Key()))
			}
		}
	}
	c.R.floor(rule, "call sites of the gamma constructors", n, 6)
}

// c03FloatRangeSiblings (D3): besides the int32 bound, every mapping kind limits its indexable range so that Value and
// LowerBound stay finite normal floats: max = … min(·, X/(2·G)·(G+1)), min = … max(·, minNormal·G), with G the base of
// the kind's non-interpolated logarithm (gamma, or gamma^(1/k)). The three constructors are siblings: with G abstracted
// their float-range terms are the same term. A kind whose term differs from its siblings' has drifted (a factor
// inverted, a constant changed); a consistent rewrite of all three is not reported.
func c03FloatRangeSiblings(c *Ctx, infos []mappingInfo) {
	const rule = "C03-D3"
	abstractG := func(t *Term) *Term {
		return rewriteTerm(t, func(x *Term) *Term {
			x0 := x.unver()
			if x0.isParam(0) {
				return mk("G", "", nil)
			}
			if x0.Op == "call" && x0.Sym == "math.Pow" && len(x0.Args) == 2 && x0.Args[0].unver().isParam(0) && x0.Args[1].unver().Op == "const" {
				return mk("G", "", nil)
			}
			return nil
		})
	}
	floatSide := func(v *Term, outer string) *Term { // the operand of min/max that does not mention the int32 bounds
		v = stripVers(v)
		if v.Op != "call" || v.Sym != outer || len(v.Args) != 2 {
			return nil
		}
		for i := 0; i < 2; i++ {
			hasInt32 := false
			v.Args[i].walk(func(x *Term) bool {
				if x.Op == "const" && (x.Sym == "2147483647" || x.Sym == "-2147483648") {
					hasInt32 = true
				}
				return true
			})
			if hasInt32 {
				return v.Args[1-i]
			}
		}
		return nil
	}
	for _, side := range []struct{ what, outer string }{{"max", "math.Min"}, {"min", "math.Max"}} {
		keys := map[string][]string{}
		for _, mi := range infos {
			fld := mi.maxF
			if side.what == "min" {
				fld = mi.minF
			}
			v := mi.ctorVals[fld]
			if v == nil {
				continue
			}
			fs := floatSide(v, side.outer)
			k := "no float-range operand"
			if fs != nil {
				k = sortCommutative(abstractG(fs)).Key()
			}
			keys[k] = append(keys[k], mi.t.Obj().Name())
		}
		// the majority form is the reference
		best := ""
		for k, ns := range keys {
			if len(ns) > len(keys[best]) || best == "" {
				best = k
			}
		}
		for k, ns := range keys {
			for _, n := range ns {
				c.R.check(k == best && len(keys[best]) >= 2, rule, n+"/bound/"+side.what+"/float-range-like-its-siblings", n, "", "the float-range operand of the "+side.what+" indexable value is the same term as the siblings', with the kind's base abstracted", map[bool]string{true: "agrees", false: shorten(k, 160) + " vs " + shorten(best, 160)}[k == best])
			}
		}
	}
}

// sortCommutative re-orders the operands of + and * by key (bottom-up), so that terms that differ only in the order a
// commutative operator lists its operands compare equal after sub-terms were replaced.
func sortCommutative(t *Term) *Term {
	if t == nil || len(t.Args) == 0 || t.Op == "phi" {
		return t
	}
	args := make([]*Term, len(t.Args))
	for i, a := range t.Args {
		args[i] = sortCommutative(a)
	}
	if t.Op == "bin" && (t.Sym == "+" || t.Sym == "*") && len(args) == 2 && args[0].Key() > args[1].Key() {
		args[0], args[1] = args[1], args[0]
	}
	return mk(t.Op, t.Sym, t.V, args...)
}
