package main

import (
	"fmt"
	"go/ast"
	"go/token"
	"go/types"
	"sort"
	"strings"

	"golang.org/x/tools/go/ssa"
)

// C20 — the reference dataset helper returns exact order statistics.

func init() {
	register("C20",
		"DECIDED: D1 sort-flag typestate — every read of Values at a rank-dependent index (any index that is not the induction variable of a range over Values) in a method of *Dataset is dominated by a call of the sort routine on the same receiver; on every path of every method, the last write to Values is followed by lowering the sorted flag; the sort routine skips sorting only when the flag is set and raises it only after sort.Float64s(Values). "+
			"D2 rank table — LowerQuantile indexes at int(Floor(q·(Count−1))), UpperQuantile at int(Ceil(same term)), Quantile is LowerQuantile; q<0, q>1 and Count==0 return NaN before any indexing. "+
			"D3 bookkeeping — each one-element append is paired with Count += 1 on the same path and nothing else writes Count; Min/Max read index 0 / len−1 after sorting; Sum feeds every element with weight 1 into a fresh compensated accumulator and returns its sum; Merge re-adds every element of the argument through Add and does not write the argument. "+
			"SHARED (re-evaluated here as C20-D3): the Add table of the statistics object Sum feeds, and the compensated step it delegates to — tmp = v − comp; t = sum + tmp; comp = (t − sum) − tmp; sum = t on a single unconditional path (an absorbed addend is parked in the compensation, never dropped). "+
			"NOT DECIDED: correctness of sort.Float64s, accuracy of the sum, direct writes to the exported fields by users, q = NaN (outside the stated contract).",
		"one obligation per rank-dependent read, per writer path, per table cell",
		false, runC20)
}

func runC20(c *Ctx) {
	const r1, r2, r3 = "C20-D1", "C20-D2", "C20-D3"
	fullScanProg = c.P
	ds := c.P.NamedType(pkgDataset, "Dataset")
	if ds == nil {
		c.R.undecided("C20", "anchor/Dataset", "", "", "type dataset.Dataset exists", "unresolved")
		return
	}
	// roles: values = the []float64 field, flag = the bool field, count = the float64 field
	var valuesF, flagF, countF string
	for _, f := range structFields(ds) {
		switch ts := f.Type().String(); ts {
		case "[]float64":
			valuesF = f.Name()
		case "bool":
			flagF = f.Name()
		case "float64":
			countF = f.Name()
		}
	}
	if valuesF == "" || flagF == "" || countF == "" {
		c.R.undecided("C20", "anchor/Dataset-fields", "", "", "a []float64, a bool and a float64 field", fmt.Sprintf("%q %q %q", valuesF, flagF, countF))
		return
	}
	// the sort routine: calls sort.Float64s on the values field
	var sortFn *ssa.Function
	var methods []*ssa.Function
	var cands []*ssa.Function
	for i := 0; i < ds.NumMethods(); i++ {
		if f := c.P.SSA.FuncValue(ds.Method(i)); f != nil {
			methods = append(methods, f)
			cands = append(cands, f)
		}
	}
	// the sort routine may also be a plain function of the package taking the dataset first
	if pk := c.P.Pkgs[pkgDataset]; pk != nil {
		if sp := c.P.SSA.Package(pk.Types); sp != nil {
			var names []string
			for n := range sp.Members {
				names = append(names, n)
			}
			sort.Strings(names)
			for _, n := range names {
				if fn, ok := sp.Members[n].(*ssa.Function); ok && len(fn.Params) >= 1 && fn.Signature.Recv() == nil {
					if pt, ok := fn.Params[0].Type().(*types.Pointer); ok && types.Identical(pt.Elem(), ds) {
						cands = append(cands, fn)
					}
				}
			}
		}
	}
	for _, f := range cands {
		tc := newTermCtx(c.P)
		for _, b := range f.Blocks {
			for _, in := range b.Instrs {
				if call, ok := in.(*ssa.Call); ok {
					if fn, ok := call.Common().Value.(*ssa.Function); ok && libName(fn) == "sort.Float64s" {
						if isRecvField(tc.Of(call.Common().Args[0]), valuesF) {
							sortFn = f
						}
					}
				}
			}
		}
	}
	if sortFn != nil {
		roleAnchors[sortFn] = true
	}
	if sortFn == nil {
		c.R.undecided(r1, "anchor/sort-routine", "", "", "a method (or a function taking the dataset) sorting the values with sort.Float64s", "none")
		return
	}
	// D1a: on every path, a rank-dependent read of Values comes after sort() on the same receiver
	// (paths run through extracted helpers, so `rank, ok := d.sortedRank(q)` is seen through)
	nReads := 0
	for _, f := range methods {
		if f == sortFn || !ast.IsExported(f.Name()) {
			continue // unexported helpers are judged in the context of their exported callers
		}
		paths, _ := execWith(c, f, nil, 2, func(cal *ssa.Function) bool { return cal != sortFn && inlineNewHelpers(cal) })
		type verdict struct {
			ok    bool
			found string
			ia    *ssa.IndexAddr
		}
		reads := map[*ssa.IndexAddr]*verdict{}
		var order []*ssa.IndexAddr
		for _, p := range paths {
			for _, ld := range p.Loads {
				if !(ld.Addr.Op == "index" && isRecvField(ld.Addr.Args[0], valuesF)) {
					continue
				}
				ia := ld.Instr.(*ssa.UnOp).X.(*ssa.IndexAddr)
				if isRangeIndex(ia.Index) {
					continue // order-independent full scan
				}
				v := reads[ia]
				if v == nil {
					v = &verdict{ok: true, ia: ia}
					reads[ia] = v
					order = append(order, ia)
				}
				sorted := false
				for _, e := range p.Effects {
					if e.Seq < ld.Seq && e.Kind == "call" && e.Call.Op == "call" && e.Call.Sym == funcName(sortFn) && len(e.Call.Args) > 0 && e.Call.Args[0].isRecv() {
						sorted = true
					}
				}
				if !sorted {
					v.ok = false
					v.found = fmt.Sprintf("index %s read on path [%s] with no earlier sort()", ld.Addr.Args[1], p.String())
				}
			}
		}
		for n, ia := range order {
			v := reads[ia]
			nReads++
			c.R.check(v.ok, r1, fmt.Sprintf("%s/rank-read#%d", shortFn(f), n+1), shortFn(f), c.ipos(ia), "a read of Values at a rank-dependent index comes, on every path, after sort() on the same receiver", firstNonEmpty(v.found, "sorted before the read on every path"))
		}
	}
	c.R.floor(r1, "rank-dependent reads of Values", nReads, 4)
	// D1b: writers of Values lower the flag afterwards
	nW := 0
	for _, f := range methods {
		if f == sortFn {
			continue
		}
		paths, _ := execWith(c, f, nil, 2, func(cal *ssa.Function) bool { return cal != sortFn && inlineNewHelpers(cal) })
		for i, p := range paths {
			lastW, lastLower, raised := 0, 0, 0
			for _, e := range p.Effects {
				if e.Kind == "store" && isRecvField(e.Addr, valuesF) {
					// a re-allocation that keeps length, content and order — `g := make([]T, len(Values), …);
					// copy(g, Values); Values = g` with nothing else written into g — is not a write of the
					// typestate: whatever the flag says about the order stays true
					if c20ReallocCopy(p, e, valuesF) {
						continue
					}
					lastW = e.Seq
				}
				if e.Kind == "store" && e.Addr.Op == "index" && isRecvField(e.Addr.Args[0], valuesF) {
					lastW = e.Seq
				}
				if e.Kind == "store" && isRecvField(e.Addr, flagF) {
					if e.Val.isConst("false") {
						lastLower = e.Seq
					} else {
						raised = e.Seq
					}
				}
			}
			if lastW == 0 {
				continue
			}
			nW++
			c.R.check(lastLower > lastW && raised < lastLower, r1, fmt.Sprintf("%s/path%d[%s]/write-lowers-flag", shortFn(f), i, pathSig(p)), shortFn(f), c.fpos(f),
				"after the last write to Values on the path the sorted flag is lowered", fmt.Sprintf("last write at step %d, flag lowered at step %d", lastW, lastLower))
		}
	}
	c.R.floor(r1, "paths writing Values", nW, 1)
	// D1c: the sort routine
	{
		paths, _ := execWith(c, sortFn, nil, 1, func(cal *ssa.Function) bool { return cal != sortFn && inlineNewHelpers(cal) })
		for i, p := range paths {
			sorted, raise := 0, 0
			for _, e := range p.Effects {
				// the WHOLE slice is sorted: sorting a suffix leaves later appended small values out of place
				if e.Kind == "call" && e.Call.Op == "call" && e.Call.Sym == "sort.Float64s" && len(e.Call.Args) == 1 && isRecvField(e.Call.Args[0].unver(), valuesF) {
					sorted = e.Seq
				}
				if e.Kind == "store" && isRecvField(e.Addr, flagF) && e.Val.isConst("true") {
					raise = e.Seq
				}
			}
			flagSet, tested := pathCond(p, func(t *Term) bool { return isRecvField(t, flagF) })
			key := fmt.Sprintf("%s/path%d[%s]", shortFn(sortFn), i, pathSig(p))
			if sorted == 0 {
				// fewer than two values are sorted as they are: skipping (and raising the flag) is fine under that evidence
				short := false
				for _, cd := range p.Conds {
					t := cd.Term
					isLen := func(x *Term) bool {
						return x.Op == "builtin" && x.Sym == "len" && isRecvField(x.Args[0].unver(), valuesF)
					}
					if t.isBin("<") && isLen(t.Args[0]) && t.Args[1].isConst("2") && cd.Taken || t.isBin("<=") && isLen(t.Args[0]) && (t.Args[1].isConst("1") || t.Args[1].isConst("0")) && cd.Taken ||
						t.isBin("<=") && t.Args[0].isConst("2") && isLen(t.Args[1]) && !cd.Taken || t.isBin("<") && t.Args[0].isConst("1") && isLen(t.Args[1]) && !cd.Taken {
						short = true
					}
				}
				if short {
					c.R.okay(r1, key, shortFn(sortFn), c.fpos(sortFn), "sorting skipped for fewer than two values", "["+p.String()+"]")
					continue
				}
				c.R.check(tested && flagSet && raise == 0, r1, key, shortFn(sortFn), c.fpos(sortFn), "sorting is skipped only when the flag is already set", "["+p.String()+"]")
			} else {
				c.R.check(raise > sorted, r1, key, shortFn(sortFn), c.fpos(sortFn), "the flag is raised only after sort.Float64s(Values)", fmt.Sprintf("sort at step %d, raise at step %d", sorted, raise))
			}
		}
		c.R.floor(r1, "sort routine paths", len(paths), 2)
	}
	// D2: rank table
	for _, q := range []struct{ name, round string }{{"LowerQuantile", "math.Floor"}, {"UpperQuantile", "math.Ceil"}} {
		f := c.P.DeclaredMethod(ds, q.name)
		if !c.mustFunc(r2, f, "(*Dataset)."+q.name) {
			continue
		}
		dom := mkDomain(paramScalar("q", 1, 2, constPoints("0", "1")),
			scalarSpec{name: "n", n: 1, point: constPoints("0"), match: func(t *Term) bool { return isRecvField(t, countF) }})
		paths, _ := execWith(c, f, dom, 1, func(cal *ssa.Function) bool { return cal != sortFn && inlineNewHelpers(cal) })
		for qc := 1; qc <= 5; qc++ {
			for _, empty := range []bool{true, false} {
				var sel []*Path
				for _, p := range pathsInClass(paths, "q", qc) {
					ok := true
					for k, set := range p.Classes {
						if strings.HasPrefix(k, "n") {
							if empty && !set.has(classOfPoint(0)) || !empty && !set.has(classAbovePoint(0)) {
								ok = false
							}
						}
					}
					if ok {
						sel = append(sel, p)
					}
				}
				wantNaN := qc == 1 || qc == 5 || empty
				key := fmt.Sprintf("%s/q%s/empty=%v", shortFn(f), className(wPoints, qc), empty)
				bad := ""
				for _, p := range sel {
					r := p.RetT[0]
					if wantNaN {
						if !(r.Op == "call" && r.Sym == "math.NaN") {
							bad = "returns " + r.Key()
						}
						continue
					}
					// Values[int(round(q*(Count-1)))]
					ok := r.Op == "index" && isRecvField(r.Args[0], valuesF) && r.Args[1].Op == "conv" && r.Args[1].Args[0].Op == "call" && r.Args[1].Args[0].Sym == q.round
					if ok {
						rank := r.Args[1].Args[0].Args[0]
						ok = rank.isBin("*")
						if ok {
							x, y := rank.Args[0], rank.Args[1]
							isQ := func(t *Term) bool { return t.isParam(1) }
							isN1 := func(t *Term) bool {
								return t.isBin("-") && isRecvField(t.Args[0], countF) && t.Args[1].isConst("1")
							}
							ok = isQ(x) && isN1(y) || isQ(y) && isN1(x)
						}
					}
					if !ok {
						bad = "returns " + r.Key()
					}
				}
				if len(sel) == 0 {
					bad = "no compatible path"
				}
				exp := "Values[int(" + strings.TrimPrefix(q.round, "math.") + "(q·(Count−1)))]"
				if wantNaN {
					exp = "NaN"
				}
				c.R.check(bad == "", r2, key, shortFn(f), c.fpos(f), exp, firstNonEmpty(bad, "ok"))
			}
		}
	}
	if f := c.P.DeclaredMethod(ds, "Quantile"); c.mustFunc(r2, f, "(*Dataset).Quantile") {
		ps, _ := execWith(c, f, nil, 1, func(cal *ssa.Function) bool { return cal != sortFn && inlineNewHelpers(cal) })
		ok := len(ps) == 1 && isMethodCall(ps[0].RetT[0], "LowerQuantile") && ps[0].RetT[0].Args[0].isRecv() && ps[0].RetT[0].Args[1].isParam(1)
		c.R.check(ok, r2, shortFn(f)+"/is-lower", shortFn(f), c.fpos(f), "Quantile(q) = LowerQuantile(q)", "")
	}
	// D3
	// every append to Values is paired, on the same path, with the matching Count update — and vice versa
	nPairs := 0
	for _, f := range methods {
		ps, _ := execWith(c, f, nil, 2, func(cal *ssa.Function) bool { return cal != sortFn && inlineNewHelpers(cal) })
		// a bulk append may also be paired with a loop that increments Count once per appended value (the float
		// Count then takes exactly the values it takes under repeated Add): a counting loop 0 … len(o.Values) whose
		// body is Count += 1
		countLoop := false
		{
			tcl := newTermCtx(c.P)
			for _, l := range countingLoops(c.P, f) {
				isArgLen := func(t *Term) bool {
					t = stripConv(t)
					return t != nil && t.Op == "builtin" && t.Sym == "len" && t.Args[0].unver().Op == "field" && t.Args[0].unver().Sym == valuesF && t.Args[0].unver().Args[0].isParam(1)
				}
				if !(l.StepOne && l.StayTrue && l.IVLeft && l.CondOp == "<" && l.BoundAdj == 0 && l.Init != nil && l.Init.isConst("0") && isArgLen(l.Bound)) {
					continue
				}
				for b := range l.Blocks {
					for _, in := range b.Instrs {
						if st, ok := in.(*ssa.Store); ok {
							at, vt := tcl.Of(st.Addr), tcl.Of(st.Val)
							if isRecvField(at, countF) && vt.isBin("+") && (vt.Args[0].isConst("1") || vt.Args[1].isConst("1")) {
								countLoop = true
							}
						}
					}
				}
			}
		}
		// a merge that appends a first part of the argument's values one by one and the rest at once, and counts them
		// in a separate step, is decided on its structure instead (the enumerated paths do not pair the two loops)
		if len(f.Params) == 2 {
			if why := c20SplitMerge(f, valuesF, countF); why == "" {
				nPairs++
				c.R.okay(r3, shortFn(f)+"/split-append-total", shortFn(f), c.fpos(f), "the argument's values are appended exactly once each (values[0..k) one by one, then values[k:] at once) and Count grows by their number on every path that appends", "structural")
				continue
			}
		}
		for i, p := range ps {
			single, bulk, inc1, incBulk, otherCount := 0, 0, 0, 0, 0
			for _, e := range p.Effects {
				if e.Kind == "store" && isRecvField(e.Addr, valuesF) && e.Val.Op == "builtin" && e.Val.Sym == "append" {
					src := e.Val.Args[1]
					// o.Values[:len(o.Values)] is the whole of o.Values
					if src.Op == "slice" && src.Args[0].unver().Op == "field" && src.Args[1].Op == "none" {
						if h := src.Args[2]; h.Op == "none" || h.Op == "builtin" && h.Sym == "len" && h.Args[0].unver().Key() == src.Args[0].unver().Key() {
							src = src.Args[0].unver()
						}
					}
					// append(Values, v) is lowered to append(Values, <fresh 1-element slice>...)
					if src.Op == "slice" && src.Args[0].Op == "alloc" {
						single++
					} else if src.Op == "field" && src.Sym == valuesF && src.Args[0].isParam(1) {
						bulk++
					} else {
						otherCount++
					}
				}
				if e.Kind == "store" && isRecvField(e.Addr, countF) {
					v := e.Val
					switch {
					case v.isBin("+") && (v.Args[0].isConst("1") || v.Args[1].isConst("1")):
						inc1++
					case v.isBin("+") && (v.Args[0].Op == "field" && v.Args[0].Sym == countF && v.Args[0].Args[0].isParam(1) || v.Args[1].Op == "field" && v.Args[1].Sym == countF && v.Args[1].Args[0].isParam(1)):
						incBulk++
					default:
						otherCount++
					}
				}
			}
			if single+bulk+inc1+incBulk+otherCount == 0 {
				continue
			}
			nPairs++
			if bulk > 0 && incBulk == 0 && countLoop && single == 0 {
				// bulk append + one increment per appended value (the loop runs 0 or more times on the enumerated path)
				incBulk, inc1 = bulk, 0
			}
			c.R.check(single == inc1 && bulk == incBulk && otherCount == 0, r3, fmt.Sprintf("%s/path%d[%s]/append-paired-with-count", shortFn(f), i, pathSig(p)), shortFn(f), c.fpos(f),
				"each one-element append is paired with Count += 1 (a bulk append of another dataset's Values with Count += its Count)", fmt.Sprintf("single appends=%d Count+=1:%d bulk appends=%d Count+=other.Count:%d unrecognised=%d", single, inc1, bulk, incBulk, otherCount))
		}
	}
	c.R.floor(r3, "paths updating Values/Count", nPairs, 1)
	for _, x := range []struct {
		name string
		last bool
	}{{"Min", false}, {"Max", true}} {
		f := c.P.DeclaredMethod(ds, x.name)
		if !c.mustFunc(r3, f, "(*Dataset)."+x.name) {
			continue
		}
		ps, _ := execWith(c, f, nil, 1, func(cal *ssa.Function) bool { return cal != sortFn && inlineNewHelpers(cal) })
		ok := len(ps) > 0
		found := ""
		for _, p := range ps {
			r := p.RetT[0]
			found = r.Key()
			if !(r.Op == "index" && isRecvField(r.Args[0], valuesF)) {
				ok = false
				continue
			}
			idx := r.Args[1]
			if x.last {
				l := linearOf(idx)
				good := l.Const == -1 && len(l.Coef) == 1
				for k := range l.Coef {
					a := l.Atoms[k]
					if !(a.Op == "builtin" && a.Sym == "len" && isRecvField(a.Args[0], valuesF)) {
						good = false
					}
				}
				ok = ok && good
			} else {
				ok = ok && idx.isConst("0")
			}
		}
		c.R.check(ok, r3, shortFn(f)+"/index", shortFn(f), c.fpos(f), map[bool]string{false: "Values[0]", true: "Values[len(Values)−1]"}[x.last]+" after sorting", found)
	}
	if f := c.P.DeclaredMethod(ds, "Sum"); c.mustFunc(r3, f, "(*Dataset).Sum") {
		tc := newTermCtx(c.P)
		feeds, fresh, returns := false, false, false
		for _, b := range f.Blocks {
			for _, in := range b.Instrs {
				switch in := in.(type) {
				case *ssa.Call:
					t := tc.Of(in)
					if t.Op == "call" && strings.HasSuffix(t.Sym, "SummaryStatistics).Add") && len(t.Args) == 3 && t.Args[2].isConst("1") && t.Args[1].Op == "index" && isRecvField(t.Args[1].Args[0], valuesF) && isRangeIndex(indexValueOf(t.Args[1])) {
						feeds = true
						if t.Args[0].Op == "call" && strings.HasSuffix(t.Args[0].Sym, "NewSummaryStatistics") {
							fresh = true
						}
					}
				case *ssa.Return:
					t := tc.Of(in.Results[0])
					var hit bool
					t.walk(func(x *Term) bool {
						if x.Op == "call" && strings.HasSuffix(x.Sym, "NewSummaryStatistics") {
							hit = true
						}
						return true
					})
					returns = hit && (isMethodCall(t, "Sum") || t.Op == "bin" || t.Op == "field" || t.Op == "phi")
				}
			}
		}
		c.R.check(feeds && fresh && returns, r3, shortFn(f)+"/accumulates-all", shortFn(f), c.fpos(f), "every element of Values is added with weight 1 to a fresh compensated accumulator whose sum is returned", fmt.Sprintf("feeds=%v fresh=%v returns=%v", feeds, fresh, returns))
	}
	// Sum() feeds the compensated statistics object (ddsketch/stat/summary.go is an anchor of this property): its Add,
	// and the compensated step it delegates to, are the sum "accurate to rounding"
	if a, err := c.anchors(); err == nil {
		c10StatObject(c, a, r3, "Add")
	} else {
		c.R.undecided(r3, "anchors", "", "", "sketch anchors resolve", err.Error())
	}
	if f := c.P.DeclaredMethod(ds, "Merge"); c.mustFunc(r3, f, "(*Dataset).Merge") {
		// addsAll: fn adds every element of the slice recognised by isSrc to its receiver — Add in a full range
		// loop, the same append written out, a bulk append, or delegation of the whole slice to a function the
		// rules do not know (a new helper such as an AddMany), which is then held to the same forms
		var addsAll func(fn *ssa.Function, isSrc func(t *Term) bool, depth int) (readds, bulk, perElem bool)
		addsAll = func(fn *ssa.Function, isSrc func(t *Term) bool, depth int) (readds, bulk, perElem bool) {
			tc := newTermCtx(c.P)
			for _, b := range fn.Blocks {
				for _, in := range b.Instrs {
					if call, ok := in.(*ssa.Call); ok {
						t := tc.Of(call)
						if isMethodCall(t, "Add") && len(t.Args) == 2 && t.Args[0].isRecv() && t.Args[1].Op == "index" && isSrc(t.Args[1].Args[0]) && isRangeIndex(indexValueOf(t.Args[1])) {
							readds = true
						}
						if g, ok := call.Common().Value.(*ssa.Function); ok && depth < 3 && inlineNewHelpers(g) && len(g.Blocks) > 0 && t.Op == "call" && len(t.Args) >= 2 && t.Args[0].isRecv() && recvNamed(g) == ds {
							for k := 1; k < len(t.Args); k++ {
								if isSrc(t.Args[k]) {
									k := k
									r, bk, pe := addsAll(g, func(x *Term) bool { return x.isParam(k) }, depth+1)
									readds, bulk, perElem = readds || r, bulk || bk, perElem || pe
								}
							}
						}
					}
				}
			}
			for _, b := range fn.Blocks {
				for _, in := range b.Instrs {
					if st, ok := in.(*ssa.Store); ok {
						at, vt := tc.Of(st.Addr), tc.Of(st.Val)
						if isRecvField(at, valuesF) && vt.Op == "builtin" && vt.Sym == "append" {
							src := vt.Args[1]
							if src.Op == "slice" && src.Args[1].Op == "none" {
								if h := src.Args[2]; h.Op == "none" || stripConv(h).Op == "builtin" && stripConv(h).Sym == "len" && stripConv(h).Args[0].Key() == src.Args[0].Key() {
									src = src.Args[0]
								}
							}
							if isSrc(src) {
								bulk = true
							}
						}
					}
				}
			}
			// third form: Add written out in the loop — `d.Values = append(d.Values, o.Values[i])` in a full range loop
			// (the pairing of every append with a count increment and the lowering of the flag are C20-D3/D1 path rules)
			fromArg := map[ssa.Value]bool{}
			for _, b := range fn.Blocks {
				for _, in := range b.Instrs {
					if st, ok := in.(*ssa.Store); ok {
						if ia, ok := st.Addr.(*ssa.IndexAddr); ok {
							vt := tc.Of(st.Val)
							if _, isAlloc := ia.X.(*ssa.Alloc); isAlloc && vt.Op == "index" && isSrc(vt.Args[0]) && isRangeIndex(indexValueOf(vt)) {
								fromArg[ia.X] = true
							}
						}
					}
				}
			}
			for _, b := range fn.Blocks {
				for _, in := range b.Instrs {
					if st, ok := in.(*ssa.Store); ok {
						at, vt := tc.Of(st.Addr), tc.Of(st.Val)
						if isRecvField(at, valuesF) && vt.Op == "builtin" && vt.Sym == "append" && isRecvField(vt.Args[0], valuesF) && vt.Args[1].Op == "slice" && vt.Args[1].Args[0].V != nil && fromArg[vt.Args[1].Args[0].V] {
							perElem = true
						}
					}
				}
			}
			return
		}
		readds, bulk, perElem := addsAll(f, func(t *Term) bool { return t.Op == "field" && t.Sym == valuesF && t.Args[0].isParam(1) }, 0)
		c.R.check(readds || bulk || perElem, r3, shortFn(f)+"/re-adds-all", shortFn(f), c.fpos(f), "every element of the argument's Values is added (Add in a full range loop, the same append written out, or a bulk append)", fmt.Sprintf("per-element Add=%v per-element append=%v bulk=%v", readds, perElem, bulk))
		mods := c.Mod.ModsRooted(f, 1)
		c.R.check(len(mods) == 0, r3, shortFn(f)+"/argument-untouched", shortFn(f), c.fpos(f), "Merge does not write its argument", strings.Join(mods, " "))
	}
	_ = types.Typ
}

// isRangeIndex: the value is the induction variable (i+1 of the rotated loop) of a `range` over a slice.
func isRangeIndex(v ssa.Value) bool {
	if v == nil {
		return false
	}
	if bo, ok := v.(*ssa.BinOp); ok && bo.Op == token.ADD {
		if phi, ok := bo.X.(*ssa.Phi); ok && phi.Comment == "rangeindex" {
			return true
		}
	}
	if phi, ok := v.(*ssa.Phi); ok && phi.Comment == "rangeindex" {
		return true
	}
	// the induction variable of a hand-written full scan: for i := 0; i < len(x); i++ (x any slice-valued term)
	if phi, ok := v.(*ssa.Phi); ok && fullScanProg != nil {
		for _, l := range countingLoops(fullScanProg, phi.Parent()) {
			if l.Phi == phi && l.StepOne && l.StayTrue && l.IVLeft && l.CondOp == "<" && l.BoundAdj == 0 && l.Init != nil && l.Init.isConst("0") &&
				l.Bound != nil && l.Bound.Op == "builtin" && l.Bound.Sym == "len" {
				return true
			}
		}
	}
	return false
}

// fullScanProg: the program isRangeIndex consults for counting loops (set by runC20).
var fullScanProg *Program

func indexValueOf(t *Term) ssa.Value {
	if t == nil || t.Op != "index" || len(t.Args) != 2 {
		return nil
	}
	return t.Args[1].V
}

// c20ReallocCopy: the store puts into the values field a fresh slice of the same length into which the field's
// current content was copied (and nothing else written) earlier on the path.
func c20ReallocCopy(p *Path, st Effect, valuesF string) bool {
	g := st.Val.unver()
	if g.Op != "make" || len(g.Args) == 0 {
		return false
	}
	l := stripConv(g.Args[0])
	if !(l.Op == "builtin" && l.Sym == "len" && len(l.Args) == 1 && isRecvField(l.Args[0].unver(), valuesF)) {
		return false
	}
	copied := false
	for _, e := range p.Effects {
		if e.Seq >= st.Seq {
			break
		}
		switch e.Kind {
		case "call":
			t := e.Call
			if t.Op == "builtin" && t.Sym == "copy" && len(t.Args) == 2 && sameVal(t.Args[0].unver(), g) && isRecvField(t.Args[1].unver(), valuesF) {
				copied = true
			}
		case "store":
			// any element store into g, or a write of the field between the copy and the store, spoils it
			if e.Addr.Op == "index" && sameVal(e.Addr.Args[0].unver(), g) {
				return false
			}
			if copied && (isRecvField(e.Addr, valuesF) || e.Addr.Op == "index" && isRecvField(e.Addr.Args[0], valuesF)) {
				return false
			}
		}
	}
	return copied
}

// c20SplitMerge decides the structure "append values[0..k) one by one, then values[k:] at once, then Count += n"
// of a Merge(d, o), with values = o.Values read into one SSA value and n = len(values):
//   - exactly one one-element append, inside a loop whose counter k = φ(0, k+1) indexes the element appended and
//     advances only after that append; exactly one bulk append, of values[k:] with that same k, outside the loop, on
//     every way from the loop to a return;
//   - after the bulk append every way to a return passes through exactly one count step: Count += n outside loops, or
//     a loop j = φ(0, j+1) left only by its test j < n whose body is Count += 1.
//
// It answers "" when all of that holds.
func c20SplitMerge(f *ssa.Function, valuesF, countF string) string {
	d, o := f.Params[0], f.Params[1]
	fieldOf := func(v ssa.Value, base ssa.Value, name string) bool {
		fa, ok := v.(*ssa.FieldAddr)
		return ok && fa.X == base && fieldName(fa.X.Type(), fa.Field) == name
	}
	isVals := func(v ssa.Value) bool {
		u, ok := v.(*ssa.UnOp)
		return ok && u.Op == token.MUL && fieldOf(u.X, o, valuesF)
	}
	isN := func(v ssa.Value) bool {
		for {
			cv, ok := v.(*ssa.Convert)
			if !ok {
				break
			}
			v = cv.X
		}
		call, ok := v.(*ssa.Call)
		if !ok {
			return false
		}
		b, isB := call.Common().Value.(*ssa.Builtin)
		return isB && b.Name() == "len" && isVals(call.Common().Args[0])
	}
	// all loads of o.Values must be one value (the slice header is read once)
	var vals ssa.Value
	for _, b := range f.Blocks {
		for _, in := range b.Instrs {
			if v, ok := in.(ssa.Value); ok && isVals(v) {
				if vals != nil && vals != v {
					return "the argument's values are read more than once"
				}
				vals = v
			}
		}
	}
	if vals == nil {
		return "the argument's values are not read"
	}
	inCycle := func(b *ssa.BasicBlock) bool { // b can reach itself
		seen := map[*ssa.BasicBlock]bool{}
		var dfs func(x *ssa.BasicBlock) bool
		dfs = func(x *ssa.BasicBlock) bool {
			for _, sc := range x.Succs {
				if sc == b {
					return true
				}
				if !seen[sc] {
					seen[sc] = true
					if dfs(sc) {
						return true
					}
				}
			}
			return false
		}
		return dfs(b)
	}
	reachesAvoiding := func(from *ssa.BasicBlock, avoid map[*ssa.BasicBlock]bool, goal func(*ssa.BasicBlock) bool) bool {
		seen := map[*ssa.BasicBlock]bool{from: true}
		work := []*ssa.BasicBlock{from}
		for len(work) > 0 {
			x := work[len(work)-1]
			work = work[:len(work)-1]
			for _, sc := range x.Succs {
				if seen[sc] || avoid[sc] {
					continue
				}
				if goal(sc) {
					return true
				}
				seen[sc] = true
				work = append(work, sc)
			}
		}
		return false
	}
	isReturn := func(b *ssa.BasicBlock) bool {
		_, ok := b.Instrs[len(b.Instrs)-1].(*ssa.Return)
		return ok
	}
	counterPhi := func(v ssa.Value) (*ssa.Phi, *ssa.BinOp) {
		ph, ok := v.(*ssa.Phi)
		if !ok || len(ph.Edges) != 2 {
			return nil, nil
		}
		var inc *ssa.BinOp
		zero := false
		for _, e := range ph.Edges {
			if k, ok := e.(*ssa.Const); ok && k.Value != nil && k.Value.String() == "0" {
				zero = true
			}
			if bo, ok := e.(*ssa.BinOp); ok && bo.Op == token.ADD && bo.X == ssa.Value(ph) {
				if k, ok := bo.Y.(*ssa.Const); ok && k.Value != nil && k.Value.String() == "1" {
					inc = bo
				}
			}
		}
		if !zero || inc == nil {
			return nil, nil
		}
		return ph, inc
	}
	var singleBlk, bulkBlk *ssa.BasicBlock
	var k *ssa.Phi
	var kInc *ssa.BinOp
	nSingle, nBulk := 0, 0
	for _, b := range f.Blocks {
		for _, in := range b.Instrs {
			st, ok := in.(*ssa.Store)
			if !ok || !fieldOf(st.Addr, d, valuesF) {
				continue
			}
			call, ok := st.Val.(*ssa.Call)
			if !ok {
				return "the receiver's values are assigned something else than an append"
			}
			bi, isB := call.Common().Value.(*ssa.Builtin)
			if !isB || bi.Name() != "append" || len(call.Common().Args) != 2 {
				return "the receiver's values are assigned something else than an append"
			}
			sl, ok := call.Common().Args[1].(*ssa.Slice)
			if !ok {
				return "an append of something else than the argument's values"
			}
			switch x := sl.X.(type) {
			case *ssa.Alloc: // a one-element varargs slice: its element is values[k]
				var elem ssa.Value
				for _, r := range *x.Referrers() {
					if ia, ok := r.(*ssa.IndexAddr); ok {
						for _, r2 := range *ia.Referrers() {
							if st2, ok := r2.(*ssa.Store); ok && st2.Addr == ssa.Value(ia) {
								elem = st2.Val
							}
						}
					}
				}
				u, ok := elem.(*ssa.UnOp)
				if !ok || u.Op != token.MUL {
					return "a one-element append of something else than an element of the argument's values"
				}
				ia, ok := u.X.(*ssa.IndexAddr)
				if !ok || ia.X != vals {
					return "a one-element append of something else than an element of the argument's values"
				}
				ph, inc := counterPhi(ia.Index)
				if ph == nil {
					return "the element appended is not indexed by a counter φ(0, k+1)"
				}
				nSingle++
				singleBlk, k, kInc = b, ph, inc
			default:
				if sl.X != vals || sl.High != nil || sl.Max != nil {
					return "a bulk append of something else than a tail of the argument's values"
				}
				ph, _ := counterPhi(sl.Low)
				if ph == nil {
					return "the bulk append does not start at the counter"
				}
				nBulk++
				bulkBlk = b
				if k != nil && ph != k {
					return "the bulk append starts at another counter than the one-by-one appends stopped at"
				}
				if k == nil {
					k = ph
				}
			}
		}
	}
	if nSingle != 1 || nBulk != 1 {
		return fmt.Sprintf("%d one-element and %d bulk appends", nSingle, nBulk)
	}
	if sl := bulkBlk; inCycle(sl) {
		return "the bulk append is inside a loop"
	}
	h := k.Block()
	if !inCycle(singleBlk) || !h.Dominates(singleBlk) || !reachesAvoiding(singleBlk, nil, func(b *ssa.BasicBlock) bool { return b == h }) {
		return "the one-element append is not in the counter's loop"
	}
	if !(singleBlk == kInc.Block() || singleBlk.Dominates(kInc.Block())) {
		return "the counter advances without an append"
	}
	// one append per turn: every way from the append back to the loop header passes the increment's block, and the
	// append's block is not inside a deeper loop that avoids the header
	if reachesAvoiding(singleBlk, map[*ssa.BasicBlock]bool{h: true}, func(b *ssa.BasicBlock) bool { return b == singleBlk }) {
		return "more than one append per turn of the counter"
	}
	if !h.Dominates(bulkBlk) {
		return "the bulk append does not follow the loop"
	}
	if reachesAvoiding(h, map[*ssa.BasicBlock]bool{bulkBlk: true}, isReturn) {
		return "a way from the one-by-one loop to a return misses the bulk append"
	}
	// count steps
	sites := map[*ssa.BasicBlock]bool{}
	for _, b := range f.Blocks {
		for _, in := range b.Instrs {
			st, ok := in.(*ssa.Store)
			if !ok || !fieldOf(st.Addr, d, countF) {
				continue
			}
			bo, ok := st.Val.(*ssa.BinOp)
			if !ok || bo.Op != token.ADD {
				return "Count is assigned something else than a sum"
			}
			ld, ok := bo.X.(*ssa.UnOp)
			if !ok || ld.Op != token.MUL || !fieldOf(ld.X, d, countF) {
				return "Count is not increased from its own value"
			}
			switch {
			case isN(bo.Y):
				if inCycle(b) {
					return "Count += n inside a loop"
				}
				sites[b] = true
			default:
				kc, ok := bo.Y.(*ssa.Const)
				if !ok || kc.Value == nil || kc.Value.String() != "1" || !inCycle(b) {
					return "Count is increased by something else than 1 per value or their number"
				}
				// the loop: a header dominating b whose φ is a counter tested against n, the only exit
				var hdr *ssa.BasicBlock
				for x := b; x != nil; x = x.Idom() {
					if iff, ok := x.Instrs[len(x.Instrs)-1].(*ssa.If); ok {
						if cmp, ok := iff.Cond.(*ssa.BinOp); ok && cmp.Op == token.LSS && isN(cmp.Y) {
							if ph, _ := counterPhi(cmp.X); ph != nil && ph.Block() == x && reachesAvoiding(b, nil, func(y *ssa.BasicBlock) bool { return y == x }) {
								hdr = x
								break
							}
						}
					}
				}
				if hdr == nil {
					return "Count += 1 outside a loop over the number of the argument's values"
				}
				// no other exit: from b every way to a return passes the header
				if reachesAvoiding(b, map[*ssa.BasicBlock]bool{hdr: true}, isReturn) {
					return "the counting loop has another exit than its test"
				}
				// one increment per turn
				if reachesAvoiding(b, map[*ssa.BasicBlock]bool{hdr: true}, func(y *ssa.BasicBlock) bool { return y == b }) {
					return "more than one increment per turn"
				}
				sites[hdr] = true
				sites[b] = true
			}
		}
	}
	if len(sites) == 0 {
		return "Count is not updated"
	}
	if reachesAvoiding(bulkBlk, sites, isReturn) {
		return "a way from the bulk append to a return updates no Count"
	}
	if isReturn(bulkBlk) && !sites[bulkBlk] {
		return "a way from the bulk append to a return updates no Count"
	}
	// … and count steps do not follow one another (the two forms are alternatives); a count step before the appends
	// would have to dominate them — not accepted
	for sb := range sites {
		for _, in := range sb.Instrs {
			if st, ok := in.(*ssa.Store); ok && fieldOf(st.Addr, d, countF) {
				// from this store's block, another store site outside its own loop must not be reachable
				for ob := range sites {
					if ob == sb {
						continue
					}
					hasStore := false
					for _, in2 := range ob.Instrs {
						if st2, ok := in2.(*ssa.Store); ok && fieldOf(st2.Addr, d, countF) {
							hasStore = true
						}
					}
					if hasStore && reachesAvoiding(sb, nil, func(y *ssa.BasicBlock) bool { return y == ob }) {
						return "two count steps on one way"
					}
				}
			}
		}
		if !bulkBlk.Dominates(sb) && sb != bulkBlk {
			return "a count step that does not follow the appends"
		}
	}
	return ""
}
