package main

import (
	"fmt"
	"strings"

	"golang.org/x/tools/go/ssa"
)

// C12 — summary queries are mutually coherent and alpha-accurate.

func init() {
	register("C12",
		"DECIDED: D1 decision tables of GetMaxValue / GetMinValue — every path's answer (positive-side extreme, 0, negated negative-side extreme, or the error) is justified by emptiness evidence on that path in the right priority order, with the extreme taken from the right end (MaxIndex/MinIndex) of the right store and the sign applied; a discarded MaxIndex/MinIndex error is accepted only under non-emptiness evidence for the same store. "+
			"D2 GetCount is the linear form zero + positive.TotalCount() + negative.TotalCount(); every IsEmpty path is justified by evidence on all three parts; GetZeroCount returns the zero weight in both variants. "+
			"D3 iteration — ForEach reports (0, zero) exactly when zero ≠ 0, positive bins as (Value(i), c), negative bins as (−Value(i), c); the store callbacks return the user callback's verdict, the negative side is only visited if the positive iteration was not stopped; GetSum accumulates value·count for every bin and never stops the iteration. "+
			"D4 batch quantiles store the single-query result for the same element. "+
			"D5 the iteration contract of every store the sketch iterates through (the C04-D3 obligations re-evaluated: each bin reported once with its weight, the callback's stop verdict honoured immediately, channels closed). "+
			"D6 coherence of the exact variant (the C10-D1 wrapper table re-evaluated as C12-D6) — every state-changing wrapper updates the inner sketch and the statistics together and only on success: Add / AddWithCount (nothing for weight 0, nothing when the inner add fails), MergeWith (the statistics merge only after the inner merge succeeded), Clear, Reweight, ChangeMapping; Copy returns {inner.Copy(), statistics.Copy()} (a shared statistics object would let a later operation on either sketch change the other's count, extremes and sum). "+
			"SHARED (obligations of other properties that decide clauses this property states too, re-evaluated here under their home rule ids): C06-D3 sketch-state writes (decoders only accumulate, so the count stays the absorbed weight when decoding into a non-empty sketch). C10-D3 as C12-D7 (field tables of the statistics object: Copy, Clear, Reweight, Rescale, MergeWith, Add); C10-D6 as C12-D9 (the exact variant's accessors: count, sum and extremes from the statistics — (NaN, error) exactly when empty —, zero weight, stores and iteration from the inner sketch; the constructor from parts refuses exactly the disagreeing parts); C05-D9 as C12-D8 (named constructors give both sides the announced store kind). C02-D1 (the sketch merge adds the zero weight and merges both sides on every accepting path) and C02-D3 (the store merges add every bin of an argument of any store kind). C04-D2/D4/D8 (the read side of every store: total, emptiness, extreme indexes — what the sketch's count, emptiness and extremes are computed from). C17-D1/D3 (ChangeMapping: identity shortcut only for factor 1 and an equal mapping; every overlapping target bin receives its share). C16-D1 (Reweight scales the zero weight and both sides: the count stays the absorbed weight). C10-D1/D5 (statistics blocks of the exact variant: written only when they hold a real value, read back into the accumulator of their flag; final guard). "+
			"NOT DECIDED: 'within alpha of the true extremes', monotonicity in q, accuracy of the approximate sum (numeric).",
		"one obligation per path of the extreme/emptiness tables, per iteration clause; non-trivial = a path evaluation was needed",
		true, runC12)
}

func runC12(c *Ctx) {
	a, err := c.anchors()
	if err != nil {
		c.R.undecided("C12", "anchors", "", "", "sketch anchors resolve", err.Error())
		return
	}
	c12Extremes(c, a)
	c12Count(c, a)
	c12ForEach(c, a)
	c12Batch(c, a)
	// the sketch iterates through its stores: their iteration contract (every bin once, stop honoured at once)
	if storeI := c.P.NamedType(pkgStore, "Store"); storeI != nil {
		c04Iteration(c, c.P.Implementations(storeI), "C12-D5")
	}
	// coherence after Copy: the exact variant's copy carries its own copy of the statistics
	c10Wrappers(c, a, "C12-D6", "")
	// coherence across decoding: the decoders only accumulate into the sketch's state (an assignment would make the
	// count disagree with the absorbed weight when decoding into a non-empty sketch)
	c.shared(func() { c06Additive(c, a) }, keyMentions("/write/", "block-local"))
	// the exact variant answers count / sum / extremes from its statistics object: its field tables (C10-D3), all of them
	c10StatObject(c, a, "C12-D7", "")
	// … and what the exact variant reports (count, sum, emptiness, extremes, zero weight, iteration) is read from the
	// right object on every path
	c10Accessors(c, a, "C12-D9")
	// the named constructors give both sides the announced store kind (the clamped extremes of collapsing sketches depend on it)
	c05SketchCtors(c, "C12-D8")
	// count = absorbed weight across merges: the sketch merge folds the zero weight and both sides on every accepting path
	c.shared(func() { c02MergeTable(c, a) }, func(o *Obligation) bool { return true })
	// … and the store merge it delegates to adds every bin of an argument of any store kind (an iteration stopped
	// after the first bin leaves count and extremes short of the absorbed weight)
	c.shared(func() { c02AnyKind(c, a) }, func(o *Obligation) bool { return true })
	// count, emptiness and extremes of the sketch are those of its stores: totals, emptiness, extreme indexes of every
	// store kind (the read side of the stores)
	c.shared(func() { c04Readers(c) }, func(o *Obligation) bool { return true })
	// … across a change of mapping or unit (identity shortcut only for factor 1 and an equal mapping; every overlapping
	// target bin receives its share)
	c.shared(func() { c17Table(c, a); c17Overlap(c, a) }, func(o *Obligation) bool { return true })
	// … and across a reweighting: zero weight and both sides scale together
	c.shared(func() { c16Sketch(c, a, "C16-D1") }, func(o *Obligation) bool { return true })
	// coherence across an encode/decode history of the exact variant: the statistics blocks are written only when they
	// hold a real value (the sentinels of an empty object would poison min and sum of whoever decodes them) and read
	// back into the accumulator of their flag
	c.shared(func() { c10EncodeGuards(c, a); c10Decode(c, a) }, func(o *Obligation) bool { return true })
}

type emptiness struct {
	a *sketchAnchors
}

// side: +1 store known empty, -1 known non-empty, 0 unknown on path p.
func sideEmpty(p *Path, a *sketchAnchors, fld string) int {
	st := 0
	isRecvField := isSideStore
	for _, cd := range p.Conds {
		t := cd.Term
		if isMethodCall(t, "IsEmpty") && len(t.Args) == 1 && isRecvField(t.Args[0], fld) {
			if cd.Taken {
				st = 1
			} else {
				st = -1
			}
		}
		if x, neq, ok := nilTest(t); ok && x.Op == "extract" && (isMethodCall(x.Args[0], "MinIndex") || isMethodCall(x.Args[0], "MaxIndex")) && isRecvField(x.Args[0].Args[0], fld) {
			if neq == cd.Taken {
				st = 1
			} else {
				st = -1
			}
		}
		// TotalCount() compared with 0
		if t.Op == "bin" && len(t.Args) == 2 {
			for i := 0; i < 2; i++ {
				x, y := t.Args[i], t.Args[1-i]
				if isMethodCall(x, "TotalCount") && isRecvField(x.Args[0], fld) && y.isConst("0") {
					switch t.Sym {
					case "==":
						st = map[bool]int{true: 1, false: -1}[cd.Taken]
					case "!=":
						st = map[bool]int{true: -1, false: 1}[cd.Taken]
					case "<":
						if i == 1 { // 0 < TotalCount
							st = map[bool]int{true: -1, false: 1}[cd.Taken]
						}
					case "<=":
						if i == 0 { // TotalCount <= 0
							st = map[bool]int{true: 1, false: -1}[cd.Taken]
						}
					}
				}
			}
		}
	}
	return st
}

// zeroState: +1 zero weight known positive, -1 known zero, 0 unknown (weights are non-negative: C13).
func zeroState(p *Path, a *sketchAnchors) int {
	st := 0
	for _, cd := range p.Conds {
		t := cd.Term
		if t.Op != "bin" || len(t.Args) != 2 {
			continue
		}
		for i := 0; i < 2; i++ {
			x, y := t.Args[i], t.Args[1-i]
			if !(isRecvField(x, a.zeroField) || isRecvField(x, a.zeroField, a.innerFld)) || !y.isConst("0") {
				continue
			}
			switch t.Sym {
			case "==":
				st = map[bool]int{true: -1, false: 1}[cd.Taken]
			case "!=":
				st = map[bool]int{true: 1, false: -1}[cd.Taken]
			case "<":
				if i == 1 { // 0 < zero
					st = map[bool]int{true: 1, false: -1}[cd.Taken]
				}
			case "<=":
				if i == 0 { // zero <= 0
					st = map[bool]int{true: -1, false: 1}[cd.Taken]
				}
			}
		}
	}
	return st
}

func c12Extremes(c *Ctx, a *sketchAnchors) {
	const rule = "C12-D1"
	type spec struct {
		name              string
		firstFld, lastFld string // priority: first side, zero, last side
		firstIdx, lastIdx string // extreme index method on each side
		firstNeg, lastNeg bool
	}
	specs := []spec{
		{"GetMaxValue", a.posField, a.negField, "MaxIndex", "MinIndex", false, true},
		{"GetMinValue", a.negField, a.posField, "MaxIndex", "MinIndex", true, false},
	}
	n := 0
	for _, s := range specs {
		f := c.P.DeclaredMethod(a.DDSketch, s.name)
		if !c.mustFunc(rule, f, "(*DDSketch)."+s.name) {
			continue
		}
		paths, _ := exec(c, f, nil, 1)
		// shape recogniser: [−]Value(mapping, extract0(<idx>(store fld)))
		isExtreme := func(t *Term, fld, idx string, neg bool) bool {
			if neg {
				if t.Op != "un" || t.Sym != "-" {
					return false
				}
				t = t.Args[0]
			}
			if !isMethodCall(t, "Value") || len(t.Args) != 2 || !isRecvField(t.Args[0], a.mapField) {
				return false
			}
			x := t.Args[1]
			return x.Op == "extract" && x.Sym == "0" && isMethodCall(x.Args[0], idx) && len(x.Args[0].Args) == 1 && isSideStore(x.Args[0].Args[0], fld)
		}
		for i, p := range paths {
			n++
			key := fmt.Sprintf("%s/path%d[%s]", shortFn(f), i, pathSig(p))
			e1, e2, z := sideEmpty(p, a, s.firstFld), sideEmpty(p, a, s.lastFld), zeroState(p, a)
			ev := fmt.Sprintf("evidence: %s %s, zero %s, %s %s; %s", s.firstFld, emS(e1), zS(z), s.lastFld, emS(e2), describeRet(p))
			ok := false
			exp := ""
			switch {
			case p.RetNil(1) == -1:
				exp = "error only when both stores are empty and the zero weight is not positive"
				ok = e1 == 1 && z == -1 && e2 == 1 && len(p.Writes()) == 0
			case p.RetNil(1) == 1 && isExtreme(p.RetT[0], s.firstFld, s.firstIdx, s.firstNeg):
				exp = "first-priority side answers only when it is known non-empty"
				ok = e1 == -1
			case p.RetNil(1) == 1 && p.RetT[0].isConst("0"):
				exp = "0 only when the first-priority side is empty and the zero weight is positive"
				ok = e1 == 1 && z == 1
			case p.RetNil(1) == 1 && isExtreme(p.RetT[0], s.lastFld, s.lastIdx, s.lastNeg):
				exp = "last-priority side answers only when the first side is empty, the zero weight is not positive and it is non-empty"
				ok = e1 == 1 && z == -1 && e2 == -1
			default:
				exp = "one of: extreme of the first side, 0, extreme of the last side (right end, right sign), or an error"
			}
			c.R.check(ok, rule, key, shortFn(f), c.fpos(f), exp, ev)
		}
	}
	c.R.floor(rule, "extreme-value table paths", n, 8)
	c.R.assume("axiom: Store.MinIndex/MaxIndex return an error iff the store is empty (C04-D4); weights are non-negative (C13-D1), so `zero > 0` and `zero != 0` coincide")
}

func emS(e int) string { return map[int]string{1: "empty", -1: "non-empty", 0: "unknown"}[e] }
func zS(e int) string  { return map[int]string{1: "positive", -1: "zero", 0: "unknown"}[e] }

func c12Count(c *Ctx, a *sketchAnchors) {
	const rule = "C12-D2"
	if f := c.P.DeclaredMethod(a.DDSketch, "GetCount"); c.mustFunc(rule, f, "(*DDSketch).GetCount") {
		paths, _ := exec(c, f, nil, 1)
		ok := len(paths) == 1 && len(paths[0].RetT) == 1
		found := ""
		if ok {
			l := linearOf(paths[0].RetT[0])
			found = l.Key()
			seen := map[string]bool{}
			ok = l.Const == 0 && len(l.Coef) == 3
			for k, co := range l.Coef {
				t := l.Atoms[k]
				switch {
				case co == 1 && isRecvField(t, a.zeroField):
					seen["zero"] = true
				case co == 1 && isMethodCall(t, "TotalCount") && isRecvField(t.Args[0], a.posField):
					seen["pos"] = true
				case co == 1 && isMethodCall(t, "TotalCount") && isRecvField(t.Args[0], a.negField):
					seen["neg"] = true
				default:
					ok = false
				}
			}
			ok = ok && len(seen) == 3 && len(paths[0].Writes()) == 0
		}
		c.R.check(ok, rule, shortFn(f)+"/linear-form", shortFn(f), c.fpos(f), "zero weight + positive.TotalCount() + negative.TotalCount()", found)
	}
	if f := c.P.DeclaredMethod(a.DDSketch, "IsEmpty"); c.mustFunc(rule, f, "(*DDSketch).IsEmpty") {
		paths, _ := exec(c, f, nil, 1)
		for i, p := range paths {
			key := fmt.Sprintf("%s/path%d[%s]", shortFn(f), i, pathSig(p))
			e1, e2, z := sideEmpty(p, a, a.posField), sideEmpty(p, a, a.negField), zeroState(p, a)
			r := p.RetT[0]
			ok := false
			switch {
			case r.isConst("false"):
				ok = e1 == -1 || e2 == -1 || z == 1
			case r.isConst("true"):
				ok = e1 == 1 && e2 == 1 && z == -1
			case isMethodCall(r, "IsEmpty") && isRecvField(r.Args[0], a.posField):
				ok = e2 == 1 && z == -1
			case isMethodCall(r, "IsEmpty") && isRecvField(r.Args[0], a.negField):
				ok = e1 == 1 && z == -1
			case r.Op == "bin" && r.Sym == "==" && (isRecvField(r.Args[0], a.zeroField) && r.Args[1].isConst("0") || isRecvField(r.Args[1], a.zeroField) && r.Args[0].isConst("0")):
				ok = e1 == 1 && e2 == 1
			}
			c.R.check(ok, rule, key, shortFn(f), c.fpos(f), "answer justified by evidence on the zero weight and both stores",
				fmt.Sprintf("returns %s with positive %s, negative %s, zero %s", r, emS(e1), emS(e2), zS(z)))
		}
		c.R.floor(rule, "IsEmpty paths", len(paths), 2)
	}
	// GetZeroCount of the exact variant returns the inner zero weight
	if f := c.P.DeclaredMethod(a.Exact, "GetZeroCount"); c.mustFunc(rule, f, "(*Exact).GetZeroCount") {
		paths, _ := exec(c, f, nil, 1)
		ok := len(paths) == 1 && isRecvField(paths[0].RetT[0], a.zeroField, a.innerFld)
		c.R.check(ok, rule, shortFn(f)+"/returns-zero-weight", shortFn(f), c.fpos(f), "returns the inner sketch's zero weight", describeRet(paths[0]))
	}
}

func c12ForEach(c *Ctx, a *sketchAnchors) {
	const rule = "C12-D3"
	f := c.P.DeclaredMethod(a.DDSketch, "ForEach")
	if !c.mustFunc(rule, f, "(*DDSketch).ForEach") {
		return
	}
	paths, _ := exec(c, f, nil, 1)
	isUserCB := func(t *Term) bool { return t.Op == "dyncall" && len(t.Args) == 3 && t.Args[0].isParam(1) }
	// (a)+(b) zero bucket
	for i, p := range paths {
		key := fmt.Sprintf("%s/path%d[%s]/zero-bucket", shortFn(f), i, pathSig(p))
		z := zeroState(p, a)
		var zc *Effect
		for j := range p.Effects {
			e := &p.Effects[j]
			if e.Kind == "call" && isUserCB(e.Call) {
				zc = e
			}
		}
		ok := true
		found := ""
		switch z {
		case 1:
			ok = zc != nil && zc.Call.Args[1].isConst("0") && isRecvField(zc.Call.Args[2], a.zeroField)
			if ok {
				// stop honoured
				taken, have := pathCond(p, func(t *Term) bool { return sameVal(t, zc.Call) })
				if !have {
					ok = false
					found = "callback verdict for the zero bucket is not tested"
				} else if taken {
					for _, e := range p.Effects {
						if e.Seq > zc.Seq && e.Kind == "call" && !e.Pure {
							ok = false
							found = "iteration continues after the callback asked to stop: " + e.String()
						}
					}
				}
			} else {
				found = "zero weight non-zero but f(0, zero) is not called"
			}
		case -1:
			ok = zc == nil
			found = "f called for an empty zero bucket"
		default:
			ok = false
			found = "no test of the zero weight on this path"
		}
		c.R.check(ok, rule, key, shortFn(f), c.fpos(f), "f(0, zero) is called iff zero ≠ 0, and a true verdict ends the iteration", firstNonEmpty(found, "ok"))
	}
	c.R.floor(rule, "ForEach paths", len(paths), 2)
	// (c) store callbacks
	type side struct {
		fld string
		neg bool
	}
	var posCl, negCl *ssa.Function
	var posCallSeq = map[*Path]int{}
	for _, p := range paths {
		for _, e := range p.Effects {
			if e.Kind == "call" && isMethodCall(e.Call, "ForEach") && len(e.Call.Args) == 2 && e.Call.Args[1].Op == "closure" {
				mc, _ := e.Call.Args[1].V.(*ssa.MakeClosure)
				if mc == nil {
					continue
				}
				if isRecvField(e.Call.Args[0], a.posField) {
					posCl = mc.Fn.(*ssa.Function)
					posCallSeq[p] = e.Seq
				} else if isRecvField(e.Call.Args[0], a.negField) {
					negCl = mc.Fn.(*ssa.Function)
				}
			}
		}
	}
	checkCB := func(cl *ssa.Function, neg bool, what string) (stopVar string) {
		if cl == nil {
			c.R.violate(rule, shortFn(f)+"/"+what+"-callback", shortFn(f), c.fpos(f), "the "+what+" store is iterated with a closure", "no such ForEach call")
			return ""
		}
		ps, _ := exec(c, cl, nil, 1)
		ok := len(ps) > 0
		found := ""
		for _, p := range ps {
			var cb *Term
			for _, e := range p.Calls() {
				if e.Call.Op == "dyncall" && len(e.Call.Args) == 3 && e.Call.Args[0].Op == "oparam" && e.Call.Args[0].Sym == "1" {
					cb = e.Call
				}
			}
			if cb == nil {
				ok = false
				found = "user callback not called"
				continue
			}
			v := cb.Args[1]
			if neg {
				if v.Op != "un" || v.Sym != "-" {
					ok = false
					found = "value is not negated: " + v.Key()
					continue
				}
				v = v.Args[0]
			}
			if !(isMethodCall(v, "Value") && len(v.Args) == 2 && isRecvField(v.Args[0], a.mapField) && v.Args[1].isParam(0)) || !cb.Args[2].isParam(1) {
				ok = false
				found = "callback arguments: " + cb.Key()
			}
			// returns the verdict (possibly via the captured flag)
			r := p.RetT[0].unver()
			retOK := sameVal(p.RetT[0], cb)
			if !retOK && r.Op == "free" {
				for _, e := range p.Effects {
					if e.Kind == "store" && e.Addr.Key() == r.Key() && sameVal(e.Val, cb) {
						retOK = true
						stopVar = r.Sym
					}
				}
			}
			if !retOK {
				ok = false
				found = "closure does not return the user callback's verdict: " + describeRet(p)
			}
		}
		sg := "(Value(index), count)"
		if neg {
			sg = "(−Value(index), count)"
		}
		c.R.check(ok, rule, shortFn(cl)+"/"+what+"-callback", shortFn(cl), c.fpos(cl), "calls f"+sg+" and returns its verdict to the store iterator", firstNonEmpty(found, "ok"))
		return stopVar
	}
	stopVar := checkCB(posCl, false, "positive")
	checkCB(negCl, true, "negative")
	// (d) negative side visited only if the positive iteration was not stopped
	bad := ""
	nNeg := 0
	for _, p := range paths {
		for _, e := range p.Effects {
			if e.Kind == "call" && isMethodCall(e.Call, "ForEach") && len(e.Call.Args) == 2 && isRecvField(e.Call.Args[0], a.negField) {
				nNeg++
				ok := false
				for _, cd := range p.Conds {
					if cd.Seq > posCallSeq[p] && cd.Seq < e.Seq && !cd.Taken && cd.Term.Op == "load" && cd.Term.Args[0].Op == "alloc" {
						// the tested variable must be the one the positive closure records the verdict in
						if mc, okc := func() (*ssa.MakeClosure, bool) {
							for _, e2 := range p.Effects {
								if e2.Seq == posCallSeq[p] {
									m, o := e2.Call.Args[1].V.(*ssa.MakeClosure)
									return m, o
								}
							}
							return nil, false
						}(); okc {
							for bi, b := range mc.Bindings {
								if b == cd.Term.Args[0].V && mc.Fn.(*ssa.Function).FreeVars[bi].Name() == stopVar {
									ok = true
								}
							}
						}
					}
				}
				if !ok {
					bad = "negative store iterated without testing the positive iteration's stop flag"
				}
			}
		}
	}
	c.R.check(bad == "" && nNeg > 0 && stopVar != "", rule, shortFn(f)+"/stop-between-sides", shortFn(f), c.fpos(f),
		"the negative store is visited only on paths where the flag recording the positive callback's verdict is false", firstNonEmpty(bad, fmt.Sprintf("%d guarded negative iteration(s), flag %q", nNeg, stopVar)))

	// GetSum
	if g := c.P.DeclaredMethod(a.DDSketch, "GetSum"); c.mustFunc(rule, g, "(*DDSketch).GetSum") {
		ok := len(g.AnonFuncs) == 1
		found := ""
		if ok {
			ps, _ := exec(c, g.AnonFuncs[0], nil, 1)
			for _, p := range ps {
				if !p.RetT[0].isConst("false") {
					ok = false
					found = "accumulating callback may stop the iteration: " + describeRet(p)
				}
				acc := false
				for _, e := range p.Effects {
					if e.Kind == "store" && e.Addr.Op == "free" && e.Val.isBin("+") {
						for i := 0; i < 2; i++ {
							x, y := e.Val.Args[i], e.Val.Args[1-i]
							if x.unver().Key() == e.Addr.Key() && y.isBin("*") && (y.Args[0].isParam(0) && y.Args[1].isParam(1) || y.Args[0].isParam(1) && y.Args[1].isParam(0)) {
								acc = true
							}
						}
					}
				}
				if !acc {
					ok = false
					found = firstNonEmpty(found, "callback does not add value*count to the captured sum")
				}
			}
			// outer: ForEach on the receiver with that closure
			po, _ := exec(c, g, nil, 1)
			called := false
			for _, p := range po {
				for _, e := range p.Calls() {
					if isMethodCall(e.Call, "ForEach") && e.Call.Args[0].isRecv() {
						called = true
					}
				}
			}
			ok = ok && called
		} else if len(g.AnonFuncs) == 2 {
			// the same sum written out over the two stores: on every path both stores are iterated, each once, the
			// positive store with a closure adding Value(index)·count, the negative one with −Value(index)·count,
			// neither ever stopping (the zero bucket contributes 0·zero: present or absent)
			ok, found = c12SumWrittenOut(c, a, g)
		} else {
			found = fmt.Sprintf("%d closures", len(g.AnonFuncs))
		}
		c.R.check(ok, rule, shortFn(g)+"/accumulates", shortFn(g), c.fpos(g), "sum += value*count for every bin of ForEach, never stopping", firstNonEmpty(found, "ok"))
	}
}

func c12Batch(c *Ctx, a *sketchAnchors) {
	const rule = "C12-D4"
	f := c.P.DeclaredMethod(a.DDSketch, "GetValuesAtQuantiles")
	if !c.mustFunc(rule, f, "(*DDSketch).GetValuesAtQuantiles") {
		return
	}
	// visit bound 3: two full iterations, so that code which treats the first element specially (i > 0 …) is seen
	paths, _ := exec(c, f, nil, 3)
	n := 0
	bad := ""
	for _, p := range paths {
		for _, e := range p.Effects {
			if e.Kind != "store" || e.Addr.Op != "index" {
				continue
			}
			n++
			v := e.Val
			ok := v.Op == "extract" && v.Sym == "0" && isMethodCall(v.Args[0], "GetValueAtQuantile") && len(v.Args[0].Args) == 2 && v.Args[0].Args[0].isRecv()
			if ok {
				q := v.Args[0].Args[1]
				ok = q.Op == "index" && q.Args[0].isParam(1) && q.Args[1].Key() == e.Addr.Args[1].Key()
			}
			if !ok {
				bad = "element store " + e.String()
			}
		}
		// result slice has the length of the argument
		if p.RetNil(1) == 1 {
			r := p.RetT[0]
			if !(r.Op == "make" && len(r.Args) == 1 && r.Args[0].Op == "builtin" && r.Args[0].Sym == "len" && r.Args[0].Args[0].isParam(1)) {
				bad = firstNonEmpty(bad, "result is not a fresh slice of len(quantiles): "+r.Key())
			}
		}
	}
	if bad != "" {
		// the batch query may have been rewritten over a shared helper (total counts computed once): decide equivalence
		// with the single query path by path instead
		if okEq, why := batchEquivalent(c, a); okEq {
			bad = ""
			c.R.count("batch_equivalence_used", 1)
			n++
		} else {
			bad += "; and not path-equivalent to the single query: " + why
		}
	}
	c.R.check(bad == "" && n > 0, rule, shortFn(f)+"/element-is-single-query", shortFn(f), c.fpos(f),
		"values[i] = first result of GetValueAtQuantile(quantiles[i]) on the same receiver (or a path-by-path identical computation over a shared helper); result has len(quantiles)", firstNonEmpty(bad, fmt.Sprintf("%d element store occurrence(s)", n)))
	_ = strings.Join
}

// batchEquivalent decides, when the batch query no longer calls the single query, that each element is computed
// EXACTLY like the single query: with every new helper executed inline, every element store of the batch —
// for the first and for a later element — matches a success path of GetValueAtQuantile: the same value term and the
// same set of branch decisions that depend on the quantile, under the substitution quantiles[k] ↦ q; the decisions
// of the single query that do not depend on q (emptiness) are made by the batch before its first element; and every
// error return of the batch matches an error path of the single query (same decisions on the offending quantile,
// same error term). Terms are compared structurally, commutative operators in either order.
func batchEquivalent(c *Ctx, a *sketchAnchors) (bool, string) {
	single := c.P.DeclaredMethod(a.DDSketch, "GetValueAtQuantile")
	batch := c.P.DeclaredMethod(a.DDSketch, "GetValuesAtQuantiles")
	if single == nil || batch == nil {
		return false, "single or batch query not found"
	}
	sp, okS := exec(c, single, nil, 1)
	bp, okB := exec(c, batch, nil, 3)
	if !okS || !okB || len(sp) == 0 || len(bp) == 0 {
		return false, "path enumeration incomplete"
	}
	isElemQ := func(t *Term) bool { return t.Op == "index" && t.Args[0].isParam(1) && t.Args[1].Op == "const" }
	var eq func(b, s *Term) bool
	eq = func(b, s *Term) bool {
		if b == nil || s == nil {
			return b == s
		}
		b, s = b.unver(), s.unver()
		if isElemQ(b) && s.isParam(1) {
			return true
		}
		if b.Op != s.Op || b.Sym != s.Sym || len(b.Args) != len(s.Args) {
			// phi names differ between functions only when not path-resolved; treat differently named opaque atoms as unequal
			return false
		}
		all := true
		for i := range b.Args {
			if !eq(b.Args[i], s.Args[i]) {
				all = false
				break
			}
		}
		if all {
			return true
		}
		if b.Op == "bin" && len(b.Args) == 2 && (b.Sym == "+" || b.Sym == "*" || b.Sym == "==" || b.Sym == "!=") {
			return eq(b.Args[0], s.Args[1]) && eq(b.Args[1], s.Args[0])
		}
		return false
	}
	dependsOnQ := func(t *Term, batchSide bool) bool {
		hit := false
		t.walk(func(x *Term) bool {
			if batchSide && isElemQ(x) || !batchSide && x.isParam(1) {
				hit = true
			}
			return true
		})
		return hit
	}
	var isLiteral func(t *Term) bool
	isLiteral = func(t *Term) bool {
		switch {
		case t.Op == "const":
			return true
		case t.Op == "builtin" && t.Sym == "len" && len(t.Args) == 1 && t.Args[0].isParam(1):
			return true // loop control over len(quantiles) is not a decision about the data
		case t.Op == "bin" || t.Op == "un":
			for _, x := range t.Args {
				if !isLiteral(x) {
					return false
				}
			}
			return true
		}
		return false
	}
	type cond struct {
		t     *Term
		taken bool
	}
	// conds of a single-query path, split into q-dependent and state-only
	split := func(p *Path) (qd, st []cond) {
		for _, cd := range p.Conds {
			if isLiteral(cd.Term) {
				continue
			}
			if dependsOnQ(cd.Term, false) {
				qd = append(qd, cond{cd.Term, cd.Taken})
			} else {
				st = append(st, cond{cd.Term, cd.Taken})
			}
		}
		return
	}
	sameSet := func(bc, sc []cond) bool {
		if len(bc) != len(sc) {
			return false
		}
		used := make([]bool, len(sc))
		for _, x := range bc {
			found := false
			for j, y := range sc {
				if !used[j] && x.taken == y.taken && eq(x.t, y.t) {
					used[j] = true
					found = true
					break
				}
			}
			if !found {
				return false
			}
		}
		return true
	}
	nElems := 0
	for _, p := range bp {
		prev := 0
		var stateSeen []cond
		for _, e := range p.Effects {
			if !(e.Kind == "store" && e.Addr.Op == "index" && e.Addr.Args[1].Op == "const" && e.Addr.Args[0].Op == "make") {
				continue
			}
			nElems++
			var qd []cond
			for _, cd := range p.Conds {
				if cd.Seq <= prev || cd.Seq >= e.Seq || isLiteral(cd.Term) {
					continue
				}
				if dependsOnQ(cd.Term, true) {
					qd = append(qd, cond{cd.Term, cd.Taken})
				} else {
					stateSeen = append(stateSeen, cond{cd.Term, cd.Taken})
				}
			}
			matched := false
			for _, s := range sp {
				if s.RetNil(1) != 1 {
					continue
				}
				sq, sst := split(s)
				if !eq(e.Val, s.RetT[0]) || !sameSet(qd, sq) {
					continue
				}
				// every state-only decision of the single query has been made by the batch by now, the same way
				okState := true
				for _, y := range sst {
					f := false
					for _, x := range stateSeen {
						if x.taken == y.taken && eq(x.t, y.t) {
							f = true
						}
					}
					if !f {
						okState = false
					}
				}
				if okState {
					matched = true
					break
				}
			}
			if !matched {
				return false, fmt.Sprintf("element %s on path [%s] is not computed like any success path of the single query: value %s", e.Addr.Args[1].Sym, p.String(), e.Val.Key())
			}
			prev = e.Seq
		}
		// error return: the decisions after the last element match an error path of the single query
		if p.RetNil(1) == -1 {
			var qd, st []cond
			for _, cd := range p.Conds {
				if cd.Seq <= prev || isLiteral(cd.Term) {
					continue
				}
				if dependsOnQ(cd.Term, true) {
					qd = append(qd, cond{cd.Term, cd.Taken})
				} else {
					st = append(st, cond{cd.Term, cd.Taken})
				}
			}
			matched := false
			for _, s := range sp {
				if s.RetNil(1) != -1 || !eq(p.RetT[1], s.RetT[1]) {
					continue
				}
				sq, sst := split(s)
				if sameSet(qd, sq) && (len(sst) == 0 || sameSet(st, sst) || len(st) == 0 && prev > 0) {
					matched = true
				}
			}
			if !matched {
				return false, fmt.Sprintf("error return on path [%s] does not correspond to an error path of the single query: %s", p.String(), describeRet(p))
			}
		}
	}
	if nElems == 0 {
		return false, "no element store found in the batch query"
	}
	return true, fmt.Sprintf("%d element computations matched against %d single-query paths", nElems, len(sp))
}

// c12SumWrittenOut: GetSum without the sketch's ForEach — the two store iterations with accumulating closures.
func c12SumWrittenOut(c *Ctx, a *sketchAnchors, g *ssa.Function) (bool, string) {
	po, _ := exec(c, g, nil, 1)
	if len(po) == 0 {
		return false, "no path"
	}
	var posCl, negCl *ssa.Function
	for _, p := range po {
		nPos, nNeg := 0, 0
		for _, e := range p.Effects {
			if e.Kind != "call" || !isMethodCall(e.Call, "ForEach") || len(e.Call.Args) != 2 || e.Call.Args[1].Op != "closure" {
				continue
			}
			mc, _ := e.Call.Args[1].V.(*ssa.MakeClosure)
			if mc == nil {
				continue
			}
			switch {
			case isRecvField(e.Call.Args[0], a.posField):
				nPos++
				posCl = mc.Fn.(*ssa.Function)
			case isRecvField(e.Call.Args[0], a.negField):
				nNeg++
				negCl = mc.Fn.(*ssa.Function)
			}
		}
		if nPos != 1 || nNeg != 1 {
			return false, fmt.Sprintf("a path iterates the positive store %d time(s) and the negative store %d time(s)", nPos, nNeg)
		}
		// the zero bucket may only add 0·zero
		for _, e := range p.Effects {
			if e.Kind == "store" && e.Val != nil && e.Val.isBin("+") {
				okZ := false
				for i := 0; i < 2; i++ {
					y := e.Val.Args[1-i]
					if y.isBin("*") && (y.Args[0].isConst("0") && isRecvField(y.Args[1], a.zeroField) || y.Args[1].isConst("0") && isRecvField(y.Args[0], a.zeroField)) {
						okZ = true
					}
				}
				if !okZ {
					return false, "the sum receives something else than 0·zero outside the store iterations: " + e.String()
				}
			}
		}
	}
	for _, side := range []struct {
		cl  *ssa.Function
		neg bool
	}{{posCl, false}, {negCl, true}} {
		if side.cl == nil {
			return false, "a store is not iterated with a closure"
		}
		ps, _ := exec(c, side.cl, nil, 1)
		if len(ps) == 0 {
			return false, "closure without path"
		}
		for _, p := range ps {
			if !p.RetT[0].isConst("false") {
				return false, "accumulating callback may stop the iteration: " + describeRet(p)
			}
			acc := false
			for _, e := range p.Effects {
				if e.Kind != "store" || e.Addr.Op != "free" || !e.Val.isBin("+") {
					continue
				}
				for i := 0; i < 2; i++ {
					x, y := e.Val.Args[i], e.Val.Args[1-i]
					if x.unver().Key() != e.Addr.Key() || !y.isBin("*") {
						continue
					}
					for j := 0; j < 2; j++ {
						v, cnt := y.Args[j], y.Args[1-j]
						if !cnt.isParam(1) {
							continue
						}
						if side.neg {
							if v.Op != "un" || v.Sym != "-" {
								continue
							}
							v = v.Args[0]
						}
						if isMethodCall(v, "Value") && len(v.Args) == 2 && isRecvField(v.Args[0], a.mapField) && v.Args[1].isParam(0) {
							acc = true
						}
					}
				}
			}
			if !acc {
				sg := "Value(index)·count"
				if side.neg {
					sg = "−Value(index)·count"
				}
				return false, "a store callback does not add " + sg + " to the captured sum"
			}
		}
	}
	return true, "written out over both stores"
}

// isSideStore: the receiver's store field fld, also when it is seen through a type assertion to its concrete kind.
func isSideStore(t *Term, fld string) bool {
	t = t.unver()
	if t != nil && t.Op == "extract" && t.Sym == "0" && len(t.Args) == 1 && t.Args[0].Op == "assert" && len(t.Args[0].Args) == 1 {
		t = t.Args[0].Args[0]
	}
	return isRecvField(t, fld)
}
