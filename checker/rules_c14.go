package main

import (
	"fmt"
	"go/ast"
	"go/token"
	"go/types"
	"sort"
	"strings"

	"golang.org/x/tools/go/ssa"
)

// C14 — queries are pure and copies are independent.

func init() {
	register("C14",
		"DECIDED (interprocedural, field-sensitive write-set and alias-origin analysis over SSA; interface calls resolved to every module implementation): "+
			"D1 purity — for every read-only operation of both sketch variants, every Store implementation, every IndexMapping implementation and the statistics object, the observable write set rooted at the inspected object is empty; the only writes that remain when nothing is factored out are those of the paginated store's sort routine (buffer elements) and compaction routine (its own representation fields), which are themselves checked to write nothing else. The argument of every MergeWith and the receiver of ChangeMapping have the same obligation. "+
			"D2 copy independence — for every Copy (5 stores, 2 sketches, statistics): everything reachable from the result was allocated during the call (deep origin analysis through slices of slices, maps and nested copies), except the index mapping, which is shared and is proven immutable (no store to a field of any mapping struct outside a freshly allocated object); every field of the struct is defined by the copy; the dynamic type of the result is the receiver's. "+
			"D3 ChangeMapping: nothing reachable from the result originates in the receiver except through Copy()/the immutable mapping; the stores of the result are the caller-supplied ones. "+
			"D5 no package-level state — no exported function or method of the module (the reflection plumbing of the protoc-generated message file excepted) writes, directly or through anything it calls, memory reachable from a package-level variable: a reused builder, a scratch buffer or a 'last result' cache would make one sketch's answers depend on other sketches' operations, on overlapping calls and on re-entrant writers. "+
			"D6 detached snapshots — nothing reachable from the message returned by any ToProto (stores, both sketch variants, mappings) is memory of the receiver or of a package-level variable. "+
			"SHARED (re-evaluated here under its home rule id): C04-D3 (the iteration queries: every callback verdict honoured, empty entries skipped, both paginated iterators sort the buffer before they walk it and agree). C08-D4 batch-room (the compaction trigger is moved by read-only operations; the decoder's batch size computed from it is non-negative whatever its value, so no later answer depends on an earlier read). "+
			"NOT DECIDED: that sorting and compaction preserve the represented index→count map (value statement; the one trusted assumption of this check).",
		"one obligation per (read-only operation × implementation), per Copy × (origin, each field, dynamic type), per mapping-field store; non-trivial = the write set / origin set had to be computed through at least one call",
		true, runC14)
}

var sketchReadOnly = []string{"GetValueAtQuantile", "GetValuesAtQuantiles", "GetCount", "GetZeroCount", "IsEmpty", "GetMinValue", "GetMaxValue", "GetSum",
	"ForEach", "ToProto", "EncodeProto", "Encode", "Copy", "GetPositiveValueStore", "GetNegativeValueStore", "RelativeAccuracy", "ChangeMapping"}
var storeReadOnly = []string{"TotalCount", "IsEmpty", "MinIndex", "MaxIndex", "KeyAtRank", "ForEach", "Bins", "ToProto", "EncodeProto", "Encode", "Copy"}
var statReadOnly = []string{"Count", "Sum", "Min", "Max", "Copy"}

func runC14(c *Ctx) {
	a, err := c.anchors()
	if err != nil {
		c.R.undecided("C14", "anchors", "", "", "sketch anchors resolve", err.Error())
		return
	}
	pr := c.paginated()
	if pr.err != "" {
		c.R.undecided("C14", "anchor/paginated-routines", "", "", "sort/compaction routines resolve by role", pr.err)
		return
	}
	c14Purity(c, a, pr)
	c14Copies(c, a)
	c14ChangeMapping(c, a)
	// being the argument of a merge: not written, and no reference into it is kept by the receiver (a kept
	// reference lets later operations on the receiver alter the argument's answers)
	c02ArgUntouched(c, a, "C14-D4")
	c14NoPackageState(c, "C14-D5")
	c14Detached(c, "C14-D6")
	// "even though some stores reorganise themselves internally while answering": the iteration queries of the paginated
	// store answer from the reorganised (sorted) buffer — both iterators sort before they walk, skip nothing, agree
	if storeI := c.P.NamedType(pkgStore, "Store"); storeI != nil {
		c.shared(func() { c04Iteration(c, c.P.Implementations(storeI), "C04-D3") }, func(o *Obligation) bool { return true })
	}
	// read-only operations of the paginated store may move its compaction trigger (a representation field outside the
	// observable write set): nothing observable may depend on where it stands — the decoder's batch size, computed
	// from it, is non-negative whatever its value (C08-D4 batch-room, re-evaluated here)
	if pr.typ != nil {
		if f := c.P.DeclaredMethod(pr.typ, "DecodeAndMergeWith"); f != nil {
			c.shared(func() { c08BatchSizes(c, "C08-D4", withNewHelpers(f)) }, func(o *Obligation) bool { return true })
		}
	}
}

// checkNoObservableWrite: the observable write set of f rooted at parameter idx is empty.
func checkNoObservableWrite(c *Ctx, rule, key string, f *ssa.Function, idx int, what string) {
	m2 := c.Mod2()
	mods := m2.ModsRooted(f, idx)
	full := c.Mod.ModsRooted(f, idx)
	// a scratch buffer — a field no code reads except to empty it first — is not observable state
	if idx < len(f.Params) {
		keep := func(ls []string) []string {
			var out []string
			for _, l := range ls {
				if !c.locIsScratch(f.Params[idx].Type(), l) {
					out = append(out, l)
				}
			}
			return out
		}
		mods, full = keep(mods), keep(full)
	}
	found := "observable write set empty"
	if len(full) > 0 {
		found += "; representation-only writes via sort/compaction: " + strings.Join(full, " ")
	}
	if len(mods) > 0 {
		found = "writes " + what + strings.Join(mods, ", "+what)
	}
	o := &Obligation{Rule: rule, Key: key, Func: shortFn(f), Pos: c.fpos(f), Expected: "no observable write to " + what, Found: found, Status: OK}
	if len(mods) > 0 {
		o.Status = Violation
	}
	if len(full) == 0 && len(f.Blocks) <= 1 {
		o.Trivial = true
	}
	c.R.add(o)
}

func c14Purity(c *Ctx, a *sketchAnchors, pr *paginatedRoles) {
	const rule = "C14-D1"
	n := 0
	// sketches
	for _, t := range []*types.Named{a.DDSketch, a.Exact} {
		for _, name := range sketchReadOnly {
			f := c.P.MethodOf(t, name)
			if f == nil {
				c.R.undecided(rule, fmt.Sprintf("%s.%s", t.Obj().Name(), name), "", "", "read-only operation exists", "method not found")
				continue
			}
			n++
			checkNoObservableWrite(c, rule, fmt.Sprintf("%s.%s/receiver", t.Obj().Name(), name), f, 0, "receiver")
		}
		if f := c.P.MethodOf(t, "MergeWith"); f != nil {
			n++
			checkNoObservableWrite(c, rule, fmt.Sprintf("%s.MergeWith/argument", t.Obj().Name()), f, 1, "argument")
		}
	}
	// stores
	storeI := c.P.NamedType(pkgStore, "Store")
	for _, t := range c.P.Implementations(storeI) {
		for _, name := range storeReadOnly {
			f := c.P.MethodOf(t, name)
			if f == nil {
				continue
			}
			n++
			checkNoObservableWrite(c, rule, fmt.Sprintf("%s.%s/receiver", t.Obj().Name(), name), f, 0, "receiver")
		}
		if f := c.P.MethodOf(t, "MergeWith"); f != nil {
			n++
			checkNoObservableWrite(c, rule, fmt.Sprintf("%s.MergeWith/argument", t.Obj().Name()), f, 1, "argument")
		}
	}
	// mappings: every interface method
	mapI := c.P.NamedType(pkgMapping, "IndexMapping")
	it := mapI.Underlying().(*types.Interface)
	for _, t := range c.P.Implementations(mapI) {
		for i := 0; i < it.NumMethods(); i++ {
			name := it.Method(i).Name()
			f := c.P.MethodOf(t, name)
			if f == nil {
				continue
			}
			n++
			checkNoObservableWrite(c, rule, fmt.Sprintf("%s.%s/receiver", t.Obj().Name(), name), f, 0, "receiver")
			if name == "Equals" {
				checkNoObservableWrite(c, rule, fmt.Sprintf("%s.%s/argument", t.Obj().Name(), name), f, 1, "argument")
			}
		}
	}
	// statistics
	st := c.P.NamedType(pkgStat, "SummaryStatistics")
	for _, name := range statReadOnly {
		if f := c.P.MethodOf(st, name); f != nil {
			n++
			checkNoObservableWrite(c, rule, "SummaryStatistics."+name+"/receiver", f, 0, "receiver")
		}
	}
	if f := c.P.MethodOf(st, "MergeWith"); f != nil {
		n++
		checkNoObservableWrite(c, rule, "SummaryStatistics.MergeWith/argument", f, 1, "argument")
	}
	c.R.floor(rule, "read-only (operation × implementation) instances", n, 120)

	// the factored-out routines write only what they are allowed to
	if pr.sort != nil && pr.sortFlag != "" {
		c14SortFlag(c, pr)
	} else if pr.sort != nil {
		sortMods := c.Mod.ModsRooted(pr.sort, 0)
		okSort := len(sortMods) == 1 && sortMods[0] == "."+pr.bufFld+"[*]" && len(c.Mod.Mods[pr.sort]) == 1
		c.R.check(okSort, rule, "paginated/sort-routine-writes", shortFn(pr.sort), c.fpos(pr.sort), "the sort routine only permutes the elements of the buffer", strings.Join(c.Mod.Mods[pr.sort].sorted(), " "))
	} else {
		c.R.trivial(rule, "paginated/sort-routine-writes", "", "", "the buffer is sorted with sort.Ints written out at each use (library summary: permutes its argument)", "no separate sort routine")
	}
	okC := true
	var cm []string
	flds := map[string]bool{}
	for _, f := range structFields(pr.typ) {
		flds[f.Name()] = true
	}
	for l := range c.Mod.Mods[pr.compact] {
		cm = append(cm, l)
		if locRoot(l) != "p0" {
			okC = false
			continue
		}
		rest := strings.TrimPrefix(locRest(l), ".")
		name := rest
		if i := strings.IndexAny(rest, ".["); i >= 0 {
			name = rest[:i]
		}
		if !flds[name] {
			okC = false
		}
	}
	sort.Strings(cm)
	c.R.check(okC && len(cm) > 0, rule, "paginated/compaction-routine-writes", shortFn(pr.compact), c.fpos(pr.compact), "the compaction routine writes only fields of its own store", strings.Join(cm, " "))
	c.R.assume("ASSUMED (not decided): sortBuffer and compact of BufferedPaginatedStore preserve the represented index→count map; their writes are factored out of the purity obligation")
	var ap []string
	for k := range c.Mod.AssumedPure {
		ap = append(ap, k)
	}
	sort.Strings(ap)
	if len(ap) > 0 {
		c.R.assume("library functions summarised as writing nothing: " + strings.Join(ap, ", "))
	}
	c.R.assume("library summaries: sort.Ints/Float64s/Slice permute their argument; copy/delete/clear write their first argument; binary.LittleEndian.PutUint64 writes its buffer; protowire.Append* return their first argument; io.Writer.Write and library pointer-receiver methods write their receiver; math, math/bits, errors, fmt are pure")
	var dc []string
	for k := range c.Mod.DynCalls {
		dc = append(dc, k)
	}
	sort.Strings(dc)
	c.R.assume(fmt.Sprintf("calls through function values whose target is a caller-supplied callback are assumed not to write the inspected object (%d such call sites; closures created inside the module are attributed to their creator)", len(dc)))
}

// mappingImmutable: no store to a field of a mapping struct unless the struct was allocated in the same function.
func mappingImmutable(c *Ctx, rule string) bool {
	mapI := c.P.NamedType(pkgMapping, "IndexMapping")
	impls := c.P.Implementations(mapI)
	isMap := map[string]bool{}
	for _, t := range impls {
		isMap[t.String()] = true
	}
	all := true
	nStores := 0
	for _, f := range c.P.Funcs {
		a := c.Mod.fnCtx(f)
		for _, b := range f.Blocks {
			for _, in := range b.Instrs {
				st, ok := in.(*ssa.Store)
				if !ok {
					continue
				}
				fa, ok := st.Addr.(*ssa.FieldAddr)
				if !ok {
					continue
				}
				pt, ok := fa.X.Type().Underlying().(*types.Pointer)
				if !ok || !isMap[pt.Elem().String()] {
					continue
				}
				nStores++
				fresh := true
				for l := range a.derive(fa.X) {
					if !strings.HasPrefix(locRoot(l), "a:") {
						fresh = false
					}
				}
				fld := fieldName(fa.X.Type(), fa.Field)
				key := fmt.Sprintf("mapping-immutable/%s/%s.%s", shortFn(f), pt.Elem().(*types.Named).Obj().Name(), fld)
				if !fresh {
					all = false
				}
				c.R.check(fresh, rule, key, shortFn(f), c.ipos(st), "mapping fields are written only on an object allocated in the same function (constructor)", fmt.Sprintf("store to %s of %v", fld, a.derive(fa.X).sorted()))
			}
		}
	}
	c.R.floor(rule, "stores to mapping struct fields (constructors)", nStores, 15)
	return all
}

func c14Copies(c *Ctx, a *sketchAnchors) {
	const rule = "C14-D2"
	immutable := mappingImmutable(c, rule)
	type cp struct {
		t     *types.Named
		allow func(l string) bool
	}
	var cps []cp
	mapAllowed := func(prefix string) func(string) bool {
		return func(l string) bool {
			return immutable && (l == prefix || strings.HasPrefix(l, prefix+".") || strings.HasPrefix(l, prefix+"["))
		}
	}
	cps = append(cps, cp{a.DDSketch, mapAllowed("p0." + a.mapField)})
	cps = append(cps, cp{a.Exact, mapAllowed("p0." + a.innerFld + "." + a.mapField)})
	storeI := c.P.NamedType(pkgStore, "Store")
	for _, t := range c.P.Implementations(storeI) {
		cps = append(cps, cp{t, func(string) bool { return false }})
	}
	cps = append(cps, cp{c.P.NamedType(pkgStat, "SummaryStatistics"), func(string) bool { return false }})
	n := 0
	for _, x := range cps {
		f := c.P.DeclaredMethod(x.t, "Copy")
		tname := x.t.Obj().Name()
		if f == nil {
			c.R.violate(rule, tname+".Copy/declared", tname, "", "Copy is declared on the type itself (a promoted Copy would return the embedded type)", "no declared Copy")
			continue
		}
		n++
		paths, _ := exec(c, f, nil, 2)
		// per path: the final value of every field of the returned object (last store wins; a whole-struct
		// copy `*r = *s` defines every field from the receiver's same field)
		fields := flatFields(x.t, "")
		fresh := true
		var badOrig []string
		for _, fld := range fields {
			if fv := structFieldVar(x.t, fld.path); fv != nil && !c.fieldCarriesState(fv) {
				continue // nobody reads it (or only to empty it first): nothing a copy could fail to carry over
			}
			ok := len(paths) > 0
			found := ""
			for _, p := range paths {
				v := finalFieldValue(p, fld.path, fields)
				if v == nil {
					ok = false
					found = "field not defined by the copy on path [" + p.String() + "]"
					break
				}
				found = v.Key()
				if !isRefLike(fld.typ) {
					if !termIsRecvPath(v, fld.path) {
						ok = false
					}
					continue
				}
				// a slice field filled with a fresh `make` receives the receiver's elements: copy(fresh, receiver's same
				// field) — or, for a slice of slices, element stores — on the same path (a fresh slice of the right
				// length alone is an all-zero copy)
				if g := stripVers(stripConv(v)); g.Op == "make" {
					if sl, isSl := fld.typ.Underlying().(*types.Slice); isSl {
						_, nested := sl.Elem().Underlying().(*types.Slice)
						filled := false
						for _, e := range p.Effects {
							if e.Kind == "call" && e.Call.Op == "builtin" && e.Call.Sym == "copy" && len(e.Call.Args) == 2 && termIsRecvPath(stripVers(e.Call.Args[1]), fld.path) {
								dst := stripVers(e.Call.Args[0])
								// the fresh slice itself, or the copy's field it was just stored into (`c.bins = make(…); copy(c.bins, s.bins)`)
								viaField := false
								if len(p.RetT) > 0 {
									x, q := dst, []string{}
									for x.Op == "field" && len(x.Args) == 1 && !sameVal(x, p.RetT[0]) {
										q = append([]string{x.Sym}, q...)
										x = stripVers(x.Args[0])
									}
									if sameVal(x, stripVers(p.RetT[0])) && strings.Join(q, ".") == strings.Join(fld.path, ".") {
										viaField = true
									}
								}
								if dst.Key() == g.Key() || viaField {
									filled = true
								}
							}
							if nested && e.Kind == "store" && e.Addr.Op == "index" && stripVers(e.Addr.Args[0]).Key() == g.Key() {
								filled = true
							}
						}
						// a slice of slices is filled inside a loop the path may not have entered: look for the element
						// copy anywhere in the function
						if nested && !filled {
							for _, b := range f.Blocks {
								for _, in := range b.Instrs {
									if call, isCall := in.(*ssa.Call); isCall {
										if bi, isB := call.Common().Value.(*ssa.Builtin); isB && bi.Name() == "copy" {
											filled = true
										}
									}
								}
							}
						}
						if !filled {
							ok = false
							found = "a fresh slice that never receives the receiver's elements: " + g.Key()
							continue
						}
					}
				}
				// slices.Clone / maps.Clone of the receiver's SAME field: a fresh copy with the receiver's elements
				if cv := stripVers(stripConv(v)); cv.Op == "call" && (cv.Sym == "slices.Clone" || cv.Sym == "maps.Clone") && len(cv.Args) == 1 {
					if !termIsRecvPath(stripVers(cv.Args[0]), fld.path) {
						ok = false
						found = "filled with the clone of something else: " + v.Key()
					}
				}
				// a field filled with x.Copy() takes it from the receiver's SAME field (the positive store's copy is
				// the copy's positive store)
				if cv := stripConv(v); isMethodCall(cv, "Copy") && len(cv.Args) >= 1 {
					src := cv.Args[0].unver()
					root := src
					for root.Op == "field" && len(root.Args) == 1 {
						root = root.Args[0].unver()
					}
					if root.isParam(0) && src.Op == "field" && !termIsRecvPath(src, fld.path) {
						ok = false
						found = "filled with the copy of another field: " + v.Key()
					}
				}
				// reference-typed field: everything reachable from it must be fresh
				var origins []string
				if v.V == nil {
					origins = []string{"p0." + strings.Join(fld.path, ".")} // carried over by a whole-struct copy
				} else {
					origins = c.Mod.DeepOriginsOf(f, v.V).sorted()
				}
				for _, l := range origins {
					if !x.allow(l) {
						fresh = false
						badOrig = append(badOrig, fmt.Sprintf("%s ← %s on path [%s]", strings.Join(fld.path, "."), l, p.String()))
					}
				}
			}
			exp := "copy defines " + strings.Join(fld.path, ".")
			if !isRefLike(fld.typ) {
				exp += " from the receiver's same field"
			}
			c.R.check(ok, rule, tname+".Copy/field/"+strings.Join(fld.path, "."), shortFn(f), c.fpos(f), exp, found)
		}
		// results that are not a local object (e.g. `return otherConstructor(…)`): function-level origins
		for _, p := range paths {
			if len(p.RetT) == 1 && p.RetT[0].Op != "alloc" {
				for l := range c.Mod.DeepOrigins(f) {
					if !x.allow(l) {
						fresh = false
						badOrig = append(badOrig, l)
					}
				}
			}
		}
		// map-typed fields: the copy holds the receiver's entries verbatim — written by a map update whose key and value are
		// those of one range step over the receiver's map. Filling the copy through an adding entry point (MergeWith,
		// AddWithCount) filters entries (zero weights) that the original still reports through MinIndex/MaxIndex/IsEmpty.
		for _, fld := range fields {
			if _, isMap := fld.typ.Underlying().(*types.Map); !isMap {
				continue
			}
			if fv := structFieldVar(x.t, fld.path); fv != nil && !c.fieldCarriesState(fv) {
				continue
			}
			verbatim := false
			tcm := newTermCtx(c.P)
			for _, b := range f.Blocks {
				for _, in := range b.Instrs {
					// maps.Clone(receiver's same map): verbatim by definition
					if call, isCall := in.(*ssa.Call); isCall {
						if cal := call.Common().StaticCallee(); cal != nil && libName(cal) == "maps.Clone" && len(call.Common().Args) == 1 && termIsRecvPath(stripVers(tcm.Of(call.Common().Args[0])), fld.path) {
							verbatim = true
						}
					}
					mu, ok := in.(*ssa.MapUpdate)
					if !ok {
						continue
					}
					k, v := tcm.Of(mu.Key), tcm.Of(mu.Value)
					if k.Op == "extract" && k.Sym == "1" && v.Op == "extract" && v.Sym == "2" && sameVal(k.Args[0], v.Args[0]) && k.Args[0].Op == "next" {
						r := k.Args[0].Args[0]
						if r.Op == "range" && termIsRecvPath(r.Args[0], fld.path) {
							verbatim = true
						}
					}
				}
			}
			c.R.check(verbatim, rule, tname+".Copy/entries/"+strings.Join(fld.path, "."), shortFn(f), c.fpos(f), "every entry of the receiver's map is copied verbatim (copy[k] = v over one range of the map), not re-added through a filtering entry point", fmt.Sprintf("verbatim=%v", verbatim))
		}
		sort.Strings(badOrig)
		c.R.check(fresh, rule, tname+".Copy/deep-fresh", shortFn(f), c.fpos(f), "on every path, everything reachable from each reference-typed field of the copy is freshly allocated (the proven-immutable mapping excepted)",
			firstNonEmpty(strings.Join(uniqStrs(badOrig), "; "), "all reference fields fresh on "+fmt.Sprint(len(paths))+" path(s)"))
		okT := len(paths) > 0
		foundT := ""
		for _, p := range paths {
			if len(p.RetT) != 1 {
				okT = false
				continue
			}
			rt := p.RetT[0]
			if rt.V == nil {
				okT = false
				continue
			}
			ty := rt.V.Type()
			foundT = ty.String()
			if pt, ok := ty.Underlying().(*types.Pointer); !ok || pt.Elem().String() != x.t.String() {
				okT = false
			}
		}
		c.R.check(okT, rule, tname+".Copy/dynamic-type", shortFn(f), c.fpos(f), "the copy has the receiver's own concrete type *"+tname, foundT)
	}
	c.R.floor(rule, "Copy implementations", n, 8)
}

type flatField struct {
	path []string
	typ  types.Type
}

// flatFields lists the fields of a struct, descending into embedded/by-value struct fields.
func flatFields(n types.Type, _ string) []flatField {
	var out []flatField
	st, ok := n.Underlying().(*types.Struct)
	if !ok {
		return nil
	}
	for i := 0; i < st.NumFields(); i++ {
		f := st.Field(i)
		if inner, ok := f.Type().Underlying().(*types.Struct); ok && f.Embedded() {
			_ = inner
			for _, sub := range flatFields(f.Type(), "") {
				out = append(out, flatField{append([]string{f.Name()}, sub.path...), sub.typ})
			}
			continue
		}
		out = append(out, flatField{[]string{f.Name()}, f.Type()})
	}
	return out
}

// copyFieldValue: the value stored on path p into result.<path…>
func copyFieldValue(p *Path, path []string) *Term {
	if len(p.RetT) == 0 {
		return nil
	}
	r := p.RetT[0]
	var val *Term
	for _, e := range p.Effects {
		if e.Kind != "store" {
			continue
		}
		// address must be field chain path over r
		x := e.Addr
		ok := true
		for i := len(path) - 1; i >= 0; i-- {
			if x.Op != "field" || x.Sym != path[i] {
				ok = false
				break
			}
			x = x.Args[0]
		}
		if ok && sameVal(x, r) {
			val = e.Val
		}
		// whole-struct store into an embedded struct: result.DenseStore <- T{…} is decomposed by SSA into field stores; nothing to do
	}
	return val
}

func termIsRecvPath(v *Term, path []string) bool {
	x := v.unver()
	for i := len(path) - 1; i >= 0; i-- {
		if x.Op != "field" || x.Sym != path[i] {
			return false
		}
		x = x.Args[0].unver()
	}
	return x.isRecv()
}

func c14ChangeMapping(c *Ctx, a *sketchAnchors) {
	const rule = "C14-D3"
	f := c.P.DeclaredMethod(a.DDSketch, "ChangeMapping")
	if !c.mustFunc(rule, f, "(*DDSketch).ChangeMapping") {
		return
	}
	var bad []string
	for l := range c.Mod.DeepOrigins(f) {
		root := locRoot(l)
		if root == "p0" && !(l == "p0."+a.mapField || strings.HasPrefix(l, "p0."+a.mapField+".")) {
			bad = append(bad, l)
		}
	}
	sort.Strings(bad)
	c.R.check(len(bad) == 0, rule, "(*DDSketch).ChangeMapping/result-not-aliasing-receiver", shortFn(f), c.fpos(f),
		"nothing reachable from the result originates in the receiver (except the immutable mapping through Copy())", firstNonEmpty(strings.Join(bad, " "), "origins: "+strings.Join(c.Mod.DeepOrigins(f).sorted(), " ")))
	fe := c.P.DeclaredMethod(a.Exact, "ChangeMapping")
	if c.mustFunc(rule, fe, "(*Exact).ChangeMapping") {
		var bad []string
		pfx := "p0." + a.innerFld + "." + a.mapField
		for l := range c.Mod.DeepOrigins(fe) {
			if locRoot(l) == "p0" && !(l == pfx || strings.HasPrefix(l, pfx+".")) {
				bad = append(bad, l)
			}
		}
		sort.Strings(bad)
		c.R.check(len(bad) == 0, rule, "(*Exact).ChangeMapping/result-not-aliasing-receiver", shortFn(fe), c.fpos(fe),
			"nothing reachable from the result originates in the receiver (statistics are copied)", firstNonEmpty(strings.Join(bad, " "), "origins: "+strings.Join(c.Mod.DeepOrigins(fe).sorted(), " ")))
	}
}

func uniqStrs(in []string) []string {
	var out []string
	seen := map[string]bool{}
	for _, x := range in {
		if !seen[x] {
			seen[x] = true
			out = append(out, x)
		}
	}
	return out
}

// finalFieldValue: the value the field result.<path> holds when path p returns. Handles field-wise
// initialisation (composite literals) and whole-struct stores (`*r = *s`, `r.Embedded = s.Embedded`).
func finalFieldValue(p *Path, path []string, all []flatField) *Term {
	if len(p.RetT) == 0 {
		return nil
	}
	return fieldValueAt(p, p.RetT[0], path, 1<<30, 0)
}

// fieldValueAt: the value base.<path> holds on p just before effect number upTo. A whole-struct store from a
// local struct value (`d := T{…}; r.Embedded = d`) is looked through: the field of the local at the time of the copy.
func fieldValueAt(p *Path, r *Term, path []string, upTo int, depth int) *Term {
	var val *Term
	for _, e := range p.Effects {
		if e.Kind != "store" || e.Seq >= upTo {
			continue
		}
		// address = field chain q over r, with q a prefix of path
		var q []string
		x := e.Addr
		for x.Op == "field" && !sameVal(x, r) {
			q = append([]string{x.Sym}, q...)
			x = x.Args[0]
		}
		if !sameVal(x, r) || len(q) > len(path) {
			continue
		}
		pref := true
		for i := range q {
			if q[i] != path[i] {
				pref = false
			}
		}
		if !pref {
			continue
		}
		if len(q) == len(path) {
			val = e.Val
			continue
		}
		// whole-struct store covering this field: the field of the stored struct value
		src := e.Val
		if src.Op == "load" {
			src = src.Args[0]
		}
		if src.Op == "alloc" && depth < 4 {
			if v := fieldValueAt(p, src, path[len(q):], e.Seq, depth+1); v != nil {
				val = v
				continue
			}
		}
		t := src
		for _, name := range path[len(q):] {
			t = mk("field", name, nil, t)
		}
		val = t
	}
	return val
}

// c14SortFlag: the store caches "the buffer is sorted" in a bool field so that the sort routine can return at once.
// The cache is invisible (it is excluded from the observable write sets) only if it can never claim sortedness
// wrongly — a typestate obligation:
//
//	(a) the sort routine skips sorting only under flag == true and raises the flag only after sort.Ints(whole buffer);
//	(b) outside the sort and compaction routines, every path that appends to or overwrites the buffer lowers the flag
//	    on that path, or shows evidence that sortedness is kept: the flag was already false, the buffer was empty
//	    before a single append, or the appended index was compared with the last element;
//	(c) the flag is raised elsewhere only together with emptying the buffer (Clear) or in a constructor.
//
// Copy/Clear coverage of the field is C14-D2 / C15-D1 like for any other field.
func c14SortFlag(c *Ctx, pr *paginatedRoles) {
	const rule = "C14-D1"
	flag := pr.sortFlag
	// (a)
	{
		ps, _ := exec(c, pr.sort, nil, 1)
		for i, p := range ps {
			sorted, raise := 0, 0
			other := ""
			for _, e := range p.Writes() {
				switch {
				case e.Kind == "call" && e.Call.Op == "call" && e.Call.Sym == "sort.Ints" && len(e.Call.Args) == 1 && isRecvField(e.Call.Args[0].unver(), pr.bufFld):
					sorted = e.Seq
				case e.Kind == "store" && isRecvField(e.Addr, flag) && e.Val.isConst("true"):
					raise = e.Seq
				default:
					other = e.String()
				}
			}
			flagSet, tested := pathCond(p, func(t *Term) bool { return isRecvField(t, flag) })
			key := fmt.Sprintf("paginated/sorted-flag/%s/path%d[%s]", shortFn(pr.sort), i, pathSig(p))
			if sorted == 0 {
				c.R.check(tested && flagSet && raise == 0 && other == "", rule, key, shortFn(pr.sort), c.fpos(pr.sort), "sorting is skipped only when the flag is set; nothing else is written", "["+p.String()+"] "+other)
			} else {
				c.R.check(raise > sorted && other == "", rule, key, shortFn(pr.sort), c.fpos(pr.sort), "the flag is raised only after sort.Ints(buffer); nothing else is written", fmt.Sprintf("sort at step %d, raise at step %d %s", sorted, raise, other))
			}
		}
	}
	// (b), (c)
	n := 0
	for i := 0; i < pr.typ.NumMethods(); i++ {
		f := c.P.SSA.FuncValue(pr.typ.Method(i))
		if f == nil || f == pr.sort || f == pr.compact {
			continue
		}
		ps, _ := execWith(c, f, nil, 2, func(cal *ssa.Function) bool { return cal != pr.sort && cal != pr.compact && inlineNewHelpers(cal) })
		bad := ""
		writes := 0
		for _, p := range ps {
			unsorting, lowered, raised, emptied := false, false, false, false
			for _, e := range p.Effects {
				if e.Kind != "store" {
					continue
				}
				a := e.Addr.unver()
				switch {
				case isRecvField(a, pr.bufFld):
					v := e.Val
					if v.Op == "slice" && len(v.Args) == 3 && isRecvField(v.Args[0].unver(), pr.bufFld) {
						// a reslice of itself keeps the order; [:0] empties it
						if v.Args[2].isConst("0") {
							emptied = true
						}
					} else {
						unsorting = true
					}
				case a.Op == "index" && isRecvField(a.Args[0].unver(), pr.bufFld):
					unsorting = true
				case isRecvField(a, flag):
					if e.Val.isConst("false") {
						lowered = true
					} else if !(e.Val.Op == "field" && e.Val.Sym == flag) {
						raised = true
					}
				}
			}
			if unsorting {
				writes++
				evidence := lowered
				for _, cd := range p.Conds {
					t := cd.Term
					switch {
					case isRecvField(t.unver(), flag) && !cd.Taken: // already marked unsorted
						evidence = true
					case t.isBin("<") && t.Args[0].isConst("0") && t.Args[1].Op == "builtin" && t.Args[1].Sym == "len" && isRecvField(t.Args[1].Args[0].unver(), pr.bufFld) && !cd.Taken && !p.hasLoopStoreTo(pr.bufFld):
						evidence = true // the buffer was empty: a single append keeps it sorted
					default:
						// an ordering test against the last element of the buffer
						hit := false
						t.walk(func(x *Term) bool {
							if x.Op == "index" && isRecvField(x.Args[0].unver(), pr.bufFld) {
								l := linearOf(x.Args[1])
								if l.Const == -1 && len(l.Coef) == 1 {
									hit = true
								}
							}
							return true
						})
						if hit && (t.isBin("<") || t.isBin("<=")) {
							evidence = true
						}
					}
				}
				if !evidence {
					bad = "the buffer is appended to or overwritten on path [" + p.String() + "] without lowering the flag or showing that the order is kept"
				}
			}
			if raised && !emptied && f.Name() != "" {
				bad = firstNonEmpty(bad, "the flag is raised outside the sort routine without emptying the buffer: ["+p.String()+"]")
			}
		}
		if writes > 0 || bad != "" {
			n++
			c.R.check(bad == "", rule, "paginated/sorted-flag/maintained-by/"+f.Name(), shortFn(f), c.fpos(f), "every buffer write outside the sort/compaction routines lowers the sorted flag or shows that the order is kept; the flag is raised only by the sort routine or together with emptying the buffer", firstNonEmpty(bad, fmt.Sprintf("%d writing path(s)", writes)))
		}
	}
	c.R.floor(rule, "methods writing the buffer (sorted-flag maintenance)", n, 2)
}

// c14NoPackageState: no exported function or method of the module writes (directly or through anything it calls)
// memory reachable from a package-level variable. Package-level state is shared by every sketch in the process:
// a call that leaves something there (a reused builder, a scratch buffer, a "last result" cache) makes the result
// of one operation depend on other objects' operations — on calls that overlap in time, on re-entrant writers and
// on the history of unrelated sketches. Initialisation (package init and what only it calls) is exempt.
func c14NoPackageState(c *Ctx, rule string) {
	n := 0
	for _, f := range c.P.Funcs {
		if !inModule(f) || f.Synthetic != "" || f.Parent() != nil || !ast.IsExported(f.Name()) || len(f.Blocks) == 0 {
			continue
		}
		if r := f.Signature.Recv(); r != nil {
			if nt := recvNamed(f); nt == nil || !nt.Obj().Exported() {
				continue
			}
		}
		if protocGenerated(c.P, f.Pos()) {
			continue // reflection plumbing of the generated messages: lazily initialised descriptors behind sync.Once
		}
		n++
		var gs []string
		for l := range c.Mod.Mods[f] {
			if strings.HasPrefix(locRoot(l), "g:") {
				gs = append(gs, l)
			}
		}
		sort.Strings(gs)
		o := &Obligation{Rule: rule, Key: helperKey(f) + "/no-package-state", Func: shortFn(f), Pos: c.fpos(f), Expected: "writes nothing reachable from a package-level variable", Found: "none", Status: OK}
		if len(gs) > 0 {
			o.Status = Violation
			o.Found = "writes " + strings.Join(gs, ", ")
		}
		if len(c.Mod.Mods[f]) == 0 {
			o.Trivial = true
		}
		c.R.add(o)
	}
	c.R.floor(rule, "exported functions and methods checked for package-level state", n, 200)
}

// protocGenerated: the position lies in a file carrying the standard marker of protoc-gen-go output.
func protocGenerated(p *Program, pos token.Pos) bool {
	if !pos.IsValid() {
		return false
	}
	for _, pkg := range p.Pkgs {
		for _, file := range pkg.Syntax {
			if file.FileStart <= pos && pos <= file.FileEnd {
				for _, cg := range file.Comments {
					if cg.Pos() > file.Package {
						break
					}
					for _, cm := range cg.List {
						if strings.HasPrefix(cm.Text, "// Code generated by protoc-gen-go.") {
							return true
						}
					}
				}
				return false
			}
		}
	}
	return false
}

// c14Detached (D6): a protobuf message handed out by ToProto is a snapshot — nothing reachable from it is memory of
// the object it was taken from (a message that shares the store's bin array changes when the sketch changes, and
// changing the message changes the sketch).
func c14Detached(c *Ctx, rule string) {
	n := 0
	for _, f := range c.P.Funcs {
		if !inModule(f) || f.Name() != "ToProto" || f.Signature.Recv() == nil || f.Synthetic != "" || len(f.Blocks) == 0 || protocGenerated(c.P, f.Pos()) {
			continue
		}
		n++
		var bad []string
		for _, b := range f.Blocks {
			for _, in := range b.Instrs {
				ret, ok := in.(*ssa.Return)
				if !ok || len(ret.Results) == 0 {
					continue
				}
				for _, l := range c.Mod.DeepOriginsOf(f, ret.Results[0]).sorted() {
					if locRoot(l) == "p0" || strings.HasPrefix(locRoot(l), "g:") {
						bad = append(bad, l)
					}
				}
			}
		}
		c.R.check(len(bad) == 0, rule, helperKey(f)+"/detached-snapshot", shortFn(f), c.fpos(f), "nothing reachable from the returned message is memory of the receiver", firstNonEmpty(strings.Join(uniqStrs(bad), ", "), "all fresh"))
	}
	c.R.floor(rule, "ToProto implementations", n, 7)
}
