package main

// Bit-provenance domain for the variable-length codecs (C18-D5).
//
// A 64-bit value is abstracted to 64 bit positions, each an affine form over GF(2): the XOR of a set of input bits and
// a constant, or ⊤ (unknown). Shifts, rotations, truncating conversions, complement, XOR, and AND / OR with constants
// are exact in this domain; AND / OR of two non-constant forms and arithmetic are ⊤ (arithmetic sub-terms that do not
// mention the bytes being decoded are opaque ROOTS: fresh input bits identified by the term). Path conditions of the
// form `x < 2^k`, `x == 0`, … become linear constraints (bits known 0 / 1), kept as a substitution in triangular form.
//
// With it the encoder and the decoder of one codec are composed WITHOUT running either: for every enumerated path of
// the encoder (a size class) and every enumerated path of the decoder, the bytes the encoder appends are substituted
// for the bytes the decoder reads; if the decoder's conditions are consistent with those bytes, the decoder must
// consume exactly the bytes produced and every bit of its result must be the same input bit it came from.

import (
	"fmt"
	"go/types"
	"sort"
	"strconv"
	"strings"

	"golang.org/x/tools/go/ssa"
)

type bform struct {
	top  bool
	c    bool
	vars []int // sorted, unique
}

func (f bform) isConst() bool { return !f.top && len(f.vars) == 0 }

func xorForms(a, b bform) bform {
	if a.top || b.top {
		return bform{top: true}
	}
	out := bform{c: a.c != b.c}
	i, j := 0, 0
	for i < len(a.vars) || j < len(b.vars) {
		switch {
		case j >= len(b.vars) || i < len(a.vars) && a.vars[i] < b.vars[j]:
			out.vars = append(out.vars, a.vars[i])
			i++
		case i >= len(a.vars) || b.vars[j] < a.vars[i]:
			out.vars = append(out.vars, b.vars[j])
			j++
		default: // equal: cancels
			i++
			j++
		}
	}
	return out
}

func (f bform) equal(g bform) bool {
	if f.top || g.top || f.c != g.c || len(f.vars) != len(g.vars) {
		return false
	}
	for i := range f.vars {
		if f.vars[i] != g.vars[i] {
			return false
		}
	}
	return true
}

type bv [64]bform

func constBV(u uint64) bv {
	var v bv
	for i := 0; i < 64; i++ {
		v[i] = bform{c: u>>uint(i)&1 == 1}
	}
	return v
}

type benv struct {
	nvars    int
	names    []string
	roots    map[string]int // opaque root term key -> first var id
	rootKeys []string
	bind     map[string]bv // term key -> value (parameters of expanded callees, results of delegated decoders)
	bytes    []bv          // bytes produced by the encoder, as read by the decoder ((*b)[i])
	subst    map[int]bform // var -> form (triangular)
	beyond   bool          // a byte beyond the produced ones was read
	sawTop   bool
}

func newBenv() *benv {
	return &benv{roots: map[string]int{}, bind: map[string]bv{}, subst: map[int]bform{}}
}

func (e *benv) clone() *benv {
	n := &benv{nvars: e.nvars, names: append([]string(nil), e.names...), roots: map[string]int{}, rootKeys: append([]string(nil), e.rootKeys...), bind: map[string]bv{}, subst: map[int]bform{}, bytes: append([]bv(nil), e.bytes...)}
	for k, v := range e.roots {
		n.roots[k] = v
	}
	for k, v := range e.bind {
		n.bind[k] = v
	}
	for k, v := range e.subst {
		n.subst[k] = v
	}
	return n
}

func (e *benv) root(key string) bv {
	base, ok := e.roots[key]
	if !ok {
		base = e.nvars
		e.roots[key] = base
		e.rootKeys = append(e.rootKeys, key)
		for i := 0; i < 64; i++ {
			e.names = append(e.names, fmt.Sprintf("bit %d of %s", i, shorten(key, 60)))
		}
		e.nvars += 64
	}
	var v bv
	for i := 0; i < 64; i++ {
		v[i] = bform{vars: []int{base + i}}
	}
	return v
}

func shorten(s string, n int) string {
	if len(s) <= n {
		return s
	}
	return s[:n] + "…"
}

// norm applies the substitution until no substituted variable is left.
func (e *benv) norm(f bform) bform {
	if f.top {
		return f
	}
	for iter := 0; iter < 200; iter++ {
		changed := false
		out := bform{c: f.c}
		for _, x := range f.vars {
			if s, ok := e.subst[x]; ok {
				out = xorForms(out, s)
				changed = true
			} else {
				out = xorForms(out, bform{vars: []int{x}})
			}
		}
		f = out
		if !changed {
			return f
		}
	}
	return bform{top: true}
}

// constrain adds f == c. Returns false if that is impossible.
func (e *benv) constrain(f bform, c bool) (feasible bool, understood bool) {
	f = e.norm(f)
	if f.top {
		return true, false
	}
	if len(f.vars) == 0 {
		return f.c == c, true
	}
	x := f.vars[len(f.vars)-1] // eliminate the highest variable
	rest := bform{c: f.c != c}
	for _, y := range f.vars {
		if y != x {
			rest.vars = append(rest.vars, y)
		}
	}
	e.subst[x] = rest
	return true, true
}

func bitwiseOp(sym string) bool {
	switch sym {
	case "|", "&", "^", "&^", "<<", ">>":
		return true
	}
	return false
}

// evaluable: the term is built from operations the domain interprets (the leaves may be anything).
func evaluableOp(t *Term) bool {
	switch t.Op {
	case "const", "param":
		return true
	case "conv":
		return true
	case "bin":
		return bitwiseOp(t.Sym)
	case "un":
		return t.Sym == "-" || t.Sym == "^"
	case "call":
		return t.Sym == "math/bits.RotateLeft64"
	case "index":
		return len(t.Args) == 2 && isBufLoad(t.Args[0].unver())
	}
	return false
}

func parseConst(sym string) (uint64, bool) {
	if v, err := strconv.ParseInt(sym, 0, 64); err == nil {
		return uint64(v), true
	}
	if v, err := strconv.ParseUint(sym, 0, 64); err == nil {
		return v, true
	}
	return 0, false
}

func signedTerm(t *Term) bool {
	if t == nil || t.V == nil {
		return false
	}
	if b, ok := t.V.Type().Underlying().(*types.Basic); ok {
		return b.Info()&types.IsInteger != 0 && b.Info()&types.IsUnsigned == 0
	}
	return false
}

func (e *benv) topBV() bv {
	e.sawTop = true
	var v bv
	for i := range v {
		v[i] = bform{top: true}
	}
	return v
}

func (e *benv) eval(t *Term) bv {
	t = t.unver()
	if b, ok := e.bind[t.Key()]; ok {
		return b
	}
	if !evaluableOp(t) {
		// an opaque sub-term: a root, unless it depends on the bytes being decoded
		dep := false
		t.walk(func(x *Term) bool {
			if x.Op == "index" && len(x.Args) == 2 && isBufLoad(x.Args[0].unver()) {
				dep = true
			}
			return true
		})
		if dep {
			return e.topBV()
		}
		return e.root(t.Key())
	}
	switch t.Op {
	case "const":
		if u, ok := parseConst(t.Sym); ok {
			return constBV(u)
		}
		if t.Sym == "true" || t.Sym == "false" {
			return e.topBV()
		}
		return e.root(t.Key())
	case "param":
		return e.root(t.Key())
	case "index":
		k, ok := lit(t.Args[1])
		if !ok || k < 0 {
			return e.topBV()
		}
		if int(k) >= len(e.bytes) {
			e.beyond = true
			return e.topBV()
		}
		return e.bytes[k]
	case "conv":
		x := e.eval(t.Args[0])
		width := 64
		switch t.Sym {
		case "byte", "uint8":
			width = 8
		case "uint16":
			width = 16
		case "uint32":
			width = 32
		case "uint64", "uint", "uintptr", "int64", "int":
			width = 64
			// widening a narrower signed value sign-extends: not modelled
			if signedTerm(t.Args[0].unver()) {
				if b, ok := t.Args[0].unver().V.Type().Underlying().(*types.Basic); ok && (b.Kind() == types.Int8 || b.Kind() == types.Int16 || b.Kind() == types.Int32) {
					return e.topBV()
				}
			}
		default:
			return e.topBV()
		}
		for i := width; i < 64; i++ {
			x[i] = bform{}
		}
		return x
	case "un":
		x := e.eval(t.Args[0])
		if t.Sym == "^" {
			for i := range x {
				if !x[i].top {
					x[i].c = !x[i].c
				}
			}
			return x
		}
		// −x for x ∈ {0, 1}: all bits equal bit 0
		for i := 1; i < 64; i++ {
			if f := e.norm(x[i]); !(f.isConst() && !f.c) {
				return e.topBV()
			}
		}
		var out bv
		for i := range out {
			out[i] = x[0]
		}
		return out
	case "call": // RotateLeft64(x, k)
		x := e.eval(t.Args[0])
		ku, ok := parseConst(t.Args[1].unver().Sym)
		if !ok || t.Args[1].unver().Op != "const" {
			return e.topBV()
		}
		k := int(int64(ku)) % 64
		if k < 0 {
			k += 64
		}
		var out bv
		for i := 0; i < 64; i++ {
			out[(i+k)%64] = x[i]
		}
		return out
	case "bin":
		switch t.Sym {
		case "<<", ">>":
			x := e.eval(t.Args[0])
			sh := t.Args[1].unver()
			if sh.Op == "conv" {
				sh = sh.Args[0].unver()
			}
			ku, ok := parseConst(sh.Sym)
			if !ok || sh.Op != "const" || int64(ku) < 0 && signedTerm(sh) {
				return e.topBV()
			}
			k := 64 // a shift count of 64 or more (an unsigned count that wrapped around included) shifts everything out
			if ku < 64 {
				k = int(ku)
			}
			var out bv
			if t.Sym == "<<" {
				for i := 0; i < 64; i++ {
					if i-k >= 0 {
						out[i] = x[i-k]
					}
				}
				return out
			}
			arith := false
			if b, ok := t.V.(*ssa.BinOp); ok {
				if bt, ok := b.X.Type().Underlying().(*types.Basic); ok && bt.Info()&types.IsUnsigned == 0 {
					arith = true
				}
			}
			for i := 0; i < 64; i++ {
				switch {
				case i+k < 64:
					out[i] = x[i+k]
				case arith:
					out[i] = x[63]
				}
			}
			return out
		default:
			x, y := e.eval(t.Args[0]), e.eval(t.Args[1])
			var out bv
			for i := 0; i < 64; i++ {
				a, b := e.norm(x[i]), e.norm(y[i])
				switch t.Sym {
				case "^":
					out[i] = xorForms(a, b)
				case "&", "&^":
					if t.Sym == "&^" && !b.top {
						b.c = !b.c
					}
					switch {
					case a.isConst() && !a.c, b.isConst() && !b.c:
						out[i] = bform{}
					case a.isConst() && a.c:
						out[i] = b
					case b.isConst() && b.c:
						out[i] = a
					case a.equal(b):
						out[i] = a
					default:
						out[i] = bform{top: true}
						e.sawTop = true
					}
				case "|":
					switch {
					case a.isConst() && a.c, b.isConst() && b.c:
						out[i] = bform{c: true}
					case a.isConst() && !a.c:
						out[i] = b
					case b.isConst() && !b.c:
						out[i] = a
					case a.equal(b):
						out[i] = a
					default:
						out[i] = bform{top: true}
						e.sawTop = true
					}
				}
			}
			return out
		}
	}
	return e.topBV()
}

// assume records the condition (taken or not) as constraints. result: +1 understood (and feasible), 0 infeasible,
// −1 not understood (the pair is left undecided, silently), +2 irrelevant (about lengths / capacities / constants).
func (e *benv) assume(t *Term, taken bool) int {
	t = t.unver()
	mentionsLen := false
	t.walk(func(x *Term) bool {
		if x.Op == "builtin" && (x.Sym == "len" || x.Sym == "cap") {
			mentionsLen = true
		}
		return true
	})
	if mentionsLen {
		return 2
	}
	if t.Op == "un" && t.Sym == "!" {
		return e.assume(t.Args[0], !taken)
	}
	if t.Op != "bin" || len(t.Args) != 2 {
		return -1
	}
	x, y := t.Args[0].unver(), t.Args[1].unver()
	cx, okx := uint64(0), false
	cy, oky := uint64(0), false
	if x.Op == "const" {
		cx, okx = parseConst(x.Sym)
	}
	if y.Op == "const" {
		cy, oky = parseConst(y.Sym)
	}
	if okx && oky {
		return 2 // a literal loop counter test, already folded by the executor
	}
	// normalise to  X ⋈ C  with ⋈ ∈ {<, ≥, ==, !=}
	var X *Term
	var C uint64
	rel := ""
	switch t.Sym {
	case "<":
		if oky { // X < C
			X, C, rel = x, cy, "<"
		} else if okx { // C < X  ⇔  X ≥ C+1
			X, C, rel = y, cx+1, ">="
		}
	case "<=":
		if oky { // X <= C ⇔ X < C+1
			X, C, rel = x, cy+1, "<"
		} else if okx { // C <= X
			X, C, rel = y, cx, ">="
		}
	case "==", "!=":
		if oky {
			X, C, rel = x, cy, t.Sym
		} else if okx {
			X, C, rel = y, cx, t.Sym
		}
	}
	if X == nil {
		return -1
	}
	if signedTerm(X) {
		return -1
	}
	if !taken {
		rel = map[string]string{"<": ">=", ">=": "<", "==": "!=", "!=": "=="}[rel]
	}
	v := e.eval(X)
	switch rel {
	case "==", "!=":
		if C != 0 {
			return -1
		}
		if rel == "==" {
			return e.allZeroFrom(v, 0)
		}
		return e.someOneFrom(v, 0)
	case "<", ">=":
		if C == 0 || C&(C-1) != 0 {
			return -1
		}
		k := 0
		for C>>uint(k) != 1 {
			k++
		}
		if rel == "<" {
			return e.allZeroFrom(v, k)
		}
		return e.someOneFrom(v, k)
	}
	return -1
}

func (e *benv) allZeroFrom(v bv, k int) int {
	for i := k; i < 64; i++ {
		feasible, understood := e.constrain(v[i], false)
		if !understood {
			return -1
		}
		if !feasible {
			return 0
		}
	}
	return 1
}

func (e *benv) someOneFrom(v bv, k int) int {
	var open []bform
	for i := k; i < 64; i++ {
		f := e.norm(v[i])
		if f.top {
			return -1
		}
		if f.isConst() {
			if f.c {
				return 1 // holds
			}
			continue
		}
		open = append(open, f)
	}
	switch len(open) {
	case 0:
		return 0
	case 1:
		feasible, understood := e.constrain(open[0], true)
		if !understood {
			return -1
		}
		if !feasible {
			return 0
		}
		return 1
	}
	return 1 // a disjunction over several bits: true for some inputs of the class, no single bit is pinned
}

// ---------------------------------------------------------------------------------------------------------------
// encoder / decoder models

type encClass struct {
	env   *benv
	bytes []bv
	desc  string
	skip  string // non-empty: not decided (reason)
}

type decPath struct {
	conds    []PathCond
	consumed int
	result   *Term // nil when delegated
	deleg    *ssa.Function
	post     *Term // result of the delegating decoder, over extract:0(call deleg)
	callKey  string
	desc     string
}

func isEncodingFunc(f *ssa.Function, prefix string) bool {
	return f != nil && f.Pkg != nil && strings.HasSuffix(f.Pkg.Pkg.Path(), "ddsketch/encoding") && strings.HasPrefix(f.Name(), prefix)
}

// appendedBytes: the byte terms appended to *b by the path, in order; delegated encoder calls are returned as items too.
type encItem struct {
	byteT *Term
	call  *Term
	fn    *ssa.Function
}

func encoderItems(p *Path) ([]encItem, string) {
	var items []encItem
	elem := map[string]map[int64]*Term{} // scratch array key -> index -> last stored byte term
	snap := map[*Term][]*Term{}          // append term -> the bytes it appends, as of the moment it was evaluated
	bytesOf := func(src *Term) ([]*Term, string) {
		src = src.unver()
		if !(src.Op == "slice" && src.Args[0].unver().Op == "alloc") {
			return nil, "append of something that is not a literal list of bytes"
		}
		key := src.Args[0].unver().Key()
		n := int64(len(elem[key]))
		if hk, ok := lit(src.Args[2]); ok {
			n = hk
		}
		var out []*Term
		for i := int64(0); i < n; i++ {
			bt := elem[key][i]
			if bt == nil {
				return nil, "appended byte not defined"
			}
			out = append(out, bt)
		}
		return out, ""
	}
	for _, e := range p.Effects {
		switch {
		case e.Kind == "store" && e.Addr.Op == "index" && e.Addr.Args[0].unver().Op == "alloc":
			k, ok := lit(e.Addr.Args[1])
			if !ok {
				return nil, "byte stored at a non-literal position of the scratch array"
			}
			key := e.Addr.Args[0].unver().Key()
			if elem[key] == nil {
				elem[key] = map[int64]*Term{}
			}
			elem[key][k] = e.Val
		case e.Kind == "call" && e.Call.Op == "builtin" && e.Call.Sym == "append" && len(e.Call.Args) == 2:
			// remember what this append adds NOW: the scratch array may be refilled by a later iteration
			if bs, why := bytesOf(e.Call.Args[1]); why == "" {
				snap[e.Call] = bs
			}
		case e.Kind == "store" && e.Addr.isParam(0):
			// *b = append(append(… append(*b, …) …), …): flatten the chain down to the load of the buffer
			var chain []*Term
			v := e.Val.unver()
			for v.Op == "builtin" && v.Sym == "append" && len(v.Args) == 2 {
				chain = append([]*Term{v}, chain...)
				v = v.Args[0].unver()
			}
			if !isBufLoad(v) || len(chain) == 0 {
				return nil, "buffer store that is not an append to the buffer"
			}
			for i, ap := range chain {
				bs, ok := snap[ap]
				if !ok {
					if i == len(chain)-1 {
						var why string
						bs, why = bytesOf(ap.Args[1])
						if why != "" {
							return nil, why
						}
					} else {
						return nil, "an inner append of the chain was not observed"
					}
				}
				for _, bt := range bs {
					items = append(items, encItem{byteT: bt})
				}
			}
		case e.Kind == "call" && !e.Pure && e.Call.Op == "call":
			if fn, ok := e.Call.V.(*ssa.Call); ok {
				if cal, ok := fn.Common().Value.(*ssa.Function); ok && isEncodingFunc(cal, "Encode") {
					items = append(items, encItem{call: e.Call, fn: cal})
					continue
				}
			}
			return nil, "unexpected call " + shorten(e.Call.Key(), 80)
		case e.Kind == "call" && !e.Pure:
			return nil, "unexpected call " + shorten(e.Call.Key(), 80)
		}
	}
	return items, ""
}

// encoderClasses enumerates the size classes of an encoder: per path, the knowledge its conditions give and the
// bytes it produces as bit vectors over the roots. Parameters are bound by the caller for expanded callees.
func encoderClasses(c *Ctx, f *ssa.Function, base *benv, depth int) []encClass {
	paths, complete, abandoned := pathsOfAll(c.P, f, nil, execOpts{MaxVisits: 12, Pure: c.Mod.PureCall, InlineCallee: inlineNewHelpers})
	if !complete || abandoned > 0 {
		return []encClass{{skip: "encoder not unrolled completely"}}
	}
	var out []encClass
	for pi, p := range paths {
		if p.Panics {
			continue
		}
		env := base.clone()
		cl := encClass{env: env, desc: fmt.Sprintf("%s path %d", shortFn(f), pi)}
		feasible := true
		for _, cd := range p.Conds {
			switch env.assume(cd.Term, cd.Taken) {
			case 0:
				feasible = false
			case -1:
				cl.skip = "condition outside the bit domain: " + shorten(cd.Term.Key(), 90)
			}
			if !feasible {
				break
			}
		}
		if !feasible {
			continue
		}
		items, why := encoderItems(p)
		if why != "" {
			cl.skip = why
		}
		if cl.skip != "" {
			out = append(out, cl)
			continue
		}
		// expand: direct bytes, and the classes of delegated encoders (cartesian with what precedes them)
		cur := []encClass{cl}
		for _, it := range items {
			var next []encClass
			for _, k := range cur {
				if k.skip != "" {
					next = append(next, k)
					continue
				}
				if it.byteT != nil {
					k.bytes = append(append([]bv(nil), k.bytes...), k.env.eval(it.byteT))
					next = append(next, k)
					continue
				}
				if depth >= 2 || len(it.call.Args) != 2 || len(it.fn.Params) != 2 {
					k.skip = "delegation not expanded: " + shortFn(it.fn)
					next = append(next, k)
					continue
				}
				argBV := k.env.eval(it.call.Args[1])
				sub := k.env.clone()
				sub.bind["param:1"] = argBV
				for _, sc := range encoderClasses(c, it.fn, sub, depth+1) {
					if sc.skip != "" {
						next = append(next, encClass{env: k.env, skip: sc.skip, desc: k.desc})
						continue
					}
					// the callee's knowledge is about the same variables; its binding of param:1 must not leak
					delete(sc.env.bind, "param:1")
					if b, ok := k.env.bind["param:1"]; ok {
						sc.env.bind["param:1"] = b
					}
					next = append(next, encClass{env: sc.env, bytes: append(append([]bv(nil), k.bytes...), sc.bytes...), desc: k.desc + " → " + sc.desc})
				}
			}
			cur = next
		}
		out = append(out, cur...)
	}
	return out
}

// decoderPaths enumerates the success paths of a decoder.
func decoderPaths(c *Ctx, f *ssa.Function) ([]decPath, string) {
	paths, complete, abandoned := pathsOfAll(c.P, f, nil, execOpts{MaxVisits: 12, Pure: c.Mod.PureCall, InlineCallee: inlineNewHelpers})
	if !complete || abandoned > 0 {
		return nil, "decoder not unrolled completely"
	}
	var out []decPath
	for pi, p := range paths {
		if p.Panics || len(p.RetT) != 2 || p.RetNil(1) == -1 {
			continue
		}
		dp := decPath{conds: p.Conds, consumed: -1, desc: fmt.Sprintf("%s path %d", shortFn(f), pi)}
		for _, e := range p.Effects {
			if e.Kind == "store" && e.Addr.isParam(0) {
				if e.Val.Op == "slice" && isBufLoad(e.Val.Args[0].unver()) {
					if k, ok := lit(e.Val.Args[1]); ok {
						dp.consumed = int(k)
					}
				}
			}
			if e.Kind == "call" && !e.Pure && e.Call.Op == "call" {
				if call, ok := e.Call.V.(*ssa.Call); ok {
					if cal, ok := call.Common().Value.(*ssa.Function); ok && isEncodingFunc(cal, "Decode") {
						dp.deleg = cal
						dp.callKey = mk("extract", "0", nil, e.Call).Key()
					}
				}
			}
		}
		if dp.deleg != nil {
			if p.RetNil(1) == 1 {
				continue // cannot be: the error is the callee's
			}
			dp.post = p.RetT[0]
		} else {
			if p.RetNil(1) != 1 {
				continue
			}
			dp.result = p.RetT[0]
		}
		out = append(out, dp)
	}
	return out, ""
}

// peelWrappers strips the non-bitwise operations around the bit-level core of a decoded result (outside in).
type wop struct{ op, arg string }

func constLike(t *Term) bool {
	t = t.unver()
	if t.Op == "const" {
		return true
	}
	if t.Op == "call" && len(t.Args) == 1 {
		return constLike(t.Args[0])
	}
	return false
}

func peelWrappers(t *Term) (*Term, []wop) {
	var chain []wop
	for {
		t = t.unver()
		switch {
		case t.Op == "bin" && (t.Sym == "+" || t.Sym == "-") && constLike(t.Args[1]):
			chain = append(chain, wop{t.Sym, t.Args[1].unver().Key()})
			t = t.Args[0]
		case t.Op == "bin" && t.Sym == "+" && constLike(t.Args[0]):
			chain = append(chain, wop{"+", t.Args[0].unver().Key()})
			t = t.Args[1]
		case t.Op == "call" && (t.Sym == "math.Float64frombits" || t.Sym == "math.Float64bits") && len(t.Args) == 1:
			chain = append(chain, wop{t.Sym, ""})
			t = t.Args[0]
		default:
			return t, chain
		}
	}
}

func inverseWop(a, b wop) bool {
	switch {
	case a.op == "+" && b.op == "-" || a.op == "-" && b.op == "+":
		return a.arg == b.arg
	case a.op == "math.Float64bits" && b.op == "math.Float64frombits", a.op == "math.Float64frombits" && b.op == "math.Float64bits":
		return true
	}
	return false
}

// c18BitAgreement: D5.
func c18BitAgreement(c *Ctx) {
	const rule = "C18-D5"
	pairs := [][2]string{{"EncodeUvarint64", "DecodeUvarint64"}, {"EncodeVarint64", "DecodeVarint64"}, {"EncodeVarfloat64", "DecodeVarfloat64"}}
	nPairs := 0
	for _, pr := range pairs {
		enc, dec := c.P.Func(pkgEnc, pr[0]), c.P.Func(pkgEnc, pr[1])
		if enc == nil || dec == nil {
			continue
		}
		nPairs++
		name := pr[0] + "↔" + pr[1]
		classes := encoderClasses(c, enc, newBenv(), 0)
		dpaths, why := decoderPaths(c, dec)
		if why != "" {
			c.R.trivial(rule, name+"/not-decided", shortFn(dec), c.fpos(dec), "bit-level composition of the pair", why)
			continue
		}
		// expand delegating decoder paths with the paths of the decoder they call
		type flat struct {
			conds    []PathCond
			consumed int
			inner    *Term // bit-level result of the innermost decoder
			post     *Term
			callKey  string
			desc     string
		}
		var flats []flat
		okExpand := true
		for _, dp := range dpaths {
			if dp.deleg == nil {
				flats = append(flats, flat{conds: dp.conds, consumed: dp.consumed, inner: dp.result, desc: dp.desc})
				continue
			}
			sub, why := decoderPaths(c, dp.deleg)
			if why != "" {
				okExpand = false
				break
			}
			for _, sp := range sub {
				if sp.deleg != nil {
					okExpand = false
					break
				}
				flats = append(flats, flat{conds: append(append([]PathCond(nil), dp.conds...), sp.conds...), consumed: sp.consumed, inner: sp.result, post: dp.post, callKey: dp.callKey, desc: dp.desc + " → " + sp.desc})
			}
		}
		if !okExpand || len(flats) == 0 {
			c.R.trivial(rule, name+"/not-decided", shortFn(dec), c.fpos(dec), "bit-level composition of the pair", "decoder delegation not expanded")
			continue
		}
		nDecided, nSkipped := 0, 0
		bad := ""
		for _, cl := range classes {
			if cl.skip != "" || cl.env == nil {
				nSkipped++
				continue
			}
			if len(cl.env.rootKeys) != 1 {
				nSkipped++
				continue
			}
			rootKey := cl.env.rootKeys[0]
			// wrappers around the root in the encoder, inside out: peel the root term itself
			matched := 0
			classUndecided := false
			for _, fp := range flats {
				env := cl.env.clone()
				env.bytes = cl.bytes
				env.beyond, env.sawTop = false, false
				feasible, undecided := true, false
				for _, cd := range fp.conds {
					env.beyond = false
					r := env.assume(cd.Term, cd.Taken)
					if env.beyond {
						// the decoder went on to a byte the encoder did not produce
						bad = firstNonEmpty(bad, fmt.Sprintf("%s produces %d byte(s) but %s reads on past them", cl.desc, len(cl.bytes), fp.desc))
						feasible = false
						break
					}
					if r == 0 {
						feasible = false
						break
					}
					if r == -1 {
						undecided = true
						break
					}
				}
				if !feasible {
					continue
				}
				if undecided {
					classUndecided = true
					continue
				}
				matched++
				if fp.consumed != len(cl.bytes) {
					bad = firstNonEmpty(bad, fmt.Sprintf("%s produces %d byte(s); %s, whose conditions those bytes can satisfy, consumes %d", cl.desc, len(cl.bytes), fp.desc, fp.consumed))
					continue
				}
				// the decoded value, bit by bit
				core, dchain := peelWrappers(fp.inner)
				if fp.post != nil {
					if len(dchain) != 0 {
						classUndecided = true
						continue
					}
					env.bind[fp.callKey] = env.eval(core)
					core, dchain = peelWrappers(fp.post)
				}
				env.beyond, env.sawTop = false, false
				got := env.eval(core)
				if env.beyond {
					bad = firstNonEmpty(bad, fmt.Sprintf("%s: the result of %s uses a byte past the %d produced", cl.desc, fp.desc, len(cl.bytes)))
					continue
				}
				// the root against which to compare: the parameter, or the opaque word around it
				var rootT *Term
				var echain []wop
				if rootKey == "param:1" {
					rootT = nil
				} else {
					rootT = findSubtermByKey(enc, c, rootKey)
					if rootT != nil {
						var inner *Term
						inner, echain = peelWrappers(rootT)
						if !inner.unver().isParam(1) {
							classUndecided = true
							continue
						}
					} else {
						classUndecided = true
						continue
					}
				}
				// wrapper chains are inverse of each other: decoder inside-out[i] inverts encoder inside-out[n−1−i]
				if len(echain) != len(dchain) {
					bad = firstNonEmpty(bad, fmt.Sprintf("the decoder undoes %d transformation(s) around the transported word, the encoder applies %d", len(dchain), len(echain)))
					continue
				}
				okChain := true
				for i := range dchain {
					// outside-in lists: encoder outermost is applied last; the decoder's innermost must invert it
					if !inverseWop(echain[i], dchain[len(dchain)-1-i]) {
						okChain = false
					}
				}
				if !okChain {
					bad = firstNonEmpty(bad, fmt.Sprintf("the transformations around the transported word are not inverse of each other: encoder %v, decoder %v", echain, dchain))
					continue
				}
				want := env.root(rootKey)
				for j := 0; j < 64; j++ {
					g, w := env.norm(got[j]), env.norm(want[j])
					if g.top {
						classUndecided = true
						break
					}
					if !g.equal(w) {
						bad = firstNonEmpty(bad, fmt.Sprintf("%s decoded by %s: bit %d of the result is %s, not bit %d of the encoded word", cl.desc, fp.desc, j, env.describe(g), j))
						break
					}
				}
			}
			if matched == 0 && !classUndecided {
				bad = firstNonEmpty(bad, fmt.Sprintf("no path of the decoder accepts the %d byte(s) produced by %s", len(cl.bytes), cl.desc))
			}
			if classUndecided {
				nSkipped++
			} else {
				nDecided++
			}
		}
		c.R.count("bit_classes_decided", nDecided)
		c.R.check(bad == "" && nDecided > 0, rule, name+"/bit-agreement", shortFn(enc), c.fpos(enc),
			"for every size class of the encoder and every decoder path its bytes can drive: exactly the produced bytes are consumed and every result bit is the encoded bit it came from",
			firstNonEmpty(bad, fmt.Sprintf("%d class(es) decided, %d outside the bit domain, %d decoder path(s)", nDecided, nSkipped, len(flats))))
	}
	c.R.floor(rule, "encoder/decoder pairs composed", nPairs, 3)
}

func (e *benv) describe(f bform) string {
	if f.top {
		return "unknown"
	}
	var parts []string
	for _, x := range f.vars {
		if x < len(e.names) {
			parts = append(parts, e.names[x])
		} else {
			parts = append(parts, fmt.Sprintf("v%d", x))
		}
	}
	if f.c || len(parts) == 0 {
		parts = append(parts, map[bool]string{true: "1", false: "0"}[f.c])
	}
	sort.Strings(parts)
	return strings.Join(parts, " ⊕ ")
}

// findSubtermByKey looks the opaque root term up again in the encoder's paths (to peel its wrappers).
func findSubtermByKey(f *ssa.Function, c *Ctx, key string) *Term {
	paths, _, _ := pathsOfAll(c.P, f, nil, execOpts{MaxVisits: 2, Pure: c.Mod.PureCall, InlineCallee: inlineNewHelpers})
	var found *Term
	look := func(t *Term) {
		if t == nil || found != nil {
			return
		}
		t.walk(func(x *Term) bool {
			if found == nil && x.unver().Key() == key {
				found = x.unver()
			}
			return found == nil
		})
	}
	for _, p := range paths {
		for _, e := range p.Effects {
			look(e.Val)
			look(e.Call)
		}
		for _, cd := range p.Conds {
			look(cd.Term)
		}
	}
	return found
}

// c18SizeBound (D3): a size function may answer with a literal — a shortcut for small values — only where the word the
// encoder transports is provably short enough: answering n (< 9) on a path requires, from the path's own conditions,
// that every bit of that word from position 7n upwards is 0. (The table-driven answers are built from the encoder
// itself and need no such argument.) Signed range tests −2^k ≤ v < 2^k are the linear constraints v[j] = v[63], j ≥ k.
func c18SizeBound(c *Ctx) {
	const rule = "C18-D3"
	for _, pr := range [][2]string{{"Uvarint64Size", "EncodeUvarint64"}, {"Varint64Size", "EncodeVarint64"}} {
		sz, enc := c.P.Func(pkgEnc, pr[0]), c.P.Func(pkgEnc, pr[1])
		if sz == nil || enc == nil {
			continue
		}
		// the word: the argument the encoder hands to the base encoder (or its own parameter)
		var word *Term
		eps, _, _ := pathsOfAll(c.P, enc, nil, execOpts{MaxVisits: 12, Pure: c.Mod.PureCall, InlineCallee: inlineNewHelpers})
		for _, p := range eps {
			for _, e := range p.Effects {
				if e.Kind == "call" && !e.Pure && e.Call.Op == "call" && strings.HasSuffix(e.Call.Sym, ".EncodeUvarint64") && len(e.Call.Args) == 2 {
					word = e.Call.Args[1]
				}
			}
		}
		if word == nil {
			word = mk("param", "1", nil)
			if len(enc.Params) > 1 {
				word.V = enc.Params[1]
			}
		}
		paths, _, _ := pathsOfAll(c.P, sz, nil, execOpts{MaxVisits: 4, Pure: c.Mod.PureCall, InlineCallee: inlineNewHelpers})
		bad := ""
		nLit, nSkipped := 0, 0
		for _, p := range paths {
			if len(p.RetT) != 1 || p.RetT[0].unver().Op != "const" {
				continue
			}
			n64, ok := parseConst(p.RetT[0].unver().Sym)
			if !ok {
				continue
			}
			n := int(n64)
			nLit++
			env := newBenv()
			// the size function's parameter is index 0, the encoder's value parameter index 1: bind both names to one root
			root := env.root("param:1")
			env.bind["param:0"] = root
			understood, feasible := true, true
			type rng struct {
				lo, hi   int64
				hasLo    bool
				hasHi    bool
				lastTerm *Term
			}
			signed := map[string]*rng{}
			for _, cd := range p.Conds {
				t := cd.Term.unver()
				// signed range tests on the parameter
				if t.Op == "bin" && len(t.Args) == 2 && (t.Sym == "<" || t.Sym == "<=") {
					x, y := t.Args[0].unver(), t.Args[1].unver()
					var X *Term
					var cst int64
					var isLower bool // true: cst ≤/< X ; false: X </≤ cst
					if x.Op == "const" && signedTerm(y) {
						if v, ok := parseConst(x.Sym); ok {
							X, cst, isLower = y, int64(v), true
						}
					} else if y.Op == "const" && signedTerm(x) {
						if v, ok := parseConst(y.Sym); ok {
							X, cst, isLower = x, int64(v), false
						}
					}
					if X != nil {
						r := signed[X.Key()]
						if r == nil {
							r = &rng{lastTerm: X}
							signed[X.Key()] = r
						}
						strict := t.Sym == "<"
						switch {
						case isLower && cd.Taken: // cst ≤ X or cst < X
							lo := cst
							if strict {
								lo++
							}
							r.lo, r.hasLo = lo, true
						case !isLower && cd.Taken: // X < cst or X ≤ cst  → X < hi
							hi := cst
							if !strict {
								hi++
							}
							r.hi, r.hasHi = hi, true
						case isLower && !cd.Taken: // !(cst ≤ X) → X < cst ; !(cst < X) → X < cst+1
							hi := cst
							if strict {
								hi++
							}
							if !r.hasHi {
								r.hi, r.hasHi = hi, true
							}
						default: // !(X < cst) → X ≥ cst
							lo := cst
							if !strict {
								lo++
							}
							if !r.hasLo {
								r.lo, r.hasLo = lo, true
							}
						}
						continue
					}
				}
				switch env.assume(cd.Term, cd.Taken) {
				case 0:
					feasible = false
				case -1:
					understood = false
				}
			}
			if !feasible {
				continue
			}
			for _, r := range signed {
				if !(r.hasLo && r.hasHi) || r.lo >= 0 && false {
					understood = false
					continue
				}
				// −2^a ≤ X < 2^b  ⇒  bits from max(a, b) up all equal the sign bit; 0 ≤ X < 2^b ⇒ those bits are 0
				pow := func(v int64) (int, bool) {
					if v <= 0 || v&(v-1) != 0 {
						return 0, false
					}
					k := 0
					for v>>uint(k) != 1 {
						k++
					}
					return k, true
				}
				kb, okb := pow(r.hi)
				bv := env.eval(r.lastTerm)
				switch {
				case okb && r.lo >= 0:
					for j := kb; j < 64; j++ {
						if f, u := env.constrain(bv[j], false); !u {
							understood = false
						} else if !f {
							feasible = false
						}
					}
				case okb && r.lo < 0:
					ka, oka := pow(-r.lo)
					if !oka {
						understood = false
						break
					}
					k := ka
					if kb > k {
						k = kb
					}
					for j := k; j < 63; j++ {
						if f, u := env.constrain(xorForms(env.norm(bv[j]), env.norm(bv[63])), false); !u {
							understood = false
						} else if !f {
							feasible = false
						}
					}
				default:
					understood = false
				}
			}
			if !feasible {
				continue
			}
			if !understood {
				nSkipped++
				continue
			}
			if n < 1 || n > 8 {
				continue // 9 is the maximum: nothing to bound
			}
			w := env.eval(rewriteTerm(word, func(x *Term) *Term { return nil }))
			for j := 7 * n; j < 64; j++ {
				f := env.norm(w[j])
				if f.top {
					nSkipped++
					break
				}
				if !(f.isConst() && !f.c) {
					bad = firstNonEmpty(bad, fmt.Sprintf("%s answers %d on a path whose conditions leave bit %d of the transported word open (%s): the encoder may write more than %d byte(s) [%s]", pr[0], n, j, env.describe(f), n, pathSig(p)))
					break
				}
			}
		}
		if nLit == 0 {
			continue // table-driven only: C18-D3 every-path-from-the-word
		}
		c.R.check(bad == "", rule, pr[0]+"/literal-answers-bounded", shortFn(sz), c.fpos(sz), "a literal size n is answered only where the path's conditions force the transported word below 2^(7n)", firstNonEmpty(bad, fmt.Sprintf("%d literal answer(s), %d outside the bit domain", nLit, nSkipped)))
	}
}
