package main

import (
	"fmt"
	"go/ast"
	"sort"
	"strings"

	"golang.org/x/tools/go/ssa"
)

// Renamed helpers. The rules name a handful of unexported helpers (the dense family's window primitives, the
// paginated store's accessors, changeStoreMapping, …). A pure rename of one of them changes no behaviour, so it must
// not change a verdict: when a helper of the frozen table (known_helpers.go, generated with `-dump @helpers` from
// the tree the rules were written against) is missing, it is looked for among the unexported functions the table
// does not know, declared on the same receiver type (or in the same package) with the same signature; among several
// candidates the one whose callers and callees (by canonical name) resemble the frozen ones most, and strictly more
// than any other, is taken. The function found answers to the canonical name everywhere names are compared
// (funcName, helperKey, method lookup). A helper that was removed or inlined stays missing, as before.

type helperSig struct {
	sig     string
	callees []string
	callers []string
}

var aliasOf = map[*ssa.Function]string{} // function → canonical simple name
var aliasLog []string

// canonName: the name the rules know f by.
func canonName(f *ssa.Function) string {
	if a, ok := aliasOf[f]; ok {
		return a
	}
	return f.Name()
}

func isUnexportedHelper(f *ssa.Function) bool {
	return inModule(f) && f.Synthetic == "" && f.Parent() == nil && f.Name() != "" && f.Name() != "init" && !ast.IsExported(f.Name()) && len(f.Blocks) > 0
}

// rawKey: helperKey without the alias layer.
func rawKey(f *ssa.Function) string {
	k := helperKey(f)
	if a, ok := aliasOf[f]; ok {
		k = strings.TrimSuffix(k, a) + f.Name()
	}
	return k
}

func keyPrefix(k string) string {
	if i := strings.LastIndex(k, "."); i >= 0 {
		return k[:i+1]
	}
	return ""
}

func staticCallees(f *ssa.Function) []*ssa.Function {
	seen := map[*ssa.Function]bool{}
	var out []*ssa.Function
	var scan func(g *ssa.Function)
	scan = func(g *ssa.Function) {
		for _, b := range g.Blocks {
			for _, in := range b.Instrs {
				if ci, ok := in.(ssa.CallInstruction); ok {
					if cal := ci.Common().StaticCallee(); cal != nil && inModule(cal) && cal.Parent() == nil && !seen[cal] {
						seen[cal] = true
						out = append(out, cal)
					}
				}
			}
		}
		for _, a := range g.AnonFuncs {
			scan(a)
		}
	}
	scan(f)
	return out
}

// helperTable computes, for the current tree, what known_helpers.go freezes.
func helperTable(p *Program) map[string]helperSig {
	tab := map[string]helperSig{}
	callers := map[string][]string{}
	for _, f := range p.Funcs {
		if !inModule(f) || f.Synthetic != "" || f.Parent() != nil || len(f.Blocks) == 0 {
			continue
		}
		for _, cal := range staticCallees(f) {
			callers[helperKey(cal)] = append(callers[helperKey(cal)], helperKey(f))
		}
	}
	for _, f := range p.Funcs {
		if !isUnexportedHelper(f) {
			continue
		}
		var cs []string
		for _, cal := range staticCallees(f) {
			cs = append(cs, helperKey(cal))
		}
		sort.Strings(cs)
		cr := append([]string{}, callers[helperKey(f)]...)
		sort.Strings(cr)
		tab[helperKey(f)] = helperSig{sig: sigString(f), callees: cs, callers: cr}
	}
	return tab
}

func sigString(f *ssa.Function) string {
	s := f.Signature
	var ps, rs []string
	for i := 0; i < s.Params().Len(); i++ {
		ps = append(ps, strings.ReplaceAll(s.Params().At(i).Type().String(), modPath+"/", ""))
	}
	for i := 0; i < s.Results().Len(); i++ {
		rs = append(rs, strings.ReplaceAll(s.Results().At(i).Type().String(), modPath+"/", ""))
	}
	return "(" + strings.Join(ps, ",") + ")->(" + strings.Join(rs, ",") + ")"
}

// resolveAliases fills aliasOf for the helpers of the frozen table that the tree no longer has under their name.
func resolveAliases(p *Program) {
	// (several programs may be loaded — one per GOARCH: their functions are distinct keys of the one map)
	for round := 0; round < 4; round++ {
		present := map[string]*ssa.Function{}
		var fresh []*ssa.Function
		for _, f := range p.Funcs {
			if !isUnexportedHelper(f) {
				continue
			}
			present[helperKey(f)] = f
		}
		for _, f := range p.Funcs {
			if isUnexportedHelper(f) {
				if _, known := frozenHelpers[helperKey(f)]; !known {
					fresh = append(fresh, f)
				}
			}
		}
		cur := helperTable(p)
		changed := false
		var missing []string
		for k := range frozenHelpers {
			if present[k] == nil {
				missing = append(missing, k)
			}
		}
		sort.Strings(missing)
		claimed := map[*ssa.Function]bool{}
		for _, k := range missing {
			want := frozenHelpers[k]
			var cands []*ssa.Function
			for _, f := range fresh {
				if claimed[f] || keyPrefix(helperKey(f)) != keyPrefix(k) || sigString(f) != want.sig {
					continue
				}
				cands = append(cands, f)
			}
			if len(cands) == 0 {
				continue
			}
			score := func(f *ssa.Function) int {
				got := cur[helperKey(f)]
				n := 0
				in := func(xs []string, x string) bool {
					for _, y := range xs {
						if y == x {
							return true
						}
					}
					return false
				}
				for _, x := range got.callees {
					if in(want.callees, x) {
						n += 2
					} else {
						n--
					}
				}
				for _, x := range got.callers {
					if in(want.callers, x) {
						n += 2
					} else {
						n--
					}
				}
				return n
			}
			best, bestScore, second := cands[0], score(cands[0]), -1<<30
			for _, f := range cands[1:] {
				if s := score(f); s > bestScore {
					second, best, bestScore = bestScore, f, s
				} else if s > second {
					second = s
				}
			}
			// several missing helpers may compete for one candidate: the candidate must also prefer this helper
			if len(cands) > 1 && bestScore <= second {
				continue
			}
			competing := false
			for _, k2 := range missing {
				if k2 == k || keyPrefix(k2) != keyPrefix(k) || frozenHelpers[k2].sig != want.sig {
					continue
				}
				// would `best` score at least as well as k2? compare with k2's frozen neighbourhood
				w2 := frozenHelpers[k2]
				got := cur[helperKey(best)]
				n2 := 0
				has := func(xs []string, x string) bool {
					for _, y := range xs {
						if y == x {
							return true
						}
					}
					return false
				}
				for _, x := range got.callees {
					if has(w2.callees, x) {
						n2 += 2
					} else {
						n2--
					}
				}
				for _, x := range got.callers {
					if has(w2.callers, x) {
						n2 += 2
					} else {
						n2--
					}
				}
				if n2 >= bestScore {
					competing = true
				}
			}
			if competing {
				continue
			}
			claimed[best] = true
			aliasOf[best] = k[len(keyPrefix(k)):]
			aliasLog = append(aliasLog, fmt.Sprintf("%s is %s renamed", rawKey(best), k))
			changed = true
		}
		if !changed {
			break
		}
	}
	sort.Strings(aliasLog)
}

func underlyingOfWrapperOrSelf(f *ssa.Function) *ssa.Function {
	if f.Synthetic != "" {
		if u := underlyingOfWrapper(f); u != nil {
			return u
		}
	}
	return f
}
