package main

import (
	"fmt"
	"strings"

	"golang.org/x/tools/go/ssa"
)

// C16 — reweighting equals having added everything with scaled weights.

func init() {
	register("C16",
		"DECIDED: D1 sketch table — for every accepted factor class other than 1, every feasible path of DDSketch.Reweight scales the zero weight by w and calls Reweight(w) on both the positive and the negative store with the same factor term (callee tables show no store can fail after the guard); the exact variant then reweights the statistics. "+
			"D2 every store body scales everything it holds: dense — cached total *= w and the loop multiplies every element of the window minIndex…maxIndex inclusive and is left only through its counter test; sparse — the loop ranges over the map it writes and multiplies every entry by w; paginated — every element of every page is multiplied by w and every index that was in the buffer before it is truncated is re-added with weight exactly w through the store's own AddWithCount. "+
			"D3 exact variant — its Reweight performs the inner Reweight first and, on the success edge only, the statistics Reweight with the same factor; SummaryStatistics.Reweight multiplies every accumulator (count, sum, sum compensation) by a positive factor and leaves min/max alone (the C10-D1/D3 obligations re-evaluated). "+
			"SHARED (re-evaluated here under its home rule id): C04-D9 for the paginated Reweight (a buffered index re-added with weight w goes to the line of its own page; pages through the accessor). C14-D2 for the two sketch types (a copy shares neither stores nor statistics with its original: reweighting one scales only that one). "+
			"NOT DECIDED: equality of the scaled values (float multiplication), interaction with collapse (the collapsing stores inherit the dense body — safe by C05-D1).",
		"one obligation per factor class of the sketch table and per scaling clause of each store body",
		false, runC16)
}

func runC16(c *Ctx) {
	a, err := c.anchors()
	if err != nil {
		c.R.undecided("C16", "anchors", "", "", "sketch anchors resolve", err.Error())
		return
	}
	c16Sketch(c, a, "C16-D1")
	c16Stores(c, a)
	// the exact variant: wrapper reweights the statistics after the inner sketch, and the statistics scale every accumulator
	c10Wrappers(c, a, "C16-D3", "Reweight")
	c10StatObject(c, a, "C16-D3", "Reweight")
	// "of this sketch only": a copy shares nothing with its original, so reweighting one leaves the other as it was
	c.shared(func() { c14Copies(c, a) }, keyMentions("DDSketch"))
	// "including indexes still held as unit entries": when the paginated store moves its buffered indexes to pages
	// with weight w, each lands on the line of its own page
	if pr := c.paginated(); pr.err == "" {
		c.shared(func() { c04PageTable(c, pr, "C04-D9"); c04PageUse(c, pr, "C04-D9") }, keyMentions("Reweight"))
	}
}

func isTimesW(v *Term, base func(*Term) bool, w func(*Term) bool) bool {
	if v == nil || !v.isBin("*") {
		return false
	}
	return base(v.Args[0]) && w(v.Args[1]) || base(v.Args[1]) && w(v.Args[0])
}

func c16Sketch(c *Ctx, a *sketchAnchors, rule string) {
	// callee error classes
	var calleeErr ClassSet
	seen := map[*ssa.Function]bool{}
	for _, n := range c.P.Implementations(c.P.NamedType(pkgStore, "Store")) {
		m := c.P.MethodOf(n, "Reweight")
		if m == nil {
			continue
		}
		if m.Synthetic != "" {
			m = underlyingOfWrapper(m)
		}
		if m == nil || seen[m] {
			continue
		}
		seen[m] = true
		ec, _ := reweightTable(c, rule, m, false)
		calleeErr |= ec
	}
	f := c.P.DeclaredMethod(a.DDSketch, "Reweight")
	if !c.mustFunc(rule, f, "(*DDSketch).Reweight") {
		return
	}
	dom := mkDomain(paramScalar("w", 1, 2, constPoints("0", "1")))
	// visit bound 3: a loop over a literal `[]Store{positive, negative}` is unrolled completely
	paths, _ := exec(c, f, dom, 3)
	isW := func(t *Term) bool { return t.isParam(1) }
	for _, wc := range []int{3, 5} {
		key := fmt.Sprintf("%s/w%s", shortFn(f), className(wPoints, wc))
		n := 0
		bad := ""
		for _, p := range pathsInClass(paths, "w", wc) {
			infeasible := false
			for _, cnd := range p.Conds {
				if x, neq, ok := nilTest(cnd.Term); ok && isMethodCall(x, "Reweight") && len(x.Args) == 2 && x.Args[1].isParam(1) {
					if neq == cnd.Taken && calleeErr&(1<<uint(wc)) == 0 {
						infeasible = true
					}
				}
			}
			if infeasible {
				continue
			}
			n++
			var zero, pos, neg int
			other := ""
			for _, e := range p.Writes() {
				switch {
				case e.Kind == "store" && isRecvField(e.Addr, a.zeroField) && isTimesW(e.Val, func(t *Term) bool { return isRecvField(t, a.zeroField) }, isW):
					zero++
				case e.Kind == "call" && isMethodCall(e.Call, "Reweight") && len(e.Call.Args) == 2 && isW(e.Call.Args[1]) && isRecvField(e.Call.Args[0], a.posField):
					pos++
				case e.Kind == "call" && isMethodCall(e.Call, "Reweight") && len(e.Call.Args) == 2 && isW(e.Call.Args[1]) && isRecvField(e.Call.Args[0], a.negField):
					neg++
				default:
					other = e.String()
				}
			}
			retNil := p.RetNil(0) == 1
			if r := p.RetT[0]; !retNil && isMethodCall(r, "Reweight") && len(r.Args) == 2 && isW(r.Args[1]) && calleeErr&(1<<uint(wc)) == 0 {
				retNil = true // `return store.Reweight(w)`: no implementation fails for this factor class
			}
			if zero != 1 || pos != 1 || neg != 1 || other != "" || !retNil {
				bad = fmt.Sprintf("zero*=w:%d positive.Reweight(w):%d negative.Reweight(w):%d other:%q %s", zero, pos, neg, other, describeRet(p))
			}
		}
		if n == 0 {
			c.R.undecided(rule, key, shortFn(f), c.fpos(f), "a feasible path", "none")
			continue
		}
		c.R.check(bad == "", rule, key, shortFn(f), c.fpos(f), "exactly: zero *= w, positive.Reweight(w), negative.Reweight(w), then nil", firstNonEmpty(bad, fmt.Sprintf("%d feasible path(s)", n)))
	}
}

func c16Stores(c *Ctx, a *sketchAnchors) {
	const rule = "C16-D2"
	isW := func(t *Term) bool { return t.isParam(1) }
	dense := c.P.NamedType(pkgStore, "DenseStore")
	sparse := c.P.NamedType(pkgStore, "SparseStore")
	pr := c.paginated()
	n := 0
	// ---- dense
	if f := c.P.DeclaredMethod(dense, "Reweight"); c.mustFunc(rule, f, "DenseStore.Reweight") {
		n++
		cnt := denseCountField(c, dense)
		paths, _ := exec(c, f, mkDomain(paramScalar("w", 1, 2, constPoints("0", "1"))), 2)
		okCount := true
		nAcc := 0
		for _, wc := range []int{3, 5} {
			for _, p := range pathsInClass(paths, "w", wc) {
				nAcc++
				seen := false
				for _, e := range p.Effects {
					if e.Kind == "store" && cnt != nil && termIsRecvPath(e.Addr, cnt) && isTimesW(e.Val, func(t *Term) bool { return termIsRecvPath(t, cnt) }, isW) {
						seen = true
					}
				}
				okCount = okCount && seen
			}
		}
		c.R.check(okCount && nAcc > 0, rule, "DenseStore.Reweight/cached-total", shortFn(f), c.fpos(f), "cached total *= w on every accepting path", fmt.Sprintf("%d accepting path(s)", nAcc))
		// the scaling loop: idx from minIndex to maxIndex inclusive, bins[idx-offset] *= w
		loops := countingLoops(c.P, f)
		okLoop := false
		found := fmt.Sprintf("%d counting loop(s)", len(loops))
		for _, l := range loops {
			tc := newTermCtx(c.P)
			for b := range l.Blocks {
				for _, in := range b.Instrs {
					st, ok := in.(*ssa.Store)
					if !ok {
						continue
					}
					at, vt := tc.Of(st.Addr), tc.Of(st.Val)
					if at.Op != "index" || !isTimesW(vt, func(t *Term) bool { return t.Key() == at.Key() }, isW) {
						continue
					}
					first, last, ok := elementRange(l, at.Args[1])
					if !ok {
						found = "scaling store whose element index is not affine in the loop variable: " + at.Key()
						continue
					}
					found = fmt.Sprintf("elements %s … %s", first.Key(), last.Key())
					if isWindowRange(first, last, func(t *Term) bool { return t.isParam(0) }) || isWholeArrayRange(first, last) {
						okLoop = true
					}
					// … every one of them: the loop is left only through its counter test (a `break` on an empty bin
					// leaves the bins behind it unscaled)
					for lb := range l.Blocks {
						if lb == l.Header {
							continue
						}
						for _, sc := range lb.Succs {
							if !l.Blocks[sc] {
								okLoop = false
								found = "the scaling loop is left early at " + c.ipos(lb.Instrs[len(lb.Instrs)-1])
							}
						}
					}
				}
			}
		}
		c.R.check(okLoop, rule, "DenseStore.Reweight/window-loop", shortFn(f), c.fpos(f), "a loop multiplying by w exactly the elements minIndex−offset … maxIndex−offset of the bin array (or the whole array)", found)
	}
	// ---- sparse
	if f := c.P.DeclaredMethod(sparse, "Reweight"); c.mustFunc(rule, f, "SparseStore.Reweight") {
		n++
		tc := newTermCtx(c.P)
		ok := false
		found := "no map update"
		badUpdate := ""
		for _, b := range f.Blocks {
			for _, in := range b.Instrs {
				mu, isMU := in.(*ssa.MapUpdate)
				if !isMU {
					continue
				}
				m, k, v := tc.Of(mu.Map), tc.Of(mu.Key), tc.Of(mu.Value)
				found = fmt.Sprintf("%s[%s] = %s", m, k, v)
				own := func(t *Term) bool {
					if t.Op == "lookup" && t.Args[0].Key() == m.Key() && t.Args[1].Key() == k.Key() {
						return true
					}
					return t.Op == "extract" && t.Sym == "2" && k.Op == "extract" && k.Sym == "1" && sameVal(t.Args[0], k.Args[0])
				}
				// EVERY update of the map in Reweight scales the entry's own weight by w: as the product, or — exact for a
				// power of two — as Ldexp(own, e − 1) with (_, e) = Frexp(w)
				if m.Op == "field" && m.Args[0].isParam(0) {
					scaled := isTimesW(v, own, isW)
					if !scaled && v.Op == "call" && v.Sym == "math.Ldexp" && len(v.Args) == 2 && own(v.Args[0]) {
						e := v.Args[1]
						if e.isBin("-") && e.Args[1].isConst("1") && e.Args[0].Op == "extract" && e.Args[0].Sym == "1" && e.Args[0].Args[0].Op == "call" && e.Args[0].Args[0].Sym == "math.Frexp" && isW(e.Args[0].Args[0].Args[0]) {
							scaled = true
						}
					}
					if !scaled {
						badUpdate = found
					}
				}
				// key comes from ranging over the same map
				fromRange := false
				k.walk(func(x *Term) bool {
					if x.Op == "range" && x.Args[0].Key() == m.Key() {
						fromRange = true
					}
					return true
				})
				if m.Op == "field" && m.Args[0].isParam(0) && fromRange &&
					isTimesW(v, func(t *Term) bool {
						// the entry's own weight: counts[k], or the value of the same range step
						if t.Op == "lookup" && t.Args[0].Key() == m.Key() && t.Args[1].Key() == k.Key() {
							return true
						}
						return t.Op == "extract" && t.Sym == "2" && k.Op == "extract" && k.Sym == "1" && sameVal(t.Args[0], k.Args[0])
					}, isW) {
					ok = true
				}
			}
		}
		if badUpdate != "" {
			ok, found = false, "an update that does not scale the entry's own weight by w: "+badUpdate
		}
		c.R.check(ok, rule, "SparseStore.Reweight/map-loop", shortFn(f), c.fpos(f), "for k := range counts { counts[k] *= w } (or `for k, v := range counts { counts[k] = v*w }`) — and no other update of the map", found)
	}
	// ---- paginated
	if pr.err == "" {
		if f := c.P.DeclaredMethod(pr.typ, "Reweight"); c.mustFunc(rule, f, "BufferedPaginatedStore.Reweight") {
			n++
			tc := newTermCtx(c.P)
			inLoop := loopBlocks(f)
			okPages := false
			for _, b := range f.Blocks {
				for _, in := range b.Instrs {
					if st, ok := in.(*ssa.Store); ok && inLoop[b] {
						at, vt := tc.Of(st.Addr), tc.Of(st.Val)
						// pages[i][j] *= w : address is an element of an element of the pages field
						if at.Op == "index" && at.Args[0].Op == "index" && at.Args[0].Args[0].Op == "field" && at.Args[0].Args[0].Args[0].isParam(0) &&
							isTimesW(vt, func(t *Term) bool { return t.Key() == at.Key() }, isW) {
							okPages = true
						}
					}
				}
			}
			c.R.check(okPages, rule, "BufferedPaginatedStore.Reweight/pages-loop", shortFn(f), c.fpos(f), "every element of every page is multiplied by w inside the page loops", "")
			// buffer re-add: on every accepting path the buffer is truncated and the indexes of the PRE-truncation buffer are re-added with weight w
			paths, _ := exec(c, f, mkDomain(paramScalar("w", 1, 2, constPoints("0", "1"))), 2)
			bad := ""
			nReadd := 0
			for _, wc := range []int{3, 5} {
				for _, p := range pathsInClass(paths, "w", wc) {
					trunc := 0
					directReadd := map[int]bool{}
					for _, e := range p.Effects {
						if e.Kind == "store" && isRecvField(e.Addr, pr.bufFld) && e.Val.Op == "slice" {
							trunc = e.Seq
						}
						// the same re-add written out: page(pageIndex(i), true)[lineIndex(i)] += w with i an element of the old buffer
						if e.Kind == "store" && e.Addr.Op == "index" && isMethodCall(e.Addr.Args[0], "page") && trunc != 0 && e.Seq > trunc {
							pg, ln := e.Addr.Args[0], e.Addr.Args[1]
							bufElem := func(t *Term) bool {
								return t.Op == "index" && t.Args[0].Op == "field" && t.Args[0].Sym == pr.bufFld && t.Args[0].Args[0].isParam(0)
							}
							// the page is selected and the line computed from the SAME element of the old buffer (pageIndex / lineIndex
							// are one-line getters and appear inlined: index >> pageLenLog2, index & mask)
							var elem *Term
							if len(pg.Args) == 3 {
								pg.Args[1].walk(func(x *Term) bool {
									if elem == nil && bufElem(x) {
										elem = x
									}
									return true
								})
							}
							sameElem := false
							if elem != nil {
								ln.walk(func(x *Term) bool {
									if x.Key() == elem.Key() {
										sameElem = true
									}
									return true
								})
							}
							okDirect := sameElem && e.Val.isBin("+") && (isW(e.Val.Args[0]) && e.Val.Args[1].unver().Key() == e.Addr.unver().Key() || isW(e.Val.Args[1]) && e.Val.Args[0].unver().Key() == e.Addr.unver().Key())
							if okDirect {
								nReadd++
								directReadd[e.Seq] = true
							}
						}
						if e.Kind == "call" && isMethodCall(e.Call, "AddWithCount") && len(e.Call.Args) == 3 && e.Call.Args[0].isRecv() {
							nReadd++
							src := e.Call.Args[1]
							okSrc := src.Op == "index" && src.Args[0].Op == "field" && src.Args[0].Sym == pr.bufFld && src.Args[0].Args[0].isParam(0) // un-versioned: loaded before the truncation
							if !okSrc {
								bad = "re-added index is not an element of the buffer as it was before truncation: " + src.Key()
							}
							if !isW(e.Call.Args[2]) {
								bad = "buffered unit entries are re-added with weight " + e.Call.Args[2].Key() + " instead of w"
							}
							if trunc == 0 || e.Seq < trunc {
								bad = "indexes are re-added before the buffer is emptied (they would be counted twice)"
							}
							if !strings.Contains(e.Call.Sym, "BufferedPaginatedStore)") {
								bad = "re-add does not go through the paginated store's own AddWithCount"
							}
						}
					}
					if trunc == 0 {
						bad = firstNonEmpty(bad, "buffer is not emptied on an accepting path")
					}
					// nothing else touches the representation: a compaction, a flush of the buffer into the pages or a
					// page allocation between "read the buffer" and "re-add it" makes the two halves (scaled pages, re-added
					// units) overlap or miss each other
					for _, e := range p.Writes() {
						switch {
						case e.Kind == "store" && isRecvField(e.Addr, pr.bufFld) && e.Val.Op == "slice":
						case e.Kind == "store" && e.Addr.Op == "index" && e.Addr.Args[0].Op == "index" && isTimesW(e.Val, func(t *Term) bool { return t.unver().Key() == e.Addr.unver().Key() }, isW):
						case e.Kind == "call" && isMethodCall(e.Call, "AddWithCount") && len(e.Call.Args) == 3 && e.Call.Args[0].isRecv():
						case e.Kind == "store" && directReadd[e.Seq]:
						case e.Kind == "call" && isMethodCall(e.Call, "page") && trunc != 0 && e.Seq > trunc: // page allocation for a direct re-add
						default:
							bad = firstNonEmpty(bad, "the representation is changed by something other than emptying the buffer, scaling page elements and re-adding: "+e.String())
						}
					}
				}
			}
			// the re-add loop reads the old buffer while s.buffer has been cut to length 0 over the SAME array: it is only
			// sound because AddWithCount(index, w) with w ≠ 1 never appends to the buffer (it goes to a page). Side
			// condition on the callee: the buffer is appended to only for a weight of exactly 1.
			if aw := c.P.DeclaredMethod(pr.typ, "AddWithCount"); c.mustFunc(rule, aw, "BufferedPaginatedStore.AddWithCount") {
				aps, _ := exec(c, aw, nil, 2)
				badA := ""
				nBuf := 0
				for _, p := range aps {
					touches := false
					for _, e := range p.Effects {
						if e.Kind == "call" && isMethodCall(e.Call, "Add") && len(e.Call.Args) == 2 && e.Call.Args[0].isRecv() {
							touches = true
						}
						if e.Kind == "store" && isRecvField(e.Addr.unver(), pr.bufFld) {
							touches = true
						}
					}
					if !touches {
						continue
					}
					nBuf++
					unit := false
					for _, cd := range p.Conds {
						t := cd.Term
						if t.isBin("==") && cd.Taken && (t.Args[0].isConst("1") && t.Args[1].isParam(2) || t.Args[1].isConst("1") && t.Args[0].isParam(2)) {
							unit = true
						}
					}
					if !unit {
						badA = "a weight other than exactly 1 is appended to the buffer on path [" + p.String() + "]"
					}
				}
				c.R.check(badA == "" && nBuf > 0, rule, "BufferedPaginatedStore.AddWithCount/buffer-only-for-unit-weight", shortFn(aw), c.fpos(aw),
					"the buffer receives an entry only when the weight is exactly 1 (the side condition that makes Reweight's in-place re-add sound)", firstNonEmpty(badA, fmt.Sprintf("%d buffer-appending path(s)", nBuf)))
			}
			c.R.check(bad == "" && nReadd > 0, rule, "BufferedPaginatedStore.Reweight/buffer-readd", shortFn(f), c.fpos(f),
				"buffer emptied, then every index it held is re-added with weight w", firstNonEmpty(bad, fmt.Sprintf("%d re-add occurrence(s)", nReadd)))
		}
	}
	c.R.floor(rule, "Store.Reweight bodies", n, 3)
	// the collapsing stores must inherit (not re-declare) Reweight, or re-declare it with the same clauses: inheritance is checked by C05-D1
	for _, t := range c.P.Implementations(c.P.NamedType(pkgStore, "Store")) {
		if t == dense || t == sparse || t == pr.typ {
			continue
		}
		m := c.P.MethodOf(t, "Reweight")
		inherits := m != nil && m.Synthetic != "" && recvNamed(underlyingOfWrapper(m)) == dense
		c.R.check(inherits, rule, t.Obj().Name()+".Reweight/inherits-dense", t.Obj().Name(), "", "uses the dense body checked above", fmt.Sprintf("inherits=%v", inherits))
	}
}
