package main

import (
	"fmt"
	"go/types"
	"strconv"
	"strings"

	"golang.org/x/tools/go/ssa"
)

// C18 — variable-length integer and float codecs are exact, framed and sized.

func init() {
	register("C18",
		"DECIDED: D1 decoders are safe and framed — the six primitive decoders are unrolled completely (their loops run over a literal counter, so every CFG path is enumerated exhaustively, 0 abandoned prefixes): on every path each byte read (*b)[k] is preceded by a failed `len(*b) <= k` test for that same k, k never exceeds 8 (at most 9 bytes inspected), the fixed float reads 8 bytes only after `len(*b) < 8` failed, every path that runs out of bytes returns io.EOF without storing to the cursor, and every success path advances the cursor by exactly (last index read + 1) (8 for the fixed float, 1 for a flag) whatever follows; DecodeVarint32 returns the overflow error exactly outside [MinInt32, MaxInt32]; a decoder that delegates to another decoder hands it the caller's own cursor and does not move the cursor itself (its framing is the inner decoder's). "+
			"D2 encoders — completely unrolled likewise: every path of the variable-length encoders appends between 1 and 9 single bytes and does nothing else to the buffer; the fixed float appends exactly 8. "+
			"D3 size functions are tied to the encoders — both size tables are filled from len of a buffer written by the corresponding encoder; Varint64Size applies Uvarint64Size to the same zig-zag term EncodeVarint64 hands to EncodeUvarint64; Varfloat64Size recomputes the same transformed word as EncodeVarfloat64; table index direction matches group direction (LSB-first ↔ leading zeros, MSB-first ↔ trailing zeros). "+
			"D4 inverse pairs by shape — zig-zag (v<<1)^(v>>63) arithmetic / (u>>1)^−(u&1) logical; var-float chain [+1, bits, −bits(1), rotl k] undone by [rotl −k, +bits(1), frombits, −1] with the same k. "+
			"D3 also: a size function answers with a literal n only on paths whose own conditions force the transported word below 2^(7n) (signed range tests −2^k ≤ v < 2^k are the linear constraints v[j] = v[63], composed with the zig-zag transform in the bit domain). "+
			"D5 group constants agree inside each pair: 7-bit groups, continuation bit 0x80 set ↔ tested, payload mask 0x7F, ninth byte carries 8 bits on both sides. "+
			"D5 bit agreement (bits.go) — encoder and decoder of each variable-length codec (uvarint64, zig-zag varint64, varfloat64) are composed in a bit-provenance domain without running either: a 64-bit value is 64 positions, each the XOR of a set of input bits and a constant (or unknown); shifts, rotations, truncations, XOR, and AND/OR with constants are exact, path conditions `x < 2^k`, `x == 0` become linear constraints. For every enumerated size class of the encoder (delegation to another encoder expanded) and every enumerated decoder path whose byte tests those bytes can satisfy: the decoder consumes exactly the bytes produced, never reads past them, and every bit of its result is the encoded bit it came from; the arithmetic wrappers around the transported word (+1, Float64bits, −Float64bits(1)) are undone in reverse order. This is decode(encode(v)) = v and exact framing for all values of every class, decided symbolically per class. Classes whose conditions fall outside the domain are left undecided silently (counted in the evidence), never reported. "+
			"NOT DECIDED: size = length for all values; the value-level behaviour of the wrappers themselves (v+1 rounding is the documented loss of varfloat64).",
		"one obligation per enumerated path of each primitive (exhaustive), per size/inverse/constant clause",
		true, runC18)
}

func runC18(c *Ctx) {
	c18Decoders(c)
	c18Encoders(c)
	c18Sizes(c)
	c18Inverse(c)
	c18BitAgreement(c)
	c18SizeBound(c)
}

func lit(t *Term) (int64, bool) {
	if t == nil || t.Op != "const" {
		return 0, false
	}
	v, err := strconv.ParseInt(t.Sym, 10, 64)
	return v, err == nil
}

func isBufLoad(t *Term) bool { return t != nil && t.Op == "load" && t.Args[0].isParam(0) }

func c18Decoders(c *Ctx) {
	const rule = "C18-D1"
	total := 0
	for _, f := range encDecoders(c) {
		paths, complete, abandoned := pathsOfAll(c.P, f, nil, execOpts{MaxVisits: 12, Pure: c.Mod.PureCall, InlineCallee: inlineNewHelpers})
		c.R.count("paths", len(paths))
		name := shortFn(f)
		if !complete || abandoned > 0 {
			c.R.undecided(rule, name+"/exhaustive", name, c.fpos(f), "complete unrolling of the decoder (literal loop counter)", fmt.Sprintf("complete=%v abandoned prefixes=%d", complete, abandoned))
			continue
		}
		c.R.okay(rule, name+"/exhaustive", name, c.fpos(f), "complete unrolling", fmt.Sprintf("%d paths, 0 abandoned", len(paths)))
		composite := false
		for i, p := range paths {
			total++
			key := fmt.Sprintf("%s/path%d[%s]", name, i, pathSig(p))
			// (a) reads guarded
			maxK := int64(-1)
			bad := ""
			checkRead := func(t *Term, seq int) {
				t.walk(func(x *Term) bool {
					if x.Op == "index" && isBufLoad(x.Args[0]) {
						k, ok := lit(x.Args[1])
						if !ok {
							bad = "byte read at a non-literal index " + x.Args[1].Key()
							return true
						}
						if k > maxK {
							maxK = k
						}
						guarded := false
						for _, cd := range p.Conds {
							g := cd.Term
							if g.isBin("<=") && g.Args[0].Op == "builtin" && g.Args[0].Sym == "len" && isBufLoad(g.Args[0].Args[0]) && !cd.Taken {
								if gk, ok := lit(g.Args[1]); ok && gk >= k {
									guarded = true
								}
							}
							if g.isBin("<") && g.Args[0].Op == "builtin" && g.Args[0].Sym == "len" && isBufLoad(g.Args[0].Args[0]) && !cd.Taken {
								if gk, ok := lit(g.Args[1]); ok && gk > k {
									guarded = true
								}
							}
							// the same facts stated positively: k < len(*b) / k+1 <= len(*b) taken
							isLen := func(t *Term) bool {
								return t.Op == "builtin" && t.Sym == "len" && isBufLoad(t.Args[0])
							}
							if g.isBin("<") && isLen(g.Args[1]) && cd.Taken {
								if gk, ok := lit(g.Args[0]); ok && gk >= k {
									guarded = true
								}
							}
							if g.isBin("<=") && isLen(g.Args[1]) && cd.Taken {
								if gk, ok := lit(g.Args[0]); ok && gk > k {
									guarded = true
								}
							}
							// len(*b) != 0 holds ⇒ at least one byte
							if g.isBin("!=") && k == 0 && cd.Taken {
								for i := 0; i < 2; i++ {
									if g.Args[i].isConst("0") && isLen(g.Args[1-i]) {
										guarded = true
									}
								}
							}
							// len(*b) == 0 failed ⇒ at least one byte
							if g.isBin("==") && k == 0 && !cd.Taken {
								for i := 0; i < 2; i++ {
									if g.Args[i].isConst("0") && g.Args[1-i].Op == "builtin" && g.Args[1-i].Sym == "len" && isBufLoad(g.Args[1-i].Args[0]) {
										guarded = true
									}
								}
							}
						}
						if !guarded {
							bad = fmt.Sprintf("(*b)[%d] is read without a failed `len(*b) <= %d` test on the path", k, k)
						}
					}
					return true
				})
			}
			for _, cd := range p.Conds {
				checkRead(cd.Term, cd.Seq)
			}
			for _, r := range p.RetT {
				checkRead(r, 1<<30)
			}
			fixed8 := false
			pathComposite := false
			for _, e := range p.Effects {
				if e.Val != nil {
					checkRead(e.Val, e.Seq)
				}
				if e.Call != nil {
					checkRead(e.Call, e.Seq)
					// binary.LittleEndian.Uint64(*b) reads 8 bytes
					if e.Call.Op == "call" && strings.Contains(e.Call.Sym, "littleEndian).Uint64") {
						fixed8 = true
						ok := false
						for _, cd := range p.Conds {
							g := cd.Term
							if g.isBin("<") && g.Args[0].Op == "builtin" && g.Args[0].Sym == "len" && !cd.Taken {
								if gk, okk := lit(g.Args[1]); okk && gk >= 8 {
									ok = true
								}
							}
						}
						if !ok {
							bad = "8-byte read without a failed `len(*b) < 8` test"
						}
					}
					if e.Kind == "call" && !e.Pure && e.Call.Op == "call" && strings.HasPrefix(e.Call.Sym, "ddsketch/encoding.Decode") {
						composite = true
						pathComposite = true
						// framing of a composite decoder is the inner decoder's: it is handed the caller's cursor itself
						if len(e.Call.Args) == 0 || !e.Call.Args[0].isParam(0) {
							bad = "the inner decoder " + e.Call.Sym + " is not handed the cursor of the caller (the bytes it consumes are not the bytes the caller advances by)"
						}
					}
				}
			}
			if maxK > 8 {
				bad = fmt.Sprintf("byte %d inspected: more than 9 bytes", maxK)
			}
			// (b) outcome
			last := p.RetT[len(p.RetT)-1]
			var store *Effect
			for j := range p.Effects {
				if p.Effects[j].Kind == "store" && p.Effects[j].Addr.isParam(0) {
					store = &p.Effects[j]
				}
			}
			switch {
			case pathComposite:
				if store != nil {
					bad = firstNonEmpty(bad, "a decoder that delegates to another decoder moves the cursor itself: "+store.Val.Key())
				}
			case last.Key() == "global:io.EOF":
				if store != nil {
					bad = "cursor advanced on an end-of-input path"
				}
			case p.RetNil(len(p.RetT)-1) == 1 && !composite:
				want := maxK + 1
				if fixed8 {
					want = 8
				}
				ok := store != nil && store.Val.Op == "slice" && isBufLoad(store.Val.Args[0]) && store.Val.Args[2].Op == "none"
				if ok {
					adv, isLit := lit(store.Val.Args[1])
					ok = isLit && adv == want
				}
				if !ok {
					got := "no cursor store"
					if store != nil {
						got = store.Val.Key()
					}
					bad = firstNonEmpty(bad, fmt.Sprintf("success must advance the cursor by exactly %d bytes; found %s", want, got))
				}
			}
			c.R.check(bad == "", rule, key, name, c.fpos(f), "reads guarded, ≤ 9 bytes inspected, EOF without consuming, success advances by exactly the bytes read", firstNonEmpty(bad, fmt.Sprintf("max index %d; %s", maxK, describeRet(p))))
		}
	}
	c.R.floor(rule, "decoder paths enumerated", total, 40)
	// DecodeVarint32 table
	if f := c.P.Func(pkgEnc, "DecodeVarint32"); c.mustFunc(rule, f, "DecodeVarint32") {
		isV := func(t *Term) bool {
			return t.Op == "extract" && t.Sym == "0" && isMethodCall(t.Args[0], "DecodeVarint64") || t.Op == "extract" && t.Sym == "0"
		}
		dom := mkDomain(scalarSpec{name: "v", n: 2, integer: true, point: constPoints("-2147483648", "2147483647"), match: isV})
		paths, _ := exec(c, f, dom, 1)
		for cls := 1; cls <= 5; cls++ {
			var sel []*Path
			for _, p := range paths {
				ok := false
				for k, set := range p.Classes {
					if strings.HasPrefix(k, "v") && set.has(cls) {
						ok = true
					}
				}
				if ok {
					sel = append(sel, p)
				}
			}
			wantErr := cls == 1 || cls == 5
			bad := ""
			for _, p := range sel {
				st := p.RetNil(1)
				if wantErr && !(st == -1 && strings.Contains(p.RetT[1].Key(), "Overflow")) || !wantErr && st != 1 {
					bad = describeRet(p)
				}
			}
			if len(sel) == 0 {
				bad = "no compatible path"
			}
			c.R.check(bad == "", rule, fmt.Sprintf("%s/range/v%s", shortFn(f), className([]string{"MinInt32", "MaxInt32"}, cls)), shortFn(f), c.fpos(f), map[bool]string{true: "overflow error", false: "accepted"}[wantErr], firstNonEmpty(bad, "ok"))
		}
	}
}

func c18Encoders(c *Ctx) {
	const rule = "C18-D2"
	total := 0
	for _, f := range encEncoders(c) {
		name := shortFn(f)
		paths, complete, abandoned := pathsOfAll(c.P, f, nil, execOpts{MaxVisits: 12, Pure: c.Mod.PureCall, InlineCallee: inlineNewHelpers})
		c.R.count("paths", len(paths))
		if !complete || abandoned > 0 {
			c.R.undecided(rule, name+"/exhaustive", name, c.fpos(f), "complete unrolling of the encoder", fmt.Sprintf("complete=%v abandoned=%d", complete, abandoned))
			continue
		}
		lo, hi := 1<<30, 0
		bad := ""
		delegates := false
		for _, p := range paths {
			n := 0
			for _, e := range p.Effects {
				switch {
				case e.Kind == "store" && e.Addr.isParam(0):
					// *b = append(*b, …) — or a chain of appends built up in a local and stored back once
					var chain []*Term
					v := e.Val.unver()
					for v.Op == "builtin" && v.Sym == "append" && len(v.Args) == 2 {
						chain = append(chain, v)
						v = v.Args[0].unver()
					}
					if !isBufLoad(v) || len(chain) == 0 {
						bad = "buffer store that is not an append: " + e.Val.Key()
						continue
					}
					for _, ap := range chain {
						src := ap.Args[1].unver()
						switch {
						case src.Op == "slice" && src.Args[0].unver().Op == "alloc":
							// append(x, a, b, …) / append(x, make([]byte, k)...): a fresh [k]byte array, sliced whole or [:k]
							k := int64(1)
							if al, ok := src.Args[0].unver().V.(*ssa.Alloc); ok {
								if pt, ok := al.Type().Underlying().(*types.Pointer); ok {
									if at, ok := pt.Elem().Underlying().(*types.Array); ok {
										k = at.Len()
									}
								}
							}
							if hk, ok := lit(src.Args[2]); ok {
								k = hk
							}
							n += int(k)
						case src.Op == "make":
							if k, ok := lit(src.Args[0]); ok {
								n += int(k)
							} else {
								bad = "append of a slice of unknown length"
							}
						default:
							bad = "append of " + src.Key()
						}
					}
				case e.Kind == "call" && !e.Pure && e.Call.Op == "call" && strings.HasPrefix(e.Call.Sym, "ddsketch/encoding.Encode"):
					delegates = true
				case e.Kind == "call" && !e.Pure && strings.Contains(e.Call.Sym, "PutUint64"):
					// in-place write into the bytes just appended (C06-D4)
				case e.Kind == "call" && !e.Pure:
					bad = "unexpected call " + e.Call.Key()
				}
			}
			if n < lo {
				lo = n
			}
			if n > hi {
				hi = n
			}
		}
		total += len(paths)
		if delegates {
			c.R.trivial(rule, name+"/delegates", name, c.fpos(f), "delegates to another encoder", fmt.Sprintf("%d path(s)", len(paths)))
			continue
		}
		wantLo, wantHi := 1, 9
		if strings.Contains(name, "Float64LE") {
			wantLo, wantHi = 8, 8
		}
		if strings.HasSuffix(name, "EncodeFlag") {
			wantLo, wantHi = 1, 1
		}
		c.R.check(bad == "" && lo >= wantLo && hi <= wantHi, rule, name+"/bytes-appended", name, c.fpos(f), fmt.Sprintf("every path appends between %d and %d bytes and only appends", wantLo, wantHi), firstNonEmpty(bad, fmt.Sprintf("%d..%d bytes over %d exhaustive paths", lo, hi, len(paths))))
	}
	c.R.floor(rule, "encoder paths enumerated", total, 20)
}

// renameParam: term key with parameter indices shifted (to compare a size function f(v) with an encoder g(b, v)).
func keyShift(t *Term, delta int) string {
	k := t.Key()
	for i := 0; i < 4; i++ {
		k = strings.ReplaceAll(k, fmt.Sprintf("param:%d", i), fmt.Sprintf("param§%d", i+delta))
	}
	return strings.ReplaceAll(k, "param§", "param:")
}

func c18Sizes(c *Ctx) {
	const rule = "C18-D3"
	argOfCall := func(f *ssa.Function, callee string, argIdx int) *Term {
		ps, _ := execNoInline(c, f, nil, 1)
		for _, p := range ps {
			for _, e := range p.Effects {
				if e.Kind == "call" && e.Call.Op == "call" && strings.HasSuffix(e.Call.Sym, "."+callee) && argIdx < len(e.Call.Args) {
					return e.Call.Args[argIdx]
				}
			}
			for _, r := range p.RetT {
				var found *Term
				r.walk(func(x *Term) bool {
					if x.Op == "call" && strings.HasSuffix(x.Sym, "."+callee) && argIdx < len(x.Args) {
						found = x.Args[argIdx]
					}
					return true
				})
				if found != nil {
					return found
				}
			}
		}
		return nil
	}
	// Varint64Size vs EncodeVarint64
	ev, sv := c.P.Func(pkgEnc, "EncodeVarint64"), c.P.Func(pkgEnc, "Varint64Size")
	if c.mustFunc(rule, ev, "EncodeVarint64") && c.mustFunc(rule, sv, "Varint64Size") {
		a := argOfCall(ev, "EncodeUvarint64", 1)
		b := argOfCall(sv, "Uvarint64Size", 0)
		ok := a != nil && b != nil && a.Key() == keyShift(b, 1)
		c.R.check(ok, rule, "Varint64Size/same-zigzag-term", shortFn(sv), c.fpos(sv), "Uvarint64Size is applied to the very zig-zag term that EncodeVarint64 hands to EncodeUvarint64", fmt.Sprintf("encoder: %v; size: %v", a, b))
	}
	// Varfloat64Size vs EncodeVarfloat64: the transformed word
	ef, sf := c.P.Func(pkgEnc, "EncodeVarfloat64"), c.P.Func(pkgEnc, "Varfloat64Size")
	if c.mustFunc(rule, ef, "EncodeVarfloat64") && c.mustFunc(rule, sf, "Varfloat64Size") {
		word := func(f *ssa.Function) *Term {
			var w *Term
			tc := newTermCtx(c.P)
			for _, b := range f.Blocks {
				for _, in := range b.Instrs {
					if call, ok := in.(*ssa.Call); ok {
						t := tc.Of(call)
						if t.Op == "call" && t.Sym == "math/bits.RotateLeft64" && w == nil {
							w = t
						}
					}
				}
			}
			return w
		}
		a, b := word(ef), word(sf)
		ok := a != nil && b != nil && a.Key() == keyShift(b, 1)
		c.R.check(ok, rule, "Varfloat64Size/same-transformed-word", shortFn(sf), c.fpos(sf), "the size function recomputes exactly the transformed word the encoder emits", fmt.Sprintf("encoder: %v; size: %v", a, b))
		// … on every path: no shortcut answers from anything else (a table indexed by int(v) is wrong for fractional v)
		if b != nil {
			sps, _ := exec(c, sf, nil, 1)
			okAll := len(sps) > 0
			foundP := ""
			for _, p := range sps {
				uses := false
				p.RetT[0].walk(func(x *Term) bool {
					if x.Key() == b.Key() {
						uses = true
					}
					return true
				})
				if !uses {
					okAll = false
					foundP = "path [" + p.String() + "] returns " + p.RetT[0].Key()
				}
			}
			c.R.check(okAll, rule, "Varfloat64Size/every-path-from-the-word", shortFn(sf), c.fpos(sf), "every path returns a table entry selected by the transformed word", firstNonEmpty(foundP, fmt.Sprintf("%d path(s)", len(sps))))
		}
		// index direction: MSB-first groups ↔ trailing zeros
		usesTZ := false
		tc := newTermCtx(c.P)
		for _, bl := range sf.Blocks {
			for _, in := range bl.Instrs {
				if call, ok := in.(*ssa.Call); ok && strings.HasSuffix(tc.Of(call).Sym, "TrailingZeros64") {
					usesTZ = true
				}
			}
		}
		c.R.check(usesTZ, rule, "Varfloat64Size/trailing-zeros", shortFn(sf), c.fpos(sf), "MSB-first groups: the table is indexed by the number of trailing zero bits", "")
	}
	if su := c.P.Func(pkgEnc, "Uvarint64Size"); c.mustFunc(rule, su, "Uvarint64Size") {
		usesLZ := false
		tc := newTermCtx(c.P)
		for _, bl := range su.Blocks {
			for _, in := range bl.Instrs {
				if call, ok := in.(*ssa.Call); ok && strings.HasSuffix(tc.Of(call).Sym, "LeadingZeros64") {
					usesLZ = true
				}
			}
		}
		c.R.check(usesLZ, rule, "Uvarint64Size/leading-zeros", shortFn(su), c.fpos(su), "LSB-first groups: the table is indexed by the number of leading zero bits", "")
	}
	// tables filled from len of a buffer written by the matching encoder
	for _, x := range []struct{ init, enc string }{{"initUvarint64Sizes", "EncodeUvarint64"}, {"initVarfloat64Sizes", "EncodeVarfloat64"}} {
		f := c.P.Func(pkgEnc, x.init)
		if !c.mustFunc(rule, f, x.init) {
			continue
		}
		tc := newTermCtx(c.P)
		callsEnc, storesLen, resets := false, false, false
		for _, b := range f.Blocks {
			for _, in := range b.Instrs {
				switch in := in.(type) {
				case *ssa.Call:
					if fn, ok := in.Common().Value.(*ssa.Function); ok && fn.Name() == x.enc {
						callsEnc = true
					}
				case *ssa.Store:
					vt := tc.Of(in.Val)
					if vt.Op == "builtin" && vt.Sym == "len" {
						storesLen = true
					}
					if vt.Op == "slice" && vt.Args[2].isConst("0") {
						resets = true
					}
				}
			}
		}
		c.R.check(callsEnc && storesLen && resets, rule, x.init+"/filled-from-encoder", shortFn(f), c.fpos(f), "each table entry is len(b) after "+x.enc+" wrote into a buffer reset to length 0", fmt.Sprintf("calls encoder=%v stores len=%v resets=%v", callsEnc, storesLen, resets))
	}
}

func c18Inverse(c *Ctx) {
	const rule = "C18-D4"
	// zig-zag
	ev := c.P.Func(pkgEnc, "EncodeVarint64")
	dv := c.P.Func(pkgEnc, "DecodeVarint64")
	if c.mustFunc(rule, ev, "EncodeVarint64") && c.mustFunc(rule, dv, "DecodeVarint64") {
		ps, _ := exec(c, ev, nil, 1)
		ok := false
		found := ""
		for _, p := range ps {
			for _, e := range p.Calls() {
				if strings.HasSuffix(e.Call.Sym, "EncodeUvarint64") {
					t := stripConv(e.Call.Args[1])
					found = t.Key()
					// (v << 1) ^ (v >> 63) with v signed
					if t.isBin("^") {
						for i := 0; i < 2; i++ {
							a, b := t.Args[i], t.Args[1-i]
							if a.isBin("<<") && a.Args[0].isParam(1) && a.Args[1].isConst("1") && b.isBin(">>") && b.Args[0].isParam(1) && b.Args[1].isConst("63") {
								ok = !isUnsigned(ev.Params[1].Type())
							}
						}
					}
				}
			}
		}
		c.R.check(ok, rule, "zigzag/encode", shortFn(ev), c.fpos(ev), "(v << 1) ^ (v >> 63) on a signed v (arithmetic shift)", found)
		ps, _ = exec(c, dv, nil, 1)
		ok = false
		for _, p := range ps {
			t := stripConv(p.RetT[0])
			found = t.Key()
			if t.isBin("^") {
				for i := 0; i < 2; i++ {
					a, b := t.Args[i], t.Args[1-i]
					isU := func(x *Term) bool { return x.Op == "extract" && x.Sym == "0" }
					if a.isBin(">>") && isU(a.Args[0]) && a.Args[1].isConst("1") && b.Op == "un" && b.Sym == "-" && b.Args[0].isBin("&") {
						m := b.Args[0]
						if (isU(m.Args[0]) && m.Args[1].isConst("1") || isU(m.Args[1]) && m.Args[0].isConst("1")) && a.V != nil && isUnsigned(a.V.Type()) {
							ok = true
						}
					}
				}
			}
			// error of the inner decoder is returned
			ok = ok && p.RetT[1].Op == "extract" && p.RetT[1].Sym == "1"
		}
		c.R.check(ok, rule, "zigzag/decode", shortFn(dv), c.fpos(dv), "(u >> 1) ^ −(u & 1) on an unsigned u (logical shift), error passed through", found)
	}
	// var-float transform
	ef, df := c.P.Func(pkgEnc, "EncodeVarfloat64"), c.P.Func(pkgEnc, "DecodeVarfloat64")
	if c.mustFunc(rule, ef, "EncodeVarfloat64") && c.mustFunc(rule, df, "DecodeVarfloat64") {
		var k1, k2 string
		okE, okD := false, false
		tc := newTermCtx(c.P)
		for _, b := range ef.Blocks {
			for _, in := range b.Instrs {
				if call, ok := in.(*ssa.Call); ok {
					t := tc.Of(call)
					if t.Op == "call" && t.Sym == "math/bits.RotateLeft64" {
						w := t.Args[0]
						k1 = t.Args[1].Key()
						// bits(v+1) − bits(1)
						if w.isBin("-") && w.Args[0].Op == "call" && w.Args[0].Sym == "math.Float64bits" && w.Args[0].Args[0].isBin("+") && w.Args[1].Op == "call" && w.Args[1].Sym == "math.Float64bits" && w.Args[1].Args[0].isConst("1") {
							p := w.Args[0].Args[0]
							okE = p.Args[0].isConst("1") && p.Args[1].isParam(1) || p.Args[1].isConst("1") && p.Args[0].isParam(1)
						}
					}
				}
			}
		}
		foundD := ""
		ps, _, _ := pathsOfAll(c.P, df, nil, execOpts{MaxVisits: 12, Pure: c.Mod.PureCall, InlineCallee: inlineNewHelpers})
		nD := 0
		okD = true
		for _, p := range ps {
			if p.RetNil(1) != 1 {
				continue
			}
			nD++
			r := p.RetT[0]
			foundD = r.Key()
			good := r.isBin("-") && r.Args[1].isConst("1") && r.Args[0].Op == "call" && r.Args[0].Sym == "math.Float64frombits"
			if good {
				s := r.Args[0].Args[0]
				good = s.isBin("+")
				if good {
					var rot *Term
					for i := 0; i < 2; i++ {
						if s.Args[i].Op == "call" && s.Args[i].Sym == "math.Float64bits" && s.Args[i].Args[0].isConst("1") && s.Args[1-i].Op == "call" && s.Args[1-i].Sym == "math/bits.RotateLeft64" {
							rot = s.Args[1-i]
						}
					}
					good = rot != nil
					if good {
						k2 = rot.Args[1].Key()
					}
				}
			}
			if !good {
				okD = false
			}
		}
		okD = okD && nD > 0
		neg := func(s string) string {
			if strings.HasPrefix(s, "const:-") {
				return "const:" + strings.TrimPrefix(s, "const:-")
			}
			return "const:-" + strings.TrimPrefix(s, "const:")
		}
		c.R.check(okE, rule, "varfloat/encode-chain", shortFn(ef), c.fpos(ef), "rotl(bits(v + 1) − bits(1), k)", "k="+k1)
		c.R.check(okD && k1 != "" && k2 == neg(k1), rule, "varfloat/decode-chain", shortFn(df), c.fpos(df), "frombits(rotl(x, −k) + bits(1)) − 1 with the encoder's k on every success path", fmt.Sprintf("encoder k=%s decoder k=%s; %s", k1, k2, foundD))
	}
	// fixed-width little-endian float: every path of the encoder stores bits(v) into the 8 bytes it appended
	// (no value is special-cased: ±0, NaN payloads and subnormals are bit patterns like any other), and the
	// decoder returns frombits(LittleEndian.Uint64(*b)) of the same 8 bytes.
	el, dl := c.P.Func(pkgEnc, "EncodeFloat64LE"), c.P.Func(pkgEnc, "DecodeFloat64LE")
	if c.mustFunc(rule, el, "EncodeFloat64LE") && c.mustFunc(rule, dl, "DecodeFloat64LE") {
		ps, _ := exec(c, el, nil, 1)
		okL := len(ps) > 0
		foundL := ""
		for i, p := range ps {
			nPut := 0
			for _, e := range p.Effects {
				if e.Kind != "call" || !strings.HasSuffix(e.Call.Sym, "littleEndian).PutUint64") && !strings.HasSuffix(e.Call.Sym, "littleEndian).AppendUint64") {
					continue
				}
				v := e.Call.Args[len(e.Call.Args)-1]
				if v.Op == "call" && v.Sym == "math.Float64bits" && v.Args[0].isParam(1) {
					nPut++
				} else {
					foundL = "stores " + v.Key()
				}
			}
			if nPut == 0 {
				// the same 8 bytes appended one by one: element k of the appended array is byte(bits(v) >> 8k)
				elems := map[string]*Term{}
				var arr *Term
				for _, e := range p.Effects {
					if e.Kind == "store" && e.Addr.Op == "index" && e.Addr.Args[0].Op == "alloc" && e.Addr.Args[1].Op == "const" {
						elems[e.Addr.Args[0].Key()+"#"+e.Addr.Args[1].Sym] = e.Val
					}
					if e.Kind == "store" && e.Addr.isParam(0) && e.Val.Op == "builtin" && e.Val.Sym == "append" && len(e.Val.Args) == 2 && e.Val.Args[1].Op == "slice" && e.Val.Args[1].Args[0].Op == "alloc" {
						arr = e.Val.Args[1].Args[0]
					}
				}
				if arr != nil {
					all := true
					for k := 0; k < 8; k++ {
						v := elems[arr.Key()+"#"+strconv.Itoa(k)]
						good := v != nil && v.Op == "conv" && v.Sym == "byte"
						if good {
							x := v.Args[0]
							if k > 0 {
								good = x.isBin(">>") && x.Args[1].isConst(strconv.Itoa(8*k))
								if good {
									x = x.Args[0]
								}
							}
							good = good && x.Op == "call" && x.Sym == "math.Float64bits" && x.Args[0].isParam(1)
						}
						if !good {
							all = false
						}
					}
					if all {
						nPut = 1
					}
				}
			}
			if nPut != 1 {
				okL = false
				foundL = firstNonEmpty(foundL, fmt.Sprintf("path%d[%s] stores bits(v) %d time(s)", i, pathSig(p), nPut))
			}
		}
		c.R.check(okL, rule, "float64le/encode-chain", shortFn(el), c.fpos(el), "every path stores math.Float64bits(v) little-endian exactly once, whatever v is", firstNonEmpty(foundL, fmt.Sprintf("%d path(s)", len(ps))))
		ps, _ = exec(c, dl, nil, 1)
		okD, nS := true, 0
		foundD := ""
		for _, p := range ps {
			if p.RetNil(1) != 1 {
				continue
			}
			nS++
			r := p.RetT[0]
			foundD = r.Key()
			if !(r.Op == "call" && r.Sym == "math.Float64frombits" && r.Args[0].Op == "call" && strings.HasSuffix(r.Args[0].Sym, "littleEndian).Uint64")) {
				okD = false
			}
		}
		c.R.check(okD && nS > 0, rule, "float64le/decode-chain", shortFn(dl), c.fpos(dl), "success returns math.Float64frombits(LittleEndian.Uint64(…)) — the bit pattern unchanged", foundD)
	}
	// D5 group constants
	const rule5 = "C18-D5"
	type consts struct{ shift7, mask7f, cont80 bool }
	scan := func(f *ssa.Function) consts {
		var cs consts
		for _, b := range f.Blocks {
			for _, in := range b.Instrs {
				bo, ok := in.(*ssa.BinOp)
				if !ok {
					continue
				}
				for _, v := range []ssa.Value{bo.X, bo.Y} {
					if cst, ok := v.(*ssa.Const); ok && cst.Value != nil {
						switch cst.Value.ExactString() {
						case "7":
							if s := bo.Op.String(); s == "<<" || s == ">>" || s == "+" || s == "-" {
								cs.shift7 = true
							}
						case "127":
							if bo.Op.String() == "&" {
								cs.mask7f = true
							}
						case "128":
							cs.cont80 = true
						}
					}
				}
			}
		}
		return cs
	}
	for _, pair := range [][2]string{{"EncodeUvarint64", "DecodeUvarint64"}, {"EncodeVarfloat64", "DecodeVarfloat64"}} {
		e, d := c.P.Func(pkgEnc, pair[0]), c.P.Func(pkgEnc, pair[1])
		if e == nil || d == nil {
			continue
		}
		ce, cd := scan(e), scan(d)
		c.R.check(ce.shift7 && ce.cont80 && cd.shift7 && cd.cont80 && cd.mask7f, rule5, pair[0]+"↔"+pair[1]+"/group-constants", shortFn(e), c.fpos(e), "7-bit groups on both sides, continuation bit 0x80 set by the encoder and tested by the decoder, payload mask 0x7F in the decoder", fmt.Sprintf("encoder %+v decoder %+v", ce, cd))
	}
}
