package main

import (
	"fmt"
	"go/token"
	"strings"

	"golang.org/x/tools/go/ssa"
)

// C06 — binary encoding round-trips and composes with merging.

func init() {
	register("C06",
		"DECIDED: D1 codec grammar agreement per block kind between every writer, every reader arm and the documented grammar (rule shared with C07-D3), plus side pairing: DDSketch.Encode hands the positive flag type to the positive store and the negative one to the negative store, and the decoder's positive/negative arms decode into the same-side store. "+
			"D2 delta / stride discipline — every delta writer emits cur − prev with prev = φ(0, cur); every delta reader uses acc = φ(0, acc + Δ); contiguous writers announce N = max − min + 1 (or the page length), the first index of the window and stride 1 and emit exactly that window; contiguous readers advance the index by the decoded stride after every count. "+
			"D3 decoding is additive and block-local — inside the sketch decoder and every store decoder, every write to sketch/store state is an accumulation (x += e, Add/AddWithCount, append to the buffer, page[i] += c) or lives in the paginated store's representation routines; the only plain assignment (the mapping) is guarded by nil-or-Equals (C08-D3); the block loop carries no state from one block to the next (no φ at its header). This is the structural reason why decoding into a non-empty sketch is a merge and why concatenated encodings decode to the merge of the parts. "+
			"D4 encoding only appends — every store to the caller's buffer in the encoding primitives and in every Encode method is `*b = append(*b, …)`; EncodeFloat64LE writes only into the 8 bytes it has just appended; the receiver's observable write set is empty (C14-D1 obligation re-evaluated for every Encode). "+
			"D5 omitIndexMapping: true → no mapping block, false → exactly one; the optional blocks (zero weight, exact count, exact sum) are left out only on paths that know their value to be 0. "+
			"D6 decoding constructors — DecodeDDSketch and its exact-statistics sibling build a sketch with the caller's mapping argument (the 'supplied by the caller' form), two separate stores from the caller's provider and no weight, decode the caller's bytes into exactly that sketch and return it with the decoder's error. "+
			"SHARED (obligations of other properties that decide clauses this property states too, re-evaluated here under their home rule ids): C14-D5 for every function with Encode or Decode in its name (no package-level state between calls). C04-D1/D2/D3/D5/D6/D9 and C05-D8 (the add side of every store: a decoded bin is counted at its index). C08-D4 (item loops of the bin decoders read exactly the announced number of items). C10-D1/D5 (statistics blocks of the exact variant: guards of the writer, arms and final guard of the reader). C04-D9 for the paginated decoder (elements of a page obtained without creating it are touched only after its length showed it non-empty: a store reused after Clear keeps emptied slots). C19-D1 binary part (the embedded mapping block is written from the gamma and offset fields and read back into the same kind). C19-D2/D3 (Equals of the mappings — a stream that embeds the receiver's own mapping must be accepted, so Equals must hold for a mapping and itself: symmetric tolerance table over absolute values). "+
			"NOT DECIDED: bit-exact equality of weights after the round trip, which layout is chosen for given data, clamping into bounded target stores.",
		"one obligation per writer block / reader arm / delta site / state write in a decoder / buffer store in an encoder",
		false, runC06)
}

func runC06(c *Ctx) {
	a, err := c.anchors()
	if err != nil {
		c.R.undecided("C06", "anchors", "", "", "sketch anchors resolve", err.Error())
		return
	}
	wireGrammarRules(c, a, "C06-D1")
	c06Sides(c, a)
	c06Deltas(c, a)
	c06Additive(c, a)
	c06AppendOnly(c, a)
	c06Omit(c, a)
	c06DecoderCtors(c, a, "C06-D6")
	c06OptionalBlocks(c, "C06-D5", c.P.DeclaredMethod(a.DDSketch, "Encode"), []string{"FlagZeroCountVarFloat"})
	c06OptionalBlocks(c, "C06-D5", c.P.DeclaredMethod(a.Exact, "Encode"), []string{"FlagCount", "FlagSum"})
	// the bin decoders read exactly the announced number of items (a shortcut that reads a whole page whatever the
	// first line is, or one item too many, decodes other bins than were encoded)
	c.shared(func() { c08ItemLoops(c, a) }, func(o *Obligation) bool { return true })
	// the statistics blocks of the exact variant round-trip: written only when they hold a real value, read back
	// into the accumulator of their flag
	c.shared(func() { c10EncodeGuards(c, a); c10Decode(c, a) }, func(o *Obligation) bool { return true })
	// decoded bins are added through the receiver's entry points: the add side of every store kind
	c.shared(func() { c04AddPaths(c) }, func(o *Obligation) bool { return true })
	// encoders and decoders keep nothing in package-level variables between calls
	c.shared(func() { c14NoPackageState(c, "C14-D5") }, keyMentions("Encode", "Decode"))
	// decoding into a reused (cleared) paginated store: emptied page slots are recognised by their length
	if pr := c.paginated(); pr.err == "" {
		c.shared(func() { c04PageTable(c, pr, "C04-D9"); c04PageUse(c, pr, "C04-D9") }, keyMentions("DecodeAndMergeWith"))
	}
	// a stream whose embedded mapping equals the receiver's must be accepted: Equals holds for a mapping and itself
	c.shared(func() { c19Equals(c, mappingInfos(c, "C06")) }, func(o *Obligation) bool { return true })
	// the embedded mapping round-trips: each kind writes its flag, gamma, offset and the reader arm of that flag rebuilds the same kind
	c.shared(func() { c19Binary(c, mappingInfos(c, "C06")) }, func(o *Obligation) bool { return true })
	// decoding into a store that caches "buffer is sorted": the cache is maintained on the decode paths too
	if pr := c.paginated(); pr.err == "" && pr.sortFlag != "" {
		c.shared(func() { c14SortFlag(c, pr) }, func(o *Obligation) bool { return true })
	}
}

func c06Sides(c *Ctx, a *sketchAnchors) {
	const rule = "C06-D1"
	isG := func(t *Term, name string) bool { return t.Op == "global" && t.Sym == "ddsketch/encoding."+name }
	if f := c.P.DeclaredMethod(a.DDSketch, "Encode"); c.mustFunc(rule, f, "(*DDSketch).Encode") {
		paths, _ := exec(c, f, nil, 1)
		ok := len(paths) > 0
		found := ""
		for _, p := range paths {
			pos, neg := 0, 0
			for _, e := range p.Calls() {
				if isMethodCall(e.Call, "Encode") && len(e.Call.Args) == 3 {
					switch {
					case isRecvField(e.Call.Args[0], a.posField) && isG(e.Call.Args[2], "FlagTypePositiveStore") && e.Call.Args[1].isParam(1):
						pos++
					case isRecvField(e.Call.Args[0], a.negField) && isG(e.Call.Args[2], "FlagTypeNegativeStore") && e.Call.Args[1].isParam(1):
						neg++
					default:
						found = "store encoded with the wrong side flag: " + e.Call.Key()
						ok = false
					}
				}
			}
			if pos != 1 || neg != 1 {
				ok = false
				found = firstNonEmpty(found, fmt.Sprintf("positive encodes=%d negative encodes=%d", pos, neg))
			}
		}
		c.R.check(ok, rule, "sides/"+shortFn(f), shortFn(f), c.fpos(f), "positive store encoded once with FlagTypePositiveStore, negative store once with FlagTypeNegativeStore, on every path", firstNonEmpty(found, "ok"))
	}
	if f := c.blockLoop(a); c.mustFunc(rule, f, "decodeAndMergeWith") {
		paths, _ := exec(c, f, nil, 2)
		arms, _ := dispatchArms(paths, func(t *Term) bool { return isMethodCall(t, "Type") })
		for _, side := range []struct{ flag, fld string }{{"FlagTypePositiveStore", a.posField}, {"FlagTypeNegativeStore", a.negField}} {
			ps := arms["global:ddsketch/encoding."+side.flag]
			ok := len(ps) > 0
			found := fmt.Sprintf("%d arm path(s)", len(ps))
			for _, p := range ps {
				// the store decode call that follows the (last) taken arm test on this path
				seen := false
				for _, e := range p.Effects {
					if e.Kind == "call" && isMethodCall(e.Call, "DecodeAndMergeWith") && len(e.Call.Args) == 3 && strings.Contains(e.Call.Sym, "Store") {
						if isRecvField(e.Call.Args[0], side.fld) && isMethodCall(e.Call.Args[2], "SubFlag") {
							seen = true
						}
					}
				}
				if !seen {
					ok = false
					found = "arm does not decode into " + side.fld + " with the flag's subflag"
				}
			}
			c.R.check(ok, rule, "sides/decoder/"+side.flag, shortFn(f), c.fpos(f), "blocks of type "+side.flag+" are decoded into "+side.fld+" with flag.SubFlag()", found)
		}
	}
}

// encode/decode call recognisers at instruction level
func encCallName(in ssa.Instruction) (string, *ssa.Call) {
	call, ok := in.(*ssa.Call)
	if !ok {
		return "", nil
	}
	fn, ok := call.Common().Value.(*ssa.Function)
	if !ok || fn.Pkg == nil || fn.Pkg.Pkg.Path() != pkgEnc {
		return "", nil
	}
	return fn.Name(), call
}

func stripConv(t *Term) *Term {
	for t != nil && t.Op == "conv" {
		t = t.Args[0]
	}
	return t
}

func c06Deltas(c *Ctx, a *sketchAnchors) {
	const rule = "C06-D2"
	g := newGrammarCtx(c)
	encodeFlag := c.P.Func(pkgEnc, "EncodeFlag")
	nSites := 0
	// ---- writers
	for _, f := range c.P.Funcs {
		if f.Pkg == nil || f.Pkg.Pkg.Path() == pkgEnc {
			continue
		}
		has := false
		for _, b := range f.Blocks {
			for _, in := range b.Instrs {
				if call, ok := in.(*ssa.Call); ok && call.Common().Value == ssa.Value(encodeFlag) {
					has = true
				}
			}
		}
		if !has {
			continue
		}
		depth := g.depths(f)
		tc := newTermCtx(c.P)
		// each flag call opens a block; the kind tells which varints are deltas
		var curKind string
		var curDepth int
		var curFlag *ssa.Call
		vIdx := 0
		// walk blocks in dominance-compatible order (block index order follows source order for structured code)
		for _, b := range f.Blocks {
			for _, in := range b.Instrs {
				name, call := encCallName(in)
				if call == nil {
					continue
				}
				switch name {
				case "EncodeFlag":
					k, _ := flagKindName(tc.Of(call.Common().Args[1]))
					curKind, curDepth, curFlag, vIdx = k, depth[b], call, 0
				case "EncodeVarint64":
					if curFlag == nil || !strings.HasPrefix(curKind, "BinEncoding") {
						continue
					}
					arg := stripConv(tc.Of(call.Common().Args[1]))
					inLoop := depth[b] > curDepth
					key := fmt.Sprintf("writer/%s/%s/varint#%d", shortFn(f), curKind, vIdx)
					vIdx++
					switch {
					case curKind == "BinEncodingContiguousCounts" && !inLoop && vIdx == 1:
						// first index of the emitted window: checked together with the loop below
						c06ContiguousWriter(c, rule, f, call, b, depth, tc)
						nSites++
					case curKind == "BinEncodingContiguousCounts" && !inLoop && vIdx == 2:
						nSites++
						c.R.check(arg.isConst("1"), rule, key+"/stride", shortFn(f), c.ipos(call), "stride 1 is announced for a window emitted index by index", arg.Key())
					case inLoop:
						nSites++
						// delta: cur − prev with prev = φ(0, cur)
						ok := arg.isBin("-") && arg.Args[1].Op == "phi"
						found := arg.Key()
						if ok {
							cur, prev := arg.Args[0], arg.Args[1]
							edges := tc.PhiEdges(prev)
							zero, same := false, false
							for _, e := range edges {
								switch {
								case e.isConst("0"):
									zero = true
								case e.Key() == cur.Key() || e.Key() == prev.Key():
									same = true
								default:
									// the previous index may be carried through an inner φ (conditional emission): accept φ(prev, cur)
									if e.Op == "phi" {
										inner := tc.PhiEdges(e)
										okInner := len(inner) > 0
										for _, ie := range inner {
											if !(ie.Key() == cur.Key() || ie.Key() == prev.Key()) {
												okInner = false
											}
										}
										if okInner {
											same = true
											continue
										}
									}
									ok = false
									found = "previous index is fed from " + e.Key()
								}
							}
							ok = ok && zero && same
							if !zero {
								found = "previous index does not start at 0: " + fmt.Sprint(edges)
							}
						}
						c.R.check(ok, rule, key+"/delta", shortFn(f), c.ipos(call), "emits index − previous with previous = φ(0, index)", found)
					}
				}
			}
		}
	}
	// ---- readers: generic + paginated
	var readers []*ssa.Function
	if f := c.P.Func(pkgStore, "DecodeAndMergeWith"); f != nil {
		readers = append(readers, f)
	}
	if pr := c.paginated(); pr.err == "" {
		if f := c.P.DeclaredMethod(pr.typ, "DecodeAndMergeWith"); f != nil {
			readers = append(readers, f)
		}
	}
	// decoding into a non-empty store: the batch arithmetic of the paginated fast path must not go negative
	c08BatchSizes(c, rule, withNewHelpers(readers...))
	for _, f := range withNewHelpers(readers...) {
		tc := newTermCtx(c.P)
		depth := g.depths(f)
		nth := 0
		for _, b := range f.Blocks {
			if depth[b] == 0 {
				continue
			}
			for _, in := range b.Instrs {
				// uses of an accumulated index inside item loops: Add / AddWithCount / append / page()
				call, ok := in.(*ssa.Call)
				if !ok {
					continue
				}
				t := tc.Of(call)
				var idx *Term
				switch {
				case (t.Op == "invoke" || t.Op == "call") && (isMethodCall(t, "AddWithCount") || isMethodCall(t, "Add")) && len(t.Args) >= 2:
					idx = stripConv(t.Args[1])
				case t.Op == "builtin" && t.Sym == "append" && len(t.Args) == 2:
					// append(buffer, int(index)) is lowered to append(buffer, tmp[:]...) — follow the stored element
					continue
				default:
					continue
				}
				nth++
				nSites++
				key := fmt.Sprintf("reader/%s/index-use#%d", shortFn(f), nth)
				// idx = φ + Δ with φ = φ(0|i0, idx)   or   idx = φ(i0, φ + d)
				ok, found := accumulatedIndex(tc, idx)
				c.R.check(ok, rule, key, shortFn(f), c.ipos(call), "the index handed to the store is the running sum of the decoded deltas / first index plus stride", found)
			}
		}
	}
	c.R.floor(rule, "delta / stride sites", nSites, 10)
}

// accumulatedIndex: idx is acc+Δ with acc = φ(0, acc+Δ)  (delta layouts), or idx is φ(i0, idx+d) (contiguous).
func accumulatedIndex(tc *TermCtx, idx *Term) (bool, string) {
	isDecoded := func(t *Term) bool {
		t = stripConv(t)
		return t.Op == "extract" && t.Sym == "0" && t.Args[0].Op == "call" && strings.Contains(t.Args[0].Sym, "DecodeVarint")
	}
	if idx.isBin("+") {
		var acc, d *Term
		for i := 0; i < 2; i++ {
			if idx.Args[i].Op == "phi" && isDecoded(idx.Args[1-i]) {
				acc, d = idx.Args[i], idx.Args[1-i]
			}
		}
		if acc == nil {
			return false, "index is " + idx.Key()
		}
		_ = d
		zero, self := false, false
		for _, e := range tc.PhiEdges(acc) {
			switch {
			case e.isConst("0"):
				zero = true
			case e.Key() == idx.Key():
				self = true
			case e.Op == "phi":
				// the step is taken on several branches of the loop body (with and without a count to read, say): every
				// one of them adds the same decoded delta to the accumulator
				all := len(tc.PhiEdges(e)) > 0
				for _, ie := range tc.PhiEdges(e) {
					if ie.Key() != idx.Key() {
						all = false
					}
				}
				if !all {
					return false, "accumulator fed from " + e.Key()
				}
				self = true
			default:
				return false, "accumulator fed from " + e.Key()
			}
		}
		return zero && self, fmt.Sprintf("acc=φ(0, acc+Δ): zero=%v self=%v", zero, self)
	}
	if idx.Op == "phi" {
		first, step := false, false
		for _, e := range tc.PhiEdges(idx) {
			switch {
			case isDecoded(e):
				first = true
			case e.isBin("+") && (e.Args[0].Key() == idx.Key() && isDecoded(e.Args[1]) || e.Args[1].Key() == idx.Key() && isDecoded(e.Args[0])):
				step = true
			case e.Op == "phi":
				// nested loops (paginated contiguous): the inner φ must itself be fed by idx + stride
				inner := true
				for _, ie := range tc.PhiEdges(e) {
					if !(ie.Key() == idx.Key() || ie.isBin("+") && (ie.Args[0].Key() == e.Key() || ie.Args[1].Key() == e.Key())) {
						inner = false
					}
				}
				if inner {
					step = true
				} else {
					return false, "index φ fed from " + e.Key()
				}
			default:
				return false, "index φ fed from " + e.Key()
			}
		}
		return first && step, fmt.Sprintf("idx=φ(i0, idx+d): first=%v step=%v", first, step)
	}
	return false, "index is " + idx.Key()
}

// c06ContiguousWriter: the announced first index equals the first index the loop emits, the announced
// count equals the number of emitted counts, and the loop is a unit-stride counting loop.
func c06ContiguousWriter(c *Ctx, rule string, f *ssa.Function, firstIdxCall *ssa.Call, blk *ssa.BasicBlock, depth map[*ssa.BasicBlock]int, tc *TermCtx) {
	first := stripConv(tc.Of(firstIdxCall.Common().Args[1]))
	key := fmt.Sprintf("writer/%s/BinEncodingContiguousCounts/window", shortFn(f))
	// the loop emitting counts: the counting loop (or range loop) whose body calls EncodeVarfloat64, nested directly below this block
	var count *Term
	for _, in := range blk.Instrs {
		if name, call := encCallName(in); name == "EncodeUvarint64" {
			count = stripConv(tc.Of(call.Common().Args[1]))
		}
	}
	ok := false
	found := "no emitting loop found"
	for _, l := range countingLoops(c.P, f) {
		if depth[l.Header] != depth[blk]+1 {
			continue
		}
		emits := false
		var elem *Term
		for b := range l.Blocks {
			for _, in := range b.Instrs {
				if name, call := encCallName(in); name == "EncodeVarfloat64" {
					emits = true
					elem = tc.Of(call.Common().Args[1])
				}
			}
		}
		if !emits || elem == nil || elem.Op != "index" {
			continue
		}
		fe, le, okR := elementRange(l, elem.Args[1])
		if !okR {
			found = "emitted element index is not affine in the loop variable"
			continue
		}
		n := linCombine(le, fe, -1)
		n.Const++
		// (a) dense window: elements minIndex−offset … maxIndex−offset, announced first = minIndex, count = maxIndex−minIndex+1
		if isWindowRange(fe, le, func(t *Term) bool { return t.isParam(0) }) {
			okFirst := first.Op == "field" && first.Sym == dr.minIndex && first.Args[0].isParam(0)
			okCount := false
			if count != nil {
				if count.Op == "param" {
					okCount = c06CallerCount(c, f, count)
				} else {
					okCount = linCombineKey(linearOf(count), n)
				}
			}
			ok = okFirst && okCount
			found = fmt.Sprintf("window elements %s…%s; announced first=%s count=%s (first ok=%v, count ok=%v)", fe.Key(), le.Key(), first.Key(), count, okFirst, okCount)
		} else if isWholeArrayRange(fe, le) {
			// (b) a whole page: count = len(page), first index = index(pageIndex, 0)
			okCount := count != nil && count.Op == "builtin" && count.Sym == "len"
			okFirst := isMethodCall(first, "index") || first.isBin("+") || first.isBin("<<")
			ok = okCount && okFirst
			found = fmt.Sprintf("whole slice; announced first=%s count=%s", first.Key(), count)
		} else {
			found = fmt.Sprintf("elements %s … %s are neither the window nor a whole page", fe.Key(), le.Key())
		}
	}
	c.R.check(ok, rule, key, shortFn(f), c.ipos(firstIdxCall), "announced (N, first index) describe exactly the unit-stride run of counts that follows", found)
}

// c06CallerCount: the count parameter of a contiguous writer helper is maxIndex − minIndex + 1 at every call site.
func c06CallerCount(c *Ctx, f *ssa.Function, count *Term) bool {
	var pi int
	fmt.Sscanf(count.Sym, "%d", &pi)
	ok := false
	for _, h := range c.P.Funcs {
		tc := newTermCtx(c.P)
		for _, b := range h.Blocks {
			for _, in := range b.Instrs {
				call, isCall := in.(*ssa.Call)
				if !isCall || call.Common().Value != ssa.Value(f) || pi >= len(call.Common().Args) {
					continue
				}
				at := stripConv(tc.Of(call.Common().Args[pi]))
				// uint64(max−min)+1
				l := linearOf(at)
				// look through the conversion inside
				if len(l.Coef) == 1 && l.Const == 1 {
					for _, a := range l.Atoms {
						inner := linearOf(stripConv(a))
						good := len(inner.Coef) == 2 && inner.Const == 0
						for k, v := range inner.Coef {
							t := inner.Atoms[k]
							if !(t.Op == "field" && t.Args[0].isParam(0) && (t.Sym == dr.maxIndex && v == 1 || t.Sym == dr.minIndex && v == -1)) {
								good = false
							}
						}
						ok = good
					}
				} else {
					good := len(l.Coef) == 2 && l.Const == 1
					for k, v := range l.Coef {
						t := l.Atoms[k]
						if !(t.Op == "field" && t.Args[0].isParam(0) && (t.Sym == dr.maxIndex && v == 1 || t.Sym == dr.minIndex && v == -1)) {
							good = false
						}
					}
					ok = good
				}
				if !ok {
					return false
				}
			}
		}
	}
	return ok
}

func c06Additive(c *Ctx, a *sketchAnchors) {
	const rule = "C06-D3"
	pr := c.paginated()
	n := 0
	// (a) the sketch block loop
	if f := c.blockLoop(a); c.mustFunc(rule, f, "decodeAndMergeWith") {
		tc := newTermCtx(c.P)
		for _, b := range f.Blocks {
			for _, in := range b.Instrs {
				st, ok := in.(*ssa.Store)
				if !ok {
					continue
				}
				at := tc.Of(st.Addr)
				if at.Op != "field" || !at.Args[0].isRecv() {
					continue
				}
				n++
				vt := tc.Of(st.Val)
				key := fmt.Sprintf("%s/write/%s", shortFn(f), at.Sym)
				if at.Sym == a.mapField {
					c.R.trivial(rule, key, shortFn(f), c.ipos(st), "the mapping is the one plain assignment; its nil-or-Equals guard is C08-D3", vt.Key())
					continue
				}
				acc := vt.isBin("+") && (vt.Args[0].Key() == at.Key() || vt.Args[1].Key() == at.Key())
				c.R.check(acc, rule, key, shortFn(f), c.ipos(st), "sketch state is only accumulated into (x += decoded), never overwritten, while decoding", at.Sym+" ← "+vt.Key())
			}
		}
		// no loop-carried state besides the cursor
		for _, comp := range loopSCCs(f) {
			inComp := map[*ssa.BasicBlock]bool{}
			for _, b := range comp {
				inComp[b] = true
			}
			for _, b := range comp {
				// only a φ that merges a value coming round the loop with one coming from outside carries state from
				// one block to the next; a φ inside the body joins the arms of one iteration
				entered := false
				for _, pr := range b.Preds {
					if !inComp[pr] {
						entered = true
					}
				}
				if !entered {
					continue
				}
				for _, in := range b.Instrs {
					if phi, ok := in.(*ssa.Phi); ok {
						n++
						c.R.violate(rule, fmt.Sprintf("%s/loop-carried/%s", shortFn(f), phi.Comment), shortFn(f), c.ipos(phi), "the block loop carries no local state from one block to the next", "φ "+phi.Name()+" ("+phi.Comment+")")
					}
				}
			}
		}
		c.R.okay(rule, shortFn(f)+"/block-local", shortFn(f), c.fpos(f), "no φ at the block loop", "block-local")
	}
	// (b) store decoders: the generic one touches the store only through Add/AddWithCount
	if f := c.P.Func(pkgStore, "DecodeAndMergeWith"); c.mustFunc(rule, f, "store.DecodeAndMergeWith") {
		tc := newTermCtx(c.P)
		bad := ""
		nAdd := 0
		var blocks []*ssa.BasicBlock
		for _, h := range withNewHelpers(f) {
			blocks = append(blocks, h.Blocks...)
		}
		for _, b := range blocks {
			for _, in := range b.Instrs {
				switch in := in.(type) {
				case *ssa.Call:
					t := tc.Of(in)
					if t.Op == "invoke" {
						if isMethodCall(t, "Add") || isMethodCall(t, "AddWithCount") {
							nAdd++
						} else {
							bad = "store method other than Add/AddWithCount: " + t.Sym
						}
					}
				case *ssa.Store:
					// a store into memory this function has just allocated (the argument list of a variadic call such as
					// fmt.Errorf, a local variable's cell) is not a write to the store
					root := in.Addr
					for {
						switch x := root.(type) {
						case *ssa.IndexAddr:
							root = x.X
							continue
						case *ssa.FieldAddr:
							root = x.X
							continue
						}
						break
					}
					if _, fresh := root.(*ssa.Alloc); fresh {
						continue
					}
					bad = "direct write in the generic decoder"
				case *ssa.MapUpdate:
					bad = "direct write in the generic decoder"
				}
			}
		}
		n++
		c.R.check(bad == "" && nAdd >= 3, rule, shortFn(f)+"/only-adds", shortFn(f), c.fpos(f), "the generic bin decoder changes the store only through Add / AddWithCount", firstNonEmpty(bad, fmt.Sprintf("%d add call sites", nAdd)))
	}
	if pr.err == "" {
		if f := c.P.DeclaredMethod(pr.typ, "DecodeAndMergeWith"); c.mustFunc(rule, f, "paginated DecodeAndMergeWith") {
			tc := newTermCtx(c.P)
			for _, b := range f.Blocks {
				for _, in := range b.Instrs {
					switch in := in.(type) {
					case *ssa.Store:
						at, vt := tc.Of(in.Addr), tc.Of(in.Val)
						x := at
						for x.Op == "field" || x.Op == "index" {
							x = x.Args[0]
						}
						if !(x.isRecv() || x.Op == "call") {
							continue
						}
						n++
						key := fmt.Sprintf("%s/write/%s", shortFn(f), strings.TrimPrefix(at.Key(), "field:"))
						ok := vt.isBin("+") && (vt.Args[0].Key() == at.Key() || vt.Args[1].Key() == at.Key()) ||
							vt.Op == "builtin" && vt.Sym == "append" && vt.Args[0].Key() == at.Key() ||
							// lowering the "buffer is sorted" cache flag is always safe (its maintenance is C14-D1 sorted-flag)
							pr.sortFlag != "" && isRecvField(at, pr.sortFlag) && vt.isConst("false")
						c.R.check(ok, rule, key, shortFn(f), c.ipos(in), "store state is only accumulated into while decoding (page[i] += c, buffer = append(buffer, i))", vt.Key())
					case *ssa.Call:
						t := tc.Of(in)
						if t.Op == "call" && len(t.Args) > 0 && t.Args[0].isRecv() {
							fn, _ := in.Common().Value.(*ssa.Function)
							generic := c.P.Func(pkgStore, "DecodeAndMergeWith")
							okCall := fn == pr.compact || fn == pr.sort || fn == generic || fn != nil && (canonName(fn) == "page" || canonName(fn) == "pageIndex" || canonName(fn) == "lineIndex" || fn.Name() == "Add" || fn.Name() == "AddWithCount")
							n++
							c.R.check(okCall, rule, fmt.Sprintf("%s/call/%s", shortFn(f), fn.Name()), shortFn(f), c.ipos(in), "only additive entry points and the representation routines (page allocator, compaction) are used while decoding", t.Sym)
						}
					}
				}
			}
		}
	}
	c.R.floor(rule, "state writes examined in decoders", n, 6)
}

func c06AppendOnly(c *Ctx, a *sketchAnchors) {
	const rule = "C06-D4"
	n := 0
	for _, f := range c.P.Funcs {
		// functions with a *[]byte parameter that are not decoders
		bi := -1
		for i, p := range f.Params {
			if p.Type().String() == "*[]byte" {
				bi = i
			}
		}
		if bi < 0 || !(strings.HasPrefix(f.Name(), "Encode") || strings.HasPrefix(f.Name(), "encode")) {
			continue
		}
		tc := newTermCtx(c.P)
		for _, b := range f.Blocks {
			for _, in := range b.Instrs {
				switch in := in.(type) {
				case *ssa.Store:
					if p, ok := in.Addr.(*ssa.Parameter); ok && p == f.Params[bi] {
						n++
						vt := tc.Of(in.Val)
						// append(*b, …), possibly built up in a local: a chain (or a loop-carried φ) of appends whose every
						// root is the caller's buffer as loaded from the parameter
						var rooted func(t *Term, depth int) bool
						visiting := map[string]bool{}
						rooted = func(t *Term, depth int) bool {
							t = t.unver()
							if t.Op == "phi" {
								if visiting[t.Key()] {
									return true // the loop-carried value itself: decided by its other edges
								}
								visiting[t.Key()] = true
							}
							switch {
							case depth > 24:
								return false
							case t.Op == "load" && t.Args[0].isParam(bi):
								return true
							case t.Op == "builtin" && t.Sym == "append":
								return rooted(t.Args[0], depth+1)
							case t.Op == "phi":
								es := tc.PhiEdges(t)
								if len(es) == 0 {
									return false
								}
								for _, e := range es {
									if e.Key() == t.Key() {
										continue
									}
									if !rooted(e, depth+1) {
										return false
									}
								}
								return true
							}
							return false
						}
						ok := vt.Op == "builtin" && vt.Sym == "append" && rooted(vt.Args[0], 0)
						c.R.check(ok, rule, fmt.Sprintf("%s/buffer-store", shortFn(f)), shortFn(f), c.ipos(in), "the caller's buffer is only ever replaced by append(*b, …)", vt.Key())
					}
				case *ssa.Call:
					// element writes into the buffer: binary.LittleEndian.PutUint64((*b)[len(*b)-8:], …) right after appending 8 bytes
					if fn, ok := in.Common().Value.(*ssa.Function); ok && strings.Contains(fn.String(), "PutUint64") {
						n++
						dst := tc.Of(in.Common().Args[len(in.Common().Args)-2])
						ok := dst.Op == "slice" && dst.Args[0].Op == "load" && dst.Args[0].Args[0].isParam(bi) && dst.Args[2].Op == "none"
						if ok {
							lo := linearOf(dst.Args[1])
							ok = lo.Const == -8 && len(lo.Coef) == 1
							for _, at := range lo.Atoms {
								if !(at.Op == "builtin" && at.Sym == "len") {
									ok = false
								}
							}
						}
						// preceded (dominated) by an append of exactly 8 fresh bytes
						app := false
						for _, b2 := range f.Blocks {
							for _, in2 := range b2.Instrs {
								if st, ok2 := in2.(*ssa.Store); ok2 && instrDominates(st, in) {
									vt := tc.Of(st.Val)
									if vt.Op == "builtin" && vt.Sym == "append" && len(vt.Args) == 2 {
										x := vt.Args[1]
										// make([]byte, 8) — compiled as a fresh [8]byte array sliced [:8]
										if x.Op == "make" && x.Args[0].isConst("8") || x.Op == "slice" && x.Args[0].Op == "alloc" && x.Args[2].isConst("8") && x.Args[1].Op == "none" {
											app = true
										}
									}
								}
							}
						}
						c.R.check(ok && app, rule, shortFn(f)+"/writes-only-appended-bytes", shortFn(f), c.ipos(in), "the only in-place write goes to (*b)[len−8:] right after 8 zero bytes were appended", dst.Key())
					}
				case *ssa.IndexAddr:
					// (*b)[i] = … element stores are not used by any encoder
					if u, ok := in.X.(*ssa.UnOp); ok && u.Op == token.MUL {
						if p, ok := u.X.(*ssa.Parameter); ok && p == f.Params[bi] {
							for _, r := range *in.Referrers() {
								if _, isSt := r.(*ssa.Store); isSt {
									n++
									c.R.violate(rule, shortFn(f)+"/element-store", shortFn(f), c.ipos(in), "no element of the caller's existing buffer is overwritten", "indexed store into *b")
								}
							}
						}
					}
				}
			}
		}
	}
	c.R.floor(rule, "buffer stores in encoders", n, 6) // at least one per primitive encoder that writes bytes itself
	// receivers unchanged by Encode
	for _, t := range append([]string{}, "DDSketch", "DDSketchWithExactSummaryStatistics") {
		nt := c.P.NamedType(pkgSketch, t)
		if f := c.P.MethodOf(nt, "Encode"); f != nil {
			checkNoObservableWrite(c, rule, t+".Encode/receiver-unchanged", f, 0, "receiver")
		}
	}
}

func c06Omit(c *Ctx, a *sketchAnchors) {
	const rule = "C06-D5"
	f := c.P.DeclaredMethod(a.DDSketch, "Encode")
	if !c.mustFunc(rule, f, "(*DDSketch).Encode") {
		return
	}
	paths, _ := exec(c, f, nil, 1)
	nT, nF := 0, 0
	bad := ""
	for _, p := range paths {
		omit, found := pathCond(p, func(t *Term) bool { return t.isParam(2) })
		if !found {
			bad = "path that does not consult omitIndexMapping"
			continue
		}
		nm := 0
		for _, e := range p.Calls() {
			if isMethodCall(e.Call, "Encode") && len(e.Call.Args) == 2 && isRecvField(e.Call.Args[0], a.mapField) {
				nm++
			}
		}
		if omit {
			nT++
			if nm != 0 {
				bad = "mapping encoded although omitIndexMapping is true"
			}
		} else {
			nF++
			if nm != 1 {
				bad = fmt.Sprintf("omitIndexMapping false but the mapping is encoded %d times", nm)
			}
		}
	}
	c.R.check(bad == "" && nT > 0 && nF > 0, rule, shortFn(f)+"/omit-table", shortFn(f), c.fpos(f), "true → no mapping block; false → exactly one", firstNonEmpty(bad, fmt.Sprintf("%d omitting / %d embedding path(s)", nT, nF)))
}

// c06DecoderCtors (D6): the decoding constructors build the sketch the stream is merged into — with the caller's
// mapping (this is the "mapping omitted and supplied by the caller" form: a constructor that drops its mapping
// argument can decode only streams that embed one), two separate stores from the caller's provider, no weight —
// then decode the caller's bytes into exactly that sketch and return it with the decoder's error.
func c06DecoderCtors(c *Ctx, a *sketchAnchors, rule string) {
	n := 0
	for _, name := range []string{"DecodeDDSketch", "DecodeDDSketchWithExactSummaryStatistics"} {
		f := c.P.Func(pkgSketch, name)
		if f == nil {
			continue // an API that does not exist is not this rule's business
		}
		n++
		// parameters by type: the bytes, the provider, the mapping
		bytesP, provP, mapP := -1, -1, -1
		for i, p := range f.Params {
			switch ts := p.Type().String(); {
			case ts == "[]byte":
				bytesP = i
			case strings.HasSuffix(ts, "store.Provider"):
				provP = i
			case strings.HasSuffix(ts, "mapping.IndexMapping"):
				mapP = i
			}
		}
		if bytesP < 0 || provP < 0 || mapP < 0 {
			c.R.undecided(rule, name+"/parameters", shortFn(f), c.fpos(f), "a []byte, a store.Provider and a mapping.IndexMapping parameter", fmt.Sprintf("bytes=%d provider=%d mapping=%d", bytesP, provP, mapP))
			continue
		}
		paths, _ := exec(c, f, nil, 1)
		bad := ""
		if len(paths) == 0 {
			bad = "no path"
		}
		for _, p := range paths {
			if len(p.RetT) != 2 {
				bad = "does not return (sketch, error)"
				continue
			}
			outer := p.RetT[0]
			fieldsOf := func(obj *Term) map[string]*Term {
				out := map[string]*Term{}
				for _, e := range p.Effects {
					if e.Kind == "store" && e.Addr.Op == "field" && len(e.Addr.Args) == 1 && sameVal(e.Addr.Args[0], obj) {
						out[e.Addr.Sym] = e.Val
					}
				}
				return out
			}
			inner := outer
			exact := strings.HasSuffix(name, "ExactSummaryStatistics")
			if exact {
				of := fieldsOf(outer)
				inner = of[a.innerFld]
				if inner == nil {
					bad = "the result's inner sketch is not set"
					continue
				}
				if st := of[a.statField]; st == nil || !(st.Op == "call" && strings.HasSuffix(st.Sym, "NewSummaryStatistics") || st.Op == "alloc") {
					bad = "the result's statistics are not a fresh object"
				}
			}
			var m, pos, neg, z *Term
			viaCtor := false
			if inner.Op == "call" && strings.HasSuffix(inner.Sym, ".NewDDSketch") && len(inner.Args) == 3 {
				m, pos, neg = inner.Args[0], inner.Args[1], inner.Args[2]
			} else if g := c.P.Func(pkgSketch, "NewDDSketchFromStoreProvider"); g != nil && inner.Op == "call" && inner.Sym == funcName(g) && len(inner.Args) == 2 {
				// the provider constructor: NewDDSketch(mapping, provider(), provider()) — two separate calls
				gp, _ := exec(c, g, nil, 1)
				okG := len(gp) == 1 && len(gp[0].RetT) == 1
				if okG {
					r := gp[0].RetT[0]
					okG = r.Op == "call" && strings.HasSuffix(r.Sym, ".NewDDSketch") && len(r.Args) == 3 && r.Args[0].isParam(0) &&
						r.Args[1].Op == "dyncall" && r.Args[1].Args[0].isParam(1) && r.Args[2].Op == "dyncall" && r.Args[2].Args[0].isParam(1) && !sameVal(r.Args[1], r.Args[2])
				}
				if !okG || !stripConv(inner.Args[0]).isParam(mapP) || !inner.Args[1].isParam(provP) {
					bad = "the sketch decoded into is " + inner.Key() + ", which does not carry the caller's mapping and two separate stores from the caller's provider"
				}
				viaCtor = true
			} else {
				fl := fieldsOf(inner)
				m, pos, neg, z = fl[a.mapField], fl[a.posField], fl[a.negField], fl[a.zeroField]
			}
			fromProvider := func(t *Term) bool {
				return t != nil && t.Op == "dyncall" && len(t.Args) >= 1 && t.Args[0].isParam(provP)
			}
			switch {
			case viaCtor:
			case m == nil || !stripConv(m).isParam(mapP):
				bad = fmt.Sprintf("the mapping of the sketch decoded into is %v, not the caller's mapping argument", m)
			case !fromProvider(pos) || !fromProvider(neg):
				bad = fmt.Sprintf("stores are not made by the caller's provider: positive=%v negative=%v", pos, neg)
			case sameVal(pos, neg):
				bad = "both sides use the same store"
			case z != nil && !z.isConst("0"):
				bad = "initial zero weight is " + z.Key()
			}
			// decode the caller's bytes into exactly that sketch; its error is the one returned
			var dec *Term
			for _, e := range p.Calls() {
				if isMethodCall(e.Call, "DecodeAndMergeWith") && len(e.Call.Args) == 2 && sameVal(e.Call.Args[0], outer) && e.Call.Args[1].isParam(bytesP) {
					dec = e.Call
				}
			}
			if dec == nil {
				bad = firstNonEmpty(bad, "the caller's bytes are not decoded into the returned sketch")
			} else if !sameVal(p.RetT[1], dec) {
				bad = firstNonEmpty(bad, "the decoder's error is not the one returned: "+p.RetT[1].Key())
			}
		}
		c.R.check(bad == "", rule, name+"/decodes-into-the-callers-parts", shortFn(f), c.fpos(f), "a sketch with the caller's mapping, two stores from the caller's provider and no weight; the bytes decoded into it; (sketch, decoder's error) returned", firstNonEmpty(bad, fmt.Sprintf("%d path(s)", len(paths))))
	}
	c.R.floor(rule, "decoding constructors", n, 2)
}

// c06OptionalBlocks: a block that the encoder may leave out (zero weight, exact count, exact sum) is left out only
// under the evidence that its value is 0 — the value a decoder assumes for an absent block. Writing a block whose
// value is 0 is harmless (decoding adds 0); skipping one whose value is not 0 loses it.
func c06OptionalBlocks(c *Ctx, rule string, f *ssa.Function, flags []string) {
	if f == nil {
		return
	}
	ps, _ := exec(c, f, nil, 1)
	for _, flag := range flags {
		payloadKey := ""
		bad := ""
		nW := 0
		type skip struct{ p *Path }
		var skips []*Path
		for _, p := range ps {
			var payload *Term
			calls := p.Calls()
			for i, e := range calls {
				if e.Call.Op == "call" && strings.HasSuffix(e.Call.Sym, "encoding.EncodeFlag") && len(e.Call.Args) == 2 && e.Call.Args[1].Op == "global" && strings.HasSuffix(e.Call.Args[1].Sym, "."+flag) {
					for _, e2 := range calls[i+1:] {
						if e2.Call.Op == "call" && strings.Contains(e2.Call.Sym, "encoding.Encode") && !e2.Pure && len(e2.Call.Args) == 2 {
							payload = e2.Call.Args[1].unver()
							break
						}
					}
					if payload == nil {
						bad = "flag written without a payload"
					}
				}
			}
			if payload == nil {
				skips = append(skips, p)
				continue
			}
			nW++
			if payloadKey == "" {
				payloadKey = stripVers(payload).Key()
			} else if payloadKey != stripVers(payload).Key() {
				bad = "paths disagree on the payload: " + payloadKey + " / " + payload.Key()
			}
		}
		if nW == 0 {
			c.R.violate(rule, shortFn(f)+"/optional-block/"+flag, shortFn(f), c.fpos(f), "the "+flag+" block is written on some path", "never written")
			continue
		}
		for _, p := range skips {
			zero := false
			for _, cd := range p.Conds {
				t := cd.Term
				if (t.isBin("==") || t.isBin("!=")) && cd.Taken == t.isBin("==") {
					for i := 0; i < 2; i++ {
						if t.Args[1-i].isConst("0") && stripVers(stripConv(t.Args[i])).Key() == payloadKey {
							zero = true
						}
					}
				}
			}
			if !zero {
				bad = firstNonEmpty(bad, "block skipped on a path without the evidence that "+payloadKey+" is 0: ["+p.String()+"]")
			}
		}
		c.R.check(bad == "", rule, shortFn(f)+"/optional-block/"+flag, shortFn(f), c.fpos(f), "left out only when its value is known to be 0", firstNonEmpty(bad, fmt.Sprintf("%d writing / %d skipping path(s), payload %s", nW, len(skips), payloadKey)))
	}
}

// stripVers removes load-version wrappers everywhere in a term.
func stripVers(t *Term) *Term {
	return rewriteTerm(t, func(x *Term) *Term {
		if x.Op == "ver" && len(x.Args) == 1 {
			return stripVers(x.Args[0])
		}
		return nil
	})
}
