package main

import (
	"encoding/json"
	"fmt"
	"os"
	"path/filepath"
	"sort"
	"strings"
)

type Status int

const (
	OK Status = iota
	Violation
	Undecided
)

func (s Status) String() string {
	switch s {
	case OK:
		return "ok"
	case Violation:
		return "VIOLATED"
	default:
		return "UNDECIDED"
	}
}

// Obligation is one decided (or undecidable) proof obligation of a rule.
// Key identifies the instance by rule + construct role, never by line number.
type Obligation struct {
	Rule     string `json:"rule"`
	Key      string `json:"key"`
	Func     string `json:"function,omitempty"`
	Pos      string `json:"pos,omitempty"`
	Expected string `json:"expected,omitempty"`
	Found    string `json:"found,omitempty"`
	Status   Status `json:"-"`
	St       string `json:"status"`
	Trivial  bool   `json:"trivial,omitempty"`
	Engine   string `json:"engine,omitempty"`
}

type Floor struct {
	Rule     string `json:"rule"`
	What     string `json:"what"`
	Expected int    `json:"expected_at_least"`
	Found    int    `json:"found"`
}

// Report collects everything one property check did.
type Report struct {
	Property    string
	Obls        []*Obligation
	Floors      []Floor
	Assumptions []string
	Analysed    map[string]int
	Notes       []string
	seenKey     map[string]bool
	assumeSeen  map[string]bool
}

func newReport(prop string) *Report {
	return &Report{Property: prop, Analysed: map[string]int{}, seenKey: map[string]bool{}, assumeSeen: map[string]bool{}}
}

func (r *Report) add(o *Obligation) *Obligation {
	o.Key = o.Rule + ":" + o.Key
	// keys must be unique per run: disambiguate deterministically
	base := o.Key
	for i := 2; r.seenKey[o.Key]; i++ {
		o.Key = fmt.Sprintf("%s#%d", base, i)
	}
	r.seenKey[o.Key] = true
	o.St = o.Status.String()
	r.Obls = append(r.Obls, o)
	return o
}

// check records an obligation: ok → satisfied, else violated.
func (r *Report) check(ok bool, rule, key, fn, pos, expected, found string) bool {
	st := OK
	if !ok {
		st = Violation
	}
	r.add(&Obligation{Rule: rule, Key: key, Func: fn, Pos: pos, Expected: expected, Found: found, Status: st})
	return ok
}

func (r *Report) okay(rule, key, fn, pos, expected, found string) {
	r.add(&Obligation{Rule: rule, Key: key, Func: fn, Pos: pos, Expected: expected, Found: found, Status: OK})
}

func (r *Report) trivial(rule, key, fn, pos, expected, found string) {
	r.add(&Obligation{Rule: rule, Key: key, Func: fn, Pos: pos, Expected: expected, Found: found, Status: OK, Trivial: true})
}

func (r *Report) violate(rule, key, fn, pos, expected, found string) {
	r.add(&Obligation{Rule: rule, Key: key, Func: fn, Pos: pos, Expected: expected, Found: found, Status: Violation})
}

func (r *Report) undecided(rule, key, fn, pos, expected, found string) {
	r.add(&Obligation{Rule: rule, Key: key, Func: fn, Pos: pos, Expected: expected, Found: found, Status: Undecided})
}

// floor records an instance count; falling below the hand-confirmed count is an
// undecided obligation (the rule would otherwise pass vacuously).
func (r *Report) floor(rule, what string, found, expected int) {
	r.Floors = append(r.Floors, Floor{rule, what, expected, found})
	if found < expected {
		r.undecided(rule, "floor/"+what, "", "", fmt.Sprintf("at least %d instances of %s (confirmed by hand on the reference tree)", expected, what),
			fmt.Sprintf("%d instances matched: the construct this rule decides was not found, so the rule cannot pass vacuously", found))
	}
}

func (r *Report) assume(s string) {
	if !r.assumeSeen[s] {
		r.assumeSeen[s] = true
		r.Assumptions = append(r.Assumptions, s)
	}
}

func (r *Report) count(what string, n int) { r.Analysed[what] += n }

// ---------------------------------------------------------------------------
// known findings

type KnownFinding struct {
	Status   string `json:"status"` // "known" | "fixed"
	Property string `json:"property"`
	Rule     string `json:"rule"`
	Key      string `json:"key"` // full obligation key
	Commit   string `json:"commit,omitempty"`
	What     string `json:"what"`
}

func loadKnown(path string) ([]KnownFinding, error) {
	b, err := os.ReadFile(path)
	if err != nil {
		if os.IsNotExist(err) {
			return nil, nil
		}
		return nil, err
	}
	var f struct {
		Findings []KnownFinding `json:"findings"`
	}
	if err := json.Unmarshal(b, &f); err != nil {
		return nil, err
	}
	return f.Findings, nil
}

// ---------------------------------------------------------------------------
// output

type propertyMeta struct {
	ID          string
	Explanation string // decided / not decided split
	Rule        string // what counts as non-trivial
	Exhaustive  bool
}

// finish prints the report, writes evidence + replay files and returns the exit code.
func (r *Report) finish(meta propertyMeta, tier string, seed int, evidenceDir string, known []KnownFinding, wall float64, only string, arch []string) int {
	sort.SliceStable(r.Obls, func(i, j int) bool { return r.Obls[i].Key < r.Obls[j].Key })
	knownSet := map[string]KnownFinding{}
	for _, k := range known {
		if k.Status == "known" && k.Property == r.Property {
			knownSet[k.Key] = k
		}
	}
	nOK, nViol, nUnd, nKnown, nTrivial := 0, 0, 0, 0, 0
	var bad []*Obligation
	var knownHit []string
	distinct := map[string]bool{}
	for _, o := range r.Obls {
		if only != "" && o.Key != only {
			continue
		}
		if o.Trivial {
			nTrivial++
		} else {
			distinct[o.Key] = true
		}
		switch o.Status {
		case OK:
			nOK++
		default:
			if k, ok := knownSet[o.Key]; ok {
				nKnown++
				knownHit = append(knownHit, fmt.Sprintf("KNOWN-FINDING: property=%s %s %s", r.Property, o.Key, k.What))
				continue
			}
			if o.Status == Violation {
				nViol++
			} else {
				nUnd++
			}
			bad = append(bad, o)
		}
	}
	total := nOK + nViol + nUnd + nKnown
	fmt.Printf("property %s tier=%s arch=%s: %d obligations (%d trivial), %d ok, %d violated, %d undecided, %d known\n",
		r.Property, tier, strings.Join(arch, "+"), total, nTrivial, nOK, nViol, nUnd, nKnown)
	keys := make([]string, 0, len(r.Analysed))
	for k := range r.Analysed {
		keys = append(keys, k)
	}
	sort.Strings(keys)
	var an []string
	for _, k := range keys {
		an = append(an, fmt.Sprintf("%s=%d", k, r.Analysed[k]))
	}
	fmt.Printf("analysed: %s\n", strings.Join(an, " "))
	for _, f := range r.Floors {
		fmt.Printf("floor %-8s %-46s found=%d expected>=%d\n", f.Rule, f.What, f.Found, f.Expected)
	}
	if os.Getenv("DDVERIF_VERBOSE") != "" {
		for _, o := range r.Obls {
			fmt.Printf("  %-9s %s  [%s] %s\n", o.Status, o.Key, o.Pos, o.Found)
		}
	}
	for _, l := range knownHit {
		fmt.Println(l)
	}
	replayDir := filepath.Join(evidenceDir, "replay")
	os.MkdirAll(replayDir, 0o755)
	// remove stale replay files of this property
	if old, _ := filepath.Glob(filepath.Join(replayDir, r.Property+"-*.txt")); only == "" {
		for _, f := range old {
			os.Remove(f)
		}
	}
	for i, o := range bad {
		path := filepath.Join(replayDir, fmt.Sprintf("%s-%d.txt", r.Property, i+1))
		txt := fmt.Sprintf("property: %s\nrule: %s\nstatus: %s\nobligation key: %s\nfunction: %s\nposition: %s\nexpected: %s\nfound: %s\nreplay: ./check %s quick -only '%s'\n",
			r.Property, o.Rule, o.Status, o.Key, o.Func, o.Pos, o.Expected, o.Found, r.Property, o.Key)
		os.WriteFile(path, []byte(txt), 0o644)
		if o.Status == Undecided {
			fmt.Printf("UNDECIDED %s at %s (%s): expected %s; found %s\n", o.Key, o.Pos, o.Func, o.Expected, o.Found)
		} else {
			fmt.Printf("FAIL %s at %s (%s): expected %s; found %s\n", o.Key, o.Pos, o.Func, o.Expected, o.Found)
		}
		fmt.Printf("VIOLATION property=%s replay=%s\n", r.Property, path)
	}
	// evidence
	var samples []any
	step := 1
	if len(r.Obls) > 12 {
		step = len(r.Obls) / 12
	}
	for i := 0; i < len(r.Obls) && len(samples) < 14; i += step {
		samples = append(samples, r.Obls[i])
	}
	for _, o := range bad {
		if len(samples) < 40 {
			samples = append(samples, o)
		}
	}
	sort.Strings(r.Assumptions)
	if r.Assumptions == nil {
		r.Assumptions = []string{}
	}
	r.Assumptions = append(r.Assumptions, "trusted base: go/types and go/ssa of golang.org/x/tools v0.29.0 represent the program faithfully; the analysed tree is the one `go list ./...` reports for GOARCH="+strings.Join(arch, ",")+" without build tags or test files")
	if r.Notes == nil {
		r.Notes = []string{}
	}
	ev := map[string]any{
		"property_id": r.Property,
		"tier":        tier,
		"seed":        seed,
		"level":       "other",
		"wall_s":      wall,
		"violations":  nViol + nUnd,
		"assumptions": r.Assumptions,
		"coverage": map[string]any{
			"explanation":         meta.Explanation,
			"rule":                meta.Rule,
			"evaluations":         total,
			"distinct_nontrivial": len(distinct),
			"obligations":         total,
			"discharged":          nOK,
			"undecided":           nUnd,
			"violated":            nViol,
			"known_findings":      nKnown,
			"trivial":             nTrivial,
			"exhaustive":          meta.Exhaustive,
			"samples":             samples,
			"analysed":            r.Analysed,
			"floors":              r.Floors,
			"architectures":       arch,
			"notes":               r.Notes,
		},
	}
	if only == "" {
		b, _ := json.MarshalIndent(ev, "", " ")
		os.MkdirAll(evidenceDir, 0o755)
		if err := os.WriteFile(filepath.Join(evidenceDir, r.Property+".json"), append(b, '\n'), 0o644); err != nil {
			fmt.Printf("ERROR cannot write evidence: %v\n", err)
			return 2
		}
	}
	if len(bad) > 0 {
		return 1
	}
	if total == 0 {
		fmt.Println("ERROR no obligation evaluated")
		return 2
	}
	return 0
}
