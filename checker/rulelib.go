package main

import (
	"fmt"
	"go/ast"
	"go/token"
	"go/types"
	"sort"
	"strings"

	"golang.org/x/tools/go/ssa"
)

// ---------------------------------------------------------------------------
// anchors resolved by role

type sketchAnchors struct {
	DDSketch  *types.Named
	Exact     *types.Named
	posField  string // field returned by GetPositiveValueStore
	negField  string
	zeroField string // field returned by GetZeroCount
	mapField  string // embedded IndexMapping
	statField string // field of type *stat.SummaryStatistics in the exact variant
	innerFld  string // embedded *DDSketch in the exact variant
}

// getterField: the receiver field returned by a one-expression getter method.
func (c *Ctx) getterField(n *types.Named, method string) string {
	f := c.P.DeclaredMethod(n, method)
	if f == nil || len(f.Blocks) != 1 {
		return ""
	}
	ret, ok := f.Blocks[0].Instrs[len(f.Blocks[0].Instrs)-1].(*ssa.Return)
	if !ok || len(ret.Results) != 1 {
		return ""
	}
	tc := newTermCtx(c.P)
	tc.inline = false
	t := tc.Of(ret.Results[0])
	if t.Op == "field" && len(t.Args) == 1 && t.Args[0].isParam(0) {
		return t.Sym
	}
	return ""
}

func (c *Ctx) anchors() (*sketchAnchors, error) {
	a := &sketchAnchors{}
	a.DDSketch = c.P.NamedType(pkgSketch, "DDSketch")
	a.Exact = c.P.NamedType(pkgSketch, "DDSketchWithExactSummaryStatistics")
	if a.DDSketch == nil || a.Exact == nil {
		return nil, fmt.Errorf("unresolved anchor: DDSketch / DDSketchWithExactSummaryStatistics types")
	}
	a.posField = c.getterField(a.DDSketch, "GetPositiveValueStore")
	a.negField = c.getterField(a.DDSketch, "GetNegativeValueStore")
	a.zeroField = c.getterField(a.DDSketch, "GetZeroCount")
	for _, f := range structFields(a.DDSketch) {
		if f.Embedded() && types.TypeString(f.Type(), nil) == pkgMapping+".IndexMapping" {
			a.mapField = f.Name()
		}
	}
	for _, f := range structFields(a.Exact) {
		ts := types.TypeString(f.Type(), nil)
		if ts == "*"+pkgStat+".SummaryStatistics" {
			a.statField = f.Name()
		}
		if f.Embedded() && ts == "*"+pkgSketch+".DDSketch" {
			a.innerFld = f.Name()
		}
	}
	// functions the rules identify by role are never executed inline (they are analysed on their own)
	if bl := c.blockLoop(a); bl != nil {
		roleAnchors[bl] = true
	}
	var miss []string
	for k, v := range map[string]string{"positive store field": a.posField, "negative store field": a.negField, "zero weight field": a.zeroField,
		"mapping field": a.mapField, "statistics field": a.statField, "embedded sketch field": a.innerFld} {
		if v == "" {
			miss = append(miss, k)
		}
	}
	sort.Strings(miss)
	if len(miss) > 0 {
		return nil, fmt.Errorf("unresolved anchor(s): %s", strings.Join(miss, ", "))
	}
	if a.posField == a.negField {
		return nil, fmt.Errorf("unresolved anchor: positive and negative store getters return the same field %s", a.posField)
	}
	return a, nil
}

// mustFunc resolves a function or reports an undecided obligation.
func (c *Ctx) mustFunc(rule string, f *ssa.Function, what string) bool {
	if f == nil || len(f.Blocks) == 0 {
		c.R.undecided(rule, "anchor/"+what, what, "", "function "+what+" exists with a body", "unresolved anchor")
		return false
	}
	return true
}

// ---------------------------------------------------------------------------
// term recognisers

func isMethodCall(t *Term, name string) bool {
	if t == nil || (t.Op != "call" && t.Op != "invoke") {
		return false
	}
	return strings.HasSuffix(t.Sym, "."+name) || strings.HasSuffix(t.Sym, ")."+name)
}

// isFieldOfRecv: t is recv.<field> possibly through the embedded inner sketch
func isRecvField(t *Term, field string, via ...string) bool {
	t = t.unver()
	if t == nil || t.Op != "field" || t.Sym != field {
		return false
	}
	x := t.Args[0]
	for i := len(via) - 1; i >= 0; i-- {
		if x.Op == "field" && x.Sym == via[i] {
			x = x.Args[0]
		}
	}
	return x.isRecv()
}

// stripInner: looks through recv.<inner> (the embedded *DDSketch of the exact variant)
func baseIsRecv(x *Term, inner string) bool {
	for x != nil && x.Op == "field" && x.Sym == inner {
		x = x.Args[0]
	}
	return x.isParam(0)
}

func isInf(t *Term, sign string) bool {
	return t != nil && t.Op == "call" && t.Sym == "math.Inf" && len(t.Args) == 1 && t.Args[0].isConst(sign)
}

// valueDomain: a float parameter located relative to −∞ < −M < −m < 0 < m < M < +∞,
// with m = MinIndexableValue(), M = MaxIndexableValue() of the receiver's mapping.
const (
	vpNegInf = iota
	vpNegMax
	vpNegMin
	vpZero
	vpMin
	vpMax
	vpPosInf
	vpN
)

func valuePoint(t *Term) (int, bool) {
	switch {
	case isInf(t, "-1"):
		return vpNegInf, true
	case isInf(t, "1"):
		return vpPosInf, true
	case t.isConst("0"):
		return vpZero, true
	case isMethodCall(t, "MinIndexableValue"):
		return vpMin, true
	case isMethodCall(t, "MaxIndexableValue"):
		return vpMax, true
	case t.Op == "un" && t.Sym == "-" && isMethodCall(t.Args[0], "MinIndexableValue"):
		return vpNegMin, true
	case t.Op == "un" && t.Sym == "-" && isMethodCall(t.Args[0], "MaxIndexableValue"):
		return vpNegMax, true
	}
	return 0, false
}

// paramDomain builds a Domain in which parameters are scalars with the given points.
// points: param index -> recogniser and number of points.
type scalarSpec struct {
	name    string
	n       int
	point   func(t *Term) (int, bool)
	match   func(t *Term) bool
	integer bool
}

func mkDomain(specs ...scalarSpec) *Domain {
	d := &Domain{NPoints: map[string]int{}, Integer: map[string]bool{}}
	for _, s := range specs {
		d.NPoints[s.name] = s.n
		d.Integer[s.name] = s.integer
	}
	d.Scalar = func(t *Term) (string, bool, bool) {
		neg := false
		x := t
		if x.Op == "un" && x.Sym == "-" {
			x = x.Args[0]
			neg = true
		}
		for _, s := range specs {
			if s.match(x) {
				if neg && s.integer {
					// −x is not an order-reversing map on machine integers (−MinInt64 == MinInt64): a test
					// written on −x says nothing exact about x and is left as an opaque condition
					return "", false, false
				}
				return s.name, neg, true
			}
		}
		return "", false, false
	}
	d.Point = func(name string, t *Term) (int, bool) {
		for _, s := range specs {
			if s.name == name {
				return s.point(t)
			}
		}
		return 0, false
	}
	return d
}

func paramScalar(name string, idx int, n int, point func(t *Term) (int, bool)) scalarSpec {
	return scalarSpec{name: name, n: n, point: point, match: func(t *Term) bool { return t.isParam(idx) }}
}

// constPoints recognises numeric literals in the given order, e.g. ["0","1"].
func constPoints(vals ...string) func(t *Term) (int, bool) {
	return func(t *Term) (int, bool) {
		for i, v := range vals {
			if t.isConst(v) {
				return i, true
			}
		}
		return 0, false
	}
}

// classes of a two-point order [0,1]: NaN,<0,0,(0,1),1,>1
var (
	clsNaN = classNaN
)

// pathsInClass selects the paths compatible with scalar name being in class cls.
func pathsInClass(paths []*Path, name string, cls int) []*Path {
	var out []*Path
	for _, p := range paths {
		ok := true
		for k, set := range p.Classes {
			base := k
			if i := strings.Index(k, "@"); i >= 0 {
				base = k[:i]
			}
			if base == name && !set.has(cls) {
				ok = false
			}
		}
		if ok {
			out = append(out, p)
		}
	}
	return out
}

func className(points []string, cls int) string {
	if cls == classNaN {
		return "NaN"
	}
	pos := cls - 1
	k := pos / 2
	if pos%2 == 1 {
		return "=" + points[k]
	}
	if k == 0 {
		return "<" + points[0]
	}
	if k == len(points) {
		return ">" + points[len(points)-1]
	}
	return "(" + points[k-1] + "," + points[k] + ")"
}

// freeShapes lists the conditions on the given paths that were not understood and mention the scalar.
func describeWrites(p *Path) string {
	var s []string
	for _, e := range p.Writes() {
		s = append(s, e.String())
	}
	if len(s) == 0 {
		return "no writes"
	}
	return strings.Join(s, "; ")
}

func describeRet(p *Path) string {
	if p.Panics {
		return "panic"
	}
	var s []string
	for _, r := range p.RetT {
		s = append(s, r.Key())
	}
	return "return " + strings.Join(s, ", ")
}

// condMentions: does the path have a taken/not taken condition whose term satisfies pred?
func pathCond(p *Path, pred func(t *Term) bool) (taken bool, found bool) {
	for _, c := range p.Conds {
		if pred(c.Term) {
			return c.Taken, true
		}
	}
	return false, false
}

// nilTest recognises `x != nil` / `x == nil` and returns x and whether the op is "!=".
func nilTest(t *Term) (x *Term, neq bool, ok bool) {
	if t.Op != "bin" || (t.Sym != "!=" && t.Sym != "==") {
		return nil, false, false
	}
	if t.Args[0].Op == "nil" {
		return t.Args[1], t.Sym == "!=", true
	}
	if t.Args[1].Op == "nil" {
		return t.Args[0], t.Sym == "!=", true
	}
	return nil, false, false
}

// errIsNonNilOnPath: is term e (an error value) known non-nil (+1), nil (-1) or unknown (0) on p?
func sameVal(a, b *Term) bool {
	if a == nil || b == nil {
		return false
	}
	if a.V != nil && b.V != nil {
		return a.V == b.V
	}
	return a.Key() == b.Key()
}

func errState(p *Path, e *Term) int {
	for ci := len(p.Conds) - 1; ci >= 0; ci-- {
		c := p.Conds[ci]
		if x, neq, ok := nilTest(c.Term); ok && sameVal(x, e) {
			if neq == c.Taken {
				return 1
			}
			return -1
		}
	}
	return 0
}

func exec(c *Ctx, f *ssa.Function, dom *Domain, visits int) ([]*Path, bool) {
	paths, ok := pathsOf(c.P, f, dom, execOpts{MaxVisits: visits, Pure: c.Mod.PureCall, InlineCallee: inlineNewHelpers})
	c.R.count("paths", len(paths))
	c.R.count("functions_path_analysed", 1)
	return paths, ok
}

func execNoInline(c *Ctx, f *ssa.Function, dom *Domain, visits int) ([]*Path, bool) {
	paths, ok := pathsOf(c.P, f, dom, execOpts{MaxVisits: visits, Pure: c.Mod.PureCall, NoInline: true, InlineCallee: inlineNewHelpers})
	c.R.count("paths", len(paths))
	c.R.count("functions_path_analysed", 1)
	return paths, ok
}

func (c *Ctx) fpos(f *ssa.Function) string { return c.P.pos(f.Pos()) }

func (c *Ctx) ipos(in ssa.Instruction) string { return c.P.pos(instrPos(in)) }

// shortFn: the last path element of a function name for obligation keys.
func shortFn(f *ssa.Function) string { return funcName(f) }

// ---------------------------------------------------------------------------
// the paginated store's representation routines, resolved by role

type paginatedRoles struct {
	typ     *types.Named
	sort    *ssa.Function // calls sort.Ints on a receiver field
	compact *ssa.Function // func() method that calls the sort routine (moves buffered indexes into pages)
	bufFld  string
	// sortFlag: a bool field that caches "the buffer is sorted" — raised by the sort routine right after sorting
	// ("" if the store has no such cache). Its maintenance is a typestate obligation of its own (C14-D1).
	sortFlag string
	err      string
}

func (c *Ctx) paginated() *paginatedRoles {
	if c.pag != nil {
		return c.pag
	}
	r := &paginatedRoles{}
	c.pag = r
	r.typ = c.P.NamedType(pkgStore, "BufferedPaginatedStore")
	if r.typ == nil {
		r.err = "type store.BufferedPaginatedStore not found"
		return r
	}
	var sorts []*ssa.Function
	for i := 0; i < r.typ.NumMethods(); i++ {
		f := c.P.SSA.FuncValue(r.typ.Method(i))
		if f == nil {
			continue
		}
		tc := newTermCtx(c.P)
		for _, b := range f.Blocks {
			for _, in := range b.Instrs {
				if call, ok := in.(*ssa.Call); ok {
					if fn, ok := call.Common().Value.(*ssa.Function); ok && libName(fn) == "sort.Ints" {
						t := tc.Of(call.Common().Args[0])
						if t.Op == "field" && t.Args[0].isParam(0) {
							sorts = append(sorts, f)
							r.bufFld = t.Sym
						}
					}
				}
			}
		}
	}
	if len(sorts) == 0 {
		r.err = "no method sorts a receiver field with sort.Ints (the buffer cannot be identified)"
		return r
	}
	// the sort routine proper: a parameterless, resultless method that does nothing but permute the buffer.
	// It may be absent (sorting written out at every use): then sort.Ints(buffer) itself plays the role.
	for _, f := range sorts {
		if len(f.Params) == 1 && f.Signature.Results().Len() == 0 {
			ms := c.Mod.Mods[f]
			// the routine may also raise a cache flag "buffer is sorted" (a bool field of the store)
			flag := ""
			if len(ms) == 2 && ms["p0."+r.bufFld+"[*]"] {
				for l := range ms {
					for _, fld := range structFields(r.typ) {
						if l == "p0."+fld.Name() && fld.Type().String() == "bool" {
							flag = fld.Name()
						}
					}
				}
			}
			if len(ms) == 1 && ms["p0."+r.bufFld+"[*]"] || flag != "" {
				r.sortFlag = flag
				if r.sort != nil {
					r.err = "more than one parameterless method that only sorts the buffer"
					return r
				}
				r.sort = f
			}
		}
	}
	isSorter := map[*ssa.Function]bool{}
	for _, f := range sorts {
		isSorter[f] = true
	}
	var compacts []*ssa.Function
	for i := 0; i < r.typ.NumMethods(); i++ {
		f := c.P.SSA.FuncValue(r.typ.Method(i))
		if f == nil || f == r.sort || len(f.Params) != 1 || f.Signature.Results().Len() != 0 {
			continue
		}
		calls := isSorter[f]
		for _, b := range f.Blocks {
			for _, in := range b.Instrs {
				if call, ok := in.(*ssa.Call); ok {
					if fn, ok := call.Common().Value.(*ssa.Function); ok && r.sort != nil && fn == r.sort {
						calls = true
					}
				}
			}
		}
		if calls {
			compacts = append(compacts, f)
		}
	}
	if len(compacts) != 1 {
		r.err = fmt.Sprintf("expected exactly one parameterless method calling the sort routine (compaction), found %d", len(compacts))
		return r
	}
	r.compact = compacts[0]
	return r
}

// Mod2 is the write-set analysis in which the paginated store's sort and compaction routines are
// factored out (treated as writing nothing): what remains is genuine, observable state change.
func (c *Ctx) Mod2() *ModAnalysis {
	if c.mod2 == nil {
		r := c.paginated()
		modExemptSortField = r.bufFld
		modExemptFlagField = r.sortFlag
		c.mod2 = newModAnalysis(c.P, r.sort, r.compact)
		modExemptSortField = ""
		modExemptFlagField = ""
	}
	return c.mod2
}

// ---------------------------------------------------------------------------
// field roles of the dense store and the paginated store (resolved from the code, not assumed)

type denseRoleNames struct {
	bins, count, offset, minIndex, maxIndex string
	trigger                                 string // paginated: the compaction-scheduling field
	err                                     string
}

var dr = denseRoleNames{bins: "bins", count: "count", offset: "offset", minIndex: "minIndex", maxIndex: "maxIndex", trigger: "bufferCompactionTriggerLen"}

// resolveDenseRoles: bins = the slice field; count = the field TotalCount() returns; minIndex / maxIndex =
// the fields MinIndex() / MaxIndex() return on success; offset = the remaining int field.
func (c *Ctx) resolveDenseRoles() {
	dense := c.P.NamedType(pkgStore, "DenseStore")
	if dense == nil {
		dr.err = "type store.DenseStore not found"
		return
	}
	var r denseRoleNames
	var ints []string
	for _, f := range structFields(dense) {
		switch u := f.Type().Underlying().(type) {
		case *types.Slice:
			r.bins = f.Name()
		case *types.Basic:
			if u.Kind() == types.Int {
				ints = append(ints, f.Name())
			}
		}
	}
	r.count = c.getterField(dense, "TotalCount")
	succ := func(method string) string {
		f := c.P.DeclaredMethod(dense, method)
		if f == nil {
			return ""
		}
		ps, _ := pathsOf(c.P, f, nil, execOpts{MaxVisits: 1, Pure: c.Mod.PureCall, InlineCallee: inlineNewHelpers})
		for _, p := range ps {
			if p.RetNil(1) == 1 && len(p.RetT) == 2 && p.RetT[0].Op == "field" && p.RetT[0].Args[0].isParam(0) {
				return p.RetT[0].Sym
			}
		}
		return ""
	}
	r.minIndex, r.maxIndex = succ("MinIndex"), succ("MaxIndex")
	for _, n := range ints {
		if n != r.minIndex && n != r.maxIndex {
			r.offset = n
		}
	}
	// a store with further fields (a cache, say): the bin array is the slice whose element the weighted add increases,
	// the offset the receiver field subtracted from the index in that element's position
	if f := c.P.DeclaredMethod(dense, "AddWithCount"); f != nil && (len(ints) != 3 || nSlices(dense) != 1) {
		ps, _ := pathsOf(c.P, f, nil, execOpts{MaxVisits: 1, Pure: c.Mod.PureCall, InlineCallee: func(g *ssa.Function) bool { return inModule(g) && g.Parent() == nil }})
		for _, p := range ps {
			for _, e := range p.Effects {
				if e.Kind != "store" || e.Addr.Op != "index" || !e.Val.isBin("+") {
					continue
				}
				b := e.Addr.Args[0].unver()
				if b.Op != "field" || !b.Args[0].isParam(0) {
					continue
				}
				off := ""
				e.Addr.Args[1].walk(func(x *Term) bool {
					if x.isBin("-") && x.Args[1].unver().Op == "field" && x.Args[1].unver().Args[0].isParam(0) {
						off = x.Args[1].unver().Sym
					}
					return true
				})
				if off != "" {
					r.bins, r.offset = b.Sym, off
					ints = []string{r.minIndex, r.maxIndex, r.offset}
				}
			}
		}
	}
	if r.bins == "" || r.count == "" || r.minIndex == "" || r.maxIndex == "" || r.offset == "" || len(ints) != 3 {
		dr.err = fmt.Sprintf("dense store roles unresolved: bins=%q count=%q min=%q max=%q offset=%q ints=%v", r.bins, r.count, r.minIndex, r.maxIndex, r.offset, ints)
		return
	}
	// paginated: the int field the compaction routine stores directly
	r.trigger = dr.trigger
	if pr := c.paginated(); pr.err == "" {
		tc := newTermCtx(c.P)
		for _, b := range pr.compact.Blocks {
			for _, in := range b.Instrs {
				if st, ok := in.(*ssa.Store); ok {
					at := tc.Of(st.Addr)
					if at.Op == "field" && at.Args[0].isParam(0) && isInteger(st.Val.Type()) {
						r.trigger = at.Sym
					}
				}
			}
		}
	}
	dr = r
}

// knownHelpers: the unexported functions and methods of the module that the rules know by name or by role
// (they are matched as call effects, summarised, or analysed on their own), keyed package.[Receiver.]name.
// Any OTHER unexported module function met on a path — typically a helper extracted by a refactoring — is
// executed inline, so that the rules see the same stores, calls and branches as before the extraction.
var knownHelpers = map[string]bool{
	"dataset.Dataset.sort":                 true,
	"ddsketch.DDSketch.decodeAndMergeWith": true, "ddsketch.changeStoreMapping": true,
	"encoding.initUvarint64Sizes": true, "encoding.initVarfloat64Sizes": true, "encoding.newSubFlag": true,
	"mapping.buildFloat64": true, "mapping.getExponent": true, "mapping.getSignificandPlusOne": true,
	"mapping.CubicallyInterpolatedMapping.approximateInverseLog": true, "mapping.CubicallyInterpolatedMapping.approximateLog": true,
	"mapping.LinearlyInterpolatedMapping.approximateInverseLog": true, "mapping.LinearlyInterpolatedMapping.approximateLog": true,
	"mapping.CubicallyInterpolatedMapping.string": true, "mapping.LinearlyInterpolatedMapping.string": true, "mapping.LogarithmicMapping.string": true,
	"mapping.decodeLogLikeIndexMapping": true, "mapping.withinTolerance": true,
	"stat.SummaryStatistics.sumWithCompensation": true,
	"store.BufferedPaginatedStore.compact":       true, "store.BufferedPaginatedStore.index": true, "store.BufferedPaginatedStore.lineIndex": true,
	"store.BufferedPaginatedStore.minIndexWithCumulCount": true, "store.BufferedPaginatedStore.newPagesLen": true,
	"store.BufferedPaginatedStore.page": true, "store.BufferedPaginatedStore.pageIndex": true, "store.BufferedPaginatedStore.sortBuffer": true,
	"store.CollapsingHighestDenseStore.adjust": true, "store.CollapsingHighestDenseStore.extendRange": true,
	"store.CollapsingHighestDenseStore.getNewLength": true, "store.CollapsingHighestDenseStore.normalize": true,
	"store.CollapsingLowestDenseStore.adjust": true, "store.CollapsingLowestDenseStore.extendRange": true,
	"store.CollapsingLowestDenseStore.getNewLength": true, "store.CollapsingLowestDenseStore.normalize": true,
	"store.max": true, "store.min": true,
	"store.DenseStore.adjust": true, "store.DenseStore.centerCounts": true, "store.DenseStore.encodeDensely": true,
	"store.DenseStore.encodeSparsely": true, "store.DenseStore.extendRange": true, "store.DenseStore.getNewLength": true,
	"store.DenseStore.normalize": true, "store.DenseStore.resetBins": true, "store.DenseStore.shiftCounts": true,
	"store.DenseStore.string": true, "store.SparseStore.orderedBins": true,
}

func helperKey(f *ssa.Function) string {
	k := ""
	if f.Pkg != nil {
		k = f.Pkg.Pkg.Name() + "."
	}
	if r := f.Signature.Recv(); r != nil {
		t := r.Type()
		if p, ok := t.(*types.Pointer); ok {
			t = p.Elem()
		}
		if n, ok := t.(*types.Named); ok {
			k += n.Obj().Name() + "."
		}
	}
	return k + canonName(f)
}

// roleAnchors: functions resolved by role during this run (the shared block-loop decoder, the dataset's sort
// routine, …) — treated like the known helpers.
var roleAnchors = map[*ssa.Function]bool{}

func inlineNewHelpers(f *ssa.Function) bool {
	if !inModule(f) || f.Synthetic != "" || f.Parent() != nil || roleAnchors[f] {
		return false
	}
	n := f.Name()
	if n == "" || n == "init" || knownHelpers[helperKey(f)] {
		return false
	}
	if ast.IsExported(n) && knownExported[helperKey(f)] {
		return false
	}
	return true
}

// execPlain: paths of f without interprocedural inlining (for rules that treat helper calls by role).
func execPlain(c *Ctx, f *ssa.Function, dom *Domain, visits int) ([]*Path, bool) {
	paths, ok := pathsOf(c.P, f, dom, execOpts{MaxVisits: visits, Pure: c.Mod.PureCall})
	c.R.count("paths", len(paths))
	c.R.count("functions_path_analysed", 1)
	return paths, ok
}

// withNewHelpers: f followed by the unexported module functions it (transitively, statically) calls that the
// rules do not know by name — the helpers a refactoring may have split off f. Instruction-level rules scan them
// together with f, as the path rules execute them inline.
func withNewHelpers(fs ...*ssa.Function) []*ssa.Function {
	seen := map[*ssa.Function]bool{}
	var out []*ssa.Function
	var visit func(f *ssa.Function)
	visit = func(f *ssa.Function) {
		if f == nil || seen[f] {
			return
		}
		seen[f] = true
		out = append(out, f)
		var scan func(g *ssa.Function)
		scan = func(g *ssa.Function) {
			for _, b := range g.Blocks {
				for _, in := range b.Instrs {
					if ci, ok := in.(ssa.CallInstruction); ok {
						if cal, ok := ci.Common().Value.(*ssa.Function); ok && inlineNewHelpers(cal) && len(cal.Blocks) > 0 {
							visit(cal)
						}
					}
				}
			}
			for _, an := range g.AnonFuncs {
				scan(an)
			}
		}
		scan(f)
	}
	for _, f := range fs {
		visit(f)
	}
	return out
}

// execWith: paths of f with a rule-specific inlining policy for statically resolved module callees.
func execWith(c *Ctx, f *ssa.Function, dom *Domain, visits int, policy func(*ssa.Function) bool) ([]*Path, bool) {
	paths, ok := pathsOf(c.P, f, dom, execOpts{MaxVisits: visits, Pure: c.Mod.PureCall, InlineCallee: policy})
	c.R.count("paths", len(paths))
	c.R.count("functions_path_analysed", 1)
	return paths, ok
}

// blockLoop: the shared block-loop decoder of the sketch, by role — the module function that both
// (*DDSketch).DecodeAndMergeWith and the exact variant's DecodeAndMergeWith call with a fallback closure
// (a method or a plain function, under any name).
func (c *Ctx) blockLoop(a *sketchAnchors) *ssa.Function {
	calleesWithClosure := func(f *ssa.Function) map[*ssa.Function]bool {
		out := map[*ssa.Function]bool{}
		if f == nil {
			return out
		}
		for _, b := range f.Blocks {
			for _, in := range b.Instrs {
				call, ok := in.(*ssa.Call)
				if !ok {
					continue
				}
				cal, ok := call.Common().Value.(*ssa.Function)
				if !ok || !inModule(cal) {
					continue
				}
				for _, arg := range call.Common().Args {
					if _, isSig := arg.Type().Underlying().(*types.Signature); isSig {
						out[cal] = true
					}
				}
			}
		}
		return out
	}
	p := calleesWithClosure(c.P.DeclaredMethod(a.DDSketch, "DecodeAndMergeWith"))
	e := calleesWithClosure(c.P.DeclaredMethod(a.Exact, "DecodeAndMergeWith"))
	var found *ssa.Function
	n := 0
	for f := range p {
		if e[f] {
			found = f
			n++
		}
	}
	if n == 1 {
		return found
	}
	return nil
}

// isSortCall: the call sorts the paginated store's buffer — through the sort routine, or sort.Ints(recv.buffer) written out.
func (r *paginatedRoles) isSortCall(tc *TermCtx, call *ssa.Call) bool {
	fn, ok := call.Common().Value.(*ssa.Function)
	if !ok {
		return false
	}
	if r.sort != nil && fn == r.sort {
		return true
	}
	if libName(fn) == "sort.Ints" {
		t := tc.Of(call.Common().Args[0])
		return t.Op == "field" && t.Sym == r.bufFld && (t.Args[0].isParam(0) || t.Args[0].isRecv())
	}
	return false
}

// shared runs the rule function of another property inside the current check and keeps only the obligations
// that concern this property (keep decides by obligation; floors of the foreign rule are not imported — they
// are that property's own). The obligations keep their home rule id, so a report reads e.g.
// `FAIL C14-D2:DenseStore.Copy/field/bins` under `VIOLATION property=C04`.
func (c *Ctx) shared(run func(), keep func(o *Obligation) bool) {
	outer := c.R
	tmp := newReport(outer.Property)
	c.R = tmp
	run()
	c.R = outer
	n := 0
	for _, o := range tmp.Obls {
		if strings.Contains(o.Key, ":floor/") || !keep(o) {
			continue
		}
		// re-add under its bare key (add prefixes the rule again)
		o.Key = strings.TrimPrefix(o.Key, o.Rule+":")
		outer.add(o)
		n++
	}
	for k, v := range tmp.Analysed {
		outer.Analysed[k] += v
	}
	for _, a := range tmp.Assumptions {
		outer.assume(a)
	}
	outer.count("shared_obligations", n)
}

// keyMentions: keep obligations whose key or function mentions one of the names.
func keyMentions(names ...string) func(o *Obligation) bool {
	return func(o *Obligation) bool {
		for _, n := range names {
			if strings.Contains(o.Key, n) || strings.Contains(o.Func, n) {
				return true
			}
		}
		return false
	}
}

// derefType: the element type of a pointer type, or the type itself.
func derefType(t types.Type) types.Type {
	if p, ok := t.Underlying().(*types.Pointer); ok {
		return p.Elem()
	}
	return t
}

func nSlices(t *types.Named) int {
	n := 0
	for _, f := range structFields(t) {
		if _, ok := f.Type().Underlying().(*types.Slice); ok {
			n++
		}
	}
	return n
}

// fieldCarriesState: the struct field is read somewhere in the module in a way that lets its content matter — a load
// whose value is used for anything but being truncated to length 0 (`x.f[:0]`: a scratch buffer that every user
// empties first), or its address handed on. A field that no code reads (or that is only ever emptied before use)
// carries no state between calls: rules that enumerate "every field" (copies, clears, the statistics tables) have no
// obligation for it.
func (c *Ctx) fieldCarriesState(v *types.Var) bool {
	if n, ok := v.Type().(*types.Named); ok && n.Obj().Pkg() != nil && n.Obj().Pkg().Path() == "sync" {
		return false // a mutex (or another synchronisation object) holds nothing a property speaks of
	}
	if c.live == nil {
		c.live = map[*types.Var]bool{}
		fieldVar := func(t types.Type, idx int) *types.Var {
			if p, ok := t.Underlying().(*types.Pointer); ok {
				t = p.Elem()
			}
			if st, ok := t.Underlying().(*types.Struct); ok && idx < st.NumFields() {
				return st.Field(idx)
			}
			return nil
		}
		for _, f := range c.P.Funcs {
			if !inModule(f) {
				continue
			}
			for _, b := range f.Blocks {
				for _, in := range b.Instrs {
					switch x := in.(type) {
					case *ssa.Field:
						if fv := fieldVar(x.X.Type(), x.Field); fv != nil {
							c.live[fv] = true
						}
					case *ssa.FieldAddr:
						fv := fieldVar(x.X.Type(), x.Field)
						if fv == nil || x.Referrers() == nil {
							continue
						}
						for _, r := range *x.Referrers() {
							switch r := r.(type) {
							case *ssa.Store:
								if r.Addr != ssa.Value(x) {
									c.live[fv] = true // the address itself is stored somewhere
								}
							case *ssa.DebugRef:
							case *ssa.UnOp:
								if r.Op != token.MUL || r.Referrers() == nil {
									c.live[fv] = true
									continue
								}
								for _, u := range *r.Referrers() {
									switch u := u.(type) {
									case *ssa.DebugRef:
									case *ssa.Slice:
										k, isK := u.High.(*ssa.Const)
										if !(u.X == ssa.Value(r) && u.Low == nil && isK && k.Value != nil && k.Value.String() == "0") {
											c.live[fv] = true
										}
									default:
										c.live[fv] = true
									}
								}
							default:
								c.live[fv] = true // FieldAddr of a nested field, address passed to a call, …
							}
						}
					}
				}
			}
		}
		// a whole-struct load `*p` reads every field of the struct: treat as reading them all only outside Copy-like
		// clones — not needed: a field nobody reads individually does not matter to any answer
	}
	return c.live[v]
}

// structFieldVar: the *types.Var of the (possibly embedded) field path of struct type t.
func structFieldVar(t types.Type, path []string) *types.Var {
	for i, name := range path {
		st, ok := t.Underlying().(*types.Struct)
		if !ok {
			return nil
		}
		var fv *types.Var
		for j := 0; j < st.NumFields(); j++ {
			if st.Field(j).Name() == name {
				fv = st.Field(j)
			}
		}
		if fv == nil {
			return nil
		}
		if i == len(path)-1 {
			return fv
		}
		t = fv.Type()
	}
	return nil
}

// locIsScratch: the access path rest (".f.g[*]" as the write-set analysis prints it), followed from a value of type
// t, passes through a field that carries no state (fieldCarriesState) — for every struct type the path can denote
// (an interface-typed field stands for all its implementations in the module).
func (c *Ctx) locIsScratch(t types.Type, rest string) bool {
	cands := []types.Type{t}
	for len(rest) > 0 {
		switch {
		case strings.HasPrefix(rest, "[*]"):
			rest = rest[3:]
			var next []types.Type
			for _, ct := range cands {
				switch u := ct.Underlying().(type) {
				case *types.Slice:
					next = append(next, u.Elem())
				case *types.Array:
					next = append(next, u.Elem())
				case *types.Map:
					next = append(next, u.Elem())
				case *types.Pointer:
					next = append(next, u.Elem())
				}
			}
			cands = next
		case rest[0] == '.':
			rest = rest[1:]
			i := strings.IndexAny(rest, ".[")
			name := rest
			if i >= 0 {
				name, rest = rest[:i], rest[i:]
			} else {
				rest = ""
			}
			var structs []types.Type
			for _, ct := range cands {
				for {
					p, ok := ct.Underlying().(*types.Pointer)
					if !ok {
						break
					}
					ct = p.Elem()
				}
				if _, isI := ct.Underlying().(*types.Interface); isI {
					if nt, ok := ct.(*types.Named); ok {
						for _, impl := range c.P.Implementations(nt) {
							structs = append(structs, impl)
						}
					}
					continue
				}
				structs = append(structs, ct)
			}
			any, allScratch := false, true
			var next []types.Type
			var find func(st types.Type) *types.Var
			find = func(st types.Type) *types.Var {
				s, ok := st.Underlying().(*types.Struct)
				if !ok {
					return nil
				}
				for j := 0; j < s.NumFields(); j++ {
					if s.Field(j).Name() == name {
						return s.Field(j)
					}
				}
				for j := 0; j < s.NumFields(); j++ {
					if s.Field(j).Embedded() {
						if fv := find(s.Field(j).Type()); fv != nil {
							return fv
						}
					}
				}
				return nil
			}
			for _, st := range structs {
				if fv := find(st); fv != nil {
					any = true
					if c.fieldCarriesState(fv) {
						allScratch = false
					}
					next = append(next, fv.Type())
				}
			}
			if any && allScratch {
				return true
			}
			cands = next
		default:
			return false
		}
	}
	return false
}
