#!/usr/bin/env python3
"""usage: mutone.py <mutants.jsonl> <file-substr>:<line> [prop|all]  — applies every mutant at that line (one at a
time) to the scratch worktree /tmp/wt/mut, runs the checker, prints which rules report it, reverts."""
import json, os, subprocess, sys
muts = [json.loads(l) for l in open(sys.argv[1])]
fs, ln = sys.argv[2].rsplit(":", 1)
prop = sys.argv[3] if len(sys.argv) > 3 else "all"
import os as _os
WT = _os.environ.get("MUT_WT", "/tmp/wt/mut")
subprocess.run(["git", "-C", WT, "checkout", "-q", "--", "."], check=True)
for m in muts:
    if fs in m["file"] and str(m["line"]) == ln:
        p = os.path.join(WT, m["file"])
        orig = open(p, "rb").read()
        open(p, "wb").write(orig[:m["start"]] + m["repl"].encode() + orig[m["end"]:])
        r = subprocess.run(["/verif/bin/ddverif", "-property", prop, "-repo", WT, "-evidence", "/tmp/ev_mutone", "-known", "/nonexistent"], capture_output=True, text=True)
        open(p, "wb").write(orig)
        rules = sorted({l.split()[1] for l in r.stdout.splitlines() if l.startswith(("FAIL", "UNDECIDED"))})
        err = [l for l in r.stdout.splitlines() if l.startswith("ERROR")]
        print(f"{m['op']:9} {m['orig'][:40]!r} -> {m['repl'][:40]!r}: {'NOCOMPILE' if err else (rules[:4] or 'SURVIVED')}")
