#!/usr/bin/env python3
"""For every seeded change (directories given as arguments, each holding patch.diff) apply it to a scratch
worktree, run all checks, and record which property checks report which rules. Writes seeded/matrix.json."""
import json, os, re, subprocess, sys
import os as _os
WT = _os.environ.get("MUT_WT", "/tmp/wt/mut")
def run(cmd, **kw): return subprocess.run(cmd, capture_output=True, text=True, **kw)
out = {}
for d in sys.argv[1:]:
    d = d.rstrip("/")
    p = os.path.join(d, "patch.diff")
    if not os.path.exists(p): continue
    sid = os.path.basename(os.path.dirname(d)) + "/" + os.path.basename(d)
    run(["git", "-C", WT, "checkout", "-q", "--", "."]); run(["git", "-C", WT, "clean", "-fdq"])
    r = run(["git", "-C", WT, "apply", p])
    if r.returncode != 0:
        out[sid] = {"error": "patch does not apply"}; continue
    r = run(["/verif/bin/ddverif", "-property", "all", "-repo", WT, "-evidence", "/tmp/ev_matrix", "-known", "/nonexistent"])
    cur, res = None, {}
    for line in r.stdout.splitlines():
        m = re.match(r"property (C\d\d) ", line)
        if m: cur = m.group(1); continue
        m = re.match(r"(FAIL|UNDECIDED) (C\d\d-D\d+|C\d\d)[:/]", line)
        if m and cur: res.setdefault(cur, set()).add(m.group(2))
    out[sid] = {k: sorted(v) for k, v in sorted(res.items())}
    own = sid[:3]
    print(sid, "own-check:" + ("YES" if own in res else "no "), " ".join(f"{k}[{','.join(v)}]" for k, v in out[sid].items()))
run(["git", "-C", WT, "checkout", "-q", "--", "."])
os.makedirs("/verif/seeded", exist_ok=True)
old = {}
if os.path.exists("/verif/seeded/matrix.json"): old = json.load(open("/verif/seeded/matrix.json"))
old.update(out)
json.dump(old, open("/verif/seeded/matrix.json", "w"), indent=1, sort_keys=True)
