#!/bin/bash
# usage: tools/try_seed.sh <patch.diff> [property|all]
# applies the patch to /repo, runs the checker, and ALWAYS reverts /repo afterwards.
patch="$1"; prop="${2:-all}"
cd /repo || exit 2
if [ -n "$(git status --porcelain)" ]; then echo "REPO DIRTY, refusing"; exit 2; fi
git apply "$patch" || { echo "patch does not apply"; exit 2; }
( export GOFLAGS=-mod=mod GOPROXY=off GOSUMDB=off GOTOOLCHAIN=local; unset GOWORK; go build ./... ) || echo "BUILD FAILED"
/verif/bin/ddverif -property "$prop" -evidence /tmp/ev_seed -known /verif/known_findings.json | grep -E '^property|^FAIL|^UNDECIDED|^ERROR' | cut -c1-420
git checkout -- . ; git status --porcelain | head -3
