#!/usr/bin/env python3
"""Imports verified seeded changes from /tmp/seedout/<prop>/<X>/ into /verif/seeded/<prop>-<X>/ and
records which checks report them (applies the patch to /repo, runs all quick checks, reverts)."""
import json, os, re, shutil, subprocess, sys
ROOT = "/verif"
DESC = json.load(open(os.path.join(ROOT, "tools", "seed_descriptions.json")))
def sh(cmd, **kw): return subprocess.run(cmd, shell=True, capture_output=True, text=True, **kw)
assert sh("git -C /repo status --porcelain").stdout.strip() == "", "/repo dirty"
for sid, d in sorted(DESC.items()):
    prop, x = sid.split("/")
    base = {"A": "/tmp/seedout", "B": "/tmp/seedout", "C": "/tmp/seedout2", "D": "/tmp/seedout2", "E": "/tmp/seedout3", "F": "/tmp/seedout3", "G": "/tmp/seedout4", "H": "/tmp/seedout4", "I": "/tmp/seedout5", "J": "/tmp/seedout5", "K": "/tmp/seedout6", "L": "/tmp/seedout6", "M": "/tmp/seedout7", "N": "/tmp/seedout7", "O": "/tmp/seedout8", "P": "/tmp/seedout8", "S": "/tmp/seedout10", "T": "/tmp/seedout11"}.get(x, "/tmp/seedout9")
    src = f"{base}/{prop}/{x}"
    dst = os.path.join(ROOT, "seeded", f"{prop}-{x}")
    vlog = f"{base}/verify/{prop}_{x}.log"
    if os.path.exists(dst + "/meta.json") and "--force" not in sys.argv:
        continue
    if not os.path.exists(src + "/patch.diff"):
        continue
    if not os.path.exists(vlog) or "RESULT" not in open(vlog).read():
        print("not yet verified:", sid); continue
    v = re.search(r"demo_clean_exit=(\d+) demo_patched_exit=(\d+) suite_with_patch_exit=(\d+)", open(vlog).read())
    ok = v and v.group(1) == "0" and v.group(2) != "0" and v.group(3) == "0"
    if not ok:
        print("VERIFICATION FAILED, not kept:", sid, open(vlog).read()[-300:]); continue
    os.makedirs(dst, exist_ok=True)
    shutil.copy(src + "/patch.diff", dst + "/patch.diff")
    shutil.copy(src + "/demo_test.go", dst + "/demo_test.go.txt")   # .txt: not compiled as part of anything
    if os.path.exists(src + "/notes.md"): shutil.copy(src + "/notes.md", dst + "/notes.md")
    r = sh(f"git -C /repo apply {dst}/patch.diff")
    assert r.returncode == 0, (sid, r.stderr)
    try:
        out = sh(f"{ROOT}/bin/ddverif -property all -evidence /tmp/ev_seed -known {ROOT}/known_findings.json").stdout
    finally:
        sh("git -C /repo checkout -- . && git -C /repo clean -fdq")
    keys = sorted(set(re.findall(r"^(?:FAIL|UNDECIDED) (\S+)", out, re.M)))
    keys = [k for k in keys if not k.startswith("C") or ":" in k]
    # which property checks report it (the obligations keep their home rule ids; shared ones run under several properties)
    byprop, cur = {}, None
    for line in out.splitlines():
        m = re.match(r"property (C\d\d) ", line)
        if m: cur = m.group(1); continue
        m = re.match(r"(?:FAIL|UNDECIDED) (C\d\d(?:-D\d+)?)", line)
        if m and cur: byprop.setdefault(cur, set()).add(m.group(1))
    byprop = {k: sorted(v) for k, v in sorted(byprop.items())}
    meta = dict(seed_id=sid, property=prop, source="independent sub-agent given only the property text and a scratch worktree",
                summary=d["summary"], needs=d["needs"], files=d.get("files", ""),
                verified=dict(demo_passes_on_clean_tree=True, demo_fails_with_change=True, full_suite_passes_with_change=True,
                              how="tools/verify_seed.sh in a scratch git worktree of /repo HEAD (demo copied into the package named by its package clause; go test -vet=off -count=1 -timeout 90m ./...)"),
                checks_run="git -C /repo apply patch.diff; bin/ddverif -property all; git -C /repo checkout -- .",
                detected=bool(keys), reported_by_own_property_check=prop in byprop, property_checks_reporting=byprop, detected_by=keys[:12], n_reports=len(keys), comment=d.get("comment", ""))
    json.dump(meta, open(dst + "/meta.json", "w"), indent=1)
    print(sid, "detected" if keys else "MISSED", keys[:3])
