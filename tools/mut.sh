#!/bin/bash
# usage: tools/mut.sh <prop|all> <file relative to repo> <python-regex-free: old string> <new string>
# applies a literal replacement in the scratch worktree /tmp/wt/mut, runs the checker there, reverts.
prop="$1"; file="$2"; old="$3"; new="$4"
cd /tmp/wt/mut || exit 2
git checkout -q -- . 
python3 - "$file" "$old" "$new" <<'PY'
import sys
f,old,new=sys.argv[1:4]
s=open(f).read()
if old not in s: print("OLD STRING NOT FOUND"); sys.exit(3)
s=s.replace(old,new,1)
open(f,'w').write(s)
PY
[ $? -eq 0 ] || exit 3
( export GOFLAGS=-mod=mod GOPROXY=off GOSUMDB=off GOTOOLCHAIN=local; unset GOWORK; go build ./... 2>&1 | head -5 )
/verif/bin/ddverif -property "$prop" -repo /tmp/wt/mut -evidence /tmp/ev_mut | grep -E '^property|^FAIL|^UNDECIDED|^ERROR' | cut -c1-330
git checkout -q -- .
