#!/usr/bin/env python3
"""Writes tools/mutcov_summary.json from the outputs of tools/mutcov.py (stage 1, one or more files: later files
override earlier ones for the same mutant) and tools/mutcov_tests.py (stage 2). usage:
mutcov_summary.py --stage1 a.jsonl [b.jsonl …] --stage2 t.jsonl [u.jsonl …] [--note "…"]"""
import json, sys
args = sys.argv[1:]
def grab(flag):
    if flag not in args: return []
    i = args.index(flag) + 1
    out = []
    while i < len(args) and not args[i].startswith("--"):
        out.append(args[i]); i += 1
    return out
key = lambda r: (r["file"], r["start"], r["end"], r["repl"])
st = {}
for f in grab("--stage1"):
    for l in open(f):
        r = json.loads(l); st[key(r)] = r["status"]
t = {}
for f in grab("--stage2"):
    for l in open(f):
        r = json.loads(l)
        if st.get(key(r)) == "survived":
            t[key(r)] = r["tests"]
note = grab("--note")
c = lambda d, v: sum(1 for x in d.values() if x == v)
out = {"total": len(st), "nocompile": c(st, "nocompile"), "killed": c(st, "killed"), "survived": c(st, "survived"),
       "tests_run": len(t), "tests_fail": c(t, "tests-fail") + c(t, "tests-timeout"), "tests_pass": c(t, "tests-pass"),
       "note": note[0] if note else ""}
json.dump(out, open("/verif/tools/mutcov_summary.json", "w"), indent=1)
print(out)
