#!/bin/bash
# usage: tools/try_benign.sh <dir with patch_NN.diff> — applies each patch to a scratch worktree (/tmp/wt/mut), runs all checks, prints non-silent results
dir="$1"
cd ${MUT_WT:-/tmp/wt/mut} || exit 2
for p in "$dir"/patch_*.diff; do
  git checkout -q -- . ; git clean -fdq
  if ! git apply "$p" 2>/dev/null; then echo "== $(basename $p): DOES NOT APPLY"; continue; fi
  out=$(/verif/bin/ddverif -property all -repo ${MUT_WT:-/tmp/wt/mut} -evidence /tmp/ev_mut | grep -E '^FAIL|^UNDECIDED|^ERROR' | cut -c1-400)
  if [ -z "$out" ]; then echo "== $(basename $p): silent"; else echo "== $(basename $p): ALARM"; echo "$out"; fi
done
git checkout -q -- . ; git clean -fdq
