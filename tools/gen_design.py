#!/usr/bin/env python3
"""Assembles /verif/DESIGN.md from tools/design/*.md, the rule descriptions compiled into the
checker, the self-test bank and the seeded-change records."""
import json, os, re, subprocess, glob, importlib.util
ROOT = os.path.dirname(os.path.dirname(os.path.abspath(__file__)))
rd = lambda p: open(os.path.join(ROOT, p)).read()
titles = {json.loads(l)["id"]: json.loads(l)["title"] for l in open(os.path.join(ROOT, "properties.jsonl"))}
out = subprocess.run([os.path.join(ROOT, "bin/ddverif"), "-property", "explain"], capture_output=True, text=True).stdout
spec = importlib.util.spec_from_file_location("bank", os.path.join(ROOT, "mutants/bank.py")); bank = importlib.util.module_from_spec(spec); spec.loader.exec_module(bank)
sec = ["## 4. Rules per property (generated from the checker)\n",
       "Notation: **D***n* = decided clause; the text is the `coverage.explanation` each check writes into its evidence. "
       "\"Self-test variants\" are the entries of `mutants/bank.py` for the property (rewrites of a scratch copy): *break* variants compile, keep the 184 tests green as far as was tried, and must be reported; *benign* variants preserve behaviour and must not be.\n"]
for line in out.splitlines():
    m = json.loads(line)
    pid = m["id"]
    text = m["explanation"]
    text = re.sub(r"\s(D\d[a-z]? )", r"\n* **\1**", text)
    text = re.sub(r"\sNOT DECIDED", r"\n* **NOT DECIDED**", text)
    text = re.sub(r"\*\*(D\d[a-z]?) \*\*", r"**\1** ", text)
    sec.append(f"### {pid} — {titles.get(pid, '')}\n\n{text}\n")
    sec.append(f"*Obligations:* {m['rule']}. *Enumerates a finite space completely:* {'yes' if m['exhaustive'] else 'no'}.\n")
    br = [e["id"] for e in bank.BANK if e["property"] == pid and e["kind"] == "break"]
    be = [e["id"] for e in bank.BANK if e["property"] == pid and e["kind"] == "benign"]
    sec.append(f"*Self-test variants:* break: {', '.join(br) or '—'}; benign: {', '.join(be) or '—'}.\n")
sec.append("---------------------------------------------------------------------------\n")

# §7
nbreak = sum(1 for e in bank.BANK if e['kind']=='break'); nben = sum(1 for e in bank.BANK if e['kind']=='benign')
refs = sorted(glob.glob(os.path.join(ROOT, "benign", "*", "patch_*.diff")))
sets = sorted(set(os.path.basename(os.path.dirname(f)) for f in refs))
s7 = ["## 7. Validating the checker (both directions)\n",
 "* **Silent on the repaired tree**: all 20 quick and thorough checks exit 0 on `/repo` (both architectures), no `KNOWN-FINDING` line.\n"
 "* **Fires on the unrepaired tree**: exactly F1–F7 (§5).\n"
 f"* **Self-test bank** (`mutants/bank.py`, {nbreak} break variants and {nben} benign variants, listed per property in §4): each entry is a literal rewrite applied to a scratch copy of the working tree under the temp directory (never to `/repo`), checked in a separate process and removed. Last full run: every break variant is reported by the expected rule, every benign variant is silent. The thorough tier of each check re-runs its own entries and records `fired k/n` in the evidence. A rewrite whose source text is no longer present is skipped, so the bank cannot raise an alarm about the tree under test.\n"
 f"* **Behaviour-preserving refactorings written by independent agents** (`benign/<set>/patch_NN.diff`, {len(refs)} patches in {len(sets)} sets: {', '.join(sets)}; each agent was asked for a different family of refactorings — helper extraction, inlining/renaming/moving of existing helpers, control-flow reshaping, performance-style edits, clarity/defensive edits, loop reshaping — had no access to `/verif`, and verified every patch against the unedited suite). The bank applies each patch to a scratch copy and requires *every* check to stay silent; the thorough tier of each property does the same for that property. This is the test of the 'never an alarm on code where the property holds' requirement; what it found and what was changed is listed in §5 (false alarms).\n"
 "* **Renaming robustness**: all unexported fields of the dense stores, both sketches and the paginated store (and its `sortBuffer`/`compact`) were renamed in a scratch copy: all checks silent.\n"
 "* **Independently seeded changes** (`/verif/seeded/<id>/`, nine rounds A/B, C/D, E/F, G/H, I/J, K/L, M/N, O/P and Q/R plus two short late rounds S and T with a 9–12-minute limit per agent — from the second round on the agents were told which ideas had been used already for their property, so later rounds reach for less obvious places: sibling helpers, caches, fast paths, the generated protobuf builders, the statistics object): fresh sub-agents were given only the text of one property and a scratch worktree, and asked for a change that breaks the property, compiles, passes the unedited suite and needs something specific to manifest, with a demonstration test. Each kept change was confirmed here in a scratch worktree (demonstration passes on the clean tree, fails with the change, full suite passes with the change), then the checks were run against `/repo` with the change applied and reverted. The table is generated from the `meta.json` files; 'own check' says whether the check of the property the change was written against reports it (obligations shared between properties keep their home rule id).\n"]
mc = os.path.join(ROOT, "tools", "mutcov_summary.json")
if os.path.exists(mc):
    m = json.load(open(mc))
    s7.append(f"* **Mutation survey of `/repo` against the checker** (`tools/mutgen` + `tools/mutcov.py`, development aid, not a registered check): {m['total']} syntactic mutants of the non-test, non-protoc sources (operator swaps, statement deletions, negated conditions, literal changes, min/max- and positive/negative-style identifier swaps), each applied to a scratch copy and run through all 20 checks: {m['nocompile']} do not type-check, {m['killed']} are reported by at least one rule, {m['survived']} are not. The survivors were then run against the unit tests of their package and its dependants (`tools/mutcov_tests.py`): {m.get('tests_fail','?')} of the {m.get('tests_run','?')} tried are killed by the existing suite, {m.get('tests_pass','?')} survive both; {m.get('note','')} The survey is how the blind spots closed in the last round were found (the exact variant's accessors and final decoder guard, optional blocks, skip arms, the block-loop exit, nil-guard polarities, the builders' writes, the codecs' bit transport); it is not evidence that a survivor is a defect — most survivors are equivalent mutants, changes outside every property (String(), generators, factor ≤ 0 branches) or numeric changes in code whose numeric core is declared not decided (§2.2).\n")
rows = []
nown = 0
for mf in sorted(glob.glob(os.path.join(ROOT, "seeded", "*", "meta.json"))):
    m = json.load(open(mf))
    det = "; ".join(sorted(set(k.split(":")[0] for k in m.get("detected_by", [])))) or "**missed**"
    own = "yes" if m.get("reported_by_own_property_check") else "no"
    nown += own == "yes"
    others = ", ".join(k for k in m.get("property_checks_reporting", {}) if k != m["property"])
    rows.append(f"| {m['seed_id']} | {m['summary']} | {m['needs']} | {det} | {own} | {others or '—'} |")
if rows:
    s7.append("\n| seed | change | needs to manifest | rules reporting | own check | other checks reporting |\n|---|---|---|---|---|---|\n" + "\n".join(rows) + "\n")
    miss = [r for r in rows if "**missed**" in r]
    notes = []
    for mf in sorted(glob.glob(os.path.join(ROOT, "seeded", "*", "meta.json"))):
        m = json.load(open(mf))
        if not m.get("detected_by") and m.get("comment"):
            notes.append(f"* **{m['seed_id']}** (missed): {m['comment']}")
    if notes:
        s7.append("\nThe misses, and why they stay misses:\n\n" + "\n".join(notes) + "\n")
    s7.append(f"\n{len(rows)} seeded changes kept, {len(rows)-len(miss)} reported by at least one check, {nown} by the check of their own property, {len(miss)} missed. Where a change was first missed the rules were strengthened (the history is in §5 and in the commit log): C08-D4 after C08/A; C02-D2 captures after C02/A, C04/A and C14/C; C06-D3 after C06/A and C12/B; C04-D3 twin rule after C04/B; C09-D1 always-written and C09-D3 forms-not-exclusive after C09/A and C09/B; C18-D4 float64le chain after C18/B; C05-D5/D6/D7 after C05/B and F7; C02-D4 window-covers-argument after C02/C; C08-D4/C06-D2 batch-room after C06/C; C05-D2 bounded growth and limit-is-constant after C05/C and C05/D; C03-D3 margin-in-the-exponent after C03/D; C10-D1 zero-weight rule after C10/D; round 3: sorted-flag typestate, batch equivalence (C12-D4), C19-D1 every-path EncodeProto, C04-D8 full-scan emptiness, C05-D8/D9, C16-D2 representation-untouched, C17-D3 enumeration end; round 4: C09-D1 fresh-scratch tag and FromProto delegation, C10-D3 compensated-step shape, `copy()` element aliasing, clamp-loop full scan, the 32-bit varint token; round 5: C06-D6 decoding constructors, C08-D5 Count block first, C14-D5 no package-level state, C14-D6 detached snapshots, C03-D4 gamma call sites, C04-D9 page table ownership and page use, C09-D1 one sub-buffer per nested message, C18-D5 bit agreement; round 6: C08-D3 mapping arm decodes / current-mapping guard, C18-D3 literal size answers bounded, every sparse map update scales, plus shares (C02, C04, C05, C06, C07, C08, C11, C14, C17, C19); round 7: C04-D3 sparse entries enter guarded, C04-D9 page slots from the table's current base and page/line pairing, C13-D2 every element's error, C18-D1 composite decoders hand over their own cursor, C09-D2 same entries on both export paths, C05-D6 in-loop adds stay alive, C08-D4 batch steps, plus shares (C02, C04, C06, C07, C10, C12, C15, C16); before round 8 the add side of the stores was shared into every property that states what a sketch answers after additions (C01, C02, C06, C07, C09, C11, C17) and the read side into C05 and C12; round 8 needed shares (C01, C04, C07, C11, C12, C17, C19) and one rule (C10-D5 a statistics block is skipped only for the sentinel); round 9: C09-D3 messages are only read, C08-D4 a bin decoder reports success only after reading, C15-D1 every path through Clear clears, C19-D1 FromProto refuses nothing on its own, C16-D2 the dense scaling loop has no early exit, C04-D3 a shared walk still sorts first, plus shares (C01, C02, C07, C11, C12, C14); and obligations were shared between properties whose statements overlap (most of the twenty checks re-evaluate obligations of another property; §4 lists them under SHARED).\n")
s7.append("\n---------------------------------------------------------------------------\n")
open(os.path.join(ROOT, "DESIGN.md"), "w").write(rd("tools/design/head.md") + "\n" + "\n".join(sec) + "\n" + rd("tools/design/tail.md") + "\n" + "".join(s7) + "\n" + rd("tools/design/tail2.md"))
print("DESIGN.md written:", len(open(os.path.join(ROOT, 'DESIGN.md')).read().splitlines()), "lines")
