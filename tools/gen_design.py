#!/usr/bin/env python3
"""Assembles /verif/DESIGN.md from tools/design/*.md, the rule descriptions compiled into the
checker, the self-test bank and the seeded-change records."""
import json, os, re, subprocess, glob, importlib.util
ROOT = os.path.dirname(os.path.dirname(os.path.abspath(__file__)))
rd = lambda p: open(os.path.join(ROOT, p)).read()
titles = {json.loads(l)["id"]: json.loads(l)["title"] for l in open(os.path.join(ROOT, "properties.jsonl"))}
out = subprocess.run([os.path.join(ROOT, "bin/ddverif"), "-property", "explain"], capture_output=True, text=True).stdout
spec = importlib.util.spec_from_file_location("bank", os.path.join(ROOT, "mutants/bank.py")); bank = importlib.util.module_from_spec(spec); spec.loader.exec_module(bank)
sec = ["## 4. Rules per property (generated from the checker)\n",
       "Notation: **D***n* = decided clause; the text is the `coverage.explanation` each check writes into its evidence. "
       "\"Self-test variants\" are the entries of `mutants/bank.py` for the property (rewrites of a scratch copy): *break* variants compile, keep the 184 tests green as far as was tried, and must be reported; *benign* variants preserve behaviour and must not be.\n"]
for line in out.splitlines():
    m = json.loads(line)
    pid = m["id"]
    text = m["explanation"]
    text = re.sub(r"\s(D\d[a-z]? )", r"\n* **\1**", text)
    text = re.sub(r"\sNOT DECIDED", r"\n* **NOT DECIDED**", text)
    text = re.sub(r"\*\*(D\d[a-z]?) \*\*", r"**\1** ", text)
    sec.append(f"### {pid} — {titles.get(pid, '')}\n\n{text}\n")
    sec.append(f"*Obligations:* {m['rule']}. *Enumerates a finite space completely:* {'yes' if m['exhaustive'] else 'no'}.\n")
    br = [e["id"] for e in bank.BANK if e["property"] == pid and e["kind"] == "break"]
    be = [e["id"] for e in bank.BANK if e["property"] == pid and e["kind"] == "benign"]
    sec.append(f"*Self-test variants:* break: {', '.join(br) or '—'}; benign: {', '.join(be) or '—'}.\n")
sec.append("---------------------------------------------------------------------------\n")

# §7
s7 = ["## 7. Validating the checker (both directions)\n",
 "* **Silent on the repaired tree**: all 20 quick and thorough checks exit 0 on `/repo` (both architectures), no `KNOWN-FINDING` line.\n"
 "* **Fires on the unrepaired tree**: exactly F1–F6 (§5).\n"
 f"* **Self-test bank** (`mutants/bank.py`, {sum(1 for e in bank.BANK if e['kind']=='break')} break variants and {sum(1 for e in bank.BANK if e['kind']=='benign')} benign variants, listed per property in §4): each entry is a literal rewrite applied to a scratch copy of the working tree under the temp directory (never to `/repo`), checked in a separate process and removed. Last full run: every break variant is reported by the expected rule, every benign variant is silent. The thorough tier of each check re-runs its own entries and records `fired k/n` in the evidence. A rewrite whose source text is no longer present is skipped, so the bank cannot raise an alarm about the tree under test.\n"
 "* **Renaming robustness**: all unexported fields of the dense stores, both sketches and the paginated store (and its `sortBuffer`/`compact`) were renamed in a scratch copy: all checks silent.\n"
 "* **Independently seeded changes** (`/verif/seeded/<id>/`): fresh sub-agents were given only the text of one property and a scratch worktree, and asked for a change that breaks the property, compiles, passes the unedited suite and needs something specific to manifest, with a demonstration test. Each kept change was confirmed here in a scratch worktree (demonstration passes on the clean tree, fails with the change, full suite passes with the change), then the checks were run against `/repo` with the change applied and reverted. The table is generated from the `meta.json` files.\n"]
rows = []
for mf in sorted(glob.glob(os.path.join(ROOT, "seeded", "*", "meta.json"))):
    m = json.load(open(mf))
    det = "; ".join(sorted(set(k.split(":")[0] for k in m.get("detected_by", [])))) or "**missed**"
    rows.append(f"| {m['seed_id']} | {m['property']} | {m['summary']} | {m['needs']} | {det} |")
if rows:
    s7.append("\n| seed | property | change | needs to manifest | reported by |\n|---|---|---|---|---|\n" + "\n".join(rows) + "\n")
    miss = [r for r in rows if "**missed**" in r]
    s7.append(f"\n{len(rows)} seeded changes, {len(rows)-len(miss)} reported, {len(miss)} missed. Missed changes are numeric (§2.2) unless noted; rules were strengthened where a miss was structural (C08-D4 after C08/A; C02-D2 captures after C02/A and C04/A; C06-D3 after C06/A and C12/B; C04-D3 twin rule after C04/B).\n")
s7.append("\n---------------------------------------------------------------------------\n")
open(os.path.join(ROOT, "DESIGN.md"), "w").write(rd("tools/design/head.md") + "\n" + "\n".join(sec) + "\n" + rd("tools/design/tail.md") + "\n" + "".join(s7) + "\n" + rd("tools/design/tail2.md"))
print("DESIGN.md written:", len(open(os.path.join(ROOT, 'DESIGN.md')).read().splitlines()), "lines")
