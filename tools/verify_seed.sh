#!/bin/bash
# usage: tools/verify_seed.sh <seed dir with patch.diff, demo_test.go, notes.md> <pkgdir for demo> 
# Confirms in a scratch worktree: demo passes without patch, fails with it, full suite passes with patch.
sd="$1"; pkg="$2"
export GOFLAGS=-mod=mod GOPROXY=off GOSUMDB=off GOTOOLCHAIN=local; unset GOWORK
wt=$(mktemp -d /tmp/wt/verify.XXXXXX); rmdir "$wt"
git -C /repo worktree add -q --detach "$wt" HEAD || exit 2
trap 'git -C /repo worktree remove --force "$wt" >/dev/null 2>&1' EXIT
cd "$wt"
name=$(grep -o 'func TestSeeded[A-Za-z0-9_]*' "$sd/demo_test.go" | head -1 | sed 's/func //')
cp "$sd/demo_test.go" "$pkg/zz_seeded_demo_test.go"
go test -vet=off -count=1 -run "^TestSeeded" ./$pkg/ > /tmp/vs_clean.$$ 2>&1; clean=$?
git apply "$sd/patch.diff" || { echo "RESULT $sd: PATCH DOES NOT APPLY"; exit 1; }
go build ./... || { echo "RESULT $sd: BUILD FAILS"; exit 1; }
go test -vet=off -count=1 -run "^TestSeeded" ./$pkg/ > /tmp/vs_patched.$$ 2>&1; patched=$?
rm "$pkg/zz_seeded_demo_test.go"
go test -vet=off -count=1 -timeout 90m ./... > /tmp/vs_suite.$$ 2>&1; suite=$?
echo "RESULT $sd: demo_clean_exit=$clean demo_patched_exit=$patched suite_with_patch_exit=$suite tests=$(grep -c 'func TestSeeded' $sd/demo_test.go) first=$name"
if [ $clean -ne 0 ]; then tail -5 /tmp/vs_clean.$$; fi
if [ $patched -eq 0 ]; then echo "demo did not fail with patch"; fi
if [ $suite -ne 0 ]; then grep -E 'FAIL|panic' /tmp/vs_suite.$$ | head; fi
rm -f /tmp/vs_clean.$$ /tmp/vs_patched.$$ /tmp/vs_suite.$$
