#!/usr/bin/env python3
"""Generates /verif/MANIFEST.json. Edit the table below, then run this script.
A property is claimed only when its check exists in checker/ (CLAIMED set)."""
import json, os, subprocess, sys

ROOT = os.path.dirname(os.path.dirname(os.path.abspath(__file__)))

# id -> (technique, level text, level note, design ref)
P = {
 "C01": ("SSA path tables + term normal forms (static analysis)",
         "Decides the plumbing the accuracy guarantee presupposes: the routing table of AddWithCount over all value/weight classes, the three-way rank split of GetValueAtQuantile with its rank arguments as linear forms, the KeyAtRank exit test and ascending accumulation in every store, Value = LowerBound*(1+alpha) in every mapping, batch = singles. Each clause is a necessary condition of the guarantee; the numeric guarantee itself is not decided.",
         "Not decided: |estimate-x_k| <= alpha*x_k, bin edges, rank rounding. Trusted: go/types, go/ssa (x/tools v0.29.0), order axioms listed in evidence.", "DESIGN.md §4 C01"),
 "C02": ("SSA path tables + interprocedural mod-set analysis (static analysis)",
         "Decides: merge effect table (mismatch -> error and no write; match -> exactly positive<-positive, negative<-negative, zero+=zero), the argument's mod-set is representation-only for every MergeWith in the module, every Store.MergeWith accepts any Store (comma-ok assertion, ForEach fallback whose callback never stops), cached totals follow in the dense family.",
         "Not decided: equality of bin contents for all partitions / merge trees (numeric). Trusted: go/ssa, library summaries listed in evidence.", "DESIGN.md §4 C02"),
 "C03": ("term normal forms over SSA, sibling agreement (static analysis)",
         "Decides only structural necessary conditions: floor idiom of Index in the three mappings, Value/LowerBound pairing, multiplier used consistently as factor and divisor, int32 bounds wired into min/max indexable values, RelativeAccuracy is the algebraic inverse of the accuracy constructor per kind, approximateLog/approximateInverseLog use one polynomial (coefficients, Cardano terms). The numeric core (alpha-accuracy, monotonicity) is not decided.",
         "Weakest claim: the property is numeric; only plumbing is decided. Trusted: go/ssa.", "DESIGN.md §4 C03"),
 "C04": ("SSA path/dominance rules + term normal forms (static analysis)",
         "Decides structural necessary conditions: Add/AddWithCount/AddBin agreement in all stores, cached-total coherence in the dense family, the iteration contract (callback result controls continuation; channels closed), MinIndex/MaxIndex error iff empty, inclusive window loops in read paths, and the dense window-moving primitives (shiftCounts, resetBins, centerCounts) as linear forms over minIndex/maxIndex/offset/len(bins), with truncating division applied only to widths.",
         "Not decided: paging / buffer compaction as functions on counts; preservation of the window invariant through arbitrary new arithmetic. Trusted: go/ssa.", "DESIGN.md §4 C04"),
 "C05": ("method-set / static call-graph closure (static dispatch hazards) + terms (static analysis)",
         "Decides: shadow safety of every DenseStore method promoted into the collapsing stores (no promoted method reaches a re-declared one or regrows storage), the bin cap is applied in getNewLength and used by every growth site, the collapsed short-circuit table of normalize, Copy keeps kind/limit/flag and Clear resets the flag, the shared window primitives (linear forms), same-kind merge folds only out-of-window bins into the edge slot, a too-wide adjust leaves a window exactly as wide as the array with the collapsed weight in the new edge slot, and the window established on the empty-store edge of extendRange fits the array (found defect F7).",
         "Not decided: general preservation of maxIndex-minIndex+1 <= len(bins) through arbitrary new arithmetic; accuracy of the non-collapsed quantiles (numeric). Trusted: go/types method sets, go/ssa.", "DESIGN.md §4 C05"),
 "C06": ("codec grammar extraction + constant folding over SSA, mod-sets (static analysis)",
         "Decides: writer/reader grammar agreement per block kind against the documented grammars, side/flag-type pairing, delta discipline, decoding is additive and block-local, Encode only appends and leaves the sketch representation-only, omitIndexMapping table.",
         "Not decided: bit-exact equality of weights after the round trip. Trusted: go/ssa, constant folder over initialisers.", "DESIGN.md §4 C06"),
 "C07": ("constant folding of flag tables + switch exhaustiveness + codec grammars (static analysis)",
         "Decides: every flag byte equals the documented value, flags are pairwise distinct, Type()/SubFlag() invert NewFlag over the defined domain, every defined flag has a decoder arm in both sketch decoders / mapping.Decode / both bin decoders, and each skip arm of the plain decoder consumes exactly the payload kind the writer emits.",
         "Not decided: value semantics of arbitrary grammar-generated streams. Trusted: the documented table transcribed from flag.go's doc comments into the checker.", "DESIGN.md §4 C07"),
 "C08": ("error-flow analysis over SSA def-use + path rules on decoders (static analysis)",
         "Decides: no error returned by a module decoding function is dropped on any call chain below the public decoders; primitive decoders return io.EOF without consuming on short input and never index out of range; default arms / mapping mismatch / missing mapping return errors; item loops of bin decoders exit only by count or error.",
         "Not decided: panics from absurd-but-well-formed input (huge indexes). Trusted: go/ssa.", "DESIGN.md §4 C08"),
 "C09": ("constant folding of protobuf tags vs struct tags + sibling agreement ToProto/EncodeProto (static analysis)",
         "Decides: every streaming-builder method writes (field<<3|wiretype) matching the generated struct tag and the matching value encoding; ToProto and EncodeProto set the same fields from the same terms per store/mapping/sketch; a builder method may skip the field only for the proto3 zero value; the rebuild path feeds sides correctly and adds both sparse and contiguous counts unconditionally (no branch choosing one form).",
         "Not decided: behaviour of the protobuf runtime. Trusted: struct tags in ddsketch.pb.go.", "DESIGN.md §4 C09"),
 "C10": ("wrapper-discipline path rules + promoted-method analysis + field coverage (static analysis)",
         "Decides: each of the 8 mutators of the exact variant performs the inner operation first and the corresponding statistics operation only on its success edge; no state-changing *DDSketch method is reachable without the wrapper; SummaryStatistics Copy/Clear/Reweight/Rescale/MergeWith/Add field tables; quantile clamping table; statistics blocks encode/decode symmetry.",
         "Not decided: ulp bound of the compensated sum. Trusted: go/ssa.", "DESIGN.md §4 C10"),
 "C11": ("sign-domain obligation on the rank + path table (static analysis)",
         "Decides the clause 'never a value from an empty side': on every path on which GetValueAtQuantile answers from the negative store, non-emptiness of that store is established (rank >= 0 proven in the sign domain together with rank < negative total, or an explicit emptiness test). Also re-evaluates for weighted histories: weight forwarded unchanged to the right side, rank = q*(W-1) split by the sides' totals, every store's KeyAtRank selection rule, and Reweight scaling zero weight and both stores (obligations shared with C01-D1..D3, C16-D1).",
         "Not decided: rank within one unit of weight; positive-side emptiness (relational). Sign axioms listed in evidence.", "DESIGN.md §4 C11"),
 "C12": ("SSA path tables over emptiness atoms + term normal forms (static analysis)",
         "Decides: GetMaxValue/GetMinValue decision tables over the 8 emptiness valuations, GetCount/IsEmpty/GetZeroCount terms, ForEach/GetSum iteration contract (signs, zero bucket, early stop), batch = singles.",
         "Not decided: 'within alpha of the true extremes', monotonicity in q. Trusted: go/ssa.", "DESIGN.md §4 C12"),
 "C13": ("decision-table extraction over a finite partition of the float line on the SSA CFG (static analysis)",
         "Decides, exhaustively over the finite class partition (NaN, +-Inf, every interval and boundary the code compares against): AddWithCount/Add of both variants return the documented error variable for every refusing class and nil otherwise with no write on refusing paths; quantile queries reject NaN/<0/>1/empty; MergeWith refuses unequal mappings before any write; Reweight tables for the sketches and every store (callee tables as summaries); constructor guards.",
         "Assumes the order axiom -Max < -Min < 0 < Min < Max of the mapping. NaN weights/factors are outside the contract. Trusted: go/ssa.", "DESIGN.md §4 C13"),
 "C14": ("interprocedural field-sensitive mod-set + alias-origin analysis (static analysis)",
         "Decides: the write set of every read-only operation (sketch, store, mapping, statistics) rooted at the inspected object is empty or, for the paginated store, confined to representation fields written inside the sort/compaction routines; every Copy returns fresh reference-typed state recursively, covers every field and keeps the dynamic type; mappings are immutable outside constructors (justifies sharing); ChangeMapping's result does not alias the source.",
         "Assumes sortBuffer/compact preserve the represented map (their content is C04 ND). Trusted: go/ssa, library summaries.", "DESIGN.md §4 C14"),
 "C15": ("field-coverage of Clear vs constructor terms + reslice growth rule (static analysis)",
         "Decides: Clear of every store / statistics / sketch resets every field any non-constructor method writes to the constructor's value, with reasoned exceptions each carrying a checked side condition; truncated storage is only regrown by append-of-make (zero-filled), never by a growing reslice.",
         "Not decided: equality of answers for all later histories. Trusted: go/ssa.", "DESIGN.md §4 C15"),
 "C16": ("SSA path tables + loop-range terms (static analysis)",
         "Decides: sketch Reweight scales the zero weight and both stores with the same factor term; each store body scales its cached total and every element of its window/map/pages and re-adds buffered unit entries with weight w; the exact variant's Reweight performs the inner Reweight first and the statistics Reweight on its success edge; SummaryStatistics.Reweight scales every accumulator (count, sum, compensation).",
         "Not decided: float equality of scaled values. Trusted: go/ssa.", "DESIGN.md §4 C16"),
 "C17": ("SSA path table + sign-domain obligation + alias-origin analysis (static analysis)",
         "Decides: identity shortcut returns Copy(); otherwise both sides converted into the matching target store, result carries newMapping and the copied zero weight; source mod-set empty / result not aliased; the weight handed to the target store is provably >= 0 on every path (sign domain, axioms listed); the overlap enumeration terms (scaled source range, loop start/continuation, proportion); the exact variant returns a copy of the statistics rescaled once by the same factor and Rescale's field table.",
         "Not decided: conservation of total weight up to rounding, combined accuracy. Trusted: sign axioms in evidence.", "DESIGN.md §4 C17"),
 "C18": ("interval analysis of buffer accesses + term normal forms + sibling agreement (static analysis)",
         "Decides: every buffer access of the six primitive decoders is in range on every path, at most 9 bytes are inspected, short input -> io.EOF with no store to the cursor, encoders append 1..9 (8) bytes and nothing else; size functions are tied to the encoders; zig-zag, var-float and fixed little-endian float transforms are inverse pairs by shape with no value special-cased; group constants agree.",
         "Not decided: decode(encode(v)) = v for all values (value-level). Trusted: go/ssa.", "DESIGN.md §4 C18"),
 "C19": ("dispatch-table closure via constant folding + term normal forms (static analysis)",
         "Decides: for each mapping kind the binary flag and protobuf enum written are the ones whose decoder arm constructs that same type, parameters travel in (gamma, offset) order, constructors store what is serialised, accuracy constructors go through the gamma constructors, Equals is a comma-ok same-type test and a symmetric tolerance conjunction.",
         "Not decided: numeric part of 'clearly different accuracies are never equal'. Trusted: go/ssa.", "DESIGN.md §4 C19"),
 "C20": ("typestate (sort flag) dominance rules + term normal forms (static analysis)",
         "Decides: every rank-dependent read of Values is dominated by sort(); every append is followed by sorted=false; sort() returns early only when the flag is true and sets it only after sorting; Lower/UpperQuantile index floor/ceil of q*(Count-1) with NaN for q outside [0,1] or empty; Count/Min/Max/Sum/Merge bookkeeping.",
         "Not decided: correctness of sort.Float64s; direct writes to exported fields by users.", "DESIGN.md §4 C20"),
}

CLAIMED = set(l.strip() for l in open(os.path.join(ROOT, "tools", "claimed.txt")) if l.strip() and not l.startswith("#"))
NA_REASON = {}
na_path = os.path.join(ROOT, "tools", "not_applicable.json")
if os.path.exists(na_path):
    NA_REASON = json.load(open(na_path))

checks, na = [], []
for pid in sorted(P):
    tech, text, note, ref = P[pid]
    if pid in CLAIMED:
        checks.append({
            "property_id": pid,
            "quick_cmd": f"./check {pid} quick",
            "thorough_cmd": f"./check {pid} thorough",
            "evidence_file": f"/verif/evidence/{pid}.json",
            "replay_cmd_template": f"cat {{path}}; ./check {pid} quick",
            "engine": "ddverif",
            "level_claimed": {"category": "other", "text": text, "design_ref": ref},
            "level_note": note,
            "technique": tech,
        })
    else:
        na.append({"property_id": pid, "reason": NA_REASON.get(pid, "no static rule for this property is built yet in the committed checker (see DESIGN.md §4 for the planned structural clauses); not claimed until the rule exists and is validated both ways")})

manifest = {
    "version": 1,
    "setup_cmd": "cd /verif/checker && GOFLAGS=-mod=vendor GOPROXY=off GOSUMDB=off GOTOOLCHAIN=local GOWORK=off go build -o /verif/bin/ddverif . && GOFLAGS=-mod=vendor GOPROXY=off GOSUMDB=off GOTOOLCHAIN=local GOWORK=off go vet . ",
    "hooks": {
        "guard": "verif",
        "enable": "none needed: the checks are static analyses of /repo's working tree (go/packages + go/ssa); no instrumentation is compiled into the repository",
        "baseline_off_cmd": "cd /repo && go test -vet=off -count=1 -timeout 25m ./...",
        "source_commits": [],
        "add_only": True,
    },
    "engines": [{
        "name": "ddverif",
        "path": "/verif/checker",
        "serves_properties": sorted(CLAIMED),
        "kind_free_text": "repository-specific static analyser over go/types + go/ssa (x/tools v0.29.0, vendored): path-sensitive decision-table extraction over finite order partitions, term normal forms, interprocedural mod-set/alias-origin analysis, error-flow, method-set/dispatch closure, constant folding of wire tables, interval and sign domains",
    }],
    "checks": checks,
    "not_applicable": na,
    "notes": "All checks: ./check <id> quick|thorough; exit 0 = all obligations of the property decided and satisfied on /repo's working tree, exit 1 = VIOLATION lines (undecided obligations are reported as violations with an UNDECIDED line), exit 2 = tree could not be analysed. Thorough = quick rules on GOARCH=amd64 and 386 plus deeper per-property rules. Known findings: /verif/known_findings.json.",
}
json.dump(manifest, open(os.path.join(ROOT, "MANIFEST.json"), "w"), indent=1)
print("claimed:", sorted(CLAIMED), "not claimed:", [n["property_id"] for n in na])
