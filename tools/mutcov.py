#!/usr/bin/env python3
"""Mutation coverage of the checker (development aid, not a registered check): applies each syntactic mutant
produced by tools/mutgen to a scratch copy of /repo's working tree, runs `ddverif -property all` on it and records
whether any rule reported it. Survivors are NOT findings: many are equivalent or outside every property; the
per-function survivor list shows which constructs no rule looks at.

usage: mutcov.py <mutants.jsonl> <out.jsonl> [--jobs N] [--only substr]
Scratch copies live under /tmp/mutcov/w<k> and are removed at the end."""
import json, os, shutil, subprocess, sys, concurrent.futures, threading, queue
REPO = os.environ.get("VERIF_REPO", "/repo")
BIN = "/verif/bin/ddverif"
src, out = sys.argv[1], sys.argv[2]
jobs = int(sys.argv[sys.argv.index("--jobs") + 1]) if "--jobs" in sys.argv else 6
only = sys.argv[sys.argv.index("--only") + 1] if "--only" in sys.argv else None
muts = [json.loads(l) for l in open(src)]
if only:
    muts = [m for m in muts if only in m["file"] or only in m["func"]]
base = f"/tmp/mutcov{os.getpid()}"
shutil.rmtree(base, ignore_errors=True)
os.makedirs(base)
slots = queue.Queue()
for k in range(jobs):
    d = f"{base}/w{k}"
    subprocess.run(["rsync", "-a", "--exclude", ".git", REPO + "/", d + "/"], check=True)
    slots.put(d)
lock = threading.Lock()
fo = open(out, "w")
def run(m):
    d = slots.get()
    try:
        p = os.path.join(d, m["file"])
        orig = open(p, "rb").read()
        try:
            open(p, "wb").write(orig[:m["start"]] + m["repl"].encode() + orig[m["end"]:])
            r = subprocess.run([BIN, "-property", "all", "-repo", d, "-evidence", d + ".ev", "-known", "/nonexistent"], capture_output=True, text=True)
        finally:
            open(p, "wb").write(orig)
        rules = sorted({l.split()[1].split(":")[0] for l in r.stdout.splitlines() if l.startswith(("FAIL", "UNDECIDED"))})
        if r.returncode == 2 or "ERROR" in r.stdout[:2000]:
            st = "nocompile"
        elif rules:
            st = "killed"
        else:
            st = "survived"
        m2 = dict(m, status=st, rules=rules)
        with lock:
            fo.write(json.dumps(m2) + "\n"); fo.flush()
        return st
    finally:
        slots.put(d)
with concurrent.futures.ThreadPoolExecutor(jobs) as ex:
    res = list(ex.map(run, muts))
fo.close()
import collections
print(collections.Counter(res))
shutil.rmtree(base, ignore_errors=True)
