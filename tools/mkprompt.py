import json,sys
pid=sys.argv[1]
p=json.load(open('/tmp/seedout/%s.property.json'%pid))
mech="\n".join("  - %s (%s)"%(m.get('name'),m.get('where')) for m in p['anchors']['mechanism'])
print(f"""You are helping evaluate a verification framework by producing realistic, subtle bugs in a Go library.

Work ONLY inside the git worktree /tmp/wt/{pid} (a checkout of the Go library DataDog/sketches-go, a DDSketch quantile-sketch implementation) and write your outputs to /tmp/seedout/{pid}/. Do NOT read or write anything under /verif or /repo or any other /tmp/wt/* or /tmp/seedout/* directory: your work must be independent.

Environment: the sandbox has no network. EVERY shell call must start with:
  export GOFLAGS=-mod=mod GOPROXY=off GOSUMDB=off GOTOOLCHAIN=local; unset GOWORK

THE PROPERTY ({pid}: {p['title']})
Statement: {p['statement']}
Quantified over: {p['quantifier']['text']}
Why the existing tests cannot settle it: {p['why_tests_cant']}
Files involved: {', '.join(p['anchors']['files'])}
Mechanisms meant to make it hold:
{mech}

YOUR TASK: produce TWO independent changes (call them A and B) to the library's non-test Go source. Each change must:
 1. break the property above for some input / operation history (a real behavioural violation of the statement);
 2. still compile (`go build ./... && go vet ./...`) and pass the ENTIRE existing test suite, unedited: `go test -vet=off -count=1 -timeout 25m ./...` (this takes 4-10 minutes because of ddsketch/store — use targeted `-run` tests while iterating and run the full suite once per final candidate; if a candidate fails the suite, revise it);
 3. need something specific to manifest — a multi-step sequence of operations, an unusual input, a particular internal state, or two cooperating sites that each look fine alone — NOT something that ordinary use would expose at once;
 4. look like a plausible programmer mistake, refactoring slip or well-meant "optimisation" (no magic constants, no sabotage comments), and be small (a few lines). A and B should touch different mechanisms (different functions, preferably different files).

For each change X in (A, B) write:
  /tmp/seedout/{pid}/X/patch.diff   - output of `git diff` against HEAD for that change alone; must apply with `git apply` at the repository root of a clean checkout
  /tmp/seedout/{pid}/X/demo_test.go - a self-contained Go test file (say in notes.md which package directory it must be copied into, e.g. ddsketch/) that FAILS with the patch applied and PASSES on the clean checkout; use a unique test function name starting with TestSeeded
  /tmp/seedout/{pid}/X/notes.md     - which clause of the property it breaks, what it needs in order to manifest, and the exact commands you ran with their outcomes (demo fails with patch; demo passes without; full suite passes with patch)

Leave the worktree clean at the end (`git -C /tmp/wt/{pid} checkout -- .` and delete your demo files from it); the deliverables live only in /tmp/seedout/{pid}/. Do not commit anything.

When done, reply with a short summary: for A and for B one or two lines on what was changed and the verification results you observed.""")
