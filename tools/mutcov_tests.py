#!/usr/bin/env python3
"""Second stage of tools/mutcov.py (development aid): for every mutant the checker did not report, run the unit
tests of the package it lives in (and of the packages that import it, on request) in a scratch copy, to separate
mutants the existing suite already kills from those that survive both — the latter are the interesting ones.

usage: mutcov_tests.py <mutcov_out.jsonl> <out.jsonl> [--jobs N] [--pkgs substr,substr] [--timeout S]"""
import json, os, shutil, subprocess, sys, concurrent.futures, threading, queue
REPO = "/repo"
src, out = sys.argv[1], sys.argv[2]
jobs = int(sys.argv[sys.argv.index("--jobs") + 1]) if "--jobs" in sys.argv else 4
tmo = int(sys.argv[sys.argv.index("--timeout") + 1]) if "--timeout" in sys.argv else 900
pk = sys.argv[sys.argv.index("--pkgs") + 1].split(",") if "--pkgs" in sys.argv else None
rows = [json.loads(l) for l in open(src)]
surv = [r for r in rows if r["status"] == "survived"]
if pk:
    surv = [r for r in surv if any(p in r["file"] for p in pk)]
done = set()
if os.path.exists(out):
    for l in open(out):
        r = json.loads(l); done.add((r["file"], r["start"], r["end"], r["repl"]))
surv = [r for r in surv if (r["file"], r["start"], r["end"], r["repl"]) not in done]
base = f"/tmp/mutcov_t{os.getpid()}"
shutil.rmtree(base, ignore_errors=True); os.makedirs(base)
slots = queue.Queue()
env = dict(os.environ, GOFLAGS="-mod=mod", GOPROXY="off", GOSUMDB="off", GOTOOLCHAIN="local")
env.pop("GOWORK", None)
for k in range(jobs):
    d = f"{base}/w{k}"
    subprocess.run(["rsync", "-a", "--exclude", ".git", REPO + "/", d + "/"], check=True)
    slots.put(d)
lock = threading.Lock()
fo = open(out, "a")
# dependants whose tests exercise the package too
DEPS = {"ddsketch/encoding": ["./ddsketch/encoding/", "./ddsketch/mapping/", "./ddsketch/"],
        "ddsketch/mapping": ["./ddsketch/mapping/", "./ddsketch/"],
        "ddsketch/stat": ["./ddsketch/stat/", "./ddsketch/"],
        "ddsketch/pb/sketchpb": ["./ddsketch/"],
        "dataset": ["./dataset/", "./ddsketch/"],
        "ddsketch/store": ["./ddsketch/store/", "./ddsketch/"],
        "ddsketch": ["./ddsketch/"]}
def run(m):
    d = slots.get()
    try:
        p = os.path.join(d, m["file"])
        orig = open(p, "rb").read()
        try:
            open(p, "wb").write(orig[:m["start"]] + m["repl"].encode() + orig[m["end"]:])
            pkgs = DEPS.get(os.path.dirname(m["file"]), ["./..."])
            try:
                r = subprocess.run(["go", "test", "-vet=off", "-count=1", "-skip", "TestBenchmarkSize", "-timeout", f"{tmo}s"] + pkgs, cwd=d, env=env, capture_output=True, text=True, timeout=tmo + 60)
                st = "tests-pass" if r.returncode == 0 else "tests-fail"
            except subprocess.TimeoutExpired:
                st = "tests-timeout"
        finally:
            open(p, "wb").write(orig)
        with lock:
            fo.write(json.dumps(dict(m, tests=st)) + "\n"); fo.flush()
        return st
    finally:
        slots.put(d)
with concurrent.futures.ThreadPoolExecutor(jobs) as ex:
    res = list(ex.map(run, surv))
import collections
print(collections.Counter(res))
shutil.rmtree(base, ignore_errors=True)
