module mutgen

go 1.21
